(** * Attribute-value normalization and defaulting -- XML 1.0 (5th ed.) sections 3.3, 3.3.2,
      3.3.3, 4.4.5, 4.5, 4.6.   Specification for property C11; independent of /repo.

    ** Abstract syntax.
    An attribute value literal (what stands between the quotes of an [AttValue], of a default
    value in an [<!ATTLIST>], or of an [EntityValue]) is a [list piece]:
      [Text s]     literal characters (no '&', no '<'),
      [CharRef c]  a character reference [&#c;],
      [EntRef n]   a general entity reference [&n;].
    An entity table [table] lists the internal general entity declarations of the DTD in document
    order, each with its literal *as written*; the first declaration of a name is binding (4.2).

    ** Readings adopted (DESIGN.md 7.3).
    R1.  3.3.3 is applied to the *replacement text* of an entity (4.5): character references of the
         entity literal have already been replaced there, so a white-space character that entered
         the replacement text through a character reference IS normalized to a space when the entity
         is referenced from an attribute value (this is the d / a / da example of 3.3.3).  Entity
         references of the literal are bypassed (stay references) and are expanded recursively.
    R2.  A character reference to '&' in an entity literal makes the replacement text contain a
         literal '&' which is re-scanned on inclusion ([<!ENTITY lt "&#38;#60;">], 4.6).  The
         spec re-scans exactly the shape [&#38;] followed by text starting with ['#' digits ';']
         (a doubly escaped decimal character reference); any other use of [&#38;] in an entity
         literal, and any [&#60;] there (WFC: No < in Attribute Values), is reported as ill-formed.
    R3.  Each literal white-space character becomes ONE space (the wording of the property); the
         end-of-line handling of 2.11, which would turn CR LF into a single LF before 3.3.3, is
         the parser's business and is excluded by [no_crlf]-free generators, not modelled here.
    R5.  A document is well-formed only if every attribute value literal in it -- default values of
         attribute-list declarations included, whether used or not -- can be expanded ([lit_expands]).
    R4.  Fuel.  [expand] spends one unit of fuel per nested entity reference.  With fuel
         [S (length dtd)] running out of fuel happens only on a table with a reference cycle
         (Proofs/AttrNormProofs.v, [fuel_suffices]); it is reported as [Recursion]
         (WFC: No Recursion). *)
From Coq Require Import List NArith Bool.
From XmlRs Require Import Base.CPred.
Import ListNotations.
Open Scope N_scope.

Definition name := str.

Inductive piece :=
| Text (s : str)
| CharRef (c : char)
| EntRef (n : name).

Definition table := list (name * list piece).

(** outcome of a computation of the specification (and of the model, which reuses the type):
    [Undeclared] = WFC Entity Declared violated, [IllFormed] = replacement text not well-formed,
    [Recursion] = fuel exhausted (a reference cycle, see R4). *)
Inductive ares (A : Type) :=
| Ok (a : A)
| Undeclared
| IllFormed
| Recursion.
Arguments Ok {A} a.
Arguments Undeclared {A}.
Arguments IllFormed {A}.
Arguments Recursion {A}.

Definition bind {A B} (x : ares A) (f : A -> ares B) : ares B :=
  match x with Ok a => f a | Undeclared => Undeclared | IllFormed => IllFormed | Recursion => Recursion end.

Fixpoint str_eqb (a b : str) : bool :=
  match a, b with
  | [], [] => true
  | x :: a', y :: b' => (x =? y) && str_eqb a' b'
  | _, _ => false
  end.

(** ** White space (production [3] S) *)
Definition is_ws (c : char) : bool := (c =? 32) || (c =? 9) || (c =? 10) || (c =? 13).
Definition ws_to_space (c : char) : char := if is_ws c then 32 else c.

(** ** 4.5: replacement text of an internal entity, as pieces to be processed on inclusion *)
Definition is_digit (c : char) : bool := (48 <=? c) && (c <=? 57).

(** ['#' digits ';' rest] -> (value, rest) *)
Fixpoint dec_digits (acc : N) (seen : bool) (s : str) : option (N * str) :=
  match s with
  | [] => None
  | c :: r => if is_digit c then dec_digits (10 * acc + (c - 48)) true r
              else if (c =? 59) && seen then Some (acc, r) else None
  end.
Definition escaped_ref (s : str) : option (N * str) :=
  match s with
  | 35 :: r => dec_digits 0 false r
  | _ => None
  end.

Fixpoint replacement_text (lit : list piece) : option (list piece) :=
  match lit with
  | [] => Some []
  | Text s :: r => option_map (cons (Text s)) (replacement_text r)
  | EntRef n :: r => option_map (cons (EntRef n)) (replacement_text r)
  | CharRef c :: r =>
      if c =? 38 then
        match r with
        | Text s :: r' =>
            match escaped_ref s with
            | Some (v, s') => option_map (fun t => CharRef v :: Text s' :: t) (replacement_text r')
            | None => None
            end
        | _ => None
        end
      else if c =? 60 then None
      else option_map (cons (Text [c])) (replacement_text r)
  end.

(** 4.6 predefined entities, given by their replacement text
    (lt = "&#38;#60;", gt = "&#62;", amp = "&#38;#38;", apos = "&#39;", quot = "&#34;") *)
Definition n_lt : name := [108;116].
Definition n_gt : name := [103;116].
Definition n_amp : name := [97;109;112].
Definition n_apos : name := [97;112;111;115].
Definition n_quot : name := [113;117;111;116].
Definition predefined (n : name) : option (list piece) :=
  if str_eqb n n_lt then Some [CharRef 60]
  else if str_eqb n n_gt then Some [Text [62]]
  else if str_eqb n n_amp then Some [CharRef 38]
  else if str_eqb n n_apos then Some [Text [39]]
  else if str_eqb n n_quot then Some [Text [34]]
  else None.

Fixpoint declared (dtd : table) (n : name) : option (list piece) :=
  match dtd with
  | [] => None
  | (m, lit) :: r => if str_eqb m n then Some lit else declared r n
  end.

(** the entity a reference [&n;] denotes: first declaration, else predefined *)
Definition entity_repl (dtd : table) (n : name) : ares (list piece) :=
  match declared dtd n with
  | Some lit => match replacement_text lit with Some r => Ok r | None => IllFormed end
  | None => match predefined n with Some r => Ok r | None => Undeclared end
  end.

(** ** 3.3.3, step 3, over a list of pieces; [ent] expands one entity reference *)
Fixpoint norm_pieces (ent : name -> ares str) (l : list piece) : ares str :=
  match l with
  | [] => Ok []
  | Text s :: r => bind (norm_pieces ent r) (fun t => Ok (map ws_to_space s ++ t))
  | CharRef c :: r => bind (norm_pieces ent r) (fun t => Ok (c :: t))
  | EntRef n :: r => bind (ent n) (fun v => bind (norm_pieces ent r) (fun t => Ok (v ++ t)))
  end.

(** "For an entity reference, recursively apply step 3 to the replacement text of the entity." *)
Fixpoint expand_entity (fuel : nat) (dtd : table) (n : name) : ares str :=
  match fuel with
  | O => Recursion
  | S f => bind (entity_repl dtd n) (norm_pieces (expand_entity f dtd))
  end.

Definition fuel_of (dtd : table) : nat := S (length dtd).

Definition cdata_value_f (fuel : nat) (dtd : table) (lit : list piece) : ares str :=
  norm_pieces (expand_entity fuel dtd) lit.

(** ** 3.3.3, last paragraph: attributes whose declared type is not CDATA *)
Fixpoint strip_leading (s : str) : str :=
  match s with
  | c :: r => if c =? 32 then strip_leading r else s
  | [] => []
  end.

(** after the leading spaces are gone: a space survives iff the next character exists and is
    not a space -- every run collapses to its last space, a trailing run disappears *)
Fixpoint collapse (s : str) : str :=
  match s with
  | [] => []
  | c :: r =>
      if c =? 32 then
        match r with
        | d :: _ => if d =? 32 then collapse r else 32 :: collapse r
        | [] => []
        end
      else c :: collapse r
  end.

Definition tokenized (s : str) : str := collapse (strip_leading s).

(** ** 3.3.1 attribute types *)
Inductive atttype :=
| TCdata | TId | TIdref | TIdrefs | TEntity | TEntities | TNmtoken | TNmtokens | TNotation | TEnum.

Definition is_cdata (t : option atttype) : bool :=
  match t with None => true | Some TCdata => true | Some _ => false end.

(** "All attributes for which no declaration has been read SHOULD be treated by a non-validating
    processor as if declared CDATA" -- [None] = undeclared *)
Definition spec_value_f (fuel : nat) (dtd : table) (ty : option atttype) (lit : list piece) : ares str :=
  bind (cdata_value_f fuel dtd lit) (fun v => Ok (if is_cdata ty then v else tokenized v)).

Definition spec_value (dtd : table) (ty : option atttype) (lit : list piece) : ares str :=
  spec_value_f (fuel_of dtd) dtd ty lit.

(** ** well-formedness of an entity table *)
Definition refs_of (l : list piece) : list name :=
  flat_map (fun p => match p with EntRef n => [n] | _ => [] end) l.

(** [refers dtd n m]: the binding declaration of [n] contains a reference to [m] *)
Definition refers (dtd : table) (n m : name) : Prop :=
  exists lit, declared dtd n = Some lit /\ In m (refs_of lit).

Inductive reaches (dtd : table) : name -> name -> Prop :=
| reach_step n m : refers dtd n m -> reaches dtd n m
| reach_trans n m k : refers dtd n m -> reaches dtd m k -> reaches dtd n k.

(** literal text cannot contain '&' or '<'; [&#38;] and [&#60;] are the subject of R2 *)
Definition markup_char (c : char) : bool := (c =? 38) || (c =? 60).
Definition simple_piece (p : piece) : bool :=
  match p with
  | CharRef c => negb (markup_char c)
  | Text s => forallb (fun c => negb (markup_char c)) s
  | EntRef _ => true
  end.

Record wf_table (dtd : table) : Prop := {
  wf_declared : forall n lit m, In (n, lit) dtd -> In m (refs_of lit) ->
                declared dtd m <> None \/ predefined m <> None;
  wf_acyclic : forall n, ~ reaches dtd n n;
  (* R2: no [&#38;] / [&#60;] in entity literals -- the doubly escaped forms are covered by the
     failing-input search and by the finding D56, not by the refinement theorem *)
  wf_simple : forall n lit, In (n, lit) dtd -> forallb simple_piece lit = true
}.

(** every reference of a literal resolves *)
Definition lit_declared (dtd : table) (lit : list piece) : Prop :=
  forall m, In m (refs_of lit) -> declared dtd m <> None \/ predefined m <> None.

(** ** 3.3 / 3.3.2: attribute-list declarations and defaulting *)
Inductive defkind :=
| Implied
| Required
| Default (fixed : bool) (lit : list piece).

Record attdef := { ad_name : name; ad_type : atttype; ad_default : defkind }.

(** the markup declarations of the internal subset that matter, in document order *)
Inductive decl :=
| DEntity (n : name) (lit : list piece)
| DAttlist (el : name) (defs : list attdef).

Definition dtd_doc := list decl.

Fixpoint entities_of (d : dtd_doc) : table :=
  match d with
  | [] => []
  | DEntity n lit :: r => (n, lit) :: entities_of r
  | DAttlist _ _ :: r => entities_of r
  end.

(** "When more than one AttlistDecl is provided for a given element type, the contents of all
    those provided are merged.  When more than one definition is provided for the same attribute
    of a given element type, the first declaration is binding and later declarations are ignored." *)
Fixpoint add_defs (acc : list attdef) (defs : list attdef) : list attdef :=
  match defs with
  | [] => acc
  | d :: r => if existsb (fun x => str_eqb (ad_name x) (ad_name d)) acc then add_defs acc r
              else add_defs (acc ++ [d]) r
  end.

Fixpoint merged_defs (acc : list attdef) (d : dtd_doc) (el : name) : list attdef :=
  match d with
  | [] => acc
  | DAttlist e defs :: r => if str_eqb e el then merged_defs (add_defs acc defs) r el else merged_defs acc r el
  | DEntity _ _ :: r => merged_defs acc r el
  end.

Definition defs_for (d : dtd_doc) (el : name) : list attdef := merged_defs [] d el.

Definition def_of (defs : list attdef) (a : name) : option attdef :=
  find (fun x => str_eqb (ad_name x) a) defs.

(** Well-formedness of the attribute value literals of a document (reading R5).  Every [AttValue] --
    in a start-tag or as the default value of an attribute-list declaration, used or not -- must be
    expandable: the entities it refers to, directly or indirectly, are declared (WFC Entity Declared),
    do not refer to themselves (WFC No Recursion) and their replacement text is well-formed without
    '<' (WFC No < in Attribute Values).  For a default value this is required where it is declared:
    "the declaration of a general entity MUST precede any reference to it which appears in a default
    value in an attribute-list declaration" (4.1), so only the entities declared before the
    attribute-list declaration count. *)
Definition lit_expands (ents : table) (lit : list piece) : bool :=
  match cdata_value_f (fuel_of ents) ents lit with Ok _ => true | _ => false end.

Fixpoint defaults_ok (seen : table) (d : dtd_doc) : bool :=
  match d with
  | [] => true
  | DEntity n lit :: r => defaults_ok (seen ++ [(n, lit)]) r
  | DAttlist _ defs :: r =>
      forallb (fun x => match ad_default x with Default _ lit => lit_expands seen lit | _ => true end) defs
      && defaults_ok seen r
  end.

(** namespace declarations are not members of [attributes] (XML Information Set 2.2) *)
Definition n_xmlns : name := [120;109;108;110;115].
Definition is_nsdecl (a : name) : bool :=
  str_eqb (firstn 5 a) n_xmlns && match skipn 5 a with [] => true | c :: _ => c =? 58 end.

(** one attribute information item: name, normalized value, [specified], declared type *)
Record attr_item := { ai_name : name; ai_value : ares str; ai_specified : bool; ai_type : option atttype }.

Definition spec_attrs_items (d : dtd_doc) (el : name) (written : list (name * list piece)) : list attr_item :=
  let ents := entities_of d in
  let defs := defs_for d el in
  let ty a := option_map ad_type (def_of defs a) in
  map (fun nl => {| ai_name := fst nl; ai_value := spec_value ents (ty (fst nl)) (snd nl);
                    ai_specified := true; ai_type := ty (fst nl) |})
      (filter (fun nl => negb (is_nsdecl (fst nl))) written)
  ++
  flat_map (fun x =>
      match ad_default x with
      | Default _ lit =>
          if existsb (fun nl => str_eqb (fst nl) (ad_name x)) written || is_nsdecl (ad_name x) then []
          else [{| ai_name := ad_name x; ai_value := spec_value ents (Some (ad_type x)) lit;
                   ai_specified := false; ai_type := Some (ad_type x) |}]
      | Implied | Required => []
      end) defs.

(** the attributes of an element of a document whose attribute value literals are well-formed (R5);
    [IllFormed] otherwise: the document is not well-formed and has no infoset *)
Definition spec_attrs (d : dtd_doc) (el : name) (written : list (name * list piece)) : ares (list attr_item) :=
  if defaults_ok [] d && forallb (fun nl => lit_expands (entities_of d) (snd nl)) written
  then Ok (spec_attrs_items d el written)
  else IllFormed.
