(** * C13: the invariants [UniqQ] and [EntsOK] as executable checks on a finite table

    [store_of_list l ...] (Model/StoreCheck.v) is the form in which the model driver builds the
    initial stores from the implementation's dump.  [uniq_b l] / [ents_b l] decide, by computation,
    sufficient conditions for [UniqQ] / [EntsOK] of that store; with [tree_inv_b] they give the
    hypothesis [Inv2] of the refinement theorems for an initial world. *)
From Coq Require Import List NArith Bool.
From XmlRs Require Import Base.CPred Model.Store Model.StoreCheck Model.DomOps Proofs.DomBase Proofs.DomTree Proofs.DomCheck
  Proofs.DomL1RefineAttr Proofs.DomL1RefineValue Proofs.DomL1RefineInv.
Import ListNotations.
Open Scope N_scope.

Definition same_name_b (l : list (id * item)) (a b : id) : bool :=
  match lookup l a, lookup l b with
  | Some x, Some y => opt_str_eqb (iprefix x) (iprefix y) && Store.str_eqb (ilocal x) (ilocal y)
  | _, _ => false
  end.

Fixpoint uniq_names (l : list (id * item)) (ids : list id) : bool :=
  match ids with
  | [] => true
  | a :: t => negb (existsb (same_name_b l a) t) && uniq_names l t
  end.

Definition uniq_b (l : list (id * item)) : bool := forallb (fun b => uniq_names l (iattrs (snd b))) l.

Definition ents_list_b (ents : list str) : bool :=
  forallb (fun e => match e with 0 :: n => negb (existsb (Store.str_eqb n) ents) | _ => true end) ents.

Definition ents_b (l : list (id * item)) : bool := forallb (fun b => ents_list_b (ients (snd b))) l.

Lemma same_name_b_true l a b x y : lookup l a = Some x -> lookup l b = Some y ->
  iprefix x = iprefix y -> ilocal x = ilocal y -> same_name_b l a b = true.
Proof.
  intros Ha Hb P L. unfold same_name_b. rewrite Ha, Hb. apply andb_true_iff. split.
  - apply opt_str_eqb_eq. exact P.
  - apply DomBase.str_eqb_eq. exact L.
Qed.

Lemma uniq_names_sound l : forall ids, uniq_names l ids = true ->
  forall a b x y, In a ids -> In b ids -> lookup l a = Some x -> lookup l b = Some y ->
                  iprefix x = iprefix y -> ilocal x = ilocal y -> a = b.
Proof.
  induction ids as [|c t IH]; intros H a b x y Ha Hb La Lb P L; [destruct Ha|].
  cbn [uniq_names] in H. apply andb_true_iff in H. destruct H as [H1 H2]. apply negb_true_iff in H1.
  assert (Hno : forall u z, In u t -> lookup l c = Some z -> forall v, lookup l u = Some v ->
                            iprefix z = iprefix v -> ilocal z = ilocal v -> False).
  { intros u z Hu Lc v Lu P' L'.
    assert (existsb (same_name_b l c) t = true) by (apply existsb_exists; exists u; split; [exact Hu | eapply same_name_b_true; eassumption]).
    congruence. }
  destruct Ha as [->|Ha], Hb as [->|Hb].
  - reflexivity.
  - exfalso. exact (Hno b x Hb La y Lb P L).
  - exfalso. apply (Hno a y Ha Lb x La); symmetry; assumption.
  - exact (IH H2 a b x y Ha Hb La Lb P L).
Qed.

Theorem uniq_b_sound l nx decl root : uniq_b l = true -> UniqQ (store_of_list l nx decl root).
Proof.
  intros H e eit a b ait bit He Ha Hb Hga Hgb P L. unfold store_of_list, get in *. cbn [items] in *.
  destruct (lookup_in l e eit He) as [j [_ [Hin _]]]. unfold uniq_b in H. rewrite forallb_forall in H.
  pose proof (H (j, eit) Hin) as Hu. cbn [snd] in Hu.
  exact (uniq_names_sound l (iattrs eit) Hu a b ait bit Ha Hb Hga Hgb P L).
Qed.

Lemma ents_list_b_sound ents : ents_list_b ents = true -> ents_ok ents.
Proof.
  intros H n H0 Hn. unfold ents_list_b in H. rewrite forallb_forall in H. specialize (H (0 :: n) H0). cbn in H.
  apply negb_true_iff in H.
  assert (existsb (Store.str_eqb n) ents = true) by (apply existsb_exists; exists n; split; [exact Hn | apply DomBase.str_eqb_refl]).
  congruence.
Qed.

Theorem ents_b_sound l nx decl root : ents_b l = true -> EntsOK (store_of_list l nx decl root).
Proof.
  intros H i it G. unfold store_of_list, get in G. cbn [items] in G.
  destruct (lookup_in l i it G) as [j [_ [Hin _]]]. unfold ents_b in H. rewrite forallb_forall in H.
  apply ents_list_b_sound. exact (H (j, it) Hin).
Qed.

Theorem inv2_checkable l nx decl root :
  tree_inv_b l nx root = true -> uniq_b l = true -> ents_b l = true -> Inv2 (store_of_list l nx decl root).
Proof.
  intros H1 H2 H3. split; [apply tree_inv_b_sound; exact H1|]. split; [apply uniq_b_sound; exact H2 | apply ents_b_sound; exact H3].
Qed.
