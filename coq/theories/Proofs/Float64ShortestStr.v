(** * number -> string -> number: the string printed for a valid finite double converts back to
    exactly that double ([number(string(x)) = x]): the printed string identifies the double. *)
From Coq Require Import ZArith NArith Reals Lia Lra Psatz Bool List.
From Coq Require Import Floats.SpecFloat.
From Flocq Require Import Core.Core.
From XmlRs Require Import Base.CPred Base.Float64 Spec.XPathCore Proofs.XPathFuncsNum
  Proofs.Float64Int Proofs.Float64Flocq Proofs.Float64Shortest Proofs.Float64ShortestMin
  Proofs.Float64ShortestFmt.
Import ListNotations.
Open Scope Z_scope.

(** ** parsing a sign, digits, and an optional fraction *)
Definition sign_str (neg : bool) : str := if neg then lit_minus else [].

Lemma digit_not_ws c : is_digit c = true -> is_ws c = false.
Proof.
  intros Hd. destruct (is_ws c) eqn:Hw; [|reflexivity]. apply ws_not_digit in Hw. congruence.
Qed.

Lemma digit_not_minus c : is_digit c = true -> (c =? 45)%N = false.
Proof. intros Hd. apply digit_le in Hd. apply N.eqb_neq. lia. Qed.

Lemma parse_prefix neg c rest : is_digit c = true ->
  xp_parse_number (sign_str neg ++ c :: rest) =
  (let '(ip, s3) := span is_digit (c :: rest) in
   let '(dot, s4) := strip_char 46%N s3 in
   if dot then
     let '(fp, s5) := span is_digit s4 in
     if all_ws s5 && (nonempty ip || nonempty fp)
     then Some (neg, digits_val (ip ++ fp), (- Z.of_nat (List.length fp))%Z)
     else None
   else
     if all_ws s3 && nonempty ip then Some (neg, digits_val ip, 0%Z) else None).
Proof.
  intros Hd. unfold xp_parse_number. destruct neg; cbn [sign_str app].
  - change lit_minus with [45%N]. cbn [app drop_while]. change (is_ws 45%N) with false. cbv beta match.
    cbn [strip_char]. change (45 =? 45)%N with true. cbv beta match. reflexivity.
  - cbn [drop_while]. rewrite (digit_not_ws c Hd). cbn [strip_char]. rewrite (digit_not_minus c Hd).
    reflexivity.
Qed.

Lemma parse_int neg ip : forallb is_digit ip = true -> ip <> [] ->
  xp_parse_number (sign_str neg ++ ip) = Some (neg, digits_val ip, 0).
Proof.
  intros Hd Hne. destruct ip as [|c ip']; [now elim Hne|].
  pose proof Hd as Hd'. cbn [forallb] in Hd'. apply andb_true_iff in Hd' as [Hc _].
  rewrite (parse_prefix neg c ip' Hc). rewrite (span_all is_digit (c :: ip') Hd).
  cbv beta match. cbn [strip_char]. cbv beta match. reflexivity.
Qed.

Lemma parse_frac neg ip fp : forallb is_digit ip = true -> forallb is_digit fp = true -> ip <> [] ->
  xp_parse_number (sign_str neg ++ ip ++ 46%N :: fp) =
  Some (neg, digits_val (ip ++ fp), - Z.of_nat (length fp)).
Proof.
  intros Hd Hf Hne. destruct ip as [|c ip']; [now elim Hne|].
  pose proof Hd as Hd'. cbn [forallb] in Hd'. apply andb_true_iff in Hd' as [Hc _].
  change ((c :: ip') ++ 46%N :: fp) with (c :: (ip' ++ 46%N :: fp)).
  rewrite (parse_prefix neg c _ Hc).
  change (c :: (ip' ++ 46%N :: fp)) with ((c :: ip') ++ 46%N :: fp).
  rewrite (span_app_stop is_digit (46%N :: fp) eq_refl (c :: ip')).
  rewrite (span_all is_digit (c :: ip') Hd). cbn [fst snd app]. cbv beta match.
  cbn [strip_char]. change (46 =? 46)%N with true. cbv beta match.
  rewrite (span_all is_digit fp Hf). cbv beta match. reflexivity.
Qed.

(** ** the value of digit strings *)
Definition dstep (a : Z) (c : N) : Z := 10 * a + (Z.of_N c - 48).

Lemma fold_dstep_acc b : forall acc,
  fold_left dstep b acc = acc * 10 ^ Z.of_nat (length b) + fold_left dstep b 0.
Proof.
  induction b as [|c b IH]; intros acc; cbn [fold_left length].
  - change (10 ^ Z.of_nat 0) with 1. lia.
  - rewrite (IH (dstep acc c)), (IH (dstep 0 c)). unfold dstep.
    rewrite Nat2Z.inj_succ, Z.pow_succ_r by lia. ring.
Qed.

Lemma digits_val_app a b :
  digits_val (a ++ b) = digits_val a * 10 ^ Z.of_nat (length b) + digits_val b.
Proof.
  unfold digits_val. rewrite fold_left_app. exact (fold_dstep_acc b _).
Qed.

Lemma digits_val_zeros z : digits_val (repeat 48%N z) = 0.
Proof.
  induction z as [|z IH]; [reflexivity|]. cbn [repeat].
  change (48%N :: repeat 48%N z) with ([48%N] ++ repeat 48%N z).
  rewrite digits_val_app, IH. change (digits_val [48%N]) with 0. lia.
Qed.

Lemma digits_val_chars ds : digits_val (map digit_char ds) = dval ds.
Proof.
  unfold digits_val, dval. generalize 0 as acc.
  induction ds as [|d ds IH]; intros acc; cbn [map fold_left]; [reflexivity|].
  rewrite IH. f_equal. unfold digit_char. rewrite N2Z.inj_add. change (Z.of_N 48) with 48. lia.
Qed.

Lemma chars_are_digits ds : Forall digit ds -> forallb is_digit (map digit_char ds) = true.
Proof.
  induction 1 as [|d ds Hd _ IH]; [reflexivity|]. cbn [map forallb]. rewrite IH, andb_true_r.
  unfold is_digit, digit_char, digit in *. apply andb_true_iff. split; apply N.leb_le; lia.
Qed.

Lemma zeros_are_digits z : forallb is_digit (repeat 48%N z) = true.
Proof. induction z as [|z IH]; [reflexivity|]. cbn [repeat forallb]. now rewrite IH. Qed.

(** ** the printed string parses back to the same decimal *)
Lemma fmt_digits_parse neg ds k1 : ds <> [] -> Forall digit ds ->
  exists D k', xp_parse_number (sign_str neg ++ f64_fmt_digits ds k1) = Some (neg, D, k') /\
    ((0 <= k1 /\ k' = 0 /\ D = dval ds * 10 ^ k1) \/ (k1 < 0 /\ k' = k1 /\ D = dval ds)).
Proof.
  intros Hne Hd. unfold f64_fmt_digits.
  pose proof (chars_are_digits ds Hd) as Hcs. pose proof (digits_val_chars ds) as Hval.
  assert (Hlen : length (map digit_char ds) = length ds) by apply map_length.
  assert (Hcne : map digit_char ds <> []) by (destruct ds; [now elim Hne|discriminate]).
  set (cs := map digit_char ds) in *. set (n := Z.of_nat (length ds)).
  destruct (Z.leb_spec 0 k1) as [Hk|Hk].
  - exists (dval ds * 10 ^ k1), 0. split; [|left; repeat split; lia].
    rewrite parse_int.
    + rewrite digits_val_app, digits_val_zeros, repeat_length, Z2Nat.id, Hval by lia.
      now rewrite Z.add_0_r.
    + rewrite forallb_app, Hcs. apply zeros_are_digits.
    + intros Hc. apply app_eq_nil in Hc as [Hc _]. now apply Hcne.
  - destruct (Z.ltb_spec 0 (n + k1)) as [Hp|Hp].
    + exists (dval ds), k1. split; [|right; repeat split; lia].
      pose proof (firstn_skipn (Z.to_nat (n + k1)) cs) as Hfs.
      assert (Hboth : forallb is_digit (firstn (Z.to_nat (n + k1)) cs) = true /\
                      forallb is_digit (skipn (Z.to_nat (n + k1)) cs) = true).
      { apply andb_true_iff. rewrite <- forallb_app, Hfs. exact Hcs. }
      destruct Hboth as [H1 H2]. rewrite parse_frac; [|exact H1|exact H2|].
      * rewrite Hfs, Hval, skipn_length, Hlen. do 2 f_equal. unfold n, str, char in *. lia.
      * destruct cs as [|c cs']; [now elim Hcne|].
        destruct (Z.to_nat (n + k1)) eqn:Ej; [lia|]. discriminate.
    + exists (dval ds), k1. split; [|right; repeat split; lia].
      change (48%N :: 46%N :: repeat 48%N (Z.to_nat (- (n + k1))) ++ cs)
        with ([48%N] ++ 46%N :: (repeat 48%N (Z.to_nat (- (n + k1))) ++ cs)).
      rewrite parse_frac; [|reflexivity| |discriminate].
      * rewrite !digits_val_app, digits_val_zeros, Hval. change (digits_val [48%N]) with 0.
        rewrite app_length, repeat_length, Hlen. do 2 f_equal; unfold n, str, char in *; lia.
      * rewrite forallb_app. apply andb_true_iff. split; [apply zeros_are_digits|exact Hcs].
Qed.

(** ** the sign only changes the sign of the result *)
Lemma round_aux_sign q ex l :
  SpecFloat.binary_round_aux prec emax true q ex l = SFopp (SpecFloat.binary_round_aux prec emax false q ex l).
Proof.
  unfold SpecFloat.binary_round_aux. destruct (shr_fexp prec emax q ex l) as [mrs' e'].
  destruct (shr_fexp prec emax _ e' loc_Exact) as [mrs'' e''].
  destruct (shr_m mrs''); [reflexivity| |reflexivity]. destruct (_ <=? _); reflexivity.
Qed.

Lemma of_ratio_sign n d : f64_of_ratio true n d = SFopp (f64_of_ratio false n d).
Proof.
  unfold f64_of_ratio. destruct (n <=? 0); [reflexivity|].
  destruct (Z.div_eucl _ d) as [q r]. apply round_aux_sign.
Qed.

Lemma of_decimal_sign D k : f64_of_decimal true D k = SFopp (f64_of_decimal false D k).
Proof.
  unfold f64_of_decimal. destruct (D <=? 0); [reflexivity|]. destruct (310 <? k); [reflexivity|].
  destruct (_ <? -330); [reflexivity|]. destruct (0 <=? k); apply of_ratio_sign.
Qed.

(** ** number(string(x)) = x *)
Theorem number_string_round_trip s m e : bounded prec emax m e = true ->
  xp_string_to_number (xp_number_to_string (S754_finite s m e)) = S754_finite s m e.
Proof.
  intros Hb.
  destruct (fmt_decimal_digits s m e Hb) as (d & k & ds & k1 & Hs & _ & Hfmt & _ & Hne & Hdig & Hval & _).
  cbn [xp_number_to_string]. rewrite Hfmt.
  destruct (fmt_digits_parse s ds k1 Hne Hdig) as (D & k' & Hp & Hcase).
  unfold xp_string_to_number.
  match goal with |- context [xp_parse_number ?a] =>
    replace (xp_parse_number a) with (Some (s, D, k')) by (symmetry; exact Hp) end.
  pose proof (shortest_round_trips s m e d k Hs) as Hrt.
  pose proof (reads_in_range m e d k Hrt) as Hir.
  pose proof (proj1 (reads_iff m e Hb d k Hir) Hrt) as Hrnd.
  destruct (shortest_minimal s m e d k Hb Hs) as (n & Hn & Hk & Hdn & _).
  destruct (e10_decimal_exponent m e Hb) as [_ HE]. cbv zeta in HE.
  set (E := e10 (fst (f64_ratio_of m e)) (snd (f64_ratio_of m e))) in *.
  (* the parsed decimal denotes the same real as (d, k) *)
  assert (Hsame : dec D k' = dec d k).
  { unfold dec, T. rewrite <- Hval. destruct Hcase as [(Hk1 & -> & ->)|(Hk1 & -> & ->)]; [|reflexivity].
    rewrite mult_IZR. change (10 ^ k1) with (Zpower ten k1). rewrite IZR_Zpower by assumption.
    change (bpow ten 0) with 1%R. ring. }
  (* d * 10^k >= 10^E *)
  assert (HdE : (T E <= dec d k)%R).
  { unfold dec. replace E with ((n - 1) + k) by lia. rewrite T_add.
    apply Rmult_le_compat_r; [apply Rlt_le, T_pos|]. rewrite T_nonneg_exp by lia. apply IZR_le. lia. }
  assert (HDpos : 0 < D).
  { apply lt_IZR. pose proof (T_pos E) as HTE. pose proof (T_pos k') as HTk.
    rewrite <- Hsame in HdE. unfold dec in HdE.
    destruct (Rlt_or_le 0 (IZR D)) as [Hc|Hc]; [exact Hc|exfalso].
    assert (IZR D * T k' <= 0)%R by nra. lra. }
  assert (Hlog : 0 <= Z.log2 D / 3) by (apply Z.div_pos; [apply Z.log2_nonneg|lia]).
  assert (Hin : in_range D k').
  { split; [exact HDpos|]. destruct Hcase as [(Hk1 & Hk' & HD)|(Hk1 & Hk' & HD)].
    - subst k'. split; lia.
    - subst k'. split; [lia|]. destruct (Z.le_gt_cases (-331) k1) as [Hc|Hc]; [lia|].
      assert (H10 : 10 ^ (E - k1 + 1 - 1) <= D).
      { replace (E - k1 + 1 - 1) with (E - k1) by lia. apply le_IZR.
        rewrite <- T_nonneg_exp by lia. replace (E - k1) with (E + - k1) by lia. rewrite T_add.
        rewrite <- Hsame in HdE. unfold dec in HdE. pose proof (T_pos (- k1)) as HTn.
        apply Rmult_le_compat_r with (r := T (- k1)) in HdE; [|lra].
        rewrite Rmult_assoc, <- (T_add k1 (- k1)) in HdE. replace (k1 + - k1) with 0 in HdE by lia.
        change (T 0) with 1%R in HdE. rewrite Rmult_1_r in HdE.
        exact HdE. }
      pose proof (log2_pow10 m e D (E - k1 + 1) ltac:(lia) H10). lia. }
  assert (Hpos : f64_of_decimal false D k' = S754_finite false m e).
  { apply (reads_iff m e Hb D k' Hin). rewrite Hsame. exact Hrnd. }
  destruct s; [|exact Hpos]. rewrite of_decimal_sign, Hpos. reflexivity.
Qed.

(** "0.1", "-0.30000000000000004", 1e23 and 5e-324 through the two conversions *)
Example round_trip_examples :
  xp_number_to_string (S754_finite true 5404319552844596 (-54)) =
    [45; 48; 46; 51; 48; 48; 48; 48; 48; 48; 48; 48; 48; 48; 48; 48; 48; 48; 48; 52]%N /\
  xp_string_to_number (xp_number_to_string (S754_finite true 5404319552844596 (-54))) =
    S754_finite true 5404319552844596 (-54) /\
  xp_string_to_number (xp_number_to_string (S754_finite false 1 (-1074))) = S754_finite false 1 (-1074).
Proof. repeat split; vm_compute; reflexivity. Qed.
