"""C15 -- edits that succeed keep the document serialisable and faithful."""
import json
from . import lib, domlib as D, dom13 as S
from .C13 import TRUSTED

def check(run):
    run.trusted = TRUSTED + ['re-parse oracle: harness dom domain, `R` words (dom::XmlDocument::from_raw_with_context on to_string(), contents compared through the DOM API in the merged-text view)']
    proved, _ = lib.proof_step(run, 'C15', ['-'])
    okr, mok, sok = lib.build_binaries(run, model_areas=['dom', 'domfacts'], spec_areas=['dom'])
    if okr and sok.get('dom'):
        s = S.campaign(run)
        run.evaluations = s['ops']
        run.hist = s['hist']
        run.samples = s['samples']
        run.nontrivial = set(range(s['nontrivial']))
        run.extra.update({'cases': s['cases'], 'campaign_cached': s.get('cached'), 'campaign_seconds': s['times'],
                          'broken_documents_by_class': s['n15'], 'string_alphabet': S.FRAG, 'names': S.NAMES15})
        for c in s['crashes'][:3]:
            run.tie_breaks.append('harness produced no records: %s' % c['line'])
        H = s['hist']
        run.extra['normalize_oracles'] = {'NZ_calls': H.get('normalize:calls', 0),
                                          'decided_by_extracted_dom_normalize': H.get('normalize:decided-by-extracted-dom_normalize', 0),
                                          'python_oracle_agrees': H.get('normalize:oracles-agree', 0),
                                          'python_oracle_disagrees': H.get('normalize:oracles-disagree', 0)}
        hits = {}
        for f in s['c15']:
            fid = S.classify15(f)
            if fid:
                if fid[0] not in hits:
                    g = S.shrink(f, 'c15')
                    hits[fid[0]] = fid[1] + '; e.g. ' + S.describe(g)
                continue
            g = S.shrink(f, 'c15')
            if S.classify15(g):
                continue
            run.failing_inputs.append(dict(g, property='C15', **{'class': '%s/%s' % (g['clause'], g['op'][0]), 'what': S.describe(g)}))
        for k, v in hits.items():
            run.known_hits[k] = (v, s['n15'].get(k, 1))
        if mok.get('dom'):
            t = D.campaign(run)
            run.extra['correspondence'] = {'cases': t['cases'], 'ops': t['ops'], 'mismatches': len(t['mismatches']), 'cached': t.get('cached')}
            if t.get('pr_fail'):
                run.tie_breaks.append('%d initial store(s) built from the implementation dump fail the extracted printable_b (hypothesis of printable_reachable)' % t['pr_fail'])
            run.extra['initial_stores_failing_printable_b'] = t.get('pr_fail', 0)
            if t['mismatches']:
                run.tie_breaks.append('dom correspondence: model and implementation differ (%d histories; see bin/check C12) e.g. after %s'
                                      % (len(t['mismatches']), D.describe_failure(t['mismatches'][0])))
    # tie of Model/DomFacts.v (the string facts of the *_model_facts theorems, computed by the model of the parser)
    # with the facts the harness computes with the real parser
    if okr and mok.get('domfacts'):
        ft = S.facts_tie(run)
        run.extra['facts_tie'] = {'strings': ft['strings'], 'mismatches': len(ft['mismatches'])}
    return run.finish(level='proof',
        rule='after every call that reports success the serialisation of every document is re-parsed and its content (merged-text view, empty text ignored) compared with what the DOM reports; '
             'histories of creation, insertion and data-editing calls over an alphabet rich in ] > - ? < & quotes',
        assumptions=['content is compared in the merged-text view: adjacent character data nodes and Text nodes without characters are not distinguished (they cannot be in any serialisation)',
                     'edited_roundtrip is checked on the implementation, not proved (no parser model for edited stores)'])

def replay(path):
    return S.replay_file(path, 'c15')
