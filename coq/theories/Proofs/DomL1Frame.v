(** * C13: a frame for the store-level functions that do not touch names, entity tables and
    attribute lists

    [fr s s']: (for stores whose identifiers are below the allocator) every item of [s] is still
    there in [s'] with the same kind, prefix, local name, entity table and attribute list, and every
    item of [s'] that is new has no attributes and no entity table.  Every store-level function of
    the model except [remove_attrs] / [append_attribute] satisfies it; it is what the invariants
    "qualified names are unique within an element" and "no entity is listed twice" need
    (Proofs/DomL1RefineInv.v), and what [set_attribute] needs to know about [set_values]. *)
From Coq Require Import List NArith Bool Lia.
From XmlRs Require Import Base.CPred Model.Store Model.DomOps Proofs.DomBase Proofs.DomTree Proofs.DomOpsInv
  Proofs.DomL1Abs Proofs.DomL1Refine Proofs.DomL1RefineValue.
Import ListNotations.
Open Scope N_scope.

Lemma filter_none {A} (f : A -> bool) : forall l, (forall a, In a l -> f a = false) -> filter f l = [].
Proof.
  induction l as [|a l IH]; intros H; cbn [filter]; [reflexivity|].
  rewrite (H a (or_introl eq_refl)). apply IH. intros x Hx. apply H. right. exact Hx.
Qed.

Lemma attr_live_kind s e eit a : TreeInv s -> get s e = Some eit -> In a (iattrs eit) ->
  exists ait, get s a = Some ait /\ ikind ait = KAt.
Proof.
  intros T He Ha. destruct (lists_live_child s T e a) as [ait Hait]; [exists eit; split; [exact He | right; exact Ha]|].
  exists ait. split; [exact Hait|]. exact (proj2 (ti_attr_kind s T e eit a ait He Ha Hait)).
Qed.

Definition same_names (a b : item) : Prop :=
  ikind a = ikind b /\ iprefix a = iprefix b /\ ilocal a = ilocal b /\ ients a = ients b /\ iattrs a = iattrs b.

Definition fr (s s' : store) : Prop :=
  Bounded s ->
  Bounded s'
  /\ (forall i it, get s i = Some it -> exists it', get s' i = Some it' /\ same_names it' it)
  /\ (forall i it', get s' i = Some it' -> get s i = None -> iattrs it' = [] /\ ients it' = []).

Lemma same_names_refl a : same_names a a.
Proof. repeat split. Qed.

Lemma same_names_trans a b c : same_names a b -> same_names b c -> same_names a c.
Proof. intros [? [? [? [? ?]]]] [? [? [? [? ?]]]]. repeat split; congruence. Qed.

Lemma fr_refl s : fr s s.
Proof.
  intros B. split; [exact B|]. split.
  - intros i it H. exists it. split; [exact H | apply same_names_refl].
  - intros i it' H1 H2. congruence.
Qed.

Lemma fr_trans a b c : fr a b -> fr b c -> fr a c.
Proof.
  intros F1 F2 Ba. destruct (F1 Ba) as [Bb [Fw1 Bw1]]. destruct (F2 Bb) as [Bc [Fw2 Bw2]].
  split; [exact Bc|]. split.
  - intros i it H. destruct (Fw1 i it H) as [it1 [H1 N1]]. destruct (Fw2 i it1 H1) as [it2 [H2 N2]].
    exists it2. split; [exact H2 | eapply same_names_trans; eassumption].
  - intros i itc Hc Ha. destruct (get b i) as [itb|] eqn:Hb.
    + destruct (Bw1 i itb Hb Ha) as [A1 A2]. destruct (Fw2 i itb Hb) as [itc' [Hc' [_ [_ [_ [E1 E2]]]]]].
      rewrite Hc in Hc'. inversion Hc'; subst itc'. split; congruence.
    + exact (Bw2 i itc Hc Hb).
Qed.

Lemma fr_upd s i f : (forall it, same_names (f it) it) -> fr s (upd s i f).
Proof.
  intros Hf B. split; [apply bounded_upd; exact B|]. split.
  - intros j it H. rewrite get_upd. destruct (N.eqb_spec j i) as [->|].
    + rewrite H. cbn. exists (f it). split; [reflexivity | apply Hf].
    + exists it. split; [exact H | apply same_names_refl].
  - intros j it' H1 H2. rewrite get_upd in H1. destruct (N.eqb_spec j i) as [->|].
    + rewrite H2 in H1. discriminate.
    + congruence.
Qed.

Lemma fr_invalidate s : fr s (invalidate s).
Proof.
  intros B. split; [exact B|]. split.
  - intros i it H. exists it. split; [exact H | apply same_names_refl].
  - intros i it' H1 H2. change (get (invalidate s) i) with (get s i) in H1. congruence.
Qed.

Lemma fr_create s it : iattrs it = [] -> ients it = [] -> fr s (snd (create s it)).
Proof.
  intros Ha He B. destruct (create_spec s it) as [_ [_ [_ [Hg Ho]]]].
  split; [apply bounded_create; exact B|]. split.
  - intros i x H. exists x. split; [|apply same_names_refl]. rewrite Ho; [exact H|].
    intros ->. pose proof (B _ _ H). lia.
  - intros i it' H1 H2. destruct (N.eq_dec i (next s)) as [->|Hne].
    + rewrite Hg in H1. inversion H1; subst it'. split; assumption.
    + rewrite Ho in H1 by exact Hne. congruence.
Qed.

Lemma sn_with_parent p it : same_names (with_parent p it) it. Proof. repeat split. Qed.
Lemma sn_with_children l it : same_names (with_children l it) it. Proof. repeat split. Qed.
Lemma sn_with_data d fl it : same_names (with_data d fl it) it. Proof. repeat split. Qed.

Lemma fr_fold_unparent l : forall s, fr s (fold_left (fun acc a => upd acc a (with_parent None)) l s).
Proof.
  induction l as [|a t IH]; intros s; cbn [fold_left]; [apply fr_refl|].
  eapply fr_trans; [|apply IH]. apply fr_upd. intros it. apply sn_with_parent.
Qed.

Lemma fr_delete_by_id s p x : fr s (delete_by_id s p x).
Proof.
  unfold delete_by_id. destruct (mem x (children_of s p)); [|apply fr_refl].
  eapply fr_trans; apply fr_upd; intros it; [apply sn_with_children | apply sn_with_parent].
Qed.

Lemma fr_unlink s x : fr s (unlink s x).
Proof.
  unfold unlink. destruct (parent_of s x) as [p|]; [|apply fr_refl]. destruct (get s p) as [pit|]; [|apply fr_refl].
  destruct (container (ikind pit)); [apply fr_delete_by_id | apply fr_refl].
Qed.

Lemma fr_link s r x ref : fr s (link s r x ref).
Proof.
  unfold link. eapply fr_trans; [apply fr_unlink|].
  eapply fr_trans; apply fr_upd; intros it; [apply sn_with_parent | apply sn_with_children].
Qed.

Lemma fr_info_append s r x : fr s (fst (info_append s r x)).
Proof.
  unfold info_append. destruct (check_insert s r x); cbn [fst]; [apply fr_refl|].
  eapply fr_trans; [apply fr_link | apply fr_invalidate].
Qed.

Lemma fr_info_insert_before s r x f : fr s (fst (info_insert_before s r x f)).
Proof.
  unfold info_insert_before. destruct (mem f (children_of s r)); [|apply fr_refl].
  destruct (check_insert s r x); cbn [fst]; [apply fr_refl|].
  destruct (x =? f); cbn [fst]; [apply fr_refl|].
  eapply fr_trans; [apply fr_link | apply fr_invalidate].
Qed.

Lemma fr_info_insert_after s r x f : fr s (fst (info_insert_after s r x f)).
Proof.
  unfold info_insert_after. destruct (index_of f (children_of s r)) as [n|]; [|apply fr_refl].
  destruct (nth_error (children_of s r) (S n)); [apply fr_info_insert_before | apply fr_info_append].
Qed.

Lemma fr_info_delete s r x : fr s (fst (info_delete s r x)).
Proof.
  unfold info_delete. destruct (mem x (children_of s r)); cbn [fst]; [|apply fr_refl].
  eapply fr_trans; [apply fr_delete_by_id | apply fr_invalidate].
Qed.

Lemma fr_detach_values s a : fr s (detach_values s a).
Proof.
  unfold detach_values. eapply fr_trans; [|apply fr_fold_unparent].
  apply fr_upd. intros it. apply sn_with_children.
Qed.

Lemma fr_create_link s a k pfx loc data ref :
  fr s (link (snd (create s (new_item k pfx loc data false None))) a (next s) ref).
Proof. eapply fr_trans; [apply (fr_create s (new_item k pfx loc data false None)); reflexivity | apply fr_link]. Qed.

Lemma fr_add_values l : forall s a s', add_values s a l = Some s' -> fr s s'.
Proof.
  induction l as [|v t IH]; intros s a s' H; cbn [add_values] in H.
  - inversion H; subst. apply fr_refl.
  - destruct v as [tx|name ch|name].
    + destruct tx as [|c tx]; [eapply IH; exact H|]. rewrite create_eta in H.
      eapply fr_trans; [apply fr_create_link | eapply IH; exact H].
    + destruct ch as [ch|]; [|discriminate]. rewrite create_eta in H.
      eapply fr_trans; [apply fr_create_link | eapply IH; exact H].
    + destruct (entity_known s name); [|discriminate]. rewrite create_eta in H.
      eapply fr_trans; [apply fr_create_link | eapply IH; exact H].
Qed.

Lemma fr_set_values s a d : fr s (fst (set_values s a d)).
Proof.
  unfold set_values. destruct (d_attr d) as [l|]; [|apply fr_refl].
  destruct (add_values (detach_values s a) a l) as [s1|] eqn:A; cbn [fst]; [|apply fr_refl].
  eapply fr_trans; [apply fr_detach_values|]. eapply fr_trans; [eapply fr_add_values; exact A | apply fr_invalidate].
Qed.

Lemma fr_set_str s n d : fr s (set_str s n d).
Proof. unfold set_str. apply fr_upd. intros it. apply sn_with_data. Qed.

Lemma fr_edit_data s n k off cnt x : fr s (fst (edit_data s n k off cnt x)).
Proof.
  unfold edit_data. destruct (len (data_of s n) <? off); [apply fr_refl|].
  destruct (valid_str k _); cbn [fst]; [apply fr_set_str | apply fr_refl].
Qed.

Lemma fr_delete_data s n off cnt : fr s (fst (delete_data s n off cnt)).
Proof. unfold delete_data. destruct (kind_of s n); [apply fr_edit_data | apply fr_refl]. Qed.

Lemma fr_pi_set s n d : fr s (fst (pi_set s n d)).
Proof.
  unfold pi_set. destruct (d_pi d) as [[c|]|]; cbn [fst]; try apply fr_refl; apply fr_upd; intros it; apply sn_with_data.
Qed.

Lemma fr_split_text k s n kd off : fr s (fst (split_text k s n kd off)).
Proof.
  unfold split_text. destruct (len (data_of s n) <? off); [apply fr_refl|].
  destruct (parent_of s n) as [p|]; [|apply fr_refl].
  destruct (kind_of s p) as [kp|]; [|apply fr_refl].
  match goal with |- fr s (fst (if ?c then _ else _)) => destruct c end; [|apply fr_refl].
  rewrite create_eta.
  set (s1 := set_str s n _). set (it := new_item kd None [] _ false None).
  assert (F2 : fr s (snd (create s1 it))).
  { eapply fr_trans; [apply fr_set_str | apply fr_create; reflexivity]. }
  pose proof (fr_info_insert_after (snd (create s1 it)) p (next s1) n) as F3.
  destruct (info_insert_after (snd (create s1 it)) p (next s1) n) as [s3 [e|]]; cbn [fst] in F3.
  - destruct e; cbn [fst]; try (eapply fr_trans; eassumption).
    pose proof (fr_info_append s3 p (next s1)) as F4.
    destruct (info_append s3 p (next s1)) as [s4 [e4|]]; cbn [fst] in *; eapply fr_trans; [eassumption | eapply fr_trans; eassumption | eassumption | eapply fr_trans; eassumption].
  - cbn [fst]. eapply fr_trans; eassumption.
Qed.
