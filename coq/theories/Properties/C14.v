(** C14 -- Document order survives edits.

    "At every point of any edit history the document-order keys of the nodes attached to a document
    are non-zero, pairwise distinct and strictly increasing along a pre-order walk in which an
    element precedes its attributes and its attributes precede its children.  Consequently any
    XPath query evaluated on an edited document selects, orders and de-duplicates nodes exactly as
    the same query does on a fresh parse of that document's serialization."

    First sentence: proved below for the model of the repaired code ([C14_order_inv_reachable]).
    [Walk s n l] (Proofs/DomOrder.v) is the specification of the walk: a node, then the walks of
    its namespace declarations, of its other attributes (an attribute is followed by its value
    items), then of its children.  [key s x] is what [HasContext::order] returns for [x].

    Second sentence: the store model (Model/Store.v) and the evaluator's document table
    (Model/XDoc.v) are tied by [xdoc_of_store F merged s] (Model/StoreView.v): the table the
    evaluator sees for the document held in store [s], built as the harness builds it from the real
    DOM (node, new namespace nodes, attributes, children; every field an observation computed with
    the functions of Model/Store.v; string facts the store does not hold -- normalised attribute
    values, replacement texts -- are the parameter [F]; [merged] selects the DOM view).  The view
    reproduces tables dumped from the real code ([C14_view_is_real_dump]).  Proved, for every
    document of every world reachable by any history that still has a document element:
    - the table satisfies [DocInv] (tree + keys non-zero and strictly increasing along the table),
      [SpecShape] (incl. [sh_order]: the table is in the document order of its own tree) and
      [NamesOk] -- ALL hypotheses of the C07 / C05 theorems -- and, without a document type,
      [ParentsOk] ([C14_bridge_reachable]); the condition on the document element is necessary
      ([C14_bridge_needs_document_element]: [DocInv] asks the root for an element child);
    - every node-set any expression without the namespace axis returns on the edited document is
      duplicate-free and in document order by position in the table
      ([C14_edited_nodeset_canonical]), and position in the table is position in the specified
      walk of the store ([C14_table_order_is_walk_order]);
    - every SUPPORTED expression (C05 in full: predicates, all axes but namespace, operators,
      comparisons, the function library; [supported_b]) evaluated on the edited document --
      document types included -- has the value XPath 1.0 prescribes for the TREE
      ([C14_edited_eval_refines_spec]); that value does not read ids, order keys and parent
      pointers ([C14_spec_query_tree_only]), so two stores whose tables are equal up to those --
      an edited document and the fresh parse of its serialisation -- give the same boolean,
      number, string, the same rows in the same order, or both an error
      ([C14_query_depends_on_tree_only]; [C14_query_depends_on_tree_only_partial] is the earlier
      statement for predicate-free location paths, with the context returned unchanged).
    That a fresh parse of the serialisation yields the same tree is C15 / C04: [same_tree] of the
    two tables is a hypothesis of [C14_query_depends_on_tree_only]; it is DISCHARGED in the last
    section of this file ([C14_query_on_reparse], builder c15b: Proofs/StoreIso*.v,
    Properties/C15.v) for every edited document outside C15's listed findings ([Known15]; it
    fails exactly there, e.g. a text node without characters, [C14_example_empty_text_DD3]) and
    every store that denotes the document the parser returns for the print.
    NOT proved here: the expressions C05 does not support (namespace axis, id(), ...).  Those stay
    tested by the [Q] operations of checks/C14.py (queries on the edited document against a
    re-parse, as pre-order ranks).  That [xdoc_of_store] is the table the harness would dump for the real
    (edited) document is CHECKED ON EVERY RUN of checks/C14.py (notes/c14tie_STATUS.md): the [X] operations
    of the `dom` correspondence build the table of the edited document with the table builder of the xpath
    domain ([Table::build], the one whose tables the evaluator model is tied on) and the model driver
    prints the extracted [xdoc_of_store F merged s] of the store reached by the same operations, both
    views; the rows are compared field by field (ids as handles, keys as ranks).  Its string facts [F]
    (normalised attribute values, replacement texts of entity references) are read from the real items
    and taken as given (the theorems quantify over all facts).  Outside that tie, explicitly counted:
    tables with a failing string observation and DTD-defaulted attributes.  The real dumps of
    [C14_view_is_real_dump] remain as kernel-checked instances. *)
From Coq Require Import List NArith Bool Sorting.Sorted.
From XmlRs Require Import Base.CPred.
From XmlRs Require Import Model.XPathAst Model.XDoc Model.XPathEval Spec.XPath10
  Proofs.XPathNav Proofs.XPathAstPred Proofs.XPathCanon Proofs.XPathRefine Proofs.XPathRefinePaths
  Proofs.XPathRefineSupp Proofs.XPathRefineEval Proofs.XPathTreeOnly Proofs.XPathExamples.
From XmlRs Require Import Model.Store Model.StoreCheck Model.StoreView Model.DomOps
  Proofs.DomTree Proofs.DomOpsInv Proofs.DomOrder Proofs.DomOrderInv Proofs.DomCheck Proofs.DomExample Proofs.DomC14
  Proofs.StoreViewBase Proofs.StoreViewWalk Proofs.StoreXDoc Proofs.StoreXDocShape Proofs.StoreXDocNames
  Proofs.StoreXDocReach Proofs.StoreXDocExample Proofs.StoreXDocDumps Proofs.StoreXDocQueries.
Import ListNotations.
Open Scope N_scope.

(** ** first sentence *)
Theorem C14_order_inv_of_tree : forall s, TreeInv s -> OrderOK s -> OrderInv s.
Proof. exact order_inv_of_tree. Qed.

Theorem C14_good_step : forall w o, WGood w -> WGood (fst (step w o)).
Proof. exact good_step. Qed.

Theorem C14_order_inv_reachable :
  forall init ops k s, WGood init -> doc_at (run init ops) k = Some s -> OrderInv s.
Proof. exact order_inv_reachable. Qed.

Theorem C14_keys_after_any_history :
  forall init ops k s, WGood init -> doc_at (run init ops) k = Some s ->
    Walk s (sroot s) (preorder s)
    /\ (forall x, In x (preorder s) <-> attached s x)
    /\ (forall x, attached s x -> Store.key s x <> 0)
    /\ (forall l1 x l2 y l3, preorder s = l1 ++ x :: l2 ++ y :: l3 -> Store.key s x < Store.key s y)
    /\ (forall x, ~ attached s x -> Store.key s x = 0).
Proof. exact keys_after_any_history. Qed.

Theorem C14_walk_unique : forall s n l1 l2, Walk s n l1 -> Walk s n l2 -> l1 = l2.
Proof. exact walk_unique. Qed.

Print Assumptions C14_order_inv_of_tree.
Print Assumptions C14_good_step.
Print Assumptions C14_order_inv_reachable.
Print Assumptions C14_keys_after_any_history.
Print Assumptions C14_walk_unique.

(** ** second sentence: the bridge to the evaluator's table *)

(** one store: tree invariant (C12) + order invariant (first sentence) + a document element give
    the document invariant of the evaluator, for all string facts and both DOM views *)
Theorem C14_bridge_docinv :
  forall (F : sfacts) (merged : bool) (s : store),
    TreeInv s -> OrderInv s -> doc_element s <> None -> DocInv (xdoc_of_store F merged s).
Proof. exact bridge_docinv. Qed.

(** [SpecShape] includes [sh_order]: the rows the specification's own pre-order walk of the table
    visits are in increasing position -- the table IS in the document order of its tree *)
Theorem C14_bridge_shape :
  forall (F : sfacts) (merged : bool) (s : store),
    TreeInv s -> doc_element s <> None -> SpecShape (xdoc_of_store F merged s).
Proof. exact bridge_shape. Qed.

(** the names the view reports (the dom's [as_expanded_name]: prefix looked up among the in-scope
    namespace nodes) are those the specification computes from the namespace rows (C10's
    statement, on the view) *)
Theorem C14_bridge_names :
  forall (F : sfacts) (merged : bool) (s : store),
    TreeInv s -> OrderInv s -> doc_element s <> None -> NamesOk (xdoc_of_store F merged s).
Proof. exact bridge_names. Qed.

Theorem C14_bridge_parents :
  forall (F : sfacts) (merged : bool) (s : store),
    TreeInv s -> doc_element s <> None -> doc_decl s = None -> ParentsOk (xdoc_of_store F merged s).
Proof. exact bridge_parents. Qed.

(** the document element is needed: a document whose root element was removed (a reachable state)
    has no table satisfying [DocInv] *)
Theorem C14_bridge_needs_document_element :
  forall (F : sfacts) (merged : bool) (s : store),
    TreeInv s -> DocInv (xdoc_of_store F merged s) -> doc_element s <> None.
Proof. exact bridge_needs_document_element. Qed.

(** every document of every reachable world *)
Theorem C14_bridge_reachable :
  forall (F : sfacts) (merged : bool) (init : world) (ops : list op) (k : N) (s : store),
    WGood init -> doc_at (run init ops) k = Some s -> doc_element s <> None ->
    DocInv (xdoc_of_store F merged s) /\ SpecShape (xdoc_of_store F merged s) /\
    NamesOk (xdoc_of_store F merged s) /\
    (doc_decl s = None -> ParentsOk (xdoc_of_store F merged s)).
Proof. exact bridge_reachable. Qed.

(** C07 on the edited document: whatever axes, unions, filters and predicates an expression
    without the namespace axis is made of, every node-set it returns from any good context node
    lists rows in document order by position in the table, each at most once *)
Theorem C14_edited_nodeset_canonical :
  forall (F : sfacts) (merged : bool) (init : world) (ops : list op) (k : N) (s : store),
    WGood init -> doc_at (run init ops) k = Some s -> doc_element s <> None ->
    forall (c : ctx) (e : expr) (n : node) (l : list node) (c' : ctx),
      no_ns_axis e = true -> good (xdoc_of_store F merged s) n ->
      eval_expr (xdoc_of_store F merged s) e n c = (XDoc.Ok (XNodes l), c') ->
      StronglySorted (doc_lt (xdoc_of_store F merged s)) l /\ NoDup l /\
      Forall (good (xdoc_of_store F merged s)) l.
Proof. exact edited_nodeset_canonical. Qed.

(** "orders and de-duplicates": sorting and de-duplicating by order key ([union_finish], what
    the evaluator does to every node-set) is, on the edited document, sorting and de-duplicating
    by position in the tree ([nodeset] of the specification) *)
Theorem C14_edited_sort_by_key_is_by_position :
  forall (F : sfacts) (merged : bool) (init : world) (ops : list op) (k : N) (s : store),
    WGood init -> doc_at (run init ops) k = Some s -> doc_element s <> None ->
    forall l : list node, Forall (good (xdoc_of_store F merged s)) l ->
      map Row (union_finish (xdoc_of_store F merged s) l) = nodeset (xdoc_of_store F merged s) (map Row l).
Proof. exact edited_sort_by_key_is_by_position. Qed.

Theorem C14_edited_query_canonical :
  forall (F : sfacts) (merged : bool) (init : world) (ops : list op) (k : N) (s : store),
    WGood init -> doc_at (run init ops) k = Some s -> doc_element s <> None ->
    forall (c : ctx) (e : expr) (l : list node) (c' : ctx),
      no_ns_axis e = true -> query (xdoc_of_store F merged s) e c = (XDoc.Ok (XNodes l), c') ->
      StronglySorted (doc_lt (xdoc_of_store F merged s)) l /\ NoDup l /\
      Forall (good (xdoc_of_store F merged s)) l.
Proof. exact edited_query_canonical. Qed.

(** position in the table is position in the tree: the rows of a list in table order, read as
    nodes of the store, are a subsequence of the specified walk [preorder s] ([Walk]) *)
Theorem C14_table_order_is_walk_order :
  forall (F : sfacts) (merged : bool) (s : store) (l : list node),
    StronglySorted (doc_lt (xdoc_of_store F merged s)) l -> Forall (valid (xdoc_of_store F merged s)) l ->
    Sub (nodes_of (keys_at F merged s l)) (preorder s).
Proof. exact table_order_is_walk_order. Qed.

(** the key the evaluator sorts a node row by IS the key of the first sentence ([Store.key]: what
    [HasContext::order] returns for the node, the first component of a merged text) *)
Theorem C14_view_key_is_store_key :
  forall (F : sfacts) (merged : bool) (s : store), TreeInv s ->
  forall v : vnode, In (KNode v) (vrows F merged s) ->
    n_key (row_of F merged s (KNode v)) = Store.key s (vid v).
Proof. exact row_key_live. Qed.

Theorem C14_view_rows_follow_walk :
  forall (F : sfacts) (merged : bool) (s : store), Sub (nodes_of (vrows F merged s)) (preorder s).
Proof. exact rows_sub_preorder. Qed.

(** C05 on the edited document, proved fragment: a query that is one predicate-free location path
    (C05_rung1_paths_partial) has the value XPath 1.0 prescribes for the table *)
Theorem C14_edited_path_query_refines_partial :
  forall (F : sfacts) (merged : bool) (init : world) (ops : list op) (k : N) (s : store),
    WGood init -> doc_at (run init ops) k = Some s ->
    doc_element s <> None -> doc_decl s = None ->
    forall (ns : list (option str * str)), ns_lookup ns None = None ->
    forall (p : path_expr) (c : ctx) (pos size : N), c_ns c = ns -> simple_path ns p ->
    exists lm : list node,
      query (xdoc_of_store F merged s) (path_query p) c = (XDoc.Ok (XNodes lm), c) /\
      spec_query (xdoc_of_store F merged s) ns pos size (path_query p) = Some (SNodes (map Row lm)).
Proof. exact edited_path_query_refines. Qed.

(** C05 in full on the edited document: every supported expression, any context without default
    namespace binding *)
Theorem C14_edited_eval_refines_spec :
  forall (F : sfacts) (merged : bool) (init : world) (ops : list op) (k : N) (s : store),
    WGood init -> doc_at (run init ops) k = Some s -> doc_element s <> None ->
    forall (c : ctx) (e : expr), ns_lookup (c_ns c) None = None -> supported (c_ns c) e ->
      value_abs (fst (query (xdoc_of_store F merged s) e c)) =
      spec_query (xdoc_of_store F merged s) (c_ns c) (get_position c) (get_size c) e.
Proof. exact edited_eval_refines_spec. Qed.

(** the specification does not read ids, order keys and parent pointers: ALL expressions *)
Theorem C14_spec_query_tree_only :
  forall (d1 d2 : xdoc), same_tree d1 d2 ->
  forall (ns : bindings) (pos size : N) (e : expr), spec_query d1 ns pos size e = spec_query d2 ns pos size e.
Proof. exact spec_query_tree_only. Qed.

(** FULL STATEMENT of the second sentence (NOT proved as a whole):
      forall init ops k s1, WGood init -> doc_at (run init ops) k = Some s1 ->
      forall s2, s2 = the store a parse of [show_doc s1] builds ->
      forall e c, value of [query (table of s1) e c] = value of [query (table of s2) e c]
      (node-sets compared as lists of table positions).
    Proved part: for every expression C05 supports, with the fact that belongs to other
    properties as hypothesis -- the fresh parse yields the same tree ([same_tree] of the tables:
    C15 / C04) and satisfies the invariants ([TreeInv], [OrderInv]: what [WGood] of an initial
    world gives) -- and for documents with a document element: the edited document and the
    fresh parse give the same value (the same rows in the same order for a node-set), which is
    the value XPath 1.0 prescribes. *)
Theorem C14_query_depends_on_tree_only :
  forall (F1 F2 : sfacts) (merged : bool) (init : world) (ops : list op) (k : N) (s1 s2 : store),
    WGood init -> doc_at (run init ops) k = Some s1 ->
    TreeInv s2 -> OrderInv s2 -> doc_element s1 <> None -> doc_element s2 <> None ->
    same_tree (xdoc_of_store F1 merged s1) (xdoc_of_store F2 merged s2) ->
    forall (c1 c2 : ctx) (e : expr),
      c_ns c1 = c_ns c2 -> get_position c1 = get_position c2 -> get_size c1 = get_size c2 ->
      ns_lookup (c_ns c1) None = None -> supported (c_ns c1) e ->
      value_abs (fst (query (xdoc_of_store F1 merged s1) e c1)) =
      value_abs (fst (query (xdoc_of_store F2 merged s2) e c2)) /\
      value_abs (fst (query (xdoc_of_store F1 merged s1) e c1)) =
      spec_query (xdoc_of_store F1 merged s1) (c_ns c1) (get_position c1) (get_size c1) e.
Proof. exact query_depends_on_tree_only_all. Qed.

(** the same for two arbitrary tables satisfying the hypotheses of C05 *)
Theorem C14_same_tree_same_value :
  forall (d1 d2 : xdoc),
    DocInv d1 -> SpecShape d1 -> DocInv d2 -> SpecShape d2 -> NamesOk d1 -> same_tree d1 d2 ->
    forall (c1 c2 : ctx) (e : expr),
      c_ns c1 = c_ns c2 -> get_position c1 = get_position c2 -> get_size c1 = get_size c2 ->
      ns_lookup (c_ns c1) None = None -> supported (c_ns c1) e ->
      value_abs (fst (query d1 e c1)) = value_abs (fst (query d2 e c2)).
Proof. exact same_tree_same_value. Qed.

(** the earlier statement for queries that are one predicate-free location path (documents
    without a document type): the two values are the same LIST of rows and the contexts are
    returned unchanged *)
Theorem C14_query_depends_on_tree_only_partial :
  forall (F1 F2 : sfacts) (merged : bool) (init : world) (ops : list op) (k : N) (s1 s2 : store),
    WGood init -> doc_at (run init ops) k = Some s1 ->
    TreeInv s2 -> OrderInv s2 ->
    doc_element s1 <> None -> doc_decl s1 = None -> doc_element s2 <> None -> doc_decl s2 = None ->
    same_tree (xdoc_of_store F1 merged s1) (xdoc_of_store F2 merged s2) ->
    forall (ns : list (option str * str)), ns_lookup ns None = None ->
    forall (p : path_expr) (c1 c2 : ctx), c_ns c1 = ns -> c_ns c2 = ns -> simple_path ns p ->
    exists l : list node,
      query (xdoc_of_store F1 merged s1) (path_query p) c1 = (XDoc.Ok (XNodes l), c1) /\
      query (xdoc_of_store F2 merged s2) (path_query p) c2 = (XDoc.Ok (XNodes l), c2) /\
      spec_query (xdoc_of_store F1 merged s1) ns 0 0 (path_query p) = Some (SNodes (map Row l)).
Proof. exact query_depends_on_tree_only. Qed.

(** any refinement theorem transfers: the specification's node-set of an expression on two tables
    showing the same tree is the same list of rows *)
Theorem C14_refined_nodesets_depend_on_tree_only :
  forall (d1 d2 : xdoc) (ns : bindings) (pos size : N) (e : expr) (l1 l2 : list node),
    same_tree d1 d2 ->
    spec_query d1 ns pos size e = Some (SNodes (map Row l1)) ->
    spec_query d2 ns pos size e = Some (SNodes (map Row l2)) -> l1 = l2.
Proof. exact same_tree_same_nodeset. Qed.

(** the same for two arbitrary tables *)
Theorem C14_same_tree_same_paths_partial :
  forall (d1 d2 : xdoc),
    DocInv d1 -> SpecShape d1 -> ParentsOk d1 -> DocInv d2 -> SpecShape d2 -> ParentsOk d2 ->
    NamesOk d1 -> same_tree d1 d2 ->
    forall (ns : list (option str * str)), ns_lookup ns None = None ->
    forall (p : path_expr) (c1 c2 : ctx), c_ns c1 = ns -> c_ns c2 = ns -> simple_path ns p ->
    exists l : list node,
      query d1 (path_query p) c1 = (XDoc.Ok (XNodes l), c1) /\
      query d2 (path_query p) c2 = (XDoc.Ok (XNodes l), c2) /\
      spec_query d1 ns 0 0 (path_query p) = Some (SNodes (map Row l)).
Proof. exact same_tree_same_paths. Qed.

(** ** the view is the table of the real code; the hypotheses are satisfiable *)

(** [path_doc], [pi_doc], [ns_doc], [ex_doc] of Proofs/XPathExamples.v and [rich_raw_doc],
    [rich_merged_doc] of Proofs/StoreXDocDumps.v (document type, default / prefixed / undeclared
    namespaces, comment, CDATA, character and entity references, processing instruction; both DOM
    views) are printed from the harness dump of the real dom; the view of the corresponding stores
    is that table, field by field *)
Example C14_view_is_real_dump :
  xdoc_of_store (facts_of path_store) true path_store = path_doc /\
  xdoc_of_store (facts_of pi_store) true pi_store = pi_doc /\
  xdoc_of_store (facts_of ns_store) true ns_store = ns_doc /\
  xdoc_of_store (facts_of ex_store') true ex_store' = ex_doc /\
  xdoc_of_store rich_facts false rich_store = rich_raw_doc /\
  xdoc_of_store rich_facts true rich_store = rich_merged_doc.
Proof.
  split; [exact view_is_real_dump_path|]. split; [exact view_is_real_dump_pi|].
  split; [exact view_is_real_dump_ns|]. split; [exact view_is_real_dump_ex|].
  split; [exact view_is_real_dump_rich_raw | exact view_is_real_dump_rich_merged].
Qed.

(** [br_store]: <r><a x="1">t</a><b/></r> after a refused call, a move of the subtree of a under
    b, a creation and an insertion -- <r><e /><b><a x="1">t</a></b></r>, ids along the walk
    1 2 8 7 3 4 5 6; [rp_store]: the store of a fresh parse of that text *)
Example C14_example_hypotheses :
  WGood ex_world /\ doc_at (run ex_world br_ops) 0 = Some br_store /\
  doc_element br_store <> None /\ doc_decl br_store = None /\
  TreeInv rp_store /\ OrderInv rp_store /\ doc_element rp_store <> None /\ doc_decl rp_store = None /\
  same_tree br_view rp_view.
Proof. exact br_hypotheses. Qed.

(** a document with a document type (tables dumped from the real code, both views) *)
Example C14_example_with_doctype :
  TreeInv rich_store /\ OrderInv rich_store /\ doc_element rich_store <> None /\ doc_decl rich_store = Some 2 /\
  DocInv rich_raw_doc /\ SpecShape rich_raw_doc /\ NamesOk rich_raw_doc /\
  DocInv rich_merged_doc /\ SpecShape rich_merged_doc /\ NamesOk rich_merged_doc.
Proof. exact rich_invariants. Qed.

(** where the hypotheses fail, on reachable states: without document element (C15-NOROOT) no
    table satisfies [DocInv]; with a text node without characters (DD3) the fresh parse does not
    show the same tree and //b/node() differs *)
Example C14_example_no_document_element :
  doc_element nr_store = None /\ ~ DocInv (xdoc_of_store (facts_of nr_store) true nr_store).
Proof. exact nr_no_docinv. Qed.

Example C14_example_empty_text_DD3 :
  ~ same_tree et_view et_reparsed_view /\
  fst (query et_view (path_query p_bnode) ctx_default) = XDoc.Ok (XNodes [9]) /\
  fst (query et_reparsed_view (path_query p_bnode) ctx_default) = XDoc.Ok (XNodes []).
Proof. destruct et_not_same_tree as [_ H]. exact H. Qed.

Example C14_example_ids_and_keys :
  (preorder br_store, map (Store.key br_store) (preorder br_store)) = ([1;2;8;7;3;4;5;6], [1;2;3;4;5;6;7;8]) /\
  (map n_id br_view, map n_key br_view) = ([1;2;0;8;0;7;0;3;0;4;6], [1;2;0;3;0;4;0;5;0;6;8]) /\
  (map n_id rp_view, map n_key rp_view) = ([1;2;0;3;0;4;0;5;0;6;8], [1;2;0;3;0;4;0;5;0;6;8]).
Proof. split; [exact br_walk_and_keys|]. split; [exact br_view_ids_keys | exact rp_view_ids_keys]. Qed.

(** //a/@x , /r/b/a/text() , //text()/ancestor::star on the edited document and on the fresh parse *)
Example C14_example_queries :
  simple_path [] p_attr /\ simple_path [] p_text /\ simple_path [] p_anc /\
  fst (query br_view (path_query p_attr) ctx_default) = XDoc.Ok (XNodes [9]) /\
  fst (query br_view (path_query p_text) ctx_default) = XDoc.Ok (XNodes [10]) /\
  fst (query br_view (path_query p_anc) ctx_default) = XDoc.Ok (XNodes [1; 5; 7]) /\
  fst (query rp_view (path_query p_attr) ctx_default) = XDoc.Ok (XNodes [9]) /\
  fst (query rp_view (path_query p_text) ctx_default) = XDoc.Ok (XNodes [10]) /\
  fst (query rp_view (path_query p_anc) ctx_default) = XDoc.Ok (XNodes [1; 5; 7]).
Proof.
  destruct br_paths_simple as [H1 [H2 H3]]. split; [exact H1|]. split; [exact H2|]. split; [exact H3|].
  exact br_query_values.
Qed.

(** predicates, functions, unions, sibling / following axes: supported expressions (ASTs of the
    real parser), their values on the edited document are those the REAL evaluator returns on the
    fresh parse (comments of Proofs/StoreXDocQueries.v) and equal the values on [rp_view] *)
Example C14_example_supported_queries :
  supported [] brq_e0 /\ supported [] brq_e2 /\ supported [] brq_e4 /\ supported [] brq_e5 /\
  fst (query br_view brq_e0 ctx_default) = XDoc.Ok (XNodes [10]) /\
  fst (query br_view brq_e2 ctx_default) = XDoc.Ok (XNodes [3; 5; 7; 10]) /\
  fst (query br_view brq_e4 ctx_default) = XDoc.Ok (XNodes [7]) /\
  fst (query br_view brq_e5 ctx_default) = XDoc.Ok (XNodes [9]) /\
  fst (query br_view brq_e1 ctx_default) = fst (query rp_view brq_e1 ctx_default).
Proof.
  destruct brq_supported as [S0 [_ [S2 [_ [S4 S5]]]]]. destruct brq_values as [V0 [V2 [_ [V4 V5]]]].
  destruct brq_same_on_fresh_parse as [_ [E1 _]].
  repeat split; assumption.
Qed.

Print Assumptions C14_bridge_docinv.
Print Assumptions C14_bridge_shape.
Print Assumptions C14_bridge_names.
Print Assumptions C14_bridge_parents.
Print Assumptions C14_bridge_needs_document_element.
Print Assumptions C14_bridge_reachable.
Print Assumptions C14_edited_nodeset_canonical.
Print Assumptions C14_edited_sort_by_key_is_by_position.
Print Assumptions C14_edited_query_canonical.
Print Assumptions C14_table_order_is_walk_order.
Print Assumptions C14_view_key_is_store_key.
Print Assumptions C14_view_rows_follow_walk.
Print Assumptions C14_edited_path_query_refines_partial.
Print Assumptions C14_edited_eval_refines_spec.
Print Assumptions C14_spec_query_tree_only.
Print Assumptions C14_query_depends_on_tree_only.
Print Assumptions C14_same_tree_same_value.
Print Assumptions C14_query_depends_on_tree_only_partial.
Print Assumptions C14_refined_nodesets_depend_on_tree_only.
Print Assumptions C14_same_tree_same_paths_partial.
Print Assumptions C14_view_is_real_dump.
Print Assumptions C14_example_hypotheses.

(** ** the second sentence with its last hypothesis discharged (C15, C04)

    [s1]: an edited document of a reachable world outside C15's findings ([Known15 s1 = false],
    Model/StoreDoc.v); its print [show_doc s1] is accepted by the parser model and gives [d']
    (C15_edited_roundtrip_reachable shows that it is, and that [d'] is [doc_of_store s1]);
    [s2]: ANY store with the invariants that denotes [d'] -- what the store of the re-parse is
    (no Coq function builds a store from a parsed document; for a concrete table the equation
    [doc_of_store s2 = d'] is decided by computation, see C14_query_on_reparse_example in
    Properties/C15.v).  [FactsBy]: the string facts of both tables are the same functions of the
    denoted attribute / value piece.  Conclusion: every supported expression has the same value on
    the two tables, the value XPath 1.0 prescribes. *)
From XmlRs Require Import Model.Info Model.Display Model.StoreDoc Proofs.DomPrintable Proofs.DomL1RefineInv
  Proofs.StoreDocInv Proofs.StoreDocPiFlag Proofs.StoreIsoDoc Proofs.StoreIsoQuery.

Theorem C14_query_on_reparse :
  forall (F1 F2 : sfacts) fa fr (merged : bool) (init : world) (ops : list op) (k : N) (s1 s2 : store) (d' : document),
  WGood init -> WInv2 init -> WLex15 init -> WPiFlag init ->
  Forall op_facts_ok ops -> Forall op_facts_ok15 ops ->
  doc_at (run init ops) k = Some s1 -> Known15 s1 = false ->
  pipeline_parse (show_doc s1) = OOk ([], d') ->
  TreeInv s2 -> OrderInv s2 -> Lex15 s2 -> PiFlagOk s2 -> doc_of_store s2 = d' ->
  FactsBy fa fr F1 s1 -> FactsBy fa fr F2 s2 ->
  forall (c1 c2 : ctx) (e : expr),
    c_ns c1 = c_ns c2 -> get_position c1 = get_position c2 -> get_size c1 = get_size c2 ->
    ns_lookup (c_ns c1) None = None -> supported (c_ns c1) e ->
    value_abs (fst (query (xdoc_of_store F1 merged s1) e c1)) =
    value_abs (fst (query (xdoc_of_store F2 merged s2) e c2)) /\
    value_abs (fst (query (xdoc_of_store F1 merged s1) e c1)) =
    spec_query (xdoc_of_store F1 merged s1) (c_ns c1) (get_position c1) (get_size c1) e.
Proof. exact query_on_reparse. Qed.

Print Assumptions C14_query_on_reparse.

(** ** histories that contain [Element::normalize] calls (Model/DomNormalize.v; see Properties/C12.v):
    [normalize] is a history of [append_data] / [remove_child] calls, so the order invariant holds after it *)
From XmlRs Require Import Model.DomNormalize Proofs.DomNormalizeHist Proofs.DomNormalizeC12 Proofs.DomNormalizeC14.

Theorem C14_good_reachable_with_normalize : forall init nops, WGood init -> WGood (run_n init nops).
Proof. exact good_reachable_with_normalize. Qed.

Theorem C14_order_inv_reachable_with_normalize :
  forall init nops k s, WGood init -> doc_at (run_n init nops) k = Some s -> OrderInv s.
Proof. exact order_inv_reachable_with_normalize. Qed.

Theorem C14_keys_after_any_history_with_normalize :
  forall init nops k s, WGood init -> doc_at (run_n init nops) k = Some s ->
    Walk s (sroot s) (preorder s)
    /\ (forall x, In x (preorder s) <-> attached s x)
    /\ (forall x, attached s x -> Store.key s x <> 0)
    /\ (forall l1 x l2 y l3, preorder s = l1 ++ x :: l2 ++ y :: l3 -> Store.key s x < Store.key s y)
    /\ (forall x, ~ attached s x -> Store.key s x = 0).
Proof. exact keys_after_any_history_with_normalize. Qed.

(** the example history of [C12_normalize_example]: the Text nodes merged away (8, 9) have key 0 *)
Example C14_normalize_example :
  OrderInv (store0 nz_final)
  /\ map (Store.key (store0 nz_final)) [1; 2; 3; 4; 5; 6; 10; 7; 8; 9] = [1; 2; 3; 4; 5; 6; 7; 8; 0; 0].
Proof. exact nz_example_keys. Qed.

Print Assumptions C14_good_reachable_with_normalize.
Print Assumptions C14_order_inv_reachable_with_normalize.
Print Assumptions C14_keys_after_any_history_with_normalize.
Print Assumptions C14_normalize_example.

(** ** histories that contain calls on the read-only maps of a document type (Model/DomReadOnly.v; see Properties/C13.v):
    such a call changes nothing, the order invariant holds along the extended histories [xop] *)
From XmlRs Require Import Model.DomReadOnly Proofs.DomReadOnly Proofs.DomReadOnlyC14.

Theorem C14_good_reachable_with_readonly : forall init xs, WGood init -> WGood (run_x init xs).
Proof. exact good_reachable_with_readonly. Qed.

Theorem C14_order_inv_reachable_with_readonly :
  forall init xs k s, WGood init -> doc_at (run_x init xs) k = Some s -> OrderInv s.
Proof. exact order_inv_reachable_with_readonly. Qed.

Theorem C14_keys_after_any_history_with_readonly :
  forall init xs k s, WGood init -> doc_at (run_x init xs) k = Some s ->
    Walk s (sroot s) (preorder s)
    /\ (forall x, In x (preorder s) <-> attached s x)
    /\ (forall x, attached s x -> Store.key s x <> 0)
    /\ (forall l1 x l2 y l3, preorder s = l1 ++ x :: l2 ++ y :: l3 -> Store.key s x < Store.key s y)
    /\ (forall x, ~ attached s x -> Store.key s x = 0).
Proof. exact keys_after_any_history_with_readonly. Qed.

Example C14_readonly_example :
  WGood ro_world
  /\ forall s, doc_at (run_x ro_world ro_ops) 0 = Some s ->
       OrderInv s /\ map (Store.key s) [1; 2; 3; 4] = [1; 0; 2; 3].
Proof. split; [exact ro_good | exact ro_example_keys]. Qed.

Print Assumptions C14_good_reachable_with_readonly.
Print Assumptions C14_order_inv_reachable_with_readonly.
Print Assumptions C14_keys_after_any_history_with_readonly.
Print Assumptions C14_readonly_example.
