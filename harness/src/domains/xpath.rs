//! XPath evaluator domain (C05 C06 C07 C19).
//!
//! case line:  `<view> <doc> <nb> (<prefix|~> <uri>)*nb <expr> <expr> ...`
//!   view = 0 (raw DOM view) | 1 (merged text view, what xq/xe use) | 2, 3 = the same two views
//!   but the expressions are only parsed and dumped, not evaluated (no `R` sections: used to let
//!   the model predict which cases would hang before the real code is run on them); strings are
//!   decimal code points joined by ','; `-` is the empty string; `~` is "no prefix".
//! All expressions of one case are evaluated against ONE shared `Context` (C19); the
//! probes `position()`/`last()` of that context are reported after each query.
//! An "expression" that starts with `#` is a control word for that context: `#bind <prefix|~> <uri>`
//! (Context::add_ns) or `#unbind <prefix|~>` (Context::remove_ns); it answers `A X` / `R ctl`.
//!
//! output line (sections separated by " # "):
//!   `D <n> <node>*n`            the document as the evaluator can observe it (XDoc table)
//!   `A <ast>` | `A X`           one per expression: structural dump of expr::model::Expr
//!   `R <value> P<pos>,<size>`   one per expression: the result and the context probes
//!   `U <0|1>`                   1 when the serialisation and the XDoc dump are unchanged
//! or `baddoc` / `badinput`.
//!
//! node  = kind;id;key;parent;children;attrs;nss;name;data          (lists joined by '.')
//!         parent = parent_node(); for an attribute (whose parent_node() is None by DOM Level 1)
//!         its `owner_element()` (what the evaluator uses as the parent of an attribute node)
//! name  = `!` (none) | `E` (error) | local/prefix/uri   (prefix, uri: `~` when None)
//! data  = `E` (error) | `~` (computed from the children: element, document) | string
//! value = `ns:i.j.k` (table indices; `z<kind>:<name>:<data>` for nodes whose id is 0)
//!       | `b:0|1` | `n:<16 hex digits>` (NaN canonical) | `s:<string>` | `err:<Kind>[:<string>]` | `panic`
use crate::util::{dec, enc};
use std::collections::HashMap;
use std::panic::{catch_unwind, AssertUnwindSafe};
use xml_dom::{AsExpandedName, AsNode, AsStringValue, Node, XmlDocument, XmlNode};
use xml_xpath::eval::model::{Context, Value};
use xml_xpath::expr::model as ast;

// ------------------------------------------------------------------------------------ XDoc dump

fn kind_of(n: &XmlNode) -> &'static str {
    match n {
        XmlNode::Element(_) => "El",
        XmlNode::Attribute(_) => "At",
        XmlNode::Text(_) => "Tx",
        XmlNode::CData(_) => "Cd",
        XmlNode::EntityReference(_) => "Er",
        XmlNode::Entity(_) => "En",
        XmlNode::PI(_) => "Pi",
        XmlNode::Comment(_) => "Co",
        XmlNode::Document(_) => "Do",
        XmlNode::DocumentType(_) => "Dt",
        XmlNode::DocumentFragment(_) => "Df",
        XmlNode::Notation(_) => "No",
        XmlNode::Namespace(_) => "Ns",
        XmlNode::ExpandedText(_) => "Xt",
    }
}

struct Row {
    node: XmlNode,
    parent: Option<usize>,
    children: Vec<usize>,
    attrs: Vec<usize>,
    nss: Option<Vec<usize>>, // None = in_scope_namespace() failed
}

pub struct Table {
    rows: Vec<Row>,
    index: HashMap<(&'static str, usize), usize>, // (kind, id) -> row, only for id != 0
}

impl Table {
    fn lookup(&self, n: &XmlNode) -> Option<usize> {
        let id = n.id();
        if id == 0 {
            return None;
        }
        self.index.get(&(kind_of(n), id)).copied()
    }

    /// pre-order: node, namespace nodes, attributes, children (XPath document order)
    fn add(&mut self, n: XmlNode) -> usize {
        if let Some(i) = self.lookup(&n) {
            return i;
        }
        let i = self.rows.len();
        if n.id() != 0 {
            self.index.insert((kind_of(&n), n.id()), i);
        }
        self.rows.push(Row {
            node: n.clone(),
            parent: None,
            children: vec![],
            attrs: vec![],
            nss: Some(vec![]),
        });
        if let XmlNode::Element(e) = &n {
            match e.in_scope_namespace() {
                Ok(l) => {
                    let v: Vec<usize> = l.iter().map(|x| self.add(x.as_node())).collect();
                    self.rows[i].nss = Some(v);
                }
                Err(_) => self.rows[i].nss = None,
            }
        }
        if let Some(attrs) = n.attributes() {
            let mut v = vec![];
            for a in attrs.iter() {
                let k = self.add(a.as_node());
                // what the evaluator takes as the parent of the attribute node: its owner element
                // (looked up among the rows by id; it is the element being walked)
                if let Some(owner) = a.owner_element() {
                    let o = self.lookup(&owner.as_node());
                    self.rows[k].parent = o;
                }
                v.push(k);
            }
            self.rows[i].attrs = v;
        }
        // the value items of an attribute are not walked: the evaluator never asks for the children
        // of an attribute node (XPath attribute nodes have none), so they are not part of its view
        let ch: Vec<XmlNode> = if matches!(n, XmlNode::Attribute(_)) {
            vec![]
        } else {
            n.child_nodes().iter().collect()
        };
        let v: Vec<usize> = ch.into_iter().map(|c| self.add(c)).collect();
        self.rows[i].children = v;
        i
    }

    /// The evaluator's view of `doc` in the text view its context is in (shared with the `dom`
    /// domain, which dumps the table of an EDITED document with it: op `X`).
    pub fn build(doc: &XmlDocument) -> Table {
        let mut t = Table {
            rows: vec![],
            index: HashMap::new(),
        };
        t.add(doc.as_node());
        // parents (a parent that the walk did not reach is appended and walked too)
        let mut k = 0;
        while k < t.rows.len() {
            if !matches!(t.rows[k].node, XmlNode::Attribute(_)) {
                let p = t.rows[k].node.parent_node();
                t.rows[k].parent = p.map(|p| t.add(p));
            }
            k += 1;
        }
        t
    }

    fn name_of(n: &XmlNode) -> String {
        fn o(s: &Option<String>) -> String {
            match s {
                None => "~".to_string(),
                Some(s) => enc(s),
            }
        }
        match n.as_expanded_name() {
            Err(_) => "E".to_string(),
            Ok(None) => "!".to_string(),
            Ok(Some((l, p, u))) => format!("{}/{}/{}", enc(&l), o(&p), o(&u)),
        }
    }

    fn data_of(n: &XmlNode) -> String {
        match n {
            XmlNode::Element(_) | XmlNode::Document(_) | XmlNode::DocumentFragment(_) => {
                "~".to_string()
            }
            _ => match n.as_string_value() {
                Ok(s) => enc(&s),
                Err(_) => "E".to_string(),
            },
        }
    }

    /// one word per row: `kind;id;key;parent;children;attrs;nss;name;data` with the id and the key
    /// of row k printed by the caller (`id_of(node)`, `key_of(k)`)
    fn rows_with(&self, id_of: &dyn Fn(&XmlNode) -> String, key_of: &dyn Fn(usize) -> String) -> Vec<String> {
        fn l(v: &[usize]) -> String {
            if v.is_empty() {
                "-".to_string()
            } else {
                v.iter().map(|x| x.to_string()).collect::<Vec<_>>().join(".")
            }
        }
        let mut out = vec![];
        for (k, r) in self.rows.iter().enumerate() {
            out.push(format!(
                "{};{};{};{};{};{};{};{};{}",
                kind_of(&r.node),
                id_of(&r.node),
                key_of(k),
                r.parent.map(|p| p.to_string()).unwrap_or("-".to_string()),
                l(&r.children),
                l(&r.attrs),
                match &r.nss {
                    Some(v) => l(v),
                    None => "E".to_string(),
                },
                Table::name_of(&r.node),
                Table::data_of(&r.node)
            ));
        }
        out
    }

    fn dump(&self) -> String {
        let rows = self.rows_with(&|n| n.id().to_string(), &|k| self.rows[k].node.order().to_string());
        let mut out = format!("D {}", self.rows.len());
        for r in rows {
            out.push(' ');
            out.push_str(&r);
        }
        out
    }

    /// The same rows for a table whose ids and order keys are not comparable with the model's as
    /// numbers (the `dom` domain: ids are canonicalised by the caller -- handle indices there --
    /// and a key is printed as its rank among the distinct non-zero keys of the table, 0 staying 0:
    /// the evaluator only compares keys).  One word: `<n>+<row>+<row>...`.
    pub fn dump_canonical(&self, id_of: &dyn Fn(&XmlNode) -> String) -> String {
        let keys: Vec<usize> = self.rows.iter().map(|r| r.node.order()).collect();
        let mut sorted: Vec<usize> = keys.iter().copied().filter(|k| *k != 0).collect();
        sorted.sort();
        sorted.dedup();
        let rows = self.rows_with(id_of, &|k| {
            if keys[k] == 0 {
                "0".to_string()
            } else {
                (sorted.binary_search(&keys[k]).unwrap() + 1).to_string()
            }
        });
        let mut out = self.rows.len().to_string();
        for r in rows {
            out.push('+');
            out.push_str(&r);
        }
        out
    }

    fn show_node(&self, n: &XmlNode) -> String {
        match self.lookup(n) {
            Some(i) => i.to_string(),
            None => format!(
                "z{}:{}:{}",
                kind_of(n),
                Table::name_of(n),
                match n.as_string_value() {
                    Ok(s) => enc(&s),
                    Err(_) => "E".to_string(),
                }
            ),
        }
    }
}

// ------------------------------------------------------------------------------------ AST dump
// prefix notation, one token per word; every list is preceded by its length.

fn qname(q: &xml_nom::model::QName, out: &mut Vec<String>) {
    match q {
        xml_nom::model::QName::Prefixed(p) => {
            out.push("qp".into());
            out.push(enc(p.prefix));
            out.push(enc(p.local_part));
        }
        xml_nom::model::QName::Unprefixed(u) => {
            out.push("qu".into());
            out.push(enc(u));
        }
    }
}

fn d_or(e: &ast::OrExpr, out: &mut Vec<String>) {
    out.push("or".into());
    out.push(e.operands().len().to_string());
    for a in e.operands() {
        d_and(a, out);
    }
}

fn d_and(e: &ast::AndExpr, out: &mut Vec<String>) {
    out.push("and".into());
    out.push(e.operands().len().to_string());
    for a in e.operands() {
        d_eq(a, out);
    }
}

fn d_eq(e: &ast::EqualityExpr, out: &mut Vec<String>) {
    out.push("eq".into());
    d_rel(e.operand(), out);
    out.push(e.operations().len().to_string());
    for (op, a) in e.operations() {
        out.push(
            match op {
                ast::EqualityOperator::Equal => "=",
                ast::EqualityOperator::NotEqual => "!=",
            }
            .into(),
        );
        d_rel(a, out);
    }
}

fn d_rel(e: &ast::RelationalExpr, out: &mut Vec<String>) {
    out.push("rel".into());
    d_add(e.operand(), out);
    out.push(e.operations().len().to_string());
    for (op, a) in e.operations() {
        out.push(
            match op {
                ast::RelationalOperator::LessThan => "<",
                ast::RelationalOperator::GreaterThan => ">",
                ast::RelationalOperator::LessEqual => "<=",
                ast::RelationalOperator::GreaterEqual => ">=",
            }
            .into(),
        );
        d_add(a, out);
    }
}

fn d_add(e: &ast::AdditiveExpr, out: &mut Vec<String>) {
    out.push("add".into());
    d_mul(e.operand(), out);
    out.push(e.operations().len().to_string());
    for (op, a) in e.operations() {
        out.push(
            match op {
                ast::AdditiveOperator::Add => "+",
                ast::AdditiveOperator::Sub => "-",
            }
            .into(),
        );
        d_mul(a, out);
    }
}

fn d_mul(e: &ast::MultiplicativeExpr, out: &mut Vec<String>) {
    out.push("mul".into());
    d_unary(e.operand(), out);
    out.push(e.operations().len().to_string());
    for (op, a) in e.operations() {
        out.push(
            match op {
                ast::MultiplicativeOperator::Mul => "*",
                ast::MultiplicativeOperator::Div => "div",
                ast::MultiplicativeOperator::Mod => "mod",
            }
            .into(),
        );
        d_unary(a, out);
    }
}

fn d_unary(e: &ast::UnaryExpr, out: &mut Vec<String>) {
    out.push("un".into());
    out.push(e.inv().len().to_string());
    d_union(e.value(), out);
}

fn d_union(e: &ast::UnionExpr, out: &mut Vec<String>) {
    out.push("union".into());
    out.push(e.operands().len().to_string());
    for p in e.operands() {
        d_path(p, out);
    }
}

fn lpop(op: &ast::LocationPathOperator) -> String {
    match op {
        ast::LocationPathOperator::Current => "/".into(),
        ast::LocationPathOperator::DescendantOrSelfNode => "//".into(),
    }
}

fn d_path(e: &ast::PathExpr, out: &mut Vec<String>) {
    match e {
        ast::PathExpr::Root => out.push("root".into()),
        ast::PathExpr::Filter(f) => {
            out.push("pfilter".into());
            d_filter(f, out);
        }
        ast::PathExpr::Path(None, l) => {
            out.push("prel".into());
            d_relpath(l, out);
        }
        ast::PathExpr::Path(Some((None, op)), l) => {
            out.push("pabs".into());
            out.push(lpop(op));
            d_relpath(l, out);
        }
        ast::PathExpr::Path(Some((Some(f), op)), l) => {
            out.push("pfpath".into());
            d_filter(f, out);
            out.push(lpop(op));
            d_relpath(l, out);
        }
    }
}

fn d_filter(e: &ast::FilterExpr, out: &mut Vec<String>) {
    out.push("filter".into());
    d_primary(e.primary(), out);
    out.push(e.predicates().len().to_string());
    for p in e.predicates() {
        d_or(p, out);
    }
}

fn d_primary(e: &ast::PrimaryExpr, out: &mut Vec<String>) {
    match e {
        ast::PrimaryExpr::Variable(q) => {
            out.push("var".into());
            qname(q, out);
        }
        ast::PrimaryExpr::Expr(x) => {
            out.push("paren".into());
            d_or(x, out);
        }
        ast::PrimaryExpr::Literal(s) => {
            out.push("lit".into());
            out.push(enc(s));
        }
        ast::PrimaryExpr::Number(s) => {
            out.push("num".into());
            out.push(enc(s));
        }
        ast::PrimaryExpr::Function(f) => {
            out.push("fn".into());
            qname(f.name(), out);
            out.push(f.args().len().to_string());
            for a in f.args() {
                d_or(a, out);
            }
        }
    }
}

fn d_relpath(e: &ast::RelativeLocationPath, out: &mut Vec<String>) {
    out.push("relpath".into());
    d_step(e.operand(), out);
    out.push(e.operations().len().to_string());
    for (op, s) in e.operations() {
        out.push(lpop(op));
        d_step(s, out);
    }
}

fn d_step(e: &ast::Step, out: &mut Vec<String>) {
    match e {
        ast::Step::Current => out.push("dot".into()),
        ast::Step::Parent => out.push("dotdot".into()),
        ast::Step::Test(axis, test, preds) => {
            out.push("step".into());
            match axis {
                ast::AxisSpecifier::Abbreviated(s) => {
                    out.push("abbr".into());
                    out.push(enc(s));
                }
                ast::AxisSpecifier::Name(n) => {
                    out.push("axis".into());
                    out.push(
                        match n {
                            ast::AxisName::Ancestor => "ancestor",
                            ast::AxisName::AncestorOrSelf => "ancestor-or-self",
                            ast::AxisName::Attribute => "attribute",
                            ast::AxisName::Child => "child",
                            ast::AxisName::Descendant => "descendant",
                            ast::AxisName::DescendantOrSelf => "descendant-or-self",
                            ast::AxisName::Following => "following",
                            ast::AxisName::FollowingSibling => "following-sibling",
                            ast::AxisName::Namespace => "namespace",
                            ast::AxisName::Parent => "parent",
                            ast::AxisName::Preceding => "preceding",
                            ast::AxisName::PrecedingSibling => "preceding-sibling",
                            ast::AxisName::Current => "self",
                        }
                        .into(),
                    );
                }
            }
            match test {
                ast::NodeTest::Name(ast::NameTest::All) => out.push("t*".into()),
                ast::NodeTest::Name(ast::NameTest::Namespace(p)) => {
                    out.push("tns".into());
                    out.push(enc(p));
                }
                ast::NodeTest::Name(ast::NameTest::QName(q)) => {
                    out.push("tq".into());
                    qname(q, out);
                }
                ast::NodeTest::Type(t) => {
                    out.push("tt".into());
                    out.push(
                        match t {
                            ast::NodeType::Comment => "comment",
                            ast::NodeType::Text => "text",
                            ast::NodeType::PI => "pi",
                            ast::NodeType::Node => "node",
                        }
                        .into(),
                    );
                }
                ast::NodeTest::PI(s) => {
                    out.push("tpi".into());
                    out.push(enc(s));
                }
            }
            out.push(preds.len().to_string());
            for p in preds {
                d_or(p, out);
            }
        }
    }
}

pub fn dump_ast(e: &ast::Expr) -> String {
    let mut out = vec![];
    d_or(e, &mut out);
    out.join(" ")
}

// ------------------------------------------------------------------------------------ values

fn show_value(t: &Table, v: &Value) -> String {
    match v {
        Value::Boolean(b) => format!("b:{}", if *b { 1 } else { 0 }),
        Value::Number(x) => {
            let bits = if x.is_nan() {
                0x7ff8000000000000u64
            } else {
                x.to_bits()
            };
            format!("n:{:016x}", bits)
        }
        Value::Text(s) => format!("s:{}", enc(s)),
        Value::Node(l) => format!(
            "ns:{}",
            l.iter().map(|n| t.show_node(n)).collect::<Vec<_>>().join(".")
        ),
    }
}

fn show_err(e: &xml_xpath::eval::error::Error) -> String {
    use xml_xpath::eval::error::Error as E;
    match e {
        E::Dom(_) => "err:Dom".to_string(),
        E::InvalidType => "err:InvalidType".to_string(),
        E::InvalidArgumentCount(s) => format!("err:InvalidArgumentCount:{}", enc(s)),
        E::NotFoundFunction(s) => format!("err:NotFoundFunction:{}", enc(s)),
        E::NotFoundNamespace(s) => format!("err:NotFoundNamespace:{}", enc(s)),
        E::NotFoundVariable(s) => format!("err:NotFoundVariable:{}", enc(s)),
    }
}

// ------------------------------------------------------------------------------------ a case

/// `#bind p uri` / `#unbind p` (prefix `~` = the default binding): applied to the shared context
fn control(e: &str, ctx: &mut Context) -> bool {
    let w: Vec<&str> = e[1..].split(' ').filter(|s| !s.is_empty()).collect();
    match w.as_slice() {
        ["bind", p, u] => {
            ctx.add_ns(if *p == "~" { None } else { Some(p) }, u);
            true
        }
        ["unbind", p] => {
            ctx.remove_ns(if *p == "~" { None } else { Some(p) });
            true
        }
        _ => false,
    }
}

pub fn case(line: &str) -> String {
    let w: Vec<&str> = line.split(' ').filter(|s| !s.is_empty()).collect();
    if w.len() < 3 {
        return "badinput".to_string();
    }
    // view word: bit 0 merged-text view, bit 1 dump only, bit 2 "cold" run: the queries are ALSO
    // evaluated, in sequence with one context, on a second parse of the document that nothing has
    // read before (no dump, no serialisation), and their values are reported as `C` sections
    let view: u32 = w[0].parse().unwrap_or(0);
    let merged = view & 1 == 1;
    let dump_only = view & 2 == 2;
    let cold = view & 4 == 4;
    let text = match dec(w[1]) {
        Some(s) => s,
        None => return "badinput".to_string(),
    };
    let nb: usize = match w[2].parse() {
        Ok(n) => n,
        Err(_) => return "badinput".to_string(),
    };
    if w.len() < 3 + 2 * nb {
        return "badinput".to_string();
    }
    let mut ctx = Context::default();
    let mut binds: Vec<(Option<String>, String)> = vec![];
    for k in 0..nb {
        let p = w[3 + 2 * k];
        let u = match dec(w[4 + 2 * k]) {
            Some(s) => s,
            None => return "badinput".to_string(),
        };
        if p == "~" {
            ctx.add_ns(None, &u);
            binds.push((None, u.clone()));
        } else {
            match dec(p) {
                Some(p) => {
                    ctx.add_ns(Some(&p), &u);
                    binds.push((Some(p), u.clone()));
                }
                None => return "badinput".to_string(),
            }
        }
    }
    let mut exprs = vec![];
    for e in &w[3 + 2 * nb..] {
        match dec(e) {
            Some(s) => exprs.push(s),
            None => return "badinput".to_string(),
        }
    }
    let doc = match XmlDocument::from_raw_with_context(&text, xml_dom::Context::from_text_expanded(merged)) {
        Ok((rest, d)) if rest.is_empty() => d,
        _ => return "baddoc".to_string(),
    };
    // cold run first (before anything has looked at the other copy either)
    let mut cold_out: Vec<String> = vec![];
    if cold && !dump_only {
        if let Ok((rest2, doc2)) = XmlDocument::from_raw_with_context(&text, xml_dom::Context::from_text_expanded(merged)) {
            if rest2.is_empty() {
                let mut ctx2 = Context::default();
                for (p, u) in &binds {
                    ctx2.add_ns(p.as_deref(), u);
                }
                enum Cold {
                    Val(xml_xpath::eval::model::Value),
                    Txt(String),
                }
                let mut vals: Vec<Cold> = vec![];
                for e in &exprs {
                    if e.starts_with('#') {
                        control(e, &mut ctx2);
                        vals.push(Cold::Txt("ctl".to_string()));
                        continue;
                    }
                    let r = catch_unwind(AssertUnwindSafe(|| match xml_xpath::query(doc2.clone(), e, &mut ctx2) {
                        Ok(v) => Cold::Val(v),
                        Err(xml_xpath::error::Error::Eval(x)) => Cold::Txt(show_err(&x)),
                        Err(_) => Cold::Txt("err:Syntax".to_string()),
                    }));
                    vals.push(match r {
                        Ok(c) => c,
                        Err(_) => Cold::Txt("panic".to_string()),
                    });
                }
                let table2 = Table::build(&doc2);
                for v in &vals {
                    cold_out.push(match v {
                        Cold::Val(v) => format!("C {}", show_value(&table2, v)),
                        Cold::Txt(t) => format!("C {}", t),
                    });
                }
            }
        }
    }
    let table = Table::build(&doc);
    let dump0 = table.dump();
    let ser0 = format!("{}", doc);
    let mut asts = vec![];
    let mut results = vec![];
    for e in &exprs {
        if e.starts_with('#') {
            if !dump_only {
                control(e, &mut ctx);
                results.push(format!("R ctl P{},{}", ctx.get_position(), ctx.get_size()));
            }
            asts.push("A X".to_string());
            continue;
        }
        if dump_only {
            match catch_unwind(AssertUnwindSafe(|| match xml_xpath::expr::parse(e) {
                Ok((rest, q)) if rest.is_empty() => Some(dump_ast(&q)),
                _ => None,
            })) {
                Ok(Some(a)) => asts.push(format!("A {}", a)),
                _ => asts.push("A X".to_string()),
            }
            continue;
        }
        let parsed = catch_unwind(AssertUnwindSafe(|| match xml_xpath::expr::parse(e) {
            Ok((rest, q)) if rest.is_empty() => Some(dump_ast(&q)),
            _ => None,
        }));
        let r = match parsed {
            Err(_) => {
                asts.push("A X".to_string());
                "panic".to_string()
            }
            Ok(None) => {
                asts.push("A X".to_string());
                // what `query` answers for an expression it cannot parse (the context is untouched)
                match catch_unwind(AssertUnwindSafe(|| {
                    xml_xpath::query(doc.clone(), e, &mut ctx).is_err()
                })) {
                    Ok(true) => "err:Syntax".to_string(),
                    Ok(false) => "accepted-by-query-only".to_string(),
                    Err(_) => "panic".to_string(),
                }
            }
            Ok(Some(a)) => {
                asts.push(format!("A {}", a));
                let r = catch_unwind(AssertUnwindSafe(|| {
                    match xml_xpath::query(doc.clone(), e, &mut ctx) {
                        Ok(v) => show_value(&table, &v),
                        Err(xml_xpath::error::Error::Eval(x)) => show_err(&x),
                        Err(_) => "err:Syntax".to_string(),
                    }
                }));
                match r {
                    Ok(s) => s,
                    Err(_) => "panic".to_string(),
                }
            }
        };
        results.push(format!("R {} P{},{}", r, ctx.get_position(), ctx.get_size()));
    }
    let unchanged = format!("{}", doc) == ser0 && Table::build(&doc).dump() == dump0;
    let mut out = vec![dump0];
    out.extend(asts);
    out.extend(results);
    out.extend(cold_out);
    out.push(format!("U {}", if unchanged { 1 } else { 0 }));
    out.join(" # ")
}
