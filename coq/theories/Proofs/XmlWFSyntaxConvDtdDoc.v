(** * The converse direction for the DOCTYPE rung, part 4: markup declarations, the internal subset, the
    document type declaration and the document.

    [conv_document]: what the STRICT variant [q_parse_document] of the specification's grammar reads (the
    specification with QNames demanded inside content models, Proofs/XmlWFSyntaxConvDtdElem.v; it refines
    [Spec.XmlWF.parse_document]: [q_parse_document_spec]), with QNames where the namespace level wants them,
    matching end tags, no parameter-entity declarations and no parameter-entity references, the
    production `document` of the regenerated grammar accepts, and the typed document translates back to
    the specification's tree. *)
From Coq Require Import List NArith Arith Lia Bool.
From XmlRs Require Import Base.CPred Spec.XmlChars Model.Peg Gen.XmlcharGen Gen.GrammarXmlGen Model.ParseActions Model.Info Model.Display
     Proofs.XmlcharProofs Proofs.PegTermination Proofs.GrammarTermination Proofs.PegLemmas Proofs.PegInv Proofs.Expansion
     Proofs.DisplayLex Proofs.ActionLemmas Proofs.DisplayElem Proofs.DisplayRun Proofs.DisplayDoc Proofs.DisplayDtd
     Proofs.ParseInv Proofs.ParseInvElem Proofs.ParseInvDtd Proofs.ParseInvDoc
     Proofs.XmlWFSyntaxLex Proofs.XmlWFSyntaxElem Proofs.XmlWFSyntaxDoc Proofs.XmlWFSyntaxDtd Proofs.XmlWFSyntaxDtdElem Proofs.XmlWFSyntaxDtdDoc
     Proofs.XmlWFSyntaxConvLex Proofs.XmlWFSyntaxConvElem Proofs.XmlWFSyntaxConvDoc
     Proofs.XmlWFSyntaxConvDtd Proofs.XmlWFSyntaxConvDtdAtt Proofs.XmlWFSyntaxConvDtdElem.
From XmlRs Require Spec.XmlWF.
Import ListNotations.
Local Open Scope N_scope.

(** ** the strict variant of the specification's grammar above element type declarations *)
Definition q_markupdecl (fuel : nat) (s : str) : option (W.decl * str) :=
  match W.strip W.s_element s with Some r => q_elementdecl fuel r | None => W.p_markupdecl fuel s end.

Fixpoint q_intsubset (fuel : nat) (s : str) : option (list W.decl * str) :=
  match fuel with
  | O => None
  | Datatypes.S f =>
    match W.skipS s with
    | c :: t =>
      if c =? W.c_rbr then Some ([], t)
      else if c =? W.c_pct then
        match W.p_Name t with
        | Some (nm, c2 :: r) => if c2 =? W.c_semi then W.bind (q_intsubset f r) (fun '(l, rest) => Some (W.DPERef nm :: l, rest)) else None
        | _ => None
        end
      else W.bind (q_markupdecl f (W.skipS s)) (fun '(d, r) => W.bind (q_intsubset f r) (fun '(l, rest) => Some (d :: l, rest)))
    | [] => None
    end
  end.

Definition q_doctype (fuel : nat) (s : str) : option (W.doctype * str) :=
  W.bind (W.p_S s) (fun r => W.bind (W.p_Name r) (fun '(nm, r1) =>
  W.bind (match W.bind (W.p_S r1) (fun r' => W.p_ExternalID false r') with
          | Some (pub, sys, r'') => Some (W.extid_of pub sys, r'')
          | None => Some (None, r1) end) (fun '(id, r2) =>
  match W.skipS r2 with
  | c :: t =>
    if c =? W.c_lbr then
      W.bind (q_intsubset fuel t) (fun '(l, r3) => W.bind (W.p_close r3) (fun r4 =>
      Some ({| W.dt_name := nm; W.dt_extid := id; W.dt_subset := l |}, r4)))
    else if c =? W.c_gt then Some ({| W.dt_name := nm; W.dt_extid := id; W.dt_subset := [] |}, t)
    else None
  | [] => None
  end))).

Definition q_parse_document (s : str) : option W.xdoc :=
  let fuel := Datatypes.S (length s) in
  W.bind (match W.strip W.s_xmldecl_open s with
          | Some r => match W.p_xmldecl r with Some (d, r') => Some (Some d, r') | None => Some (None, s) end
          | None => Some (None, s) end) (fun '(xd, r0) =>
  let (m1, r1) := W.p_miscs fuel r0 in
  W.bind (match W.strip W.s_doctype r1 with
          | Some r => W.bind (q_doctype fuel r) (fun '(d, r') => let (m, r'') := W.p_miscs fuel r' in Some (Some d, m, r''))
          | None => Some (None, [], r1) end) (fun '(dt, m2, r2) =>
  W.bind (W.p_element fuel r2) (fun '(root, r3) =>
  let (m3, r4) := W.p_miscs fuel r3 in
  match r4 with
  | [] => Some {| W.x_decl := xd; W.x_misc1 := m1; W.x_doctype := dt; W.x_misc2 := m2; W.x_root := root; W.x_misc3 := m3 |}
  | _ :: _ => None
  end))).

Lemma q_markupdecl_spec fuel s x : q_markupdecl fuel s = Some x -> W.p_markupdecl fuel s = Some x.
Proof.
  unfold q_markupdecl. destruct (W.strip W.s_element s) as [r|] eqn:E; [|auto]. rewrite Wstrip_same in E. apply prefix_decomp in E. subst s.
  destruct x as [d r']. apply q_elementdecl_spec.
Qed.

Lemma q_intsubset_eq f (s : str) : q_intsubset (Datatypes.S f) s =
  match W.skipS s with
  | c :: t =>
    if c =? W.c_rbr then Some ([], t)
    else if c =? W.c_pct then
      match W.p_Name t with
      | Some (nm, c2 :: r) => if c2 =? W.c_semi then W.bind (q_intsubset f r) (fun '(l, rest) => Some (W.DPERef nm :: l, rest)) else None
      | _ => None
      end
    else W.bind (q_markupdecl f (W.skipS s)) (fun '(d, r) => W.bind (q_intsubset f r) (fun '(l, rest) => Some (d :: l, rest)))
  | [] => None
  end.
Proof. reflexivity. Qed.

Lemma q_intsubset_spec : forall fuel s x, q_intsubset fuel s = Some x -> W.p_intsubset fuel s = Some x.
Proof.
  induction fuel as [|f IH]; intros s x; [discriminate|]. rewrite q_intsubset_eq, intsubset_eq. destruct (W.skipS s) as [|c t]; [discriminate|].
  destruct (c =? W.c_rbr); [auto|]. destruct (c =? W.c_pct).
  - destruct (W.p_Name t) as [[nm [|c2 r]]|]; try discriminate. destruct (c2 =? W.c_semi); [|discriminate].
    destruct (q_intsubset f r) as [[l rest]|] eqn:E; [|discriminate]. cbn [W.bind]. rewrite (IH _ _ E). auto.
  - destruct (q_markupdecl f (c :: t)) as [[d r]|] eqn:E1; [|discriminate]. cbn [W.bind]. rewrite (q_markupdecl_spec _ _ _ E1). cbn [W.bind].
    destruct (q_intsubset f r) as [[l rest]|] eqn:E2; [|discriminate]. cbn [W.bind]. rewrite (IH _ _ E2). auto.
Qed.

Lemma q_doctype_spec fuel s x : q_doctype fuel s = Some x -> W.p_doctype fuel s = Some x.
Proof.
  unfold q_doctype, W.p_doctype. destruct (W.p_S s) as [r|]; [|discriminate]. cbn [W.bind]. destruct (W.p_Name r) as [[nm r1]|]; [|discriminate]. cbn [W.bind].
  match goal with |- W.bind ?X _ = _ -> _ => destruct X as [[id r2]|]; [|discriminate] end. cbn [W.bind].
  destruct (W.skipS r2) as [|c t]; [discriminate|]. destruct (c =? W.c_lbr); [|auto].
  destruct (q_intsubset fuel t) as [[l r3]|] eqn:E; [|discriminate]. cbn [W.bind]. rewrite (q_intsubset_spec _ _ _ E). auto.
Qed.

Lemma q_parse_document_spec s xd : q_parse_document s = Some xd -> W.parse_document s = Some xd.
Proof.
  unfold q_parse_document, W.parse_document. cbv zeta.
  match goal with |- W.bind ?X _ = _ -> _ => destruct X as [[xd0 r0]|]; [|discriminate] end. cbn [W.bind].
  destruct (W.p_miscs (Datatypes.S (length s)) r0) as [m1 r1]. destruct (W.strip W.s_doctype r1) as [r|]; [|auto].
  destruct (q_doctype (Datatypes.S (length s)) r) as [[d r']|] eqn:E; [|discriminate]. rewrite (q_doctype_spec _ _ _ E). auto.
Qed.

(** ** [29] markupdecl *)
(** what the namespace level asks of a declaration ([ns_decl], the QName part) and: no parameter entities *)
Definition dq_ok (d : W.decl) : bool :=
  match d with
  | W.DElement nm => is_QName nm
  | W.DAttlist el defs => is_QName el && forallb (fun '(a, _, _) => is_QName a) defs
  | W.DPEntity _ _ | W.DPERef _ => false
  | _ => true
  end.

Lemma markupdecl_none fuel (s : str) : prefix W.s_element s = None -> prefix W.s_attlist s = None -> prefix W.s_entity s = None ->
  prefix W.s_notation_decl s = None -> prefix W.s_comment_open s = None -> prefix W.s_pi_open s = None -> W.p_markupdecl fuel s = None.
Proof.
  intros H1 H2 H3 H4 H5 H6. unfold W.p_markupdecl. rewrite Wstrip_same, H1. cbv iota. rewrite Wstrip_same, H2. cbv iota. rewrite Wstrip_same, H3. cbv iota.
  rewrite Wstrip_same, H4. cbv iota. rewrite Wstrip_same, H5. cbv iota. rewrite Wstrip_same, H6. reflexivity.
Qed.

Lemma conv_markup_decl fuel (s : str) d r : q_markupdecl fuel s = Some (d, r) -> dq_ok d = true ->
  exists m, yields (NT nt_markup_decl) s (VMarkup m) r /\ x_markup m = d /\ ok_markup m = true.
Proof.
  unfold q_markupdecl. rewrite Wstrip_same. destruct (prefix W.s_element s) as [r0|] eqn:E1.
  { intros H Hq. pose proof E1 as E1'. apply prefix_decomp in E1. subst s.
    destruct (conv_element_decl _ _ _ _ H) as [de [Y [Ed Hqo]]].
    { unfold q_elementdecl in H. destruct (W.p_S r0); [|discriminate]. cbn [W.bind] in H. destruct (W.p_Name s) as [[nm r2]|]; [|discriminate]. cbn [W.bind] in H.
      destruct (W.p_S r2); [|discriminate]. cbn [W.bind] in H. destruct (q_contentspec fuel s0); [|discriminate]. cbn [W.bind] in H.
      destruct (W.p_close s1); [|discriminate]. cbn [W.bind] in H. injection H as <- _. exact Hq. }
    exists (MkElement de). split; [|split; [cbn [x_markup]; symmetry; exact Ed|reflexivity]].
    apply yields_nt. rewrite body_markup_decl. apply yields_alt_l. apply (yields_map' (VDeclElement de)); [reflexivity|exact Y]. }
  intros H Hq. assert (F (Map L_model_DeclarationMarkup_element (NT nt_element_decl)) s) as F1 by (apply fails_map; apply fails_element_decl; exact E1).
  destruct (prefix W.s_attlist s) as [r0|] eqn:E2.
  { pose proof E2 as E2'. apply prefix_decomp in E2. subst s. destruct (conv_attlist_decl _ _ _ _ H) as [da [Y [Ed [Hd _]]]].
    { destruct d; try exact I. exact Hq. }
    exists (MkAttributes da). split; [|split; [cbn [x_markup]; symmetry; exact Ed|exact Hd]].
    apply yields_nt. rewrite body_markup_decl. apply yields_alt_r; [exact F1|]. apply yields_alt_l. apply (yields_map' (VDeclAtt da)); [reflexivity|exact Y]. }
  assert (F (Map L_model_DeclarationMarkup_attributes (NT nt_attlist_decl)) s) as F2 by (apply fails_map; apply fails_attlist_decl; exact E2).
  destruct (prefix W.s_entity s) as [r0|] eqn:E3.
  { pose proof E3 as E3'. apply prefix_decomp in E3. subst s. rewrite markupdecl_entity in H.
    destruct (W.p_S r0) as [r1|] eqn:Es; [|discriminate]. cbn [W.bind] in H. destruct r1 as [|c t]; [discriminate|].
    destruct (c =? W.c_pct) eqn:Ep.
    { exfalso. destruct (W.p_S t) as [r2|]; [|discriminate]. cbn [W.bind] in H. destruct (W.p_Name r2) as [[nm r3]|]; [|discriminate]. cbn [W.bind] in H.
      destruct (W.p_S r3) as [r4|]; [|discriminate]. cbn [W.bind] in H. destruct (W.p_EntityValue fuel r4) as [[v r5]|].
      - destruct (W.p_close r5); [|discriminate]. cbn [W.bind] in H. injection H as <- _. discriminate Hq.
      - destruct (W.p_ExternalID false r4) as [[[pub sys] r5]|]; [|discriminate]. cbn [W.bind] in H. destruct (W.extid_of pub sys); [|discriminate]. cbn [W.bind] in H.
        destruct (W.p_close r5); [|discriminate]. cbn [W.bind] in H. injection H as <- _. discriminate Hq. }
    destruct (conv_ge_decl _ _ _ _ _ Es H) as [n [def [Y [Ed [Hn Hd]]]]].
    exists (MkEntity (DeGeneral n def)). split; [|split; [cbn [x_markup]; symmetry; exact Ed|cbn [ok_markup]; rewrite Hn, Hd; reflexivity]].
    apply yields_nt. rewrite body_markup_decl. apply yields_alt_r; [exact F1|]. apply yields_alt_r; [exact F2|]. apply yields_alt_l.
    apply (yields_map' (VDeclEntity (DeGeneral n def))); [reflexivity|]. apply yields_nt. rewrite body_entity_decl. apply yields_alt_l.
    apply (yields_map' (VGeneralEntity n def)); [reflexivity|exact Y]. }
  assert (F (Map L_model_DeclarationMarkup_from (NT nt_entity_decl)) s) as F3 by (apply fails_map; apply fails_entity_decl; exact E3).
  destruct (prefix W.s_notation_decl s) as [r0|] eqn:E4.
  { pose proof E4 as E4'. apply prefix_decomp in E4. subst s. destruct (conv_notation_decl _ _ _ _ H) as [dn [Y [Ed Hn]]].
    exists (MkNotation dn). split; [|split; [cbn [x_markup]; symmetry; exact Ed|exact Hn]].
    apply yields_nt. rewrite body_markup_decl. apply yields_alt_r; [exact F1|]. apply yields_alt_r; [exact F2|]. apply yields_alt_r; [exact F3|].
    apply yields_alt_l. apply (yields_map' (VDeclNotation dn)); [reflexivity|exact Y]. }
  assert (F (Map L_model_DeclarationMarkup_from (NT nt_notation_decl)) s) as F4 by (apply fails_map; apply fails_notation_decl; exact E4).
  destruct (prefix W.s_comment_open s) as [r0|] eqn:E5.
  { pose proof E5 as E5'. apply prefix_decomp in E5. subst s. rewrite markupdecl_comment in H.
    destruct (W.p_comment_body r0) as [[b r1]|] eqn:Eb; [|discriminate]. cbn [W.bind] in H. injection H as <- <-.
    exists (MkComment b). split; [|split; reflexivity].
    apply yields_nt. rewrite body_markup_decl. apply yields_alt_r; [exact F1|]. apply yields_alt_r; [exact F2|]. apply yields_alt_r; [exact F3|].
    apply yields_alt_r; [exact F4|]. apply yields_alt_r; [apply fails_map; apply fails_pi; reflexivity|].
    apply (yields_map' (VComment b)); [reflexivity|]. apply conv_comment. exact Eb. }
  destruct (prefix W.s_pi_open s) as [r0|] eqn:E6.
  { pose proof E6 as E6'. apply prefix_decomp in E6. subst s. rewrite markupdecl_pi in H. rewrite Wstrip_same, E6' in H. cbn [W.bind] in H.
    destruct (W.p_pi_body r0) as [[[tg dd] r1]|] eqn:Eb; [|discriminate]. cbn [W.bind] in H. injection H as <- <-.
    destruct (conv_pi _ _ _ _ Eb) as [Y Hn].
    exists (MkPI (PI tg dd)). split; [|split; [reflexivity|exact Hn]].
    apply yields_nt. rewrite body_markup_decl. apply yields_alt_r; [exact F1|]. apply yields_alt_r; [exact F2|]. apply yields_alt_r; [exact F3|].
    apply yields_alt_r; [exact F4|]. apply yields_alt_l. apply (yields_map' (VPI (PI tg dd))); [reflexivity|exact Y]. }
  rewrite (markupdecl_none fuel s E1 E2 E3 E4 E5 E6) in H. discriminate H.
Qed.

(** ** [28b] intSubset *)
Lemma yields_succ e (s : str) v r : nosep e = true -> yields e s v r -> exists t, S e s t r.
Proof. intros He [t [[f0 Hy] _]]. specialize (Hy f0 (le_n _)). exists t. exact (den_S _ _ _ _ _ Hy He). Qed.

Lemma ws_head_fails_markup (c : N) (u : str) : eval ws c = true -> F (Map L_model_InternalSubset_from (NT nt_markup_decl)) (c :: u).
Proof.
  intros Hc. assert (forall k, prefix (60 :: k) (c :: u) = None) as Hp.
  { intros k. cbn [prefix]. destruct (N.eqb_spec 60 c) as [<-|]; [vm_compute in Hc; discriminate|reflexivity]. }
  apply fails_map. apply fails_nt. rewrite body_markup_decl. repeat apply fails_alt; apply fails_map.
  - apply fails_element_decl. apply Hp.
  - apply fails_attlist_decl. apply Hp.
  - apply fails_entity_decl. apply Hp.
  - apply fails_notation_decl. apply Hp.
  - apply fails_pi. apply Hp.
  - apply fails_comment. apply Hp.
Qed.

Lemma ws_item (s : str) : W.skipS s <> s ->
  exists a, yields subset_item s (VIntSubset (IsWhitespace a)) (W.skipS s) /\ (length (W.skipS s) < length s)%nat.
Proof.
  intros Hne. destruct (skipS_inv s) as [a [Ha [Hst E]]]. destruct a as [|c a]; [exfalso; apply Hne; symmetry; exact E|].
  exists (c :: a). split.
  - unfold subset_item. rewrite E at 1. cbn [forallb] in Ha. apply andb_prop in Ha. destruct Ha as [Hc Ha'].
    apply yields_alt_r; [apply ws_head_fails_markup; exact Hc|]. apply yields_nt. rewrite body_decl_sep.
    apply yields_alt_r.
    + apply fails_map. apply fails_pe_reference. cbn [app prefix]. destruct (N.eqb_spec 37 c) as [<-|]; [vm_compute in Hc; discriminate|reflexivity].
    + apply (yields_map' (VStr (c :: a))); [reflexivity|]. apply yields_str. apply parses_chars1; [discriminate|cbn [forallb]; rewrite Hc, Ha'; reflexivity|exact Hst].
  - rewrite E at 2. rewrite app_length. cbn [length]. lia.
Qed.

Lemma conv_intsubset : forall fuel (s : str) l rest, q_intsubset fuel s = Some (l, rest) -> forallb dq_ok l = true ->
  exists items, many_yields subset_item s (map VIntSubset items) (93 :: rest) /\ x_subset items = l /\ ok_subset items = true.
Proof.
  induction fuel as [|f IH]; intros s l rest H Hq; [discriminate|]. rewrite q_intsubset_eq in H.
  (* first the white space, if any *)
  assert (Hcore : forall u : str, W.skipS s = u -> exists items, many_yields subset_item u (map VIntSubset items) (93 :: rest) /\ x_subset items = l /\ ok_subset items = true).
  { intros u Eu. rewrite Eu in H. destruct u as [|c t]; [discriminate|]. destruct (N.eqb_spec c W.c_rbr) as [->|Hc].
    - injection H as <- <-. exists []. split; [apply my_stop; apply subset_item_fails_end|split; reflexivity].
    - destruct (c =? W.c_pct) eqn:Ep.
      { exfalso. destruct (W.p_Name t) as [[nm [|c2 r]]|]; try discriminate. destruct (c2 =? W.c_semi); [|discriminate].
        destruct (q_intsubset f r) as [[l' rest']|]; [|discriminate]. cbn [W.bind] in H. injection H as <- _. discriminate Hq. }
      destruct (q_markupdecl f (c :: t)) as [[d r]|] eqn:Em; [|discriminate]. cbn [W.bind] in H.
      destruct (q_intsubset f r) as [[l' rest']|] eqn:Ei; [|discriminate]. cbn [W.bind] in H. injection H as <- <-.
      cbn [forallb] in Hq. apply andb_prop in Hq. destruct Hq as [Hqd Hql].
      destruct (conv_markup_decl _ _ _ _ Em Hqd) as [m [Ym [Xm Om]]]. destruct (IH _ _ _ Ei Hql) as [items [Hm [Hx Ho]]].
      exists (IsMarkup m :: items). split; [|split; [cbn [x_subset flat_map x_subset_item app]; fold (x_subset items); rewrite Xm, Hx; reflexivity|cbn [ok_subset forallb ok_subset_item]; rewrite Om; exact Ho]].
      cbn [map]. eapply my_step; [| |exact Hm].
      + unfold subset_item. apply yields_alt_l. apply (yields_map' (VMarkup m)); [reflexivity|exact Ym].
      + destruct (yields_succ (NT nt_markup_decl) _ _ _ eq_refl Ym) as [tm HS]. destruct (markup_decl_shape _ _ _ HS) as [s0 [_ Hl]]. exact Hl. }
  destruct (list_eq_dec N.eq_dec (W.skipS s) s) as [E|Hne].
  - apply Hcore. exact E.
  - destruct (ws_item s Hne) as [a [Ya Hl]]. destruct (Hcore (W.skipS s) eq_refl) as [items [Hm [Hx Ho]]].
    exists (IsWhitespace a :: items). split; [|split; [exact Hx|exact Ho]]. cbn [map]. eapply my_step; eassumption.
Qed.

(** ** [28] doctypedecl *)
Lemma bracket_fails_extid (u : str) c t : u = c :: t -> c = 91 \/ c = 62 -> F (NT nt_external_id) u.
Proof. intros -> [->| ->]; apply fails_external_id; reflexivity. Qed.

Lemma conv_doctype fuel (s' : str) dt r : q_doctype fuel s' = Some (dt, r) ->
  is_QName (W.dt_name dt) = true -> forallb dq_ok (W.dt_subset dt) = true ->
  exists dd, yields (NT nt_doctype_decl) (W.s_doctype ++ s') (VDeclDoc dd) r /\ x_doctype dd = dt /\ ok_subset (dd_internal_subset dd) = true.
Proof.
  unfold q_doctype. destruct (W.p_S s') as [r0|] eqn:E0; [|discriminate]. cbn [W.bind].
  destruct (W.p_Name r0) as [[nm r1]|] eqn:En; [|discriminate]. cbn [W.bind].
  destruct (conv_ws1 _ _ E0) as [a0 P0]. destruct (p_Name_inv _ _ _ En) as [Er0 [_ Hst]].
  (* the external identifier *)
  assert (forall id (r2 : str),
            match W.bind (W.p_S r1) (fun r' => W.p_ExternalID false r') with
            | Some (pub, sys, r'') => Some (W.extid_of pub sys, r'')
            | None => Some (None, r1) end = Some (id, r2) ->
            forall c t, W.skipS r2 = c :: t -> c = 91 \/ c = 62 ->
            exists xo, yields dt_S2 r1 (match xo with Some e => VSome (VExternalId e) | None => VNone end) (W.skipS r2) /\ option_map x_extid xo = id) as Hext.
  { intros id r2 H c t Esk Hc. destruct (conv_ws0 r2) as [a2 Pa2].
    destruct (W.bind (W.p_S r1) (fun r' => W.p_ExternalID false r')) as [[[pub sys] r'']|] eqn:Ex.
    - injection H as <- <-. destruct (W.p_S r1) as [ra|] eqn:Ea; [|discriminate Ex]. cbn [W.bind] in Ex.
      destruct sys as [y|]; [|exfalso; revert Ex; unfold W.p_ExternalID; destruct (W.strip W.s_system ra) as [rb|];
        [destruct (W.p_S rb) as [rc|]; [|discriminate]; cbn [W.bind]; destruct (W.p_SystemLiteral rc) as [[y rd]|]; discriminate|];
        destruct (W.strip W.s_public ra) as [rb|]; [|discriminate]; cbn [W.bind]; destruct (W.p_S rb) as [rc|]; [|discriminate]; cbn [W.bind];
        destruct (W.p_PubidLiteral rc) as [[p' rd]|]; [|discriminate]; cbn [W.bind];
        match goal with |- match ?X with _ => _ end = _ -> _ => destruct X as [[y re]|] end; discriminate].
      destruct (conv_external_id _ _ _ _ _ Ex) as [x [Yx [Ep Es]]]. destruct (conv_ws1 _ _ Ea) as [aa Paa].
      exists (Some x). split; [|cbn [option_map]; rewrite <- Ep, <- Es; symmetry; apply extid_of_x].
      unfold dt_S2. eapply yields_seql; [|exact Pa2]. apply yields_opt_some. eapply yields_seqr; [exact Paa|exact Yx].
    - injection H as <- <-. exists None. split; [|reflexivity]. unfold dt_S2. eapply yields_seql; [|exact Pa2].
      apply yields_opt_none. destruct (W.p_S r1) as [ra|] eqn:Ea.
      + destruct (conv_ws1 _ _ Ea) as [aa Paa]. eapply fails_seqr_r; [exact Paa|]. apply p_S_skipS in Ea. rewrite Esk in Ea. subst ra.
        eapply bracket_fails_extid; [reflexivity|exact Hc].
      + apply fails_seqr_l. apply fails_chars1. unfold W.p_S in Ea. destruct (W.span W.isS r1) as [a b] eqn:E.
        destruct (Wspan_inv _ _ _ _ E) as [-> [Ha Hb]]. destruct a; [exact Hb|discriminate]. }
  match goal with |- W.bind ?X _ = _ -> _ => destruct X as [[id r2]|] eqn:Eid; [|discriminate] end. cbn [W.bind].
  destruct (W.skipS r2) as [|c t] eqn:Esk; [discriminate|].
  destruct (N.eqb_spec c W.c_lbr) as [->|Hc].
  - destruct (q_intsubset fuel t) as [[l r3]|] eqn:Ei; [|discriminate]. cbn [W.bind]. destruct (W.p_close r3) as [r4|] eqn:Ec; [|discriminate]. cbn [W.bind].
    intros H. injection H as <- <-. cbn [W.dt_name W.dt_subset]. intros Hq Hql.
    destruct (Hext id r2 eq_refl 91 t Esk (or_introl eq_refl)) as [xo [Yx Exo]]. rewrite Esk in Yx.
    destruct (conv_intsubset _ _ _ _ Ei Hql) as [items [Hm [Hx Ho]]]. destruct (QName_qname nm Hq) as [q [Hqo Eq]].
    unfold W.p_close in Ec. destruct (conv_ws0 r3) as [a3 Pa3]. destruct (W.skipS r3) as [|c3 t3]; [discriminate|].
    destruct (N.eqb_spec c3 W.c_gt) as [->|]; [|discriminate]. injection Ec as <-.
    exists (DeclDoc q xo items). split; [|split; [unfold x_doctype; cbn [dd_name dd_external_id dd_internal_subset]; rewrite Eq, Exo, Hx; reflexivity|exact Ho]].
    apply yields_nt. rewrite body_doctype_decl. fold dt_S2. fold dt_S3. eapply yields_map'; [apply (al_decl_doc q xo items true)|].
    eapply yields_seq.
    + exists (tree_qname q). split; [|apply eval_tree_qname].
      eapply parses_seqr; [eapply parses_seq; [apply (parses_tag G_xml [60;33;68;79;67;84;89;80;69])|exact P0]|].
      rewrite Er0, <- Eq. apply parses_qname; [exact Hqo|exact Hst].
    + eapply yields_seq; [exact Yx|]. unfold dt_S3. eapply yields_seql; [|apply (parses_tag G_xml [62] t3)].
      apply yields_opt_some. eapply yields_seqr; [apply (parses_tag G_xml [91] t)|].
      eapply yields_seql; [apply yields_nt; rewrite body_int_subset; apply yields_many0; exact Hm|].
      eapply parses_seq; [apply (parses_tag G_xml [93] r3)|exact Pa3].
  - destruct (N.eqb_spec c W.c_gt) as [->|]; [|discriminate]. intros H. injection H as <- <-. cbn [W.dt_name W.dt_subset]. intros Hq _.
    destruct (Hext id r2 eq_refl 62 t Esk (or_intror eq_refl)) as [xo [Yx Exo]]. rewrite Esk in Yx. destruct (QName_qname nm Hq) as [q [Hqo Eq]].
    exists (DeclDoc q xo []). split; [|split; [unfold x_doctype; cbn [dd_name dd_external_id dd_internal_subset]; rewrite Eq, Exo; reflexivity|reflexivity]].
    apply yields_nt. rewrite body_doctype_decl. fold dt_S2. fold dt_S3. eapply yields_map'; [apply (al_decl_doc q xo [] false)|].
    eapply yields_seq.
    + exists (tree_qname q). split; [|apply eval_tree_qname].
      eapply parses_seqr; [eapply parses_seq; [apply (parses_tag G_xml [60;33;68;79;67;84;89;80;69])|exact P0]|].
      rewrite Er0, <- Eq. apply parses_qname; [exact Hqo|exact Hst].
    + eapply yields_seq; [exact Yx|]. unfold dt_S3. eapply yields_seql; [|apply (parses_tag G_xml [62] t)].
      apply yields_opt_none. apply fails_seqr_l. apply fails_tag. reflexivity.
Qed.

(** ** [1] document *)
Definition dt_ok (xd : W.xdoc) : bool :=
  match W.x_doctype xd with Some dt => is_QName (W.dt_name dt) && forallb dq_ok (W.dt_subset dt) | None => true end.

Theorem conv_document (s : str) (xd : W.xdoc) : q_parse_document s = Some xd -> xok (W.x_root xd) = true -> dt_ok xd = true ->
  exists pd, ParseActions.parse_document s = POk (pd, []) /\ x_doc pd = xd /\ ok_doc pd = true.
Proof.
  unfold q_parse_document. set (fuel := Datatypes.S (length s)). intros H Hok Hdt.
  (* the XML declaration *)
  assert (exists (xo : option decl_xml) r0,
            match W.strip W.s_xmldecl_open s with
            | Some r => match W.p_xmldecl r with Some (d, r') => Some (Some d, r') | None => Some (None, s) end
            | None => Some (None, s) end = Some (option_map x_xmldecl xo, r0) /\
            yields (Opt (NT nt_xml_decl)) s (match xo with Some x => VSome (VDeclXml x) | None => VNone end) r0) as [xo [r0 [Ex Yx]]].
  { destruct (W.strip W.s_xmldecl_open s) as [r|] eqn:E1.
    - rewrite Wstrip_same in E1. pose proof E1 as E1'. apply prefix_decomp in E1. destruct (W.p_xmldecl r) as [[d r']|] eqn:E2.
      + destruct (conv_xml_decl _ _ _ E2) as [x [Y Xx]]. exists (Some x), r'. split; [cbn [option_map]; rewrite Xx; reflexivity|]. rewrite E1. apply yields_opt_some. exact Y.
      + exists None, s. split; [reflexivity|]. apply yields_opt_none. apply fails_of_no_succ. intros t r1 HS.
        apply syn_xml_decl in HS. destruct HS as [x [s' [_ [Es Hp]]]]. rewrite E1 in Es. apply app_inv_head in Es. subst s'. congruence.
    - exists None, s. split; [reflexivity|]. apply yields_opt_none. apply fails_xml_decl_tag. rewrite <- Wstrip_same. exact E1. }
  rewrite Ex in H. cbn [W.bind] in H.
  destruct (W.p_miscs fuel r0) as [m1 r1] eqn:Em1.
  (* what follows the optional DOCTYPE: the root element and the trailing Misc *)
  assert (Htail : forall (r2 : str) root r3 m3, W.p_element fuel r2 = Some (root, r3) -> W.p_miscs fuel r3 = (m3, []) -> xok root = true ->
            exists e ms3, yields (NT nt_element) r2 (VElement e) r3 /\ many_yields (NT nt_misc) r3 (map VMisc ms3) [] /\ x_elem e = root /\ x_miscs ms3 = m3
                          /\ d04_elem e = true /\ forallb d04_misc ms3 = true /\ misc_stop r2 /\ prefix [60;33;68;79;67;84;89;80;69] r2 = None).
  { intros r2 root r3 m3 Ee Em3 Hokr. destruct (conv_element _ _ _ _ Ee Hokr) as [e [Ye [Xe [De Oe]]]].
    destruct (conv_miscs _ _ _ _ Em3 misc_stop_nil) as [ms3 [Hm3 [Xm3 Dm3]]].
    exists e, ms3. repeat split; try assumption.
    all: destruct (yields_succ (NT nt_element) _ _ _ eq_refl Ye) as [te HS]; destruct (element_start _ _ _ HS) as [c [s0 [-> Hc]]]; destruct (start_tests c s0 Hc) as [H1 [_ H3]].
    - exact (proj1 H1). - exact (proj1 (proj2 H1)). - exact (proj2 (proj2 H1)). - rewrite <- Wstrip_same. exact H3. }
  destruct (W.strip W.s_doctype r1) as [rd|] eqn:Ed.
  - (* with a document type declaration *)
    rewrite Wstrip_same in Ed. apply prefix_decomp in Ed. subst r1.
    destruct (q_doctype fuel rd) as [[dt r']|] eqn:Edt; [|discriminate H]. cbn [W.bind] in H.
    destruct (W.p_miscs fuel r') as [m2 r2] eqn:Em2. cbn [W.bind] in H.
    destruct (W.p_element fuel r2) as [[root r3]|] eqn:Ee; [|discriminate H]. cbn [W.bind] in H.
    destruct (W.p_miscs fuel r3) as [m3 r4] eqn:Em3. destruct r4 as [|c4 r4]; [|discriminate H]. injection H as <-.
    cbn [W.x_root] in Hok. unfold dt_ok in Hdt. cbn [W.x_doctype] in Hdt. apply andb_prop in Hdt. destruct Hdt as [Hqn Hql].
    destruct (Htail _ _ _ _ Ee Em3 Hok) as (e & ms3 & Ye & Hm3 & Xe & Xm3 & De & Dm3 & Hstop2 & _).
    destruct (conv_doctype _ _ _ _ Edt Hqn Hql) as [dd [Yd [Xd Od]]].
    destruct (conv_miscs _ _ _ _ Em1 (proj1 (doctype_start_tests rd))) as [ms1 [Hm1 [Xm1 Dm1]]].
    destruct (conv_miscs _ _ _ _ Em2 Hstop2) as [ms2 [Hm2 [Xm2 Dm2]]].
    exists (Document (Prolog xo ms1 (Some dd) ms2) e ms3). split; [|split].
    + unfold ParseActions.parse_document. eapply (parse_with_yields _ _ _ (VDocument (Document (Prolog xo ms1 (Some dd) ms2) e ms3))); [|reflexivity].
      apply yields_nt. rewrite body_document. eapply yields_map'; [apply al_document|]. eapply yields_seq.
      * apply yields_nt. rewrite body_prolog. eapply yields_map'; [apply (al_prolog_some xo ms1 dd ms2)|].
        eapply yields_seq; [exact Yx|]. eapply yields_seq; [apply yields_many0; exact Hm1|].
        apply yields_opt_some. eapply yields_seq; [exact Yd|apply yields_many0; exact Hm2].
      * eapply yields_seq; [exact Ye|]. apply yields_many0. exact Hm3.
    + unfold x_doc. cbn [d_prolog pr_declaration_xml pr_heads pr_declaration_doc pr_tails d_element d_miscs option_map]. rewrite Xm1, Xd, Xm2, Xe, Xm3. reflexivity.
    + unfold ok_doc. cbn [d_prolog pr_heads pr_declaration_doc pr_tails d_element d_miscs]. rewrite Dm1, Od, Dm2, De, Dm3. reflexivity.
  - (* without *)
    cbn [W.bind] in H. destruct (W.p_element fuel r1) as [[root r3]|] eqn:Ee; [|discriminate H]. cbn [W.bind] in H.
    destruct (W.p_miscs fuel r3) as [m3 r4] eqn:Em3. destruct r4 as [|c4 r4]; [|discriminate H]. injection H as <-. cbn [W.x_root] in Hok.
    destruct (Htail _ _ _ _ Ee Em3 Hok) as (e & ms3 & Ye & Hm3 & Xe & Xm3 & De & Dm3 & Hstop1 & Hnodt).
    destruct (conv_miscs _ _ _ _ Em1 Hstop1) as [ms1 [Hm1 [Xm1 Dm1]]].
    exists (Document (Prolog xo ms1 None []) e ms3). split; [|split].
    + unfold ParseActions.parse_document. eapply (parse_with_yields _ _ _ (VDocument (Document (Prolog xo ms1 None []) e ms3))); [|reflexivity].
      apply yields_nt. rewrite body_document. eapply yields_map'; [apply al_document|]. eapply yields_seq.
      * apply yields_nt. rewrite body_prolog. eapply yields_map'; [apply (al_prolog_none xo ms1)|].
        eapply yields_seq; [exact Yx|]. eapply yields_seq; [apply yields_many0; exact Hm1|].
        apply yields_opt_none. apply fails_seq_l. apply fails_doctype_tag. exact Hnodt.
      * eapply yields_seq; [exact Ye|]. apply yields_many0. exact Hm3.
    + unfold x_doc. cbn [d_prolog pr_declaration_xml pr_heads pr_declaration_doc pr_tails d_element d_miscs option_map]. rewrite Xm1, Xe, Xm3. reflexivity.
    + unfold ok_doc. cbn [d_prolog pr_heads pr_declaration_doc pr_tails d_element d_miscs forallb]. rewrite Dm1, De, Dm3. reflexivity.
Qed.
