(** * C02, rung 2 (syntax), part 3: XML declaration, Misc, prolog and document -- for documents
    WITHOUT a document type declaration.

    [syn_document_nodoctype]: when the production `document` of the regenerated grammar derives the
    whole string, the typed document has no DOCTYPE and the names at Name positions are Names
    ([d04_doc], exclusion of finding D04), then [Spec.XmlWF.parse_document] accepts the string and
    returns the translation [x_doc] of the typed document. *)
From Coq Require Import List NArith Arith Lia Bool.
From XmlRs Require Import Base.CPred Spec.XmlChars Model.Peg Gen.XmlcharGen Gen.GrammarXmlGen Model.ParseActions Model.Info Model.Display
     Proofs.XmlcharProofs Proofs.PegTermination Proofs.PegLemmas Proofs.PegInv Proofs.Expansion
     Proofs.DisplayLex Proofs.ActionLemmas Proofs.DisplayElem Proofs.DisplayDoc Proofs.ParseInv Proofs.ParseInvElem
     Proofs.XmlWFSyntaxLex Proofs.XmlWFSyntaxElem.
From XmlRs Require Spec.XmlWF.
Import ListNotations.
Local Open Scope N_scope.

(** ** translation *)
Definition x_xmldecl (d : decl_xml) : W.xmldecl :=
  {| W.xd_version := dx_version d; W.xd_encoding := dx_encoding d; W.xd_standalone := dx_standalone d |}.
Definition x_misc (m : misc) : list W.xcontent :=
  match m with MiComment c => [W.XComment c] | MiPI p => [x_pi p] | MiWhitespace _ => [] end.
Definition x_miscs (l : list misc) : list W.xcontent := flat_map x_misc l.
Definition d04_misc (m : misc) : bool := match m with MiPI p => d04_pi p | _ => true end.

(** ** [23] XMLDecl *)
Lemma quoted_by_app {A} (p : str -> option (A * str)) (q : N) (s : str) (a : A) (r : str) :
  q = 39 \/ q = 34 -> p s = Some (a, q :: r) -> W.p_quoted_by p (q :: s) = Some (a, r).
Proof.
  intros Hq Hp. unfold W.p_quoted_by. assert (W.isQuote q = true) as -> by (destruct Hq; subst q; reflexivity).
  rewrite Hp. cbn [W.bind]. rewrite N.eqb_refl. reflexivity.
Qed.

Lemma syn_version_num s t r : S (NT nt_version_num) s t r -> exists v : str, t = TStr v /\ W.p_VersionNum s = Some (v, r).
Proof.
  intros H. inv_nt H body_version_num. invs.
  match goal with H : ?c ++ ?r = ?x ++ ?y ++ ?r |- _ => assert (c = x ++ y) as Hc' by (apply (app_inv_tail r); rewrite <- app_assoc; exact H); subst c end.
  eexists. split; [reflexivity|]. unfold W.p_VersionNum. rewrite <- app_assoc. change W.s_one_dot with [49;46]. rewrite Wstrip_app. cbn [W.bind].
  match goal with Ha : forallb (eval dec_digits) ?a = true |- _ => srw (Wspan_app W.isDigit a r) end.
  - match goal with Hn : ?a <> [] |- _ => destruct a; [contradiction|reflexivity] end.
  - apply (forallb_ext' (eval dec_digits)); [apply digit_class|assumption].
  - match goal with Hr : stops (eval dec_digits) r |- _ => eapply stops_ext; [|exact Hr]; apply digit_class end.
Qed.

Lemma syn_pseudo_head kw s t r : S (Seq (Chars1 ws) (Seq (Tag kw) (NT nt_eq))) s t r -> W.p_pseudo kw s = Some r.
Proof.
  intros H. inv H. match goal with H : succ _ (Seq _ _) _ _ _ |- _ => inv H end.
  match goal with H : succ _ (Chars1 ws) _ _ _ |- _ => apply syn_ws1 in H; destruct H as [Hws _] end.
  match goal with H : succ _ (Tag _) _ _ _ |- _ => inv H end.
  match goal with H : succ _ (NT nt_eq) _ _ _ |- _ => apply syn_eq in H; rename H into Heq end.
  unfold W.p_pseudo. rewrite Hws. cbn [W.bind]. rewrite Wstrip_app. cbn [W.bind]. exact Heq.
Qed.

Lemma syn_version_info s t r : S (NT nt_version_info) s t r ->
  exists (v r1 : str), t = TStr v /\ W.p_pseudo W.s_version s = Some r1 /\ W.p_quoted_by W.p_VersionNum r1 = Some (v, r).
Proof.
  intros H. inv_nt H body_version_info.
  match goal with H : succ _ (SeqR _ _) _ _ _ |- _ => inv H end.
  match goal with H : succ _ (Seq (Chars1 ws) _) _ _ _ |- _ => apply syn_pseudo_head in H end.
  inv_alt; invs; match goal with H : succ _ (NT nt_version_num) _ _ _ |- _ => apply syn_version_num in H; destruct H as [v [-> Hv]] end;
    exists v; eexists; (split; [reflexivity|]); (split; [eassumption|]); cbn [app]; apply quoted_by_app; auto.
Qed.

Lemma alpha_start c : eval alpha c = eval spec_EncNameStart c.
Proof. reflexivity. Qed.

Lemma p_EncName_app (a b r : str) : a <> [] -> forallb (eval alpha) a = true -> forallb (eval is_enc_name) b = true ->
  stops (eval is_enc_name) r -> W.p_EncName ((a ++ b) ++ r) = Some (a ++ b, r).
Proof.
  intros Hn Ha Hb Hr. destruct a as [|c0 a']; [contradiction|]. cbn [forallb] in Ha. apply andb_prop in Ha. destruct Ha as [Hc0 Ha'].
  cbn [app]. unfold W.p_EncName. rewrite <- alpha_start, Hc0.
  assert (W.span (eval spec_EncNameChar) ((a' ++ b) ++ r) = (a' ++ b, r)) as E.
  { apply Wspan_app.
    - rewrite forallb_app. apply andb_true_intro. split.
      + revert Ha'. apply forallb_impl. intros c1 Hc1. rewrite <- is_enc_name_equiv. apply alpha_enc. exact Hc1.
      + apply (forallb_ext' (eval is_enc_name)); [apply is_enc_name_equiv|assumption].
    - eapply stops_ext; [|exact Hr]. apply is_enc_name_equiv. }
  rewrite E. reflexivity.
Qed.

Lemma syn_enc_name s t r : S (NT nt_enc_name) s t r -> exists e : str, t = TStr e /\ W.p_EncName s = Some (e, r).
Proof.
  intros H. inv_nt H body_enc_name. unfold xc_enc_name0 in *. invs.
  match goal with H : ?c ++ ?r = ?x ++ ?y ++ ?r |- _ => assert (c = x ++ y) as Hc' by (apply (app_inv_tail r); rewrite <- app_assoc; exact H); subst c end.
  eexists. split; [reflexivity|]. apply p_EncName_app; assumption.
Qed.

Lemma syn_encoding_decl s t r : S (NT nt_encoding_decl) s t r ->
  exists (e r1 : str), t = TStr e /\ W.p_pseudo W.s_encoding s = Some r1 /\ W.p_quoted_by W.p_EncName r1 = Some (e, r).
Proof.
  intros H. inv_nt H body_encoding_decl.
  match goal with H : succ _ (SeqR _ _) _ _ _ |- _ => inv H end.
  match goal with H : succ _ (Seq (Chars1 ws) _) _ _ _ |- _ => apply syn_pseudo_head in H end.
  inv_alt; invs; match goal with H : succ _ (NT nt_enc_name) _ _ _ |- _ => apply syn_enc_name in H; destruct H as [v [-> Hv]] end;
    exists v; eexists; (split; [reflexivity|]); (split; [eassumption|]); cbn [app]; apply quoted_by_app; auto.
Qed.

Lemma syn_sd_decl s t r : S (NT nt_sd_decl) s t r ->
  exists (b : bool) (r1 : str), eval_tree t = VBool b /\ W.p_pseudo W.s_standalone s = Some r1 /\ W.p_quoted_by W.p_yesno r1 = Some (b, r).
Proof.
  intros H. inv_nt H body_sd_decl.
  match goal with H : succ _ (Map _ _) _ _ _ |- _ => inv H end.
  match goal with H : succ _ (SeqR _ _) _ _ _ |- _ => inv H end.
  match goal with H : succ _ (Seq (Chars1 ws) _) _ _ _ |- _ => apply syn_pseudo_head in H end.
  repeat inv_alt; invs; eexists; eexists; (split; [reflexivity|]); (split; [eassumption|]); reflexivity.
Qed.

Lemma pseudo_none kw s : W.strip kw (W.skipS s) = None -> W.p_pseudo kw s = None.
Proof.
  intros H. unfold W.p_pseudo, W.p_S. unfold W.skipS in H. destruct (W.span W.isS s) as [[|c a] b]; [reflexivity|].
  cbn [snd] in H. cbn [W.bind]. rewrite H. reflexivity.
Qed.

(** what can follow the version / encoding pseudo-attributes when the optional ones are absent *)
Lemma skipS_of_pseudo kw s t r : S (Seq (Chars1 ws) (Seq (Tag kw) (NT nt_eq))) s t r -> exists r', W.skipS s = kw ++ r'.
Proof.
  intros H. inv H. match goal with H : succ _ (Seq _ _) _ _ _ |- _ => inv H end.
  match goal with H : succ _ (Chars1 ws) _ _ _ |- _ => apply syn_ws1 in H; destruct H as [_ Hws] end.
  match goal with H : succ _ (Tag _) _ _ _ |- _ => inv H end. eexists. eassumption.
Qed.

Lemma skipS_of_sd s t r : S (NT nt_sd_decl) s t r -> exists r', W.skipS s = W.s_standalone ++ r'.
Proof.
  intros H. inv_nt H body_sd_decl.
  match goal with H : succ _ (Map _ _) _ _ _ |- _ => inv H end.
  match goal with H : succ _ (SeqR _ _) _ _ _ |- _ => inv H end.
  match goal with H : succ _ (Seq (Chars1 ws) _) _ _ _ |- _ => apply skipS_of_pseudo in H end. assumption.
Qed.

Lemma skipS_of_close s t r : S (Seq (Chars0 ws) (Tag [63;62])) s t r -> W.skipS s = W.s_pi_close ++ r.
Proof.
  intros H. inv H. match goal with H : succ _ (Chars0 ws) _ _ _ |- _ => apply syn_ws0 in H; rename H into Hws end.
  match goal with H : succ _ (Tag _) _ _ _ |- _ => inv H end. assumption.
Qed.

Lemma syn_xml_decl s t r : S (NT nt_xml_decl) s t r ->
  exists x s', eval_tree t = VDeclXml x /\ s = W.s_xmldecl_open ++ s' /\ W.p_xmldecl s' = Some (x_xmldecl x, r).
Proof.
  intros H. inv_nt H body_xml_decl.
  match goal with H : succ _ (Map _ _) _ _ _ |- _ => inv H end.
  match goal with H : succ _ (SeqR _ _) _ _ _ |- _ => inv H end.
  match goal with H : succ _ (SeqL _ _) _ _ _ |- _ => inv H end.
  match goal with H : succ _ (Seq (NT nt_version_info) _) _ _ _ |- _ => inv H end.
  match goal with H : succ _ (Seq (Opt _) _) _ _ _ |- _ => inv H end.
  match goal with H : succ _ (Tag [60;63;120;109;108]) _ _ _ |- _ => inv H end.
  match goal with H : succ _ (NT nt_version_info) _ _ _ |- _ => apply syn_version_info in H; destruct H as [v [rv [-> [Hv1 Hv2]]]] end.
  match goal with H : succ _ (Seq (Chars0 ws) (Tag [63;62])) _ _ _ |- _ => apply skipS_of_close in H; rename H into Hclose end.
  match goal with H : succ _ (Opt (NT nt_encoding_decl)) _ _ _ |- _ => inv H end;
  match goal with H : succ _ (Opt (NT nt_sd_decl)) _ _ _ |- _ => inv H end;
  try match goal with H : succ _ (NT nt_encoding_decl) _ _ _ |- _ => apply syn_encoding_decl in H; destruct H as [en [re [-> [He1 He2]]]] end;
  try match goal with H : succ _ (NT nt_sd_decl) _ _ _ |- _ => pose proof (skipS_of_sd _ _ _ H) as Hsk; apply syn_sd_decl in H; destruct H as [b [rs [Eb [Hs1 Hs2]]]] end.
  - eexists (DeclXml v (Some en) (Some b)). eexists. split; [cbn [eval_tree]; rewrite Eb; reflexivity|]. split; [reflexivity|].
    unfold W.p_xmldecl. rewrite Hv1. cbn [W.bind]. rewrite Hv2. cbn [W.bind]. rewrite He1, He2. cbn [W.bind]. rewrite Hs1, Hs2. cbn [W.bind].
    rewrite Hclose, Wstrip_app. reflexivity.
  - eexists (DeclXml v (Some en) None). eexists. split; [reflexivity|]. split; [reflexivity|].
    unfold W.p_xmldecl. rewrite Hv1. cbn [W.bind]. rewrite Hv2. cbn [W.bind]. rewrite He1, He2. cbn [W.bind].
    rewrite (pseudo_none W.s_standalone) by (rewrite Hclose; reflexivity). cbn [W.bind].
    rewrite Hclose, Wstrip_app. reflexivity.
  - eexists (DeclXml v None (Some b)). eexists. split; [cbn [eval_tree]; rewrite Eb; reflexivity|]. split; [reflexivity|].
    unfold W.p_xmldecl. rewrite Hv1. cbn [W.bind]. rewrite Hv2. cbn [W.bind].
    rewrite (pseudo_none W.s_encoding) by (destruct Hsk as [r' ->]; reflexivity). cbn [W.bind]. rewrite Hs1, Hs2. cbn [W.bind].
    rewrite Hclose, Wstrip_app. reflexivity.
  - eexists (DeclXml v None None). eexists. split; [reflexivity|]. split; [reflexivity|].
    unfold W.p_xmldecl. rewrite Hv1. cbn [W.bind]. rewrite Hv2. cbn [W.bind].
    rewrite (pseudo_none W.s_encoding) by (rewrite Hclose; reflexivity). cbn [W.bind].
    rewrite (pseudo_none W.s_standalone) by (rewrite Hclose; reflexivity). cbn [W.bind].
    rewrite Hclose, Wstrip_app. reflexivity.
Qed.

(** ** [27] Misc *)
Lemma miscs_comment f s' : W.p_miscs (Datatypes.S f) (W.s_comment_open ++ s') =
  match W.p_comment_body s' with
  | Some (b, r) => let (l, rest) := W.p_miscs f r in (W.XComment b :: l, rest)
  | None => ([], W.s_comment_open ++ s') end.
Proof. reflexivity. Qed.
Lemma miscs_pi f s' : W.p_miscs (Datatypes.S f) (W.s_pi_open ++ s') =
  match W.p_pi_body s' with
  | Some (tg, d, r) => let (l, rest) := W.p_miscs f r in (W.XPI tg d :: l, rest)
  | None => ([], W.s_pi_open ++ s') end.
Proof. reflexivity. Qed.

Lemma miscs_stop f t : misc_stop t -> W.p_miscs f t = ([], t).
Proof.
  intros [H1 [H2 H3]]. destruct f as [|f]; [reflexivity|]. cbn [W.p_miscs]. rewrite (p_S_stops t H3).
  rewrite !Wstrip_same. change W.s_comment_open with [60;33;45;45]. change W.s_pi_open with [60;63]. unfold str, char in *. rewrite H1. rewrite Wstrip_same, H2. reflexivity.
Qed.

Lemma syn_misc s t r : S (NT nt_misc) s t r ->
  exists m, eval_tree t = VMisc m /\ (length r < length s)%nat /\
    (d04_misc m = true -> forall f, W.p_miscs (Datatypes.S f) s = (let (l, rest) := W.p_miscs f r in (x_misc m ++ l, rest))).
Proof.
  intros H. inv_nt H body_misc. repeat inv_alt; invs.
  - match goal with H : succ _ (NT nt_comment) _ _ _ |- _ => pose proof (comment_lt _ _ _ H) as Hlt; apply syn_comment in H; destruct H as [c [s' [Ec [-> Hc]]]] end.
    exists (MiComment c). split; [cbn [eval_tree]; rewrite Ec; reflexivity|]. split; [exact Hlt|]. intros _ f.
    rewrite miscs_comment, Hc. reflexivity.
  - match goal with H : succ _ (NT nt_pi) _ _ _ |- _ => pose proof (pi_lt _ _ _ H) as Hlt; apply syn_pi in H; destruct H as [p [s' [Ep [-> Hp]]]] end.
    exists (MiPI p). split; [cbn [eval_tree]; rewrite Ep; reflexivity|]. split; [exact Hlt|]. cbn [d04_misc]. intros Hd f.
    rewrite miscs_pi, (Hp Hd). reflexivity.
  - eexists (MiWhitespace _). split; [reflexivity|]. split.
    { rewrite app_length. match goal with H : ?a <> [] |- _ => destruct a; [contradiction|cbn [length]; lia] end. }
    intros _ f. cbn [W.p_miscs]. rewrite p_S_app by assumption. cbn [x_misc app]. destruct (W.p_miscs f r); reflexivity.
Qed.

Lemma syn_miscs s ts r : SM (NT nt_misc) s ts r -> misc_stop r ->
  exists l, map eval_tree ts = map VMisc l /\
    (forallb d04_misc l = true -> forall fuel, (length s < fuel)%nat -> W.p_miscs fuel s = (x_miscs l, r)).
Proof.
  intros H Hst. remember (NT nt_misc) as ex eqn:Ee. induction H as [ex s|ex s t r1 ts r Hs Hlt Hm IH]; subst ex.
  - exists []. split; [reflexivity|]. intros _ fuel _. apply miscs_stop. exact Hst.
  - destruct (IH eq_refl Hst) as [l [El Hl]]. apply syn_misc in Hs. destruct Hs as [m [Em [_ Hm']]].
    exists (m :: l). split; [cbn [map]; rewrite Em, El; reflexivity|]. cbn [forallb]. intros Hd fuel Hf.
    apply andb_prop in Hd. destruct Hd as [Hd0 Hd]. destruct fuel as [|f]; [lia|].
    rewrite (Hm' Hd0 f). rewrite (Hl Hd f) by lia. reflexivity.
Qed.

(** where an element starts, no Misc, no XML declaration and no DOCTYPE start *)
Lemma element_start s t r : S (NT nt_element) s t r -> exists c s0, s = 60 :: c :: s0 /\ eval spec_NameStartChar c = true.
Proof.
  intros H.
  inv_nt H body_element. inv_alt.
  - match goal with H : succ _ (NT nt_empty_entity_tag) _ _ _ |- _ => inv_nt H body_empty_tag end. fold attr_item in *.
    match goal with H : succ _ (Map _ _) _ _ _ |- _ => inv H end.
    match goal with H : succ _ (SeqR _ _) _ _ _ |- _ => inv H end.
    match goal with H : succ _ (SeqL _ _) _ _ _ |- _ => inv H end.
    match goal with H : succ _ (Tag [60]) _ _ _ |- _ => inv H end.
    match goal with H : succ _ (Seq (NT nt_qname) _) _ _ _ |- _ => inv H end.
    match goal with H : succ _ (NT nt_qname) _ _ _ |- _ => apply inv_qname in H; destruct H as [q [_ [Hq [-> _]]]] end.
    apply qname_is_Name in Hq. destruct (d_qname q) as [|c n]; [discriminate|]. cbn [is_Name] in Hq. apply andb_prop in Hq.
    cbn [app]. exists c. eexists. split; [reflexivity|tauto].
  - match goal with H : succ _ (Map _ _) _ _ _ |- _ => inv H end.
    match goal with H : succ _ (VerifyEq _ _ _) _ _ _ |- _ => inv H end.
    match goal with H : succ _ (Seq (NT nt_stag) _) _ _ _ |- _ => inv H end.
    match goal with H : succ _ (NT nt_stag) _ _ _ |- _ => inv_nt H body_stag end. fold attr_item in *.
    match goal with H : succ _ (Map _ (SeqR (Tag [60]) _)) _ _ _ |- _ => inv H end.
    match goal with H : succ _ (SeqR (Tag [60]) _) _ _ _ |- _ => inv H end.
    match goal with H : succ _ (SeqL _ _) _ _ _ |- _ => inv H end.
    match goal with H : succ _ (Tag [60]) _ _ _ |- _ => inv H end.
    match goal with H : succ _ (Seq (NT nt_qname) _) _ _ _ |- _ => inv H end.
    match goal with H : succ _ (NT nt_qname) _ _ _ |- _ => apply inv_qname in H; destruct H as [q [_ [Hq [-> _]]]] end.
    apply qname_is_Name in Hq. destruct (d_qname q) as [|c n]; [discriminate|]. cbn [is_Name] in Hq. apply andb_prop in Hq.
    cbn [app]. exists c. eexists. split; [reflexivity|tauto].
Qed.

Lemma start_tests c s0 : eval spec_NameStartChar c = true ->
  misc_stop (60 :: c :: s0) /\ W.strip W.s_xmldecl_open (60 :: c :: s0) = None /\ W.strip W.s_doctype (60 :: c :: s0) = None.
Proof.
  intros Hc.
  assert ((33 =? c) = false) as E2 by (destruct (N.eqb_spec 33 c) as [<-|]; [vm_compute in Hc; discriminate|reflexivity]).
  assert ((63 =? c) = false) as E3 by (destruct (N.eqb_spec 63 c) as [<-|]; [vm_compute in Hc; discriminate|reflexivity]).
  unfold misc_stop, W.s_xmldecl_open, W.s_doctype. cbn [prefix W.strip stops]. change (60 =? 60) with true. cbv iota. rewrite E2, E3.
  repeat split; reflexivity.
Qed.

Lemma misc_stop_nil : misc_stop [].
Proof. repeat split. Qed.

(** a PI is never mistaken for an XML declaration: its target is not `xml` *)
Lemma xmldecl_needs_S r : W.p_S r = None -> W.p_xmldecl r = None.
Proof. intros H. unfold W.p_xmldecl, W.p_pseudo. rewrite H. reflexivity. Qed.

Lemma pi_not_xmldecl s t r : S (NT nt_pi) s t r ->
  match W.strip W.s_xmldecl_open s with Some r' => W.p_xmldecl r' = None | None => True end.
Proof.
  intros H. inv_nt H body_pi.
  match goal with H : succ _ (Map _ _) _ _ _ |- _ => inv H end.
  match goal with H : succ _ (SeqR _ _) _ _ _ |- _ => inv H end.
  match goal with H : succ _ (SeqL _ _) _ _ _ |- _ => inv H end.
  match goal with H : succ _ (Seq _ _) _ _ _ |- _ => inv H end.
  match goal with H : succ _ (Tag [60;63]) _ _ _ |- _ => inv H end.
  match goal with H : succ _ (NT nt_pi_target) _ _ _ |- _ => inv_nt H body_pi_target end.
  match goal with H : succ _ (TakeExcept _ _) _ _ _ |- _ => inv H end.
  match goal with H : succ _ (NT nt_name) _ _ _ |- _ => apply inv_name in H; destruct H as [n [_ [Hn [E Hst]]]] end.
  match goal with H : ?v ++ ?r = ?n ++ ?r |- _ => apply app_inv_tail in H; subst v end.
  match goal with H : ci_reject _ _ = false |- _ => rename H into Hx end.
  match type of Hst with stops _ ?r1 =>
  change (W.strip W.s_xmldecl_open ([60;63] ++ n ++ r1)) with (prefix [120;109;108] (n ++ r1));
  destruct (prefix [120;109;108] (n ++ r1)) as [r'|] eqn:Ep; [|exact I];
  apply xmldecl_needs_S; apply prefix_decomp in Ep;
  destruct r' as [|c r'']; [reflexivity|]; destruct (eval ws c) eqn:Ec; [|apply p_S_stops; exact Ec];
  exfalso; assert (stops (eval is_name_char) (c :: r'')) as Hst2 by
    (cbn [stops]; revert Ec; apply (disj_sound ws is_name_char); vm_compute; reflexivity);
  pose proof (span_app (eval is_name_char) n r1 Hn Hst) as E1;
  pose proof (span_app (eval is_name_char) [120;109;108] (c :: r'') eq_refl Hst2) as E2;
  unfold str, char in *; rewrite Ep in E1; rewrite E1 in E2; injection E2 as -> _; discriminate Hx end.
Qed.

Lemma no_xmldecl_here s ts r1 : SM (NT nt_misc) s ts r1 -> W.strip W.s_xmldecl_open r1 = None ->
  match W.strip W.s_xmldecl_open s with Some r' => W.p_xmldecl r' = None | None => True end.
Proof.
  intros H E. inv H.
  - rewrite E. exact I.
  - match goal with H : succ _ (NT nt_misc) _ _ _ |- _ => inv_nt H body_misc end. repeat inv_alt; invs.
    + match goal with H : succ _ (NT nt_comment) _ _ _ |- _ => apply syn_comment in H; destruct H as [cm [s' [_ [-> _]]]] end. exact I.
    + match goal with H : succ _ (NT nt_pi) _ _ _ |- _ => apply pi_not_xmldecl in H; exact H end.
    + match goal with Hn : ?a <> [], Ha : forallb (eval ws) ?a = true |- _ => destruct a as [|c1 a]; [contradiction|];
        cbn [forallb] in Ha; apply andb_prop in Ha; destruct Ha as [Hc1 _] end.
      cbn [app]. unfold W.s_xmldecl_open. cbn [W.strip].
      destruct (N.eqb_spec 60 c1) as [<-|]; [vm_compute in Hc1; discriminate|exact I].
Qed.

(** ** the document without a DOCTYPE *)
Definition prolog_val (x hs t : val) : val :=
  match as_opt as_decl_xml x, as_list as_misc hs, as_opt as_doc_tail t with
  | Some x', Some hs', Some t' =>
    VProlog (Prolog x' hs' (match t' with Some (d, _) => Some d | None => None end) (match t' with Some (_, ms) => ms | None => [] end))
  | _, _, _ => VBad
  end.

Definition x_doc_nodt (pd : pdoc) : W.xdoc :=
  {| W.x_decl := option_map x_xmldecl (pr_declaration_xml (d_prolog pd));
     W.x_misc1 := x_miscs (pr_heads (d_prolog pd));
     W.x_doctype := None;
     W.x_misc2 := [];
     W.x_root := x_elem (d_element pd);
     W.x_misc3 := x_miscs (d_miscs pd) |}.

Definition d04_doc_nodt (pd : pdoc) : bool :=
  forallb d04_misc (pr_heads (d_prolog pd)) && d04_elem (d_element pd) && forallb d04_misc (d_miscs pd).

Lemma prolog_val_eq x hs t : apply_label L_model_Prolog_from (VPair x (VPair hs t)) = prolog_val x hs t.
Proof. reflexivity. Qed.

Lemma prolog_val_doctype x hs v ms p : prolog_val x hs (VSome (VPair v ms)) = VProlog p -> pr_declaration_doc p <> None.
Proof.
  unfold prolog_val. destruct (as_opt as_decl_xml x); [|discriminate]. destruct (as_list as_misc hs); [|discriminate].
  cbn [as_opt]. destruct (as_doc_tail (VPair v ms)) as [[d0 l0]|]; [|discriminate]. intros H. injection H as <-. discriminate.
Qed.

Lemma document_val P e ms pd : apply_label L_model_Document_from (VPair P (VPair (VElement e) (VList (map VMisc ms)))) = VDocument pd ->
  exists p, P = VProlog p /\ pd = Document p e ms.
Proof.
  intros H. destruct P; try discriminate H. rewrite al_document in H. injection H as <-. eauto.
Qed.

Theorem syn_document_nodoctype s t pd :
  S (NT nt_document) s t [] -> eval_tree t = VDocument pd -> pr_declaration_doc (d_prolog pd) = None ->
  d04_doc_nodt pd = true -> W.parse_document s = Some (x_doc_nodt pd).
Proof.
  intros H Et Hnd Hd. inv_nt H body_document.
  match goal with H : succ _ (Map _ _) _ _ _ |- _ => inv H end.
  match goal with H : succ _ (Seq (NT nt_prolog) _) _ _ _ |- _ => inv H end.
  match goal with H : succ _ (Seq (NT nt_element) _) _ _ _ |- _ => inv H end.
  match goal with H : succ _ (Many0 _) _ _ _ |- _ => inv H end.
  match goal with H : succ _ (NT nt_element) _ _ _ |- _ => pose proof (element_start _ _ _ H) as Hstart;
    destruct (syn_element _ _ _ _ (le_n _) H) as [e [s' [Ee [Es [Hle He]]]]] end.
  match goal with H : succ_many _ (NT nt_misc) _ _ _ |- _ => destruct (syn_miscs _ _ _ H misc_stop_nil) as [m3 [Em3 Hm3]] end.
  match goal with H : succ _ (NT nt_prolog) _ _ _ |- _ => pose proof (succ_suffix _ _ _ _ _ H) as Hsuf0; inv_nt H body_prolog end.
  match goal with H : succ _ (Map _ _) _ _ _ |- _ => inv H end.
  match goal with H : succ _ (Seq (Opt (NT nt_xml_decl)) _) _ _ _ |- _ => inv H end.
  match goal with H : succ _ (Seq (Many0 _) _) _ _ _ |- _ => inv H end.
  match goal with H : succ _ (Many0 _) _ _ _ |- _ => inv H end.
  (* the typed document *)
  cbn [eval_tree] in Et. rewrite Ee, Em3, prolog_val_eq in Et.
  destruct (document_val _ _ _ _ Et) as [p [Ep ->]]. cbn [d_prolog] in Hnd.
  match goal with H : succ _ (Opt (Seq (NT nt_doctype_decl) _)) _ _ _ |- _ => inv H end.
  { exfalso. match goal with H : succ _ (Seq (NT nt_doctype_decl) _) _ _ _ |- _ => inv H end.
    match goal with H : succ _ (Many0 _) _ _ _ |- _ => inv H end.
    cbn [eval_tree] in Ep. apply prolog_val_doctype in Ep. contradiction. }
  destruct Hstart as [c [s0 [Es' Hc]]]. injection Es' as ->. destruct (start_tests c s0 Hc) as [Hstop [Hnox Hnodt]].
  match goal with H : succ_many _ (NT nt_misc) _ _ _ |- _ => pose proof H as Hm1; destruct (syn_miscs _ _ _ H Hstop) as [m1 [Em1 Hm1']] end.
  cbn [eval_tree] in Ep. rewrite Em1 in Ep.
  match goal with H : succ _ (Opt (NT nt_xml_decl)) _ _ _ |- _ => pose proof (succ_suffix _ _ _ _ _ H) as Hsuf1; inv H end.
  - (* with an XML declaration *)
    match goal with H : succ _ (NT nt_xml_decl) _ _ _ |- _ => apply syn_xml_decl in H; destruct H as [x [s'' [Ex [-> Hx]]]] end.
    cbn [eval_tree] in Ep. rewrite Ex in Ep. rewrite <- prolog_val_eq in Ep. rewrite (al_prolog_none (Some x) m1) in Ep. injection Ep as <-.
    unfold d04_doc_nodt in Hd. cbn [d_prolog pr_heads d_element d_miscs] in Hd.
    apply andb_prop in Hd. destruct Hd as [Hd Hd3]. apply andb_prop in Hd. destruct Hd as [Hd1 Hd2].
    apply suffix_length in Hsuf0. apply suffix_length in Hsuf1. cbn [length] in *.
    unfold W.parse_document. rewrite Wstrip_app, Hx. cbn [W.bind].
    rewrite (Hm1' Hd1) by slia. rewrite Hnodt. cbn [W.bind].
    unfold W.p_element. change (60 =? W.c_lt) with true. cbv iota.
    rewrite (He Hd2) by slia. cbn [W.bind]. rewrite (Hm3 Hd3) by slia. reflexivity.
  - (* without *)
    cbn [eval_tree] in Ep. rewrite <- prolog_val_eq in Ep. rewrite (al_prolog_none None m1) in Ep. injection Ep as <-.
    unfold d04_doc_nodt in Hd. cbn [d_prolog pr_heads d_element d_miscs] in Hd.
    apply andb_prop in Hd. destruct Hd as [Hd Hd3]. apply andb_prop in Hd. destruct Hd as [Hd1 Hd2].
    apply suffix_length in Hsuf0. cbn [length] in *.
    pose proof (no_xmldecl_here _ _ _ Hm1 Hnox) as Hno.
    unfold W.parse_document.
    match type of Hno with match W.strip _ ?s1 with _ => _ end =>
    assert (match W.strip W.s_xmldecl_open s1 with
            | Some r => match W.p_xmldecl r with Some (d, r') => Some (Some d, r') | None => Some (None, s1) end
            | None => Some (None, s1) end = Some (None, s1)) as -> by
     (destruct (W.strip W.s_xmldecl_open s1); [rewrite Hno|]; reflexivity) end.
    cbn [W.bind].
    rewrite (Hm1' Hd1) by slia. rewrite Hnodt. cbn [W.bind].
    unfold W.p_element. change (60 =? W.c_lt) with true. cbv iota.
    rewrite (He Hd2) by slia. cbn [W.bind]. rewrite (Hm3 Hd3) by slia. reflexivity.
Qed.

(** at the entry point xml_parser::document of the model *)
Theorem parse_document_syntax_nodoctype (s : str) (pd : pdoc) :
  ParseActions.parse_document s = POk (pd, []) -> pr_declaration_doc (d_prolog pd) = None -> d04_doc_nodt pd = true ->
  W.parse_document s = Some (x_doc_nodt pd).
Proof.
  unfold ParseActions.parse_document, parse_with. intros Hp Hnd Hd.
  destruct (run G_xml G_xml_R nt_document s) as [[t rest]| |] eqn:Er; try discriminate.
  destruct (eval_tree t) eqn:Et; try discriminate. injection Hp as -> ->.
  apply run_succ in Er. eapply syn_document_nodoctype; eassumption.
Qed.
