(** * C04, converse direction, rung 3: the document type declaration as the parser returns it.

    Element declarations and parameter-entity declarations are not inverted: XmlDocument::new
    drops the former and refuses the latter, so only the TYPE of their value matters, and that
    follows from the fact that the whole tree evaluated to a well-typed value (the conditional
    form [eval_tree t = VMarkup m -> markup_ok m]). *)
From Coq Require Import List NArith Arith Lia Bool.
From XmlRs Require Import Base.CPred Model.Peg Gen.XmlcharGen Gen.GrammarXmlGen Model.ParseActions Model.Info Model.Display
     Proofs.PegTermination Proofs.PegLemmas Proofs.PegInv Proofs.Expansion
     Proofs.DisplayLex Proofs.ActionLemmas Proofs.DisplayElem Proofs.DisplayDoc Proofs.DisplayDtd
     Proofs.ParseInv Proofs.ParseInvElem Proofs.ParseInvBuild.
Import ListNotations.
Local Open Scope N_scope.

(** ** character classes with exceptions *)
Lemma notin_spec (l : list N) c : eval (NotIn l) c = negb (existsb (N.eqb c) l).
Proof.
  cbn [eval]. f_equal. induction l as [|x l IH]; cbn [existsb]; [reflexivity|]. rewrite IH. f_equal.
  destruct (N.eqb_spec c x) as [->|Hne].
  - rewrite N.leb_refl. cbn [andb]. apply N.ltb_lt. lia.
  - destruct (N.leb_spec x c); cbn [andb]; [|reflexivity]. apply N.ltb_ge. lia.
Qed.

Lemma char_except_spec (l : list N) c : eval (is_char_except l) c = eval is_char c && negb (existsb (N.eqb c) l).
Proof. unfold is_char_except. cbn [eval]. fold (eval (NotIn l) c). rewrite notin_spec. reflexivity. Qed.

(** changing the LAST exception (the quote) to a character that does not occur *)
Lemma except_swap_gen (pre : list N) q q' (s : str) : forallb (eval (is_char_except (pre ++ [q]))) s = true ->
  existsb (N.eqb q') s = false -> forallb (eval (is_char_except (pre ++ [q']))) s = true.
Proof.
  induction s as [|c s IH]; cbn [forallb existsb]; [reflexivity|]. intros H1 H2.
  apply andb_prop in H1. destruct H1 as [Hc Hs]. apply orb_false_elim in H2. destruct H2 as [Hq Hs2].
  rewrite (IH Hs Hs2), andb_true_r. rewrite char_except_spec in *. apply andb_prop in Hc. destruct Hc as [Hch Hex].
  rewrite Hch. cbn [andb]. apply negb_true_iff. apply negb_true_iff in Hex. rewrite existsb_app in *.
  apply orb_false_elim in Hex. destruct Hex as [Hpre _]. rewrite Hpre. cbn [orb existsb]. rewrite orb_false_r.
  rewrite N.eqb_sym. exact Hq.
Qed.

Lemma except_weaken (l : list N) (s : str) : forallb (eval (is_char_except l)) s = true -> forallb (eval is_char) s = true.
Proof.
  intros H. rewrite forallb_forall in *. intros c Hc. specialize (H c Hc). rewrite char_except_spec in H.
  apply andb_prop in H. tauto.
Qed.

(** ** literals *)
Definition syslit_src_ok (x : str) : Prop := exists q, (q = 34 \/ q = 39) /\ forallb (eval (is_char_except [q])) x = true.

Lemma syslit_of_src x : syslit_src_ok x -> syslit_ok x.
Proof.
  intros [q [Hq Hx]]. unfold syslit_ok, str_quote. destruct (existsb (N.eqb 34) x) eqn:E.
  - destruct Hq as [-> | ->]; [|exact Hx]. exfalso.
    rewrite (except_no_char [34] x 34 (or_introl eq_refl) Hx) in E. discriminate.
  - apply (except_swap_gen [] q 34 x Hx E).
Qed.

Lemma inv_system_literal s t r : S (NT nt_system_literal) s t r -> exists x : str, t = TStr x /\ syslit_src_ok x.
Proof.
  intros H. inv_nt H body_system_literal. inv_alt; invs.
  - eexists. split; [reflexivity|]. exists 34. split; [left; reflexivity|assumption].
  - eexists. split; [reflexivity|]. exists 39. split; [right; reflexivity|assumption].
Qed.

Lemma pubid_except_weaken (l : list N) (s : str) : forallb (eval (is_pubid_char_except l)) s = true -> pubid_ok s.
Proof.
  unfold pubid_ok. intros H. rewrite forallb_forall in *. intros c Hc. specialize (H c Hc).
  unfold is_pubid_char_except in H. cbn [eval] in H. apply andb_prop in H. destruct H as [H _]. exact H.
Qed.

Lemma inv_pubid_literal s t r : S (NT nt_pubid_literal) s t r -> exists x : str, t = TStr x /\ pubid_ok x.
Proof.
  intros H. inv_nt H body_pubid_literal. inv_alt; invs.
  - match goal with H : succ _ (NT nt_multipubidchar0) _ _ _ |- _ => inv_nt H body_multipubidchar0 end. invs.
    eexists. split; [reflexivity|assumption].
  - eexists. split; [reflexivity|]. eapply pubid_except_weaken. eassumption.
Qed.

Definition p_external_ok (x : external_id) : Prop :=
  match x with ExSystem s => syslit_src_ok s | ExPublic p s => pubid_ok p /\ syslit_src_ok s end.

Lemma inv_external_id s t r : S (NT nt_external_id) s t r -> exists x, eval_tree t = VExternalId x /\ p_external_ok x.
Proof.
  intros H. inv_nt H body_external_id. inv_alt; invs.
  - match goal with H : succ _ (NT nt_system_literal) _ _ _ |- _ => apply inv_system_literal in H; destruct H as [x [-> Hx]] end.
    exists (ExSystem x). split; [reflexivity|exact Hx].
  - match goal with H : succ _ (NT nt_system_literal) _ _ _ |- _ => apply inv_system_literal in H; destruct H as [x [-> Hx]] end.
    match goal with H : succ _ (NT nt_pubid_literal) _ _ _ |- _ => apply inv_pubid_literal in H; destruct H as [p [-> Hp]] end.
    exists (ExPublic p x). split; [reflexivity|split; assumption].
Qed.

Lemma ext_ok_of_src x : p_external_ok x -> ext_ok (Some (fst (external_id_parts x))) (snd (external_id_parts x)).
Proof.
  destruct x as [s|p s]; cbn [p_external_ok external_id_parts fst snd ext_ok].
  - apply syslit_of_src.
  - intros [Hp Hs]. split; [apply syslit_of_src; exact Hs|exact Hp].
Qed.

(** ** entity values *)
Fixpoint p_ev_ok (q : N) (after_text : bool) (l : list entity_value) : Prop :=
  match l with
  | [] => True
  | EvText s :: l' => after_text = false /\ s <> [] /\ forallb (eval (is_char_except [37;38;q])) s = true /\ p_ev_ok q true l'
  | EvReference x :: l' => reference_ok x /\ p_ev_ok q false l'
  | EvPeReference n :: l' => name_ok n /\ p_ev_ok q false l'
  end.

Lemma inv_pe_reference s t r : S (NT nt_pe_reference) s t r -> exists n : str, t = TStr n /\ name_ok n.
Proof.
  intros H. inv_nt H body_pe_reference. invs.
  match goal with H : succ _ (NT nt_name) _ _ _ |- _ => apply inv_name in H; destruct H as [n [-> [Hn _]]] end.
  exists n. split; [reflexivity|exact Hn].
Qed.

Lemma inv_ev_many q s ts r : SM (ev_piece q) s ts r ->
  forall b, (b = true -> stops (eval (is_char_except [37;38;q])) s) ->
  exists l, map eval_tree ts = map VEntityValue l /\ p_ev_ok q b l.
Proof.
  intros H. remember (ev_piece q) as e eqn:Ee. induction H as [e s|e s t r1 ts r Hs Hlt Hm IH]; intros b Hb; subst e.
  - exists []. split; [reflexivity|exact I].
  - specialize (IH eq_refl). unfold ev_piece in Hs. inv Hs; [|inv_alt]; invs.
    + destruct (IH true) as [l [El Hl]]; [intros _; assumption|].
      exists (EvText a :: l). split; [cbn [map eval_tree]; rewrite El; reflexivity|].
      cbn [p_ev_ok]. repeat split; try assumption.
      destruct b; [|reflexivity]. exfalso. eapply stops_nonempty_contra; [| |apply Hb; reflexivity]; eassumption.
    + match goal with H : succ _ (NT nt_pe_reference) _ _ _ |- _ => apply inv_pe_reference in H; destruct H as [n [-> Hn]] end.
      destruct (IH false) as [l [El Hl]]; [intros; discriminate|].
      exists (EvPeReference n :: l). split; [cbn [map eval_tree]; rewrite El; reflexivity|]. cbn [p_ev_ok]. split; assumption.
    + match goal with H : succ _ (NT nt_reference) _ _ _ |- _ => apply inv_reference in H; destruct H as [x [Ex Hx]] end.
      destruct (IH false) as [l [El Hl]]; [intros; discriminate|].
      exists (EvReference x :: l). split; [cbn [map eval_tree]; rewrite Ex, El; reflexivity|]. cbn [p_ev_ok]. split; assumption.
Qed.

Lemma inv_entity_value s t r : S (NT nt_entity_value) s t r ->
  exists q l, (q = 34 \/ q = 39) /\ eval_tree t = VList (map VEntityValue l) /\ p_ev_ok q false l.
Proof.
  intros H. inv_nt H body_entity_value. inv_alt; invs.
  - match goal with H : succ_many _ (ev_piece 34) _ _ _ |- _ => destruct (inv_ev_many _ _ _ _ H false) as [l [El Hl]]; [intros; discriminate|] end.
    exists 34, l. split; [left; reflexivity|]. split; [cbn [eval_tree]; rewrite El; reflexivity|exact Hl].
  - match goal with H : succ_many _ (ev_piece 39) _ _ _ |- _ => destruct (inv_ev_many _ _ _ _ H false) as [l [El Hl]]; [intros; discriminate|] end.
    exists 39, l. split; [right; reflexivity|]. split; [cbn [eval_tree]; rewrite El; reflexivity|exact Hl].
Qed.

(** ** general entity declarations *)
Definition p_entity_def_ok (d : entity_def) : Prop :=
  match d with
  | EdValue l => exists q, (q = 34 \/ q = 39) /\ p_ev_ok q false l
  | EdExternal x n => p_external_ok x /\ match n with Some n' => name_ok n' | None => True end
  end.

Lemma inv_entity_def s t r : S (NT nt_entity_def) s t r -> exists d, eval_tree t = VEntityDef d /\ p_entity_def_ok d.
Proof.
  intros H. inv_nt H body_entity_def. inv_alt; invs.
  - match goal with H : succ _ (NT nt_entity_value) _ _ _ |- _ => apply inv_entity_value in H; destruct H as [q [l [Hq [El Hl]]]] end.
    exists (EdValue l). split; [cbn [eval_tree]; rewrite El; apply al_entity_def_value|]. exists q. split; assumption.
  - match goal with H : succ _ (NT nt_external_id) _ _ _ |- _ => apply inv_external_id in H; destruct H as [x [Ex Hx]] end.
    match goal with H : succ _ (NT nt_ndata_decl) _ _ _ |- _ => inv_nt H body_ndata_decl end. invs.
    match goal with H : succ _ (NT nt_name) _ _ _ |- _ => apply inv_name in H; destruct H as [n [-> [Hn _]]] end.
    exists (EdExternal x (Some n)). split; [cbn [eval_tree]; rewrite Ex; reflexivity|]. split; assumption.
  - match goal with H : succ _ (NT nt_external_id) _ _ _ |- _ => apply inv_external_id in H; destruct H as [x [Ex Hx]] end.
    exists (EdExternal x None). split; [cbn [eval_tree]; rewrite Ex; reflexivity|]. split; [assumption|exact I].
Qed.

(** a name between two mandatory runs of white space is not empty *)
Lemma name_between_ws (r1 n r2 a r3 : str) : stops (eval ws) r1 -> r1 = n ++ r2 -> r2 = a ++ r3 -> a <> [] ->
  forallb (eval ws) a = true -> n <> [].
Proof.
  intros Hst -> -> Hne Ha ->. cbn [app] in Hst. destruct a as [|c a]; [contradiction|].
  cbn [app stops forallb] in *. apply andb_prop in Ha. destruct Ha. congruence.
Qed.

Definition p_ge_ok (n : str) (d : entity_def) : Prop := name_ok n /\ n <> [] /\ p_entity_def_ok d.

Lemma inv_ge_decl s t r : S (NT nt_ge_decl) s t r -> exists n d, eval_tree t = VGeneralEntity n d /\ p_ge_ok n d.
Proof.
  intros H. inv_nt H body_ge_decl. invs.
  match goal with H : succ _ (NT nt_entity_def) _ _ _ |- _ => apply inv_entity_def in H; destruct H as [d [Ed Hd]] end.
  match goal with H : succ _ (NT nt_name) _ _ _ |- _ => apply inv_name in H; destruct H as [n [-> [Hn [Es _]]]] end.
  exists n, d. split; [cbn [eval_tree]; rewrite Ed; reflexivity|]. split; [exact Hn|]. split; [|exact Hd].
  match goal with Hst : stops (eval ws) ?r3, Es' : ?r3 = n ++ ?a0 ++ ?r1, Hne : ?a0 <> [], Ha : forallb (eval ws) ?a0 = true |- _ =>
    exact (name_between_ws r3 n (a0 ++ r1) a0 r1 Hst Es' eq_refl Hne Ha) end.
Qed.

(** ** notation declarations *)
Definition p_notation_ok (d : decl_notation) : Prop :=
  name_ok (dn_name d) /\ dn_name d <> [] /\
  match dn_id d with NiExternal x => p_external_ok x | NiPublic p => pubid_ok p end.

Lemma inv_notation_decl s t r : S (NT nt_notation_decl) s t r -> exists d, eval_tree t = VDeclNotation d /\ p_notation_ok d.
Proof.
  intros H. inv_nt H body_notation_decl. invs.
  match goal with H : succ _ (NT nt_name) _ _ _ |- _ => apply inv_name in H; destruct H as [n [-> [Hn [Es _]]]] end.
  assert (n <> []) as Hne.
  { match goal with Hst : stops (eval ws) ?r3, Es' : ?r3 = n ++ ?a0 ++ ?r1, Hne : ?a0 <> [], Ha : forallb (eval ws) ?a0 = true |- _ =>
      exact (name_between_ws r3 n (a0 ++ r1) a0 r1 Hst Es' eq_refl Hne Ha) end. }
  inv_alt; invs.
  - match goal with H : succ _ (NT nt_external_id) _ _ _ |- _ => apply inv_external_id in H; destruct H as [x [Ex Hx]] end.
    exists (DeclNotation n (NiExternal x)). split; [cbn [eval_tree]; rewrite Ex; reflexivity|]. repeat split; assumption.
  - match goal with H : succ _ (NT nt_public_id) _ _ _ |- _ => inv_nt H body_public_id end. invs.
    match goal with H : succ _ (NT nt_pubid_literal) _ _ _ |- _ => apply inv_pubid_literal in H; destruct H as [p [-> Hp]] end.
    exists (DeclNotation n (NiPublic p)). split; [reflexivity|]. repeat split; assumption.
Qed.

(** ** attribute-list declarations *)
Lemma inv_bar_many (it : pexpr) (ok : str -> Prop) :
  (forall s t r, S it s t r -> exists x : str, t = TStr x /\ ok x) ->
  forall s ts r, SM (SeqR bar_sep it) s ts r -> exists l, map eval_tree ts = map VStr l /\ Forall ok l.
Proof.
  intros Hit s ts r H. remember (SeqR bar_sep it) as e eqn:Ee. induction H as [e s|e s t r1 ts r Hs Hlt Hm IH]; subst e.
  - exists []. split; [reflexivity|constructor].
  - destruct (IH eq_refl) as [l [El Hl]]. inv Hs.
    match goal with H : succ _ it _ _ _ |- _ => apply Hit in H; destruct H as [x [-> Hx]] end.
    exists (x :: l). split; [cbn [map eval_tree]; rewrite El; reflexivity|constructor; assumption].
Qed.

Lemma inv_name' s t r : S (NT nt_name) s t r -> exists x : str, t = TStr x /\ name_ok x.
Proof. intros H. apply inv_name in H. destruct H as [n [-> [Hn _]]]. eauto. Qed.

Lemma inv_nmtoken s t r : S (NT nt_nmtoken) s t r -> exists x : str, t = TStr x /\ nmtoken_ok x.
Proof. intros H. inv_nt H body_nmtoken. invs. eexists. split; [reflexivity|]. split; assumption. Qed.

Lemma inv_att_type s t r : S (NT nt_att_type) s t r -> exists ty, eval_tree t = VAttType ty /\ att_type_wf ty.
Proof.
  intros H. inv_nt H body_att_type. inv_alt.
  - match goal with H : succ _ (NT nt_enumerated_type) _ _ _ |- _ => inv_nt H body_enumerated_type end. inv_alt; invs.
    + match goal with H : succ _ (NT nt_notation_type) _ _ _ |- _ => inv_nt H body_notation_type end. invs.
      match goal with H : succ _ (NT nt_name) _ _ _ |- _ => apply inv_name' in H; destruct H as [f [-> Hf]] end.
      match goal with H : succ_many _ (SeqR bar_sep _) _ _ _ |- _ => destruct (inv_bar_many _ _ inv_name' _ _ _ H) as [l [El Hl]] end.
      exists (AtNotation (f :: l)). split.
      * cbn [eval_tree]. rewrite El. rewrite al_441e. apply al_notation_type.
      * split; [discriminate|constructor; assumption].
    + match goal with H : succ _ (NT nt_enumeration) _ _ _ |- _ => inv_nt H body_enumeration end. invs.
      match goal with H : succ _ (NT nt_nmtoken) _ _ _ |- _ => apply inv_nmtoken in H; destruct H as [f [-> Hf]] end.
      match goal with H : succ_many _ (SeqR bar_sep _) _ _ _ |- _ => destruct (inv_bar_many _ _ inv_nmtoken _ _ _ H) as [l [El Hl]] end.
      exists (AtEnumeration (f :: l)). split.
      * cbn [eval_tree]. rewrite El. rewrite al_441e. apply al_enumeration_type.
      * split; [discriminate|constructor; assumption].
  - repeat inv_alt; invs; (eexists; split; [reflexivity|exact I]).
Qed.

Definition p_att_default_ok (d : att_default) : Prop :=
  match d with
  | AdValue f l => (f = None \/ f = Some s_fixed_tag) /\ exists q, (q = 34 \/ q = 39) /\ av_ok q false l
  | _ => True
  end.

Lemma inv_default_decl s t r : S (NT nt_default_decl) s t r -> exists d, eval_tree t = VAttDefault d /\ p_att_default_ok d.
Proof.
  intros H. inv_nt H body_default_decl. repeat inv_alt; invs.
  - exists AdRequired. split; [reflexivity|exact I].
  - exists AdImplied. split; [reflexivity|exact I].
  - match goal with H : succ _ (NT nt_att_value) _ _ _ |- _ => apply inv_att_value in H; destruct H as [q [l [Hq [El Hl]]]] end.
    exists (AdValue (Some s_fixed_tag) l). split; [cbn [eval_tree]; rewrite El; apply (al_default_value (Some s_fixed_tag) l)|].
    split; [right; reflexivity|eauto].
  - match goal with H : succ _ (NT nt_att_value) _ _ _ |- _ => apply inv_att_value in H; destruct H as [q [l [Hq [El Hl]]]] end.
    exists (AdValue None l). split; [cbn [eval_tree]; rewrite El; apply (al_default_value None l)|].
    split; [left; reflexivity|eauto].
Qed.

Definition decl_att_name_ok (n : decl_att_name) : Prop :=
  match n with
  | DanAttr q => qname_ok q
  | DanNamespace a => att_name_ok a /\ (a = AnDefaultNamespace \/ exists x, a = AnNamespace x)
  end.

Definition p_att_def_ok (d : att_def) : Prop :=
  decl_att_name_ok (ad_name d) /\ att_type_wf (ad_ty d) /\ p_att_default_ok (ad_value d).

Lemma inv_att_def s t r : S (NT nt_att_def) s t r -> exists d, eval_tree t = VAttDef d /\ p_att_def_ok d.
Proof.
  intros H. inv_nt H body_att_def. invs.
  match goal with H : succ _ (NT nt_att_type) _ _ _ |- _ => apply inv_att_type in H; destruct H as [ty [Ety Hty]] end.
  match goal with H : succ _ (NT nt_default_decl) _ _ _ |- _ => apply inv_default_decl in H; destruct H as [dv [Edv Hdv]] end.
  inv_alt; invs.
  - match goal with H : succ _ (NT nt_qname) _ _ _ |- _ => apply inv_qname in H; destruct H as [qn [-> [Hqn _]]] end.
    exists (AttDef (DanAttr qn) ty dv). split; [cbn [eval_tree]; rewrite eval_tree_qname, Ety, Edv; reflexivity|].
    repeat split; assumption.
  - match goal with H : succ _ (NT nt_ns_att_name) _ _ _ |- _ => apply inv_ns_att_name in H; destruct H as [an0 [Ean [Han Hsh]]] end.
    exists (AttDef (DanNamespace an0) ty dv). split; [cbn [eval_tree]; rewrite Ean, Ety, Edv; reflexivity|].
    repeat split; assumption.
Qed.

Lemma inv_att_defs s ts r : SM (NT nt_att_def) s ts r -> exists l, map eval_tree ts = map VAttDef l /\ Forall p_att_def_ok l.
Proof.
  intros H. remember (NT nt_att_def) as e eqn:Ee. induction H as [e s|e s t r1 ts r Hs Hlt Hm IH]; subst e.
  - exists []. split; [reflexivity|constructor].
  - destruct (IH eq_refl) as [l [El Hl]]. apply inv_att_def in Hs. destruct Hs as [d [Ed Hd]].
    exists (d :: l). split; [cbn [map]; rewrite Ed, El; reflexivity|constructor; assumption].
Qed.

Definition p_decl_att_ok (d : decl_att) : Prop := qname_ok (da_name d) /\ Forall p_att_def_ok (da_defs d).

Lemma inv_attlist_decl s t r : S (NT nt_attlist_decl) s t r -> exists d, eval_tree t = VDeclAtt d /\ p_decl_att_ok d.
Proof.
  intros H. inv_nt H body_attlist_decl. invs.
  match goal with H : succ _ (NT nt_qname) _ _ _ |- _ => apply inv_qname in H; destruct H as [qn [-> [Hqn _]]] end.
  match goal with H : succ_many _ (NT nt_att_def) _ _ _ |- _ => apply inv_att_defs in H; destruct H as [l [El Hl]] end.
  exists (DeclAtt qn l). split; [cbn [eval_tree]; rewrite eval_tree_qname, El; apply al_decl_att|]. split; assumption.
Qed.

(** ** markup declarations (conditional form) *)
Definition markup_ok (m : markup) : Prop :=
  match m with
  | MkAttributes d => p_decl_att_ok d
  | MkEntity (DeGeneral n d) => p_ge_ok n d
  | MkNotation d => p_notation_ok d
  | MkPI p => pi_ok p
  | MkElement _ | MkEntity (DeParameter _ _) | MkComment _ => True
  end.

Lemma al_markup_element_inv v m : apply_label L_model_DeclarationMarkup_element v = VMarkup m -> exists d, m = MkElement d.
Proof.
  change (apply_label L_model_DeclarationMarkup_element v) with (match v with VDeclElement d => VMarkup (MkElement d) | _ => VBad end).
  destruct v; intros H; try discriminate H. injection H as <-. eauto.
Qed.

Lemma al_pe_shape v : apply_label L_model_DeclarationParameterEntity_from v = VBad
  \/ exists n d, apply_label L_model_DeclarationParameterEntity_from v = VParameterEntity n d.
Proof.
  change (apply_label L_model_DeclarationParameterEntity_from v)
    with (match v with VPair (VStr n) (VPeDef d) => VParameterEntity n d | _ => VBad end).
  destruct v; try (left; reflexivity).
  match goal with v1 : val, v2 : val |- _ => destruct v1; try (left; reflexivity); destruct v2; try (left; reflexivity) end.
  right. eauto.
Qed.

Lemma body_pe_decl_map : exists e, body G_xml nt_pe_decl = Map L_model_DeclarationParameterEntity_from e.
Proof. eexists. reflexivity. Qed.
Lemma body_element_decl_map : exists e, body G_xml nt_element_decl = Map L_model_DeclarationElement_from e.
Proof. eexists. reflexivity. Qed.

Lemma inv_entity_decl s t r : S (NT nt_entity_decl) s t r ->
  forall m, apply_label L_model_DeclarationMarkup_from (eval_tree t) = VMarkup m -> markup_ok m.
Proof.
  intros H m Hm. inv_nt H body_entity_decl. inv_alt; invs.
  - match goal with H : succ _ (NT nt_ge_decl) _ _ _ |- _ => apply inv_ge_decl in H; destruct H as [n [d [Ed Hd]]] end.
    cbn [eval_tree] in Hm. rewrite Ed in Hm.
    change (VMarkup (MkEntity (DeGeneral n d)) = VMarkup m) in Hm. injection Hm as <-. exact Hd.
  - match goal with H : succ _ (NT nt_pe_decl) _ _ _ |- _ => inv H end.
    destruct body_pe_decl_map as [e Ee].
    match goal with H : succ _ (body _ _) _ _ _ |- _ => rewrite Ee in H; inv H end.
    cbn [eval_tree] in Hm.
    match goal with Hm : context [apply_label L_model_DeclarationParameterEntity_from ?v] |- _ => destruct (al_pe_shape v) as [Eb|[n [d Eb]]]; rewrite Eb in Hm end.
    + change (VBad = VMarkup m) in Hm. discriminate Hm.
    + change (VMarkup (MkEntity (DeParameter n d)) = VMarkup m) in Hm. injection Hm as <-. exact I.
Qed.

Lemma inv_markup_decl s t r : S (NT nt_markup_decl) s t r -> forall m, eval_tree t = VMarkup m -> markup_ok m.
Proof.
  intros H m Hm. inv_nt H body_markup_decl. repeat inv_alt; invs; cbn [eval_tree] in Hm.
  - apply al_markup_element_inv in Hm. destruct Hm as [d ->]. exact I.
  - match goal with H : succ _ (NT nt_attlist_decl) _ _ _ |- _ => apply inv_attlist_decl in H; destruct H as [d [Ed Hd]] end.
    rewrite Ed in Hm. change (VMarkup (MkAttributes d) = VMarkup m) in Hm. injection Hm as <-. exact Hd.
  - eapply inv_entity_decl; eassumption.
  - match goal with H : succ _ (NT nt_notation_decl) _ _ _ |- _ => apply inv_notation_decl in H; destruct H as [d [Ed Hd]] end.
    rewrite Ed in Hm. change (VMarkup (MkNotation d) = VMarkup m) in Hm. injection Hm as <-. exact Hd.
  - match goal with H : succ _ (NT nt_pi) _ _ _ |- _ => apply inv_pi in H; destruct H as [p [Ep Hp]] end.
    rewrite Ep in Hm. change (VMarkup (MkPI p) = VMarkup m) in Hm. injection Hm as <-. exact Hp.
  - match goal with H : succ _ (NT nt_comment) _ _ _ |- _ => apply inv_comment in H; destruct H as [c [Ec Hc]] end.
    rewrite Ec in Hm. change (VMarkup (MkComment c) = VMarkup m) in Hm. injection Hm as <-. exact I.
Qed.

(** ** the internal subset *)
Definition is_ok (x : int_subset) : Prop := match x with IsMarkup m => markup_ok m | _ => True end.

Lemma al_is_from_inv v x : apply_label L_model_InternalSubset_from v = VIntSubset x ->
  (exists m, v = VMarkup m /\ x = IsMarkup m) \/ (exists s, x = IsPeReference s).
Proof.
  change (apply_label L_model_InternalSubset_from v)
    with (match v with VMarkup m => VIntSubset (IsMarkup m) | VStr s => VIntSubset (IsPeReference s) | _ => VBad end).
  destruct v; intros H; try discriminate H; injection H as <-; eauto.
Qed.

Lemma inv_subset_item s t r : S subset_item s t r -> forall x, eval_tree t = VIntSubset x -> is_ok x.
Proof.
  intros H x Hx. unfold subset_item in H. inv_alt; invs.
  - cbn [eval_tree] in Hx. apply al_is_from_inv in Hx. destruct Hx as [[m [Em ->]]|[n ->]]; [|exact I].
    cbn [is_ok]. eapply inv_markup_decl; eassumption.
  - match goal with H : succ _ (NT nt_decl_sep) _ _ _ |- _ => inv_nt H body_decl_sep end. inv_alt; invs.
    + match goal with H : succ _ (NT nt_pe_reference) _ _ _ |- _ => apply inv_pe_reference in H; destruct H as [n [-> Hn]] end.
      change (VIntSubset (IsPeReference n) = VIntSubset x) in Hx. injection Hx as <-. exact I.
    + match goal with Hx : eval_tree (TMap _ (TStr ?a)) = _ |- _ => change (VIntSubset (IsWhitespace a) = VIntSubset x) in Hx end.
      injection Hx as <-. exact I.
Qed.

Lemma as_int_subset_some v x : as_int_subset v = Some x -> v = VIntSubset x.
Proof. destruct v; intros H; try discriminate H. injection H as <-. reflexivity. Qed.

Lemma inv_subset_many s ts r : SM subset_item s ts r ->
  forall l, all_some (map as_int_subset (map eval_tree ts)) = Some l -> Forall is_ok l.
Proof.
  intros H. remember subset_item as e eqn:Ee. induction H as [e s|e s t r1 ts r Hs Hlt Hm IH]; intros l Hl; subst e.
  - injection Hl as <-. constructor.
  - cbn [map all_some] in Hl. destruct (as_int_subset (eval_tree t)) as [x|] eqn:Ex; [|discriminate].
    destruct (all_some (map as_int_subset (map eval_tree ts))) as [l'|] eqn:El; [|discriminate]. injection Hl as <-.
    constructor; [|apply IH; reflexivity]. apply as_int_subset_some in Ex. eapply inv_subset_item; eassumption.
Qed.

(** ** the document type declaration *)
Definition p_decl_doc_ok (dd : decl_doc) : Prop :=
  qname_ok (dd_name dd) /\ match dd_external_id dd with Some x => p_external_ok x | None => True end
  /\ Forall is_ok (dd_internal_subset dd).

Lemma al_decl_doc_gen n X S0 : apply_label L_model_DeclarationDoc_from (VPair (VQName n) (VPair X S0)) =
  match as_opt as_external_id X, as_opt (as_list as_int_subset) S0 with
  | Some x', Some s' => VDeclDoc (DeclDoc n x' (match s' with Some i => i | None => [] end))
  | _, _ => VBad
  end.
Proof. reflexivity. Qed.

Lemma inv_doctype_decl s t r : S (NT nt_doctype_decl) s t r -> forall dd, eval_tree t = VDeclDoc dd -> p_decl_doc_ok dd.
Proof.
  intros H dd Hd. inv_nt H body_doctype_decl. invs;
    match goal with H : succ _ (NT nt_qname) _ _ _ |- _ => apply inv_qname in H; destruct H as [qn [-> [Hqn _]]] end;
    try match goal with H : succ _ (NT nt_external_id) _ _ _ |- _ => apply inv_external_id in H; destruct H as [x [Ex Hx]] end;
    try match goal with H : succ _ (NT nt_int_subset) _ _ _ |- _ => inv_nt H body_int_subset; invs end;
    cbn [eval_tree] in Hd; rewrite eval_tree_qname in Hd; try rewrite Ex in Hd; rewrite al_decl_doc_gen in Hd;
    cbn [as_opt as_external_id as_list] in Hd.
  - match type of Hd with context [all_some ?l] => destruct (all_some l) as [l'|] eqn:El; [|discriminate Hd] end.
    injection Hd as <-. cbn [p_decl_doc_ok dd_name dd_external_id dd_internal_subset]. repeat split; try assumption.
    eapply inv_subset_many; eassumption.
  - injection Hd as <-. repeat split; try assumption. constructor.
  - match type of Hd with context [all_some ?l] => destruct (all_some l) as [l'|] eqn:El; [|discriminate Hd] end.
    injection Hd as <-. cbn [p_decl_doc_ok dd_name dd_external_id dd_internal_subset]. repeat split; try assumption.
    eapply inv_subset_many; eassumption.
  - injection Hd as <-. repeat split; try assumption. constructor.
Qed.
