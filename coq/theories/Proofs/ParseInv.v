(** * C04, the converse direction: what the parser returns satisfies the printer's invariants.

    For every production P of [G_xml]:  [S (NT P) s t r -> exists x, eval_tree t = V x /\ ok_P x]
    where [S = succ G_xml] is the big-step success relation of Proofs/PegInv.v (every successful
    [denote]/[run] is such a derivation: [run_succ]).  The conclusions are exactly the hypotheses of
    the rungs of Proofs/DisplayLex.v / DisplayElem.v / DisplayDoc.v / DisplayDtd.v; they also show
    that the parse tree always has the shape the map functions expect (no [PBadTree]). *)
From Coq Require Import List NArith Arith Lia Bool.
From XmlRs Require Import Base.CPred Model.Peg Gen.XmlcharGen Gen.GrammarXmlGen Model.ParseActions
     Proofs.PegTermination Proofs.GrammarTermination Proofs.PegLemmas Proofs.PegInv Proofs.Expansion
     Proofs.DisplayLex Proofs.ActionLemmas.
Import ListNotations.
Local Open Scope N_scope.

Notation S := (succ G_xml).
Notation SM := (succ_many G_xml).

Lemma G_xml_nosep : forallb nosep G_xml = true.
Proof. vm_compute. reflexivity. Qed.

Lemma run_succ n s t r : run G_xml G_xml_R n s = Ok (t, r) -> S (NT n) s t r.
Proof. intros H. apply (denote_succ G_xml G_xml_nosep _ (NT n) eq_refl s t r H). Qed.

Lemma den_S f e s t r : denote G_xml f e s = Ok (t, r) -> nosep e = true -> S e s t r.
Proof. intros H He. apply (denote_succ G_xml G_xml_nosep f e He s t r H). Qed.

Ltac inv H := inversion H; subst; clear H.

(** one inversion step on a hypothesis about a composite expression *)
Ltac inv1 :=
  match goal with
  | H : succ _ (Seq _ _) _ _ _ |- _ => inv H
  | H : succ _ (SeqL _ _) _ _ _ |- _ => inv H
  | H : succ _ (SeqR _ _) _ _ _ |- _ => inv H
  | H : succ _ (Map _ _) _ _ _ |- _ => inv H
  | H : succ _ (Tag _) _ _ _ |- _ => inv H
  | H : succ _ (Chars0 _) _ _ _ |- _ => inv H
  | H : succ _ (Chars1 _) _ _ _ |- _ => inv H
  | H : succ _ (Recognize _) _ _ _ |- _ => inv H
  | H : succ _ (Opt _) _ _ _ |- _ => inv H
  | H : succ _ (TakeExcept _ _) _ _ _ |- _ => inv H
  | H : succ _ (VerifyEq _ _ _) _ _ _ |- _ => inv H
  | H : succ _ (Many0 _) _ _ _ |- _ => inv H
  end.
Ltac unfold_xc := unfold xc_char_except0, xc_char_except1, xc_enc_name0, xc_name_char_except0, xc_name_char_except1,
  xc_name_start_char_except1, xc_pubid_char_except0 in *.
Ltac invs := unfold_xc; repeat inv1.
Ltac inv_nt H lem := inv H; match goal with H' : succ _ (body _ _) _ _ _ |- _ => rewrite lem in H' end.
Ltac inv_alt := match goal with H : succ _ (Alt _ _) _ _ _ |- _ => inv H end.

(** ** Name, NCName, QName *)
Lemma inv_name s t r : S (NT nt_name) s t r -> exists n : str, t = TStr n /\ name_ok n /\ s = n ++ r /\ stops (eval is_name_char) r.
Proof.
  intros H. inv_nt H body_name. invs.
  match goal with H : succ _ (NT nt_multinamestartchar0) _ _ _ |- _ => inv_nt H body_mnsc0 end.
  match goal with H : succ _ (NT nt_multinamechar0) _ _ _ |- _ => inv_nt H body_mnc0 end. invs.
  match goal with H : ?c ++ ?r = _ ++ _ ++ ?r |- _ => rewrite app_assoc in H; apply app_inv_tail in H; subst c end.
  eexists. split; [reflexivity|]. split; [|split; [reflexivity|assumption]].
  unfold name_ok. rewrite forallb_app. apply andb_true_intro. split; [|assumption].
  match goal with H : forallb (eval is_name_start_char) ?a = true |- forallb _ ?a = true =>
    rewrite forallb_forall in *; intros x Hx; apply name_start_is_name; apply H; exact Hx end.
Qed.

Lemma inv_ncname s t r : S (NT nt_ncname) s t r ->
  exists n : str, t = TStr n /\ ncname_ok n /\ s = n ++ r /\ stops (eval (is_name_char_except [58])) r.
Proof.
  intros H. inv_nt H body_ncname. invs.
  match goal with H : ?c ++ ?r = _ ++ _ ++ ?r |- _ => rewrite app_assoc in H; apply app_inv_tail in H; subst c end.
  eexists. split; [reflexivity|]. split; [|split; [reflexivity|assumption]].
  match goal with H : ?a <> [] |- ncname_ok (?a ++ ?b) => destruct a as [|c a']; [contradiction|] end.
  cbn [app ncname_ok]. match goal with H : forallb _ (c :: a') = true |- _ => cbn [forallb] in H; apply andb_prop in H; destruct H as [Hc Ha] end.
  split; [exact Hc|]. rewrite forallb_app. apply andb_true_intro. split; [|assumption].
  rewrite forallb_forall in *. intros x Hx. apply name_start_except_colon. apply Ha. exact Hx.
Qed.

Lemma inv_qname s t r : S (NT nt_qname) s t r ->
  exists q, t = tree_qname q /\ qname_ok q /\ s = d_qname q ++ r /\ stops (eval (is_name_char_except [58])) r.
Proof.
  intros H. inv_nt H body_qname. inv_alt; invs.
  - match goal with H : succ _ (NT nt_prefixed_name) _ _ _ |- _ => inv_nt H body_prefixed_name end. invs.
    repeat match goal with H : succ _ (NT nt_ncname) _ _ _ |- _ => apply inv_ncname in H; destruct H as [? [-> [? [? ?]]]] end.
    subst. eexists (Prefixed _ _). split; [reflexivity|]. split; [split; assumption|].
    split; [cbn [d_qname]; rewrite <- app_assoc; reflexivity|assumption].
  - match goal with H : succ _ (NT nt_ncname) _ _ _ |- _ => apply inv_ncname in H; destruct H as [? [-> [? [? ?]]]] end.
    subst. eexists (Unprefixed _). split; [reflexivity|]. split; [assumption|]. split; [reflexivity|assumption].
Qed.

(** ** references *)
Lemma inv_reference s t r : S (NT nt_reference) s t r -> exists x, eval_tree t = VReference x /\ reference_ok x.
Proof.
  intros H. inv_nt H body_reference. inv_alt.
  - match goal with H : succ _ (NT nt_entity_ref) _ _ _ |- _ => inv_nt H body_entity_ref end. invs.
    match goal with H : succ _ (NT nt_name) _ _ _ |- _ => apply inv_name in H; destruct H as [n [-> [Hn _]]] end.
    exists (RefEntity n). split; [reflexivity|exact Hn].
  - match goal with H : succ _ (NT nt_char_ref) _ _ _ |- _ => inv_nt H body_char_ref end. inv_alt; invs.
    + eexists (RefChar _ Dec). split; [reflexivity|]. split; assumption.
    + eexists (RefChar _ Hex). split; [reflexivity|]. split; assumption.
Qed.

(** ** AttValue *)
Lemma stops_nonempty_contra (f : char -> bool) (a r : str) : a <> [] -> forallb f a = true -> stops f (a ++ r) -> False.
Proof. destruct a as [|c a]; [contradiction|]. cbn [forallb app stops]. intros _ H1 H2. apply andb_prop in H1. destruct H1. congruence. Qed.

Lemma inv_av_many q s ts r : SM (av_piece q) s ts r ->
  forall b, (b = true -> stops (eval (is_char_except [60;38;q])) s) ->
  exists l, map eval_tree ts = map VAttValue l /\ av_ok q b l.
Proof.
  intros H. remember (av_piece q) as e eqn:Ee. induction H as [e s|e s t r1 ts r Hs Hlt Hm IH]; intros b Hb; subst e.
  - exists []. split; [reflexivity|exact I].
  - specialize (IH eq_refl). unfold av_piece in Hs. inv Hs; invs.
    + (* text *)
      destruct (IH true) as [l [El Hl]]; [intros _; assumption|].
      exists (AvText a :: l). split; [cbn [map eval_tree]; rewrite El; reflexivity|].
      cbn [av_ok]. repeat split; try assumption.
      destruct b; [|reflexivity]. exfalso. eapply stops_nonempty_contra; [| |apply Hb; reflexivity]; eassumption.
    + (* reference *)
      match goal with H : succ _ (NT nt_reference) _ _ _ |- _ => apply inv_reference in H; destruct H as [x [Ex Hx]] end.
      destruct (IH false) as [l [El Hl]]; [intros; discriminate|].
      exists (AvReference x :: l). split; [cbn [map eval_tree]; rewrite Ex, El; reflexivity|].
      cbn [av_ok]. split; assumption.
Qed.

Lemma inv_att_value s t r : S (NT nt_att_value) s t r ->
  exists q l, (q = 34 \/ q = 39) /\ eval_tree t = VList (map VAttValue l) /\ av_ok q false l.
Proof.
  intros H. inv_nt H body_att_value. inv_alt; invs.
  - match goal with H : succ_many _ (av_piece 34) _ _ _ |- _ => destruct (inv_av_many _ _ _ _ H false) as [l [El Hl]]; [intros; discriminate|] end.
    exists 34, l. split; [left; reflexivity|]. split; [cbn [eval_tree]; rewrite El; reflexivity|exact Hl].
  - match goal with H : succ_many _ (av_piece 39) _ _ _ |- _ => destruct (inv_av_many _ _ _ _ H false) as [l [El Hl]]; [intros; discriminate|] end.
    exists 39, l. split; [right; reflexivity|]. split; [cbn [eval_tree]; rewrite El; reflexivity|exact Hl].
Qed.

(** ** take_until: the slice has no occurrence of the pattern *)
Lemma prefix_nil_none pat : pat <> [] -> prefix pat [] = None.
Proof. destruct pat; [contradiction|reflexivity]. Qed.

Lemma find_sub_nil pat : pat <> [] -> find_sub pat [] = None.
Proof. intros H. cbn [find_sub]. rewrite (prefix_nil_none pat H). reflexivity. Qed.

Lemma prefix_firstn_none pat (v : str) j : prefix pat v = None -> prefix pat (firstn j v) = None.
Proof.
  intros H. destruct (prefix pat (firstn j v)) as [t|] eqn:E; [|reflexivity].
  pose proof (prefix_some_app' pat (firstn j v) t (skipn j v) E) as H2. rewrite firstn_skipn in H2. congruence.
Qed.

Lemma find_sub_firstn pat : pat <> [] -> forall (v : str) i, find_sub pat v = Some i -> find_sub pat (firstn i v) = None.
Proof.
  intros Hp. induction v as [|c v IH]; intros i H.
  - cbn [find_sub] in H. rewrite (prefix_nil_none pat Hp) in H. discriminate.
  - cbn [find_sub] in H. destruct (prefix pat (c :: v)) eqn:E.
    + injection H as <-. cbn [firstn]. apply find_sub_nil. exact Hp.
    + destruct (find_sub pat v) as [j|] eqn:Ej; [|discriminate]. injection H as <-. cbn [firstn find_sub].
      pose proof (prefix_firstn_none pat (c :: v) (Datatypes.S j) E) as E2. cbn [firstn] in E2. rewrite E2.
      rewrite (IH j eq_refl). reflexivity.
Qed.

Lemma find_sub_le pat (v : str) i : find_sub pat v = Some i -> (i <= length v)%nat.
Proof.
  revert i. induction v as [|c v IH]; intros i H; cbn [find_sub] in H.
  - destruct (prefix pat []); [injection H as <-; cbn; lia|discriminate].
  - destruct (prefix pat (c :: v)); [injection H as <-; lia|]. destruct (find_sub pat v) as [j|]; [|discriminate].
    injection H as <-. specialize (IH j eq_refl). cbn [length]. lia.
Qed.

Lemma forallb_firstn {A} (f : A -> bool) i l : forallb f l = true -> forallb f (firstn i l) = true.
Proof. revert i. induction l as [|x l IH]; intros [|i] H; cbn in *; auto. apply andb_prop in H. destruct H as [-> H]. cbn. auto. Qed.

Lemma firstn_app_le {A} i (v r : list A) : (i <= length v)%nat -> firstn i (v ++ r) = firstn i v.
Proof. intros H. rewrite firstn_app. replace (i - length v)%nat with 0%nat by lia. cbn. apply app_nil_r. Qed.

(** the slice a [take_until] over a character run returns *)
Lemma inv_take_until (p : cpred) pat s t r : pat <> [] -> S (TakeUntil (Chars0 p) pat) s t r ->
  exists x : str, t = TStr x /\ forallb (eval p) x = true /\ find_sub pat x = None /\ suffix_of r s
                  /\ (forall c x', x = c :: x' -> exists s', s = c :: s').
Proof.
  intros Hp H. inv H; invs.
  - match goal with H : ?v ++ ?r = ?a ++ ?r |- _ => apply app_inv_tail in H; subst v end.
    eexists. split; [reflexivity|]. repeat split; try assumption; [eexists; reflexivity|].
    intros c x' ->. eexists. reflexivity.
  - match goal with H : ?v ++ ?r = ?a ++ ?r |- _ => apply app_inv_tail in H; subst v end.
    match goal with H : find_sub pat ?a = Some ?i |- _ => pose proof (find_sub_le _ _ _ H) as Hle; pose proof (find_sub_firstn pat Hp _ _ H) as Hno end.
    rewrite firstn_app_le by exact Hle.
    eexists. split; [reflexivity|]. split; [apply forallb_firstn; assumption|]. split; [exact Hno|].
    split; [eexists; symmetry; apply firstn_skipn|].
    intros c x' E. destruct a as [|c0 a']; [destruct i; discriminate|]. destruct i; [discriminate|]. cbn [firstn] in E. injection E as <- _.
    eexists. reflexivity.
Qed.

Lemma inv_char_data s t r : S (NT nt_char_data) s t r -> exists x : str, t = TStr x /\ text_ok x.
Proof.
  intros H. inv_nt H body_char_data. unfold xc_char_except0 in *.
  match goal with H : succ _ (TakeUntil _ _) _ _ _ |- _ => apply inv_take_until in H; [|discriminate]; destruct H as [x [-> [Hx1 [Hx2 _]]]] end.
  exists x. split; [reflexivity|split; assumption].
Qed.

(** ** CDSect, PI *)
Lemma inv_multichar0 s t r : S (NT nt_multichar0) s t r -> S (Chars0 is_char) s t r.
Proof. intros H. inv_nt H body_multichar0. assumption. Qed.

Lemma inv_take_until_mc pat s t r : pat <> [] -> S (TakeUntil (NT nt_multichar0) pat) s t r ->
  exists x : str, t = TStr x /\ forallb (eval is_char) x = true /\ find_sub pat x = None /\ suffix_of r s
                  /\ (forall c x', x = c :: x' -> exists s', s = c :: s').
Proof.
  intros Hp H. apply (inv_take_until is_char pat s t r Hp). inv H.
  - match goal with H1 : succ _ (NT nt_multichar0) _ _ _, H2 : find_sub _ _ = None |- _ =>
      exact (s_take_until_none G_xml _ _ _ _ _ _ eq_refl (inv_multichar0 _ _ _ H1) H2) end.
  - match goal with H1 : succ _ (NT nt_multichar0) _ _ _, H2 : find_sub _ _ = Some _ |- _ =>
      exact (s_take_until_cut G_xml _ _ _ _ _ _ _ eq_refl (inv_multichar0 _ _ _ H1) H2) end.
Qed.

Lemma inv_cdsect s t r : S (NT nt_cdsect) s t r -> exists d : str, eval_tree t = VCData d /\ cdata_ok d.
Proof.
  intros H. inv_nt H body_cdsect. invs.
  match goal with H : succ _ (TakeUntil _ _) _ _ _ |- _ => apply inv_take_until_mc in H; [|discriminate]; destruct H as [x [-> [Hx1 [Hx2 _]]]] end.
  exists x. split; [reflexivity|split; assumption].
Qed.

Lemma inv_pi_target s t r : S (NT nt_pi_target) s t r -> exists n : str, t = TStr n /\ pi_target_ok n.
Proof.
  intros H. inv_nt H body_pi_target. invs.
  match goal with H : succ _ (NT nt_name) _ _ _ |- _ => apply inv_name in H; destruct H as [n [_ [Hn [E _]]]] end.
  match goal with H : ?v ++ ?r = ?n ++ ?r |- _ => apply app_inv_tail in H; subst v end.
  eexists. split; [reflexivity|]. split; assumption.
Qed.

Lemma inv_pi s t r : S (NT nt_pi) s t r -> exists p, eval_tree t = VPI p /\ pi_ok p.
Proof.
  intros H. inv_nt H body_pi. invs.
  - (* with data *)
    match goal with H : succ _ (NT nt_pi_target) _ _ _ |- _ => apply inv_pi_target in H; destruct H as [n [-> Hn]] end.
    match goal with H : succ _ (TakeUntil _ _) _ _ _ |- _ => apply inv_take_until_mc in H; [|discriminate]; destruct H as [x [-> [Hx1 [Hx2 [_ Hx4]]]]] end.
    exists (PI n (Some x)). split; [reflexivity|]. split; [exact Hn|]. cbn [pi_value]. repeat split; try assumption.
    destruct x as [|c x']; [exact I|]. cbn [stops]. destruct (Hx4 c x' eq_refl) as [s' ->].
    match goal with H : stops (eval ws) (c :: s') |- _ => exact H end.
  - match goal with H : succ _ (NT nt_pi_target) _ _ _ |- _ => apply inv_pi_target in H; destruct H as [n [-> Hn]] end.
    exists (PI n None). split; [reflexivity|]. split; [exact Hn|exact I].
Qed.

(** ** Comment *)
Lemma comment_okb_app (a b : str) : comment_okb a = true -> (a = [] \/ exists a' x, a = a' ++ [x] /\ eval nondash x = true) ->
  comment_okb b = true -> comment_okb (a ++ b) = true.
Proof.
  intros Ha Hend Hb. induction a as [|x a IH]; [exact Hb|].
  cbn [app comment_okb] in *. apply andb_prop in Ha. destruct Ha as [Hx Ha].
  assert (a = [] \/ exists a' y, a = a' ++ [y] /\ eval nondash y = true) as Hend'.
  { destruct Hend as [E|[a' [y [E Hy]]]]; [discriminate|]. destruct a' as [|z a'']; cbn [app] in E; injection E as -> ->; [left; reflexivity|].
    right. exists a'', y. split; [reflexivity|exact Hy]. }
  rewrite (IH Ha Hend'), andb_true_r. destruct (x =? 45) eqn:E45.
  - destruct a as [|y a']; [discriminate|]. exact Hx.
  - exact Hx.
Qed.

Lemma nondash_run_ok (a : str) : a <> [] -> forallb (eval nondash) a = true ->
  comment_okb a = true /\ exists a' x, a = a' ++ [x] /\ eval nondash x = true.
Proof.
  intros Hne Ha. split.
  - clear Hne. induction a as [|x a IH]; [reflexivity|]. cbn [forallb comment_okb] in *. apply andb_prop in Ha. destruct Ha as [Hx Ha].
    rewrite (IH Ha), andb_true_r. destruct (N.eqb_spec x 45) as [->|]; [vm_compute in Hx; discriminate|exact Hx].
  - destruct (exists_last Hne) as [a' [x ->]]. exists a', x. split; [reflexivity|].
    rewrite forallb_app in Ha. apply andb_prop in Ha. destruct Ha as [_ Ha]. cbn in Ha. rewrite andb_true_r in Ha. exact Ha.
Qed.

Lemma inv_cm_many s ts r : SM cm_item s ts r ->
  exists c : str, s = c ++ r /\ comment_okb c = true /\ (c = [] \/ exists c' x, c = c' ++ [x] /\ eval nondash x = true).
Proof.
  intros H. remember cm_item as e eqn:Ee. induction H as [e s|e s t r1 ts r Hs Hlt Hm IH]; subst e.
  - exists []. repeat split. left. reflexivity.
  - destruct (IH eq_refl) as [c2 [-> [Hc2 Hend2]]]. unfold cm_item in Hs. invs.
    + (* '-' run *)
      match goal with H : forallb (eval (is_char_except [45])) ?a = true, Hn : ?a <> [] |- _ =>
        destruct (nondash_run_ok a Hn H) as [Hok [a' [x [Ea Hx]]]] end.
      exists (45 :: a ++ c2). split; [cbn [app]; rewrite <- app_assoc; reflexivity|]. split.
      * change (45 :: a ++ c2) with ((45 :: a) ++ c2). apply comment_okb_app; [| |exact Hc2].
        -- cbn [comment_okb]. rewrite Hok, andb_true_r. destruct a as [|y a0]; [contradiction|].
           match goal with H : forallb _ (y :: a0) = true |- _ => cbn [forallb] in H; apply andb_prop in H; destruct H as [Hy _] end. exact Hy.
        -- right. exists (45 :: a'), x. rewrite Ea. split; [reflexivity|exact Hx].
      * right. destruct Hend2 as [->|[c' [y [-> Hy]]]].
        -- exists (45 :: a'), x. rewrite Ea, app_nil_r. split; [reflexivity|exact Hx].
        -- exists (45 :: a ++ c'), y. split; [cbn [app]; rewrite <- app_assoc; reflexivity|exact Hy].
    + (* run *)
      match goal with H : forallb (eval (is_char_except [45])) ?a = true, Hn : ?a <> [] |- _ =>
        destruct (nondash_run_ok a Hn H) as [Hok [a' [x [Ea Hx]]]] end.
      exists (a ++ c2). split; [rewrite <- app_assoc; reflexivity|]. split.
      * apply comment_okb_app; [exact Hok| |exact Hc2]. right. exists a', x. split; assumption.
      * right. destruct Hend2 as [->|[c' [y [-> Hy]]]].
        -- exists a', x. rewrite app_nil_r. split; assumption.
        -- exists (a ++ c'), y. split; [rewrite <- app_assoc; reflexivity|exact Hy].
Qed.

Lemma inv_comment s t r : S (NT nt_comment) s t r -> exists c : str, eval_tree t = VComment c /\ comment_ok c.
Proof.
  intros H. inv_nt H body_comment. fold cm_item in *. invs.
  match goal with H : succ_many _ cm_item _ _ _ |- _ => destruct (inv_cm_many _ _ _ H) as [c0 [E [Hok _]]] end.
  match goal with H : ?c ++ ?r = ?c0 ++ ?r |- _ => apply app_inv_tail in H; subst c end.
  eexists. split; [reflexivity|exact Hok].
Qed.
