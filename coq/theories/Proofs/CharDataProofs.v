(** * C16: the model of the character-data code refines DOM Level 1.

    Everything here is universally quantified over strings, offsets, counts, arguments and
    histories; the only computations are the closed witnesses of the refutations of the
    pinned code and the satisfiability examples. *)
From Coq Require Import List NArith Lia Bool.
From XmlRs Require Import Base.CPred Base.NList Spec.XmlChars Spec.DomCharData Model.CharData.
Import ListNotations.
Open Scope N_scope.

(** ** the validity checks of the code are the storability predicates of XML 1.0 *)

Lemma is_xml_char_spec c : is_xml_char c = isChar c.
Proof.
  unfold is_xml_char, isChar, spec_Char. cbn [eval existsb]. unfold CPred.in_range. cbn [fst snd].
  rewrite orb_false_r. apply eq_iff_eq_true.
  rewrite !orb_true_iff, !andb_true_iff, !N.eqb_eq, !N.leb_le, !N.ltb_lt. lia.
Qed.

Lemma prefix_of_spec p : forall s, prefix_of p s = starts_with p s.
Proof. induction p as [|a p IH]; intros [|b s]; cbn [prefix_of starts_with]; try reflexivity; now rewrite IH. Qed.

Lemma has_sub_spec p s : has_sub p s = contains p s.
Proof. induction s as [|b s IH]; cbn [has_sub contains]; rewrite prefix_of_spec; [reflexivity|]. now rewrite IH. Qed.

Lemma forallb_ext_eq {A} (f g : A -> bool) l : (forall x, f x = g x) -> forallb f l = forallb g l.
Proof. intros H. induction l as [|x l IH]; cbn [forallb]; [reflexivity|]. now rewrite H, IH. Qed.

Lemma check_text_spec s : check_text s = storable_text s.
Proof.
  unfold check_text, storable_text, has_cdend, cdend. rewrite has_sub_spec. f_equal.
  apply forallb_ext_eq. intros c. now rewrite is_xml_char_spec.
Qed.

Lemma check_cdata_spec s : check_cdata s = storable_cdata s.
Proof.
  unfold check_cdata, storable_cdata, has_cdend, cdend. rewrite has_sub_spec. f_equal.
  apply forallb_ext_eq. intros c. now rewrite is_xml_char_spec.
Qed.

(** one step of the three ingredients of [check_comment] *)
Lemma dh_cons c s : has_double_hyphen (c :: s) =
  ((45 =? c) && match s with d :: _ => 45 =? d | [] => false end) || has_double_hyphen s.
Proof.
  unfold has_double_hyphen. cbn [has_sub prefix_of]. f_equal.
  destruct s as [|d s']; cbn [prefix_of]; [reflexivity|]. now rewrite andb_true_r.
Qed.

Lemma eh_cons c s : ends_with_hyphen (c :: s) = match s with [] => c =? 45 | _ => ends_with_hyphen s end.
Proof. destruct s; reflexivity. Qed.

Lemma eh_match s : match s with [] => false | _ :: _ => ends_with_hyphen s end = ends_with_hyphen s.
Proof. destruct s; reflexivity. Qed.

Lemma check_comment_spec_len : forall n s, (length s <= n)%nat -> check_comment s = storable_comment s.
Proof.
  induction n as [|n IH]; intros s Hlen.
  - destruct s; [reflexivity|cbn [length] in Hlen; lia].
  - destruct s as [|c s']; [reflexivity|]. cbn [length] in Hlen.
    unfold check_comment. cbn [forallb storable_comment]. rewrite dh_cons, eh_cons.
    destruct (N.eqb_spec c 45) as [->|Hc].
    + (* a hyphen must be followed by a character that is not a hyphen *)
      destruct s' as [|d s''].
      * cbn [negb]. now rewrite andb_false_r.
      * cbn [length] in Hlen. cbn [forallb]. rewrite dh_cons, eh_cons.
        rewrite <- (IH s'') by lia. unfold check_comment.
        rewrite (is_xml_char_spec d). rewrite (N.eqb_sym 45 d).
        replace (is_xml_char 45) with true by reflexivity.
        replace (45 =? 45) with true by reflexivity.
        destruct (N.eqb_spec d 45) as [->|Hd].
        -- cbn [andb orb negb]. now rewrite !andb_false_r.
        -- cbn [andb orb negb]. rewrite eh_match.
           destruct (isChar d), (forallb is_xml_char s''), (has_double_hyphen s''),
             (ends_with_hyphen s''); reflexivity.
    + rewrite <- (IH s') by lia. unfold check_comment. rewrite (is_xml_char_spec c).
      rewrite (N.eqb_sym 45 c). destruct (N.eqb_spec c 45) as [|_]; [contradiction|].
      cbn [andb orb]. rewrite eh_match. 
      destruct (isChar c), (forallb is_xml_char s'), (has_double_hyphen s'),
             (ends_with_hyphen s'); reflexivity.
Qed.

Lemma check_comment_spec s : check_comment s = storable_comment s.
Proof. apply (check_comment_spec_len (length s)). lia. Qed.

Theorem check_is_storable k s : check k s = storable k s.
Proof.
  destruct k; cbn [check storable];
    auto using check_text_spec, check_comment_spec, check_cdata_spec.
Qed.

(** ** the dom functions, one by one *)

Definition embed (o : outcome) : mres :=
  match o with
  | Done v st => MDone v st
  | Raised e st => MRaised e st
  | NotOffered st => MNotOffered st
  end.

Definition mlift (st : cdstate) (r : option str) : mres :=
  match r with
  | Some d => MDone VUnit (with_data st d)
  | None => MRaised IndexSizeErr st
  end.

Lemma embed_lift st r : embed (lift st r) = mlift st r.
Proof. destruct r; reflexivity. Qed.

Lemma sat_add_ge a b : a <= usize_max -> a <= saturating_add a b.
Proof. unfold saturating_add. lia. Qed.

(** [substring_data] *)
Lemma m_substring_data_spec k st off cnt :
  len (data st) <= usize_max -> off <= usize_max -> cnt <= usize_max ->
  m_substring_data Repaired Debug k st off cnt =
  match dom_substring (data st) off cnt with
  | Some r => MDone (VStr r) st
  | None => MRaised IndexSizeErr st
  end.
Proof.
  intros Hl Ho Hc. unfold m_substring_data, dom_substring, m_length, info_len.
  destruct (N.ltb_spec (len (data st)) off) as [H|H]; [reflexivity|].
  assert (Hd : len (drop off (data st)) = len (data st) - off) by apply len_drop.
  (* text, comment, CDATA: offset.saturating_add(count), then end - start;
     the merged view: skip / take without arithmetic *)
  destruct k; cbn [add_site]; unfold info_substring, usize_sub, saturating_add;
    destruct (N.leb_spec off (N.min (off + cnt) usize_max)) as [_|Hbad]; try lia;
    destruct (N.ltb_spec (len (data st)) (off + cnt)) as [H2|H2];
    [ f_equal; f_equal; apply take_all; lia
    | f_equal; f_equal; f_equal; lia
    | f_equal; f_equal; apply take_all; lia
    | f_equal; f_equal; f_equal; lia
    | f_equal; f_equal; apply take_all; lia
    | f_equal; f_equal; f_equal; lia
    | f_equal; f_equal; apply take_all; lia
    | reflexivity ].
Qed.

(** what [replace_data] leaves, as one formula *)
Lemma dom_replace_formula (d : str) off cnt x : off <= len d ->
  dom_replace d off cnt x = Some (take off d ++ x ++ drop (N.min (off + cnt) (len d)) d).
Proof.
  intros H. unfold dom_replace.
  destruct (N.ltb_spec (len d) off); [lia|].
  destruct (N.ltb_spec (len d) (off + cnt)) as [H1|H1].
  - replace (N.min (off + cnt) (len d)) with (len d) by lia.
    rewrite (drop_all (len d) d) by lia. rewrite app_nil_r. reflexivity.
  - replace (N.min (off + cnt) (len d)) with (off + cnt) by lia. reflexivity.
Qed.

Lemma dom_insert_replace (d : str) off x : dom_insert d off x = dom_replace d off 0 x.
Proof.
  unfold dom_insert, dom_replace. destruct (N.ltb_spec (len d) off); [reflexivity|].
  rewrite N.add_0_r. destruct (N.ltb_spec (len d) off); [lia | reflexivity].
Qed.

Lemma dom_delete_replace (d : str) off cnt : dom_delete d off cnt = dom_replace d off cnt [].
Proof.
  unfold dom_delete, dom_replace. destruct (len d <? off); [reflexivity|].
  destruct (len d <? off + cnt); [rewrite app_nil_r; reflexivity | reflexivity].
Qed.

Lemma dom_append_replace (d x : str) : Some (dom_append d x) = dom_replace d (len d) 0 x.
Proof.
  unfold dom_append, dom_replace. rewrite N.ltb_irrefl, N.add_0_r, N.ltb_irrefl.
  rewrite (take_all (len d) d) by lia. rewrite (drop_all (len d) d) by lia. rewrite app_nil_r. reflexivity.
Qed.

Lemma len_take_le (s : str) off : off <= len s -> len (take off s) = off.
Proof. intros H. rewrite len_take. lia. Qed.

(** [insert_data] (repaired): the RESULT is validated *)
Lemma m_insert_data_spec k st off arg :
  m_insert_data Repaired k st off arg =
  if len (data st) <? off then MRaised IndexSizeErr st
  else if check k (take off (data st) ++ arg ++ drop off (data st))
       then MDone VUnit (with_data st (take off (data st) ++ arg ++ drop off (data st)))
       else MInvalidArg st.
Proof.
  unfold m_insert_data, insert_char_at, m_length, info_len.
  destruct (N.ltb_spec (len (data st)) off) as [H|H]; [reflexivity|].
  assert (E : (if off <? len (data st) then off else len (data st)) = off).
  { destruct (N.ltb_spec off (len (data st))); lia. }
  rewrite E. destruct (check k _); reflexivity.
Qed.

(** [delete_char_range] (repaired): clips, never overflows *)
Lemma delete_char_range_spec (s : str) off cnt :
  len s <= usize_max -> off <= len s ->
  delete_char_range Repaired Debug s off cnt = IOk (take off s ++ drop (N.min (off + cnt) (len s)) s).
Proof.
  intros Hl Ho. unfold delete_char_range. cbn [add_site]. unfold saturating_add.
  set (n := len s) in *.
  assert (Ha : (if off <? n then off else n) = off) by (destruct (N.ltb_spec off n); lia).
  rewrite Ha.
  destruct (N.ltb_spec (N.min (off + cnt) usize_max) n) as [H3|H3].
  - assert (E : N.min (off + cnt) usize_max = off + cnt) by lia. rewrite E in *.
    destruct (N.ltb_spec (off + cnt) off) as [H4|H4]; [lia|].
    destruct (N.ltb_spec n (off + cnt)) as [H5|H5]; [lia|]. cbn [orb].
    replace (N.min (off + cnt) n) with (off + cnt) by lia. reflexivity.
  - destruct (N.ltb_spec n off) as [H4|H4]; [lia|].
    replace (n <? n) with false by (symmetry; apply N.ltb_irrefl). cbn [orb].
    replace (N.min (off + cnt) n) with n by lia. reflexivity.
Qed.

(** the one editing primitive of the repaired code: DOM Level 1's [replaceData], then the check
    of the resulting string *)
Lemma m_edit_data_spec k st off cnt arg :
  len (data st) <= usize_max -> off <= usize_max -> cnt <= usize_max ->
  m_edit_data Debug k st off cnt arg =
  match dom_replace (data st) off cnt arg with
  | None => MRaised IndexSizeErr st
  | Some r => if check k r then MDone VUnit (with_data st r) else MInvalidArg st
  end.
Proof.
  intros Hl Ho Hc. unfold m_edit_data, m_length, info_len.
  destruct (N.ltb_spec (len (data st)) off) as [H|H].
  - unfold dom_replace. destruct (N.ltb_spec (len (data st)) off); [reflexivity | lia].
  - rewrite dom_replace_formula by exact H. unfold replace_char_range.
    rewrite delete_char_range_spec by assumption.
    set (e := N.min (off + cnt) (len (data st))).
    unfold insert_char_at.
    assert (Ht : len (take off (data st)) = off) by (apply len_take_le; exact H).
    assert (Hi : (if off <? len (take off (data st) ++ drop e (data st)) then off
                  else len (take off (data st) ++ drop e (data st))) = off).
    { rewrite len_app, Ht. destruct (N.ltb_spec off (off + len (drop e (data st)))); lia. }
    rewrite Hi.
    pose proof (take_app_exact (take off (data st)) (drop e (data st))) as E1.
    pose proof (drop_app_exact (take off (data st)) (drop e (data st))) as E2.
    rewrite Ht in E1, E2. rewrite E1, E2. destruct (check k _); reflexivity.
Qed.

Lemma dom_replace_all (s arg : str) : dom_replace s 0 (len s) arg = Some arg.
Proof.
  unfold dom_replace. destruct (N.ltb_spec (len s) 0) as [H|_]; [lia|].
  rewrite N.add_0_l, N.ltb_irrefl, take_0. rewrite drop_all by lia. now rewrite app_nil_r.
Qed.

Lemma dom_insert_end (s arg : str) : dom_insert s (len s) arg = Some (s ++ arg).
Proof.
  unfold dom_insert. rewrite N.ltb_irrefl. rewrite take_all by lia. rewrite drop_all by lia.
  now rewrite app_nil_r.
Qed.

(** ** one call *)

Definition usize_args (c : call) : Prop :=
  match c with
  | Substring o n | Delete o n | Replace o n _ => o <= usize_max /\ n <= usize_max
  | Insert o _ | Split o => o <= usize_max
  | _ => True
  end.

Lemma implemented_offered k c : implemented k c = offered k c.
Proof. destruct k, c; reflexivity. Qed.

(** what the model answers to a data-writing call, in terms of DOM Level 1's result *)
Definition checked (k : kind) (st : cdstate) (r : option str) : mres :=
  match r with
  | None => MRaised IndexSizeErr st
  | Some d => if check k d then MDone VUnit (with_data st d) else MInvalidArg st
  end.

Lemma model_write k st c :
  len (data st) <= usize_max -> usize_args c -> offered k c = true ->
  match c with
  | Append arg => model_call k st c = checked k st (Some (dom_append (data st) arg))
  | Insert off arg => model_call k st c = checked k st (dom_insert (data st) off arg)
  | Delete off cnt => model_call k st c = checked k st (dom_delete (data st) off cnt)
  | Replace off cnt arg => model_call k st c = checked k st (dom_replace (data st) off cnt arg)
  | SetData arg => model_call k st c = checked k st (Some arg)
  | _ => True
  end.
Proof.
  intros Hl Ha Ho. unfold model_call, model_call_v. rewrite implemented_offered, Ho. cbn [negb].
  destruct c as [|off cnt|arg|off arg|off cnt|off cnt arg|arg|off]; cbn [usize_args] in *; try exact I.
  - unfold m_append_data, m_length, info_len. rewrite m_insert_data_spec, N.ltb_irrefl.
    rewrite take_all by lia. rewrite drop_all by lia. rewrite app_nil_r. reflexivity.
  - rewrite m_insert_data_spec. unfold dom_insert, checked. destruct (len (data st) <? off); reflexivity.
  - destruct Ha. unfold m_delete_data. rewrite m_edit_data_spec by assumption. rewrite dom_delete_replace. reflexivity.
  - destruct Ha. unfold m_replace_data. rewrite m_edit_data_spec by assumption. reflexivity.
  - unfold m_set_data, m_replace_data, m_length, info_len.
    rewrite m_edit_data_spec; [|assumption|unfold usize_max; lia|assumption]. rewrite dom_replace_all. reflexivity.
Qed.

Theorem call_refines k st c :
  len (data st) <= usize_max -> usize_args c -> call_storable k st c = true ->
  model_call k st c = embed (dom_call k st c).
Proof.
  intros Hl Ha Hs.
  destruct (offered k c) eqn:Ho.
  2:{ unfold model_call, model_call_v, dom_call. rewrite implemented_offered, Ho. reflexivity. }
  pose proof (model_write k st c Hl Ha Ho) as W.
  unfold call_storable in Hs. unfold dom_call in *. rewrite Ho in *. cbn [negb] in *.
  destruct c as [|off cnt|arg|off arg|off cnt|off cnt arg|arg|off]; cbn [usize_args writes_data] in *.
  - unfold model_call, model_call_v. rewrite implemented_offered, Ho. reflexivity.
  - unfold model_call, model_call_v. rewrite implemented_offered, Ho. cbn [negb].
    destruct Ha. rewrite m_substring_data_spec by assumption.
    destruct (dom_substring (data st) off cnt); reflexivity.
  - rewrite W. cbn [checked set_data_of data] in *. rewrite check_is_storable, Hs. reflexivity.
  - rewrite W. destruct (dom_insert (data st) off arg) as [r|]; cbn [lift checked set_data_of data] in *; [|reflexivity].
    rewrite check_is_storable, Hs. reflexivity.
  - rewrite W. destruct (dom_delete (data st) off cnt) as [r|]; cbn [lift checked set_data_of data] in *; [|reflexivity].
    rewrite check_is_storable, Hs. reflexivity.
  - rewrite W. destruct (dom_replace (data st) off cnt arg) as [r|]; cbn [lift checked set_data_of data] in *; [|reflexivity].
    rewrite check_is_storable, Hs. reflexivity.
  - rewrite W. cbn [checked set_data_of data] in *. rewrite check_is_storable, Hs. reflexivity.
  - unfold model_call, model_call_v. rewrite implemented_offered, Ho. cbn [negb].
    unfold m_split_text, dom_split, info_split_at, m_length, info_len.
    destruct (N.ltb_spec (len (data st)) off) as [H|H]; [reflexivity|].
    destruct (N.ltb_spec off (len (data st))) as [H2|H2]; [reflexivity|].
    assert (off = len (data st)) as -> by lia. reflexivity.
Qed.

Lemma checked_no_panic k st r : checked k st r <> MPanic.
Proof. unfold checked. destruct r as [d|]; [destruct (check k d)|]; discriminate. Qed.

Theorem call_no_panic k st c :
  len (data st) <= usize_max -> usize_args c -> model_call k st c <> MPanic.
Proof.
  intros Hl Ha.
  destruct (offered k c) eqn:Ho.
  2:{ unfold model_call, model_call_v. rewrite implemented_offered, Ho. discriminate. }
  pose proof (model_write k st c Hl Ha Ho) as W.
  destruct c as [|off cnt|arg|off arg|off cnt|off cnt arg|arg|off]; cbn [usize_args] in *;
    try (rewrite W; apply checked_no_panic);
    unfold model_call, model_call_v; rewrite implemented_offered, Ho; cbn [negb].
  - discriminate.
  - destruct Ha. rewrite m_substring_data_spec by assumption.
    destruct (dom_substring (data st) off cnt); discriminate.
  - unfold m_split_text. destruct (_ <? _); [discriminate|].
    destruct (info_split_at (data st) off). discriminate.
Qed.

(** ** [split_text] *)

Theorem split_concat k st off d adj st' :
  model_call k st (Split off) = MDone (VNode d adj) st' ->
  data st' ++ d = data st
  /\ len (data st') = N.min off (len (data st))
  /\ following st' = d :: following st
  /\ adj = true.
Proof.
  unfold model_call, model_call_v. destruct (implemented k (Split off)); cbn [negb]; [|discriminate].
  unfold m_split_text, info_split_at, m_length, info_len.
  destruct (N.ltb_spec (len (data st)) off) as [H|H]; [discriminate|].
  intros E. injection E as <- <- <-. cbn [data following].
  assert (Hat : (if off <? len (data st) then off else len (data st)) = off).
  { destruct (N.ltb_spec off (len (data st))); lia. }
  rewrite Hat. repeat split.
  - apply take_drop.
  - apply len_take.
Qed.

(** the characters of the node and of the siblings after it, in document order *)
Definition text_of (st : cdstate) : str := data st ++ concat (following st).

Theorem split_preserves_text k st off r st' :
  model_call k st (Split off) = r -> mstate_of r = Some st' -> text_of st' = text_of st.
Proof.
  intros <-. unfold model_call, model_call_v.
  destruct (implemented k (Split off)); cbn [negb].
  2:{ cbn [mstate_of]. now intros [= <-]. }
  unfold m_split_text, info_split_at.
  destruct (_ <? off).
  - cbn [mstate_of]. now intros [= <-].
  - cbn [mstate_of]. intros [= <-]. unfold text_of. cbn [data following concat].
    now rewrite app_assoc, take_drop.
Qed.

(** ** histories *)

Fixpoint args_len (cs : list call) : N :=
  match cs with [] => 0 | c :: cs' => len (arg_of c) + args_len cs' end.

(** no call makes the data longer than the old data plus its argument *)
Lemma dom_call_len k st c : len (data (state_of (dom_call k st c))) <= len (data st) + len (arg_of c).
Proof.
  unfold dom_call. destruct (offered k c); cbn [negb state_of]; [|lia].
  destruct c as [|off cnt|arg|off arg|off cnt|off cnt arg|arg|off]; cbn [arg_of state_of].
  - lia.
  - destruct (dom_substring _ _ _); cbn [state_of]; lia.
  - cbn [set_data_of data]. unfold dom_append. rewrite len_app. lia.
  - unfold dom_insert. destruct (_ <? off); cbn [lift state_of set_data_of data]; [lia|].
    rewrite !len_app, len_take, len_drop. lia.
  - unfold dom_delete. destruct (_ <? off); cbn [lift state_of]; [lia|].
    destruct (_ <? off + cnt); cbn [lift state_of set_data_of data];
      rewrite ?len_app, ?len_take, ?len_drop; lia.
  - unfold dom_replace. destruct (_ <? off); cbn [lift state_of]; [lia|].
    destruct (_ <? off + cnt); cbn [lift state_of set_data_of data];
      rewrite ?len_app, ?len_take, ?len_drop; lia.
  - cbn [set_data_of data]. lia.
  - unfold dom_split. destruct (_ <? off); cbn [state_of]; [lia|].
    cbn [data]. rewrite len_take. lia.
Qed.

Lemma embed_state o : mstate_of (embed o) = Some (state_of o).
Proof. destruct o; reflexivity. Qed.

(** the hypothesis of the history theorem: every call has word-sized arguments and leaves
    storable data, in the state in which it is made *)
Fixpoint run_ok (k : kind) (st : cdstate) (cs : list call) : Prop :=
  match cs with
  | [] => True
  | c :: cs' => usize_args c /\ call_storable k st c = true /\ run_ok k (state_of (dom_call k st c)) cs'
  end.

Theorem run_refines k : forall cs st,
  len (data st) + args_len cs <= usize_max -> run_ok k st cs ->
  model_run k st cs = map embed (dom_run k st cs).
Proof.
  induction cs as [|c cs IH]; intros st Hl Hall; [reflexivity|].
  destruct Hall as [Ha [Hs Hrest]].
  cbn [args_len] in Hl.
  unfold model_run. cbn [model_run_v dom_run map]. fold (model_call k st c).
  rewrite (call_refines k st c) by (try assumption; lia).
  rewrite embed_state. f_equal. apply IH; [|assumption].
  pose proof (dom_call_len k st c). lia.
Qed.

(** the same bound on the model side, for any arguments *)
Lemma checked_len k st r st' n :
  (forall d, r = Some d -> len d <= n) -> len (data st) <= n ->
  mstate_of (checked k st r) = Some st' -> len (data st') <= n.
Proof.
  intros Hr Hs. unfold checked. destruct r as [d|]; [destruct (check k d)|]; cbn [mstate_of]; intros [= <-];
    cbn [with_data data]; try exact Hs. apply Hr. reflexivity.
Qed.

Lemma model_call_len k st c st' :
  len (data st) <= usize_max -> usize_args c ->
  mstate_of (model_call k st c) = Some st' -> len (data st') <= len (data st) + len (arg_of c).
Proof.
  intros Hl Ha.
  destruct (offered k c) eqn:Ho.
  2:{ unfold model_call, model_call_v. rewrite implemented_offered, Ho. cbn [negb mstate_of]. intros [= <-]. lia. }
  pose proof (model_write k st c Hl Ha Ho) as W.
  pose proof (dom_call_len k st c) as L. unfold dom_call in L. rewrite Ho in L. cbn [negb] in L.
  destruct c as [|off cnt|arg|off arg|off cnt|off cnt arg|arg|off]; cbn [usize_args arg_of] in *.
  - unfold model_call, model_call_v. rewrite implemented_offered, Ho. cbn [negb mstate_of]. intros [= <-]. lia.
  - unfold model_call, model_call_v. rewrite implemented_offered, Ho. cbn [negb].
    destruct Ha. rewrite m_substring_data_spec by assumption.
    destruct (dom_substring _ _ _); cbn [mstate_of]; intros [= <-]; lia.
  - rewrite W. apply checked_len; [|lia]. intros d [= <-]. cbn [state_of set_data_of data] in L. exact L.
  - rewrite W. apply checked_len; [|lia]. intros d E. rewrite E in L. cbn [lift state_of set_data_of data] in L. exact L.
  - rewrite W. apply checked_len; [|lia]. intros d E. rewrite E in L. cbn [lift state_of set_data_of data] in L. exact L.
  - rewrite W. apply checked_len; [|lia]. intros d E. rewrite E in L. cbn [lift state_of set_data_of data] in L. exact L.
  - rewrite W. apply checked_len; [|lia]. intros d [= <-]. cbn [state_of set_data_of data] in L. exact L.
  - unfold model_call, model_call_v. rewrite implemented_offered, Ho. cbn [negb].
    unfold m_split_text, info_split_at. destruct (_ <? off); cbn [mstate_of]; intros [= <-]; [lia|].
    cbn [data]. rewrite len_take. lia.
Qed.

Theorem run_no_panic k : forall cs st,
  len (data st) + args_len cs <= usize_max -> Forall usize_args cs ->
  ~ In MPanic (model_run k st cs).
Proof.
  induction cs as [|c cs IH]; intros st Hl Hall; [intros []|].
  inversion Hall as [|? ? Ha Hrest]; subst. cbn [args_len] in Hl.
  unfold model_run. cbn [model_run_v]. fold (model_call k st c). fold (model_run k).
  intros [Hp|Hin].
  - revert Hp. apply call_no_panic; [lia|assumption].
  - destruct (mstate_of (model_call k st c)) as [st'|] eqn:E; [|destruct Hin].
    apply model_call_len in E; [|lia|assumption].
    revert Hin. apply IH; [lia|assumption].
Qed.

(** failure atomicity at the level of one node (the C13 statement seen from here): a call that is
    refused, or raises, leaves the data as they were *)
Theorem refused_call_keeps_data k st c st' :
  len (data st) <= usize_max -> usize_args c ->
  (model_call k st c = MInvalidArg st' \/ exists e, model_call k st c = MRaised e st') -> st' = st.
Proof.
  intros Hl Ha H.
  destruct (offered k c) eqn:Ho.
  2:{ unfold model_call, model_call_v in H. rewrite implemented_offered, Ho in H. destruct H as [H|[e H]]; discriminate. }
  pose proof (model_write k st c Hl Ha Ho) as W.
  assert (C : forall r, (checked k st r = MInvalidArg st' \/ exists e, checked k st r = MRaised e st') -> st' = st).
  { intros r [E|[e E]]; unfold checked in E; destruct r as [d|]; try destruct (check k d); inversion E; reflexivity. }
  destruct c as [|off cnt|arg|off arg|off cnt|off cnt arg|arg|off]; cbn [usize_args] in *;
    try (rewrite W in H; eapply C; exact H);
    unfold model_call, model_call_v in H; rewrite implemented_offered, Ho in H; cbn [negb] in H.
  - destruct H as [H|[e H]]; discriminate.
  - destruct Ha. rewrite m_substring_data_spec in H by assumption.
    destruct (dom_substring (data st) off cnt); destruct H as [H|[e H]]; inversion H; reflexivity.
  - unfold m_split_text in H. destruct (_ <? _); [|destruct (info_split_at (data st) off)];
      destruct H as [H|[e H]]; inversion H; reflexivity.
Qed.

(** ** the six-argument statement of the property *)

Definition usize_bounds (s : str) (off cnt : N) : Prop :=
  len s <= usize_max /\ off <= usize_max /\ cnt <= usize_max.

Lemma usize_args_mk op off cnt arg : off <= usize_max -> cnt <= usize_max -> usize_args (mk_call op off cnt arg).
Proof. destruct op; cbn [mk_call usize_args]; auto. Qed.

Theorem chardata_refines k s op off cnt arg :
  off < 2 ^ 64 -> cnt < 2 ^ 64 -> len s < 2 ^ 64 -> call_storable k (St s []) (mk_call op off cnt arg) = true ->
  model_cd k s op off cnt arg = embed (spec_cd k s op off cnt arg).
Proof.
  intros Ho Hc Hl Hs. unfold model_cd, spec_cd.
  assert (E : 2 ^ 64 = usize_max + 1) by reflexivity. rewrite E in *.
  apply call_refines; cbn [data].
  - lia.
  - apply usize_args_mk; lia.
  - exact Hs.
Qed.

(** an argument that the node kind can hold, put into an empty node or replacing everything, is
    always accepted: the old form of the hypothesis is a special case *)
Lemma set_data_storable k s arg : storable k arg = true -> call_storable k (St s []) (SetData arg) = true.
Proof.
  intros H. unfold call_storable, dom_call. cbn [writes_data]. destruct (offered k (SetData arg)); cbn [negb]; [|reflexivity].
  cbn [set_data_of data]. exact H.
Qed.

Theorem no_panic k s op off cnt arg :
  off < 2 ^ 64 -> cnt < 2 ^ 64 -> len s < 2 ^ 64 ->
  model_cd k s op off cnt arg <> MPanic.
Proof.
  intros Ho Hc Hl. unfold model_cd.
  assert (E : 2 ^ 64 = usize_max + 1) by reflexivity. rewrite E in *.
  apply call_no_panic; cbn [data]; [lia|apply usize_args_mk; lia].
Qed.

(** ** the pinned tree (before the `fix:` commit) violates the property: defect D47 *)

Definition abcd : str := [97; 98; 99; 100].

(** delete_data(1, 10) on "abcd": DOM deletes "bcd", the pinned code raises IndexSizeErr *)
Theorem pinned_refuted_clip :
  exists k s off cnt, usize_bounds s off cnt /\
    pinned_cd Debug k s ODelete off cnt [] <> embed (spec_cd k s ODelete off cnt []).
Proof.
  exists KText, abcd, 1, 10. split; [unfold usize_bounds, usize_max; cbn; lia|].
  vm_compute. discriminate.
Qed.

(** substring_data(1, usize::MAX) on "abcd": [offset + count] overflows, debug builds panic *)
Theorem pinned_refuted_panic :
  exists k s off cnt, usize_bounds s off cnt /\ pinned_cd Debug k s OSubstring off cnt [] = MPanic.
Proof.
  exists KText, abcd, 1, usize_max. split; [unfold usize_bounds, usize_max; cbn; lia|].
  vm_compute. reflexivity.
Qed.

(** release builds wrap instead: delete_data(1, usize::MAX) passes the length test with the
    wrapped sum 0 and then drains the range 1..0, which panics in every profile *)
Theorem pinned_release_refuted :
  exists k s off cnt, usize_bounds s off cnt /\ pinned_cd Release k s ODelete off cnt [] = MPanic.
Proof.
  exists KText, abcd, 1, usize_max. split; [unfold usize_bounds, usize_max; cbn; lia|].
  vm_compute. reflexivity.
Qed.

(** ** the hypotheses are satisfiable by non-trivial values *)

(** "a", HIRAGANA A (3 bytes), GRINNING FACE (4 bytes, astral), COMBINING ACUTE ACCENT *)
Definition sample : str := [97; 12354; 128512; 769].
Definition sample_arg : str := [233; 128512].

Example sample_in_scope :
  len sample < 2 ^ 64 /\ storable KText sample_arg = true /\ storable KComment sample_arg = true
  /\ storable KCData sample_arg = true.
Proof. vm_compute. repeat split; reflexivity. Qed.

(** replace_data(1, usize::MAX, arg): the count is clipped, the astral character survives *)
Example sample_replace :
  model_cd KCData sample OReplace 1 usize_max sample_arg
  = MDone VUnit (St [97; 233; 128512] []).
Proof. vm_compute. reflexivity. Qed.

Example sample_split :
  model_cd KText sample OSplit 2 0 [] = MDone (VNode [128512; 769] true) (St [97; 12354] [[128512; 769]]).
Proof. vm_compute. reflexivity. Qed.

Example sample_history_in_scope :
  let cs := [Split 2; Append sample_arg; Delete 1 usize_max; Substring 0 usize_max; Length] in
  len (data (St sample [])) + args_len cs <= usize_max
  /\ run_ok KText (St sample []) cs
  /\ model_run KText (St sample []) cs = map embed (dom_run KText (St sample []) cs).
Proof.
  cbn zeta. split; [vm_compute; discriminate|]. split.
  - cbn [run_ok usize_args]. repeat split; try (vm_compute; discriminate); vm_compute; reflexivity.
  - vm_compute. reflexivity.
Qed.

(** D39 / D46 on one node: the repaired code refuses the call that would leave "a--b" and keeps
    the data; the pinned code deletes and reports success *)
Example sample_delete_guarded :
  model_call KComment (St [97; 45; 120; 45; 98] []) (Delete 2 1) = MInvalidArg (St [97; 45; 120; 45; 98] [])
  /\ pinned_call Debug KComment (St [97; 45; 120; 45; 98] []) (Delete 2 1) = MDone VUnit (St [97; 45; 45; 98] [])
  /\ pinned_call Debug KText (St [97; 98; 99] []) (Replace 1 1 [60]) = MInvalidArg (St [97; 99] []).
Proof. vm_compute. repeat split. Qed.
