"""name-syntax half of C18 (filled in once the PEG model exists)"""
def check_names(run, okr, okm):
    pass
def replay_case(d):
    pass
