(** * Compositional reasoning about [Peg.denote] on symbolic inputs (used by the C04 ladder).

    [parses e s t r]: for all sufficiently large fuel, [e] on [s] returns the tree [t] and the
    rest [r];  [fails e s]: for all sufficiently large fuel it fails.  One introduction lemma per
    combinator; [parses_run] transfers a [parses] fact to the fuel [run] actually uses, through
    fuel monotonicity ([denote_mono]) and the termination theorem. *)
From Coq Require Import List NArith Arith Lia Bool.
From XmlRs Require Import Base.CPred Model.Peg Proofs.PegTermination.
Import ListNotations.
Local Open Scope nat_scope.

(** ** strings *)
Lemma prefix_app (a : str) : forall r : str, prefix a (a ++ r) = Some r.
Proof. induction a as [|x a IH]; intros r; cbn [prefix app]; [reflexivity|]. rewrite N.eqb_refl. apply IH. Qed.

Lemma prefix_some_app' (a n t s : str) : prefix a n = Some t -> prefix a (n ++ s) = Some (t ++ s).
Proof.
  revert n. induction a as [|y a IH]; intros n H; cbn [prefix] in *.
  - injection H as <-. reflexivity.
  - destruct n as [|z n]; [discriminate|]. cbn [app]. destruct (y =? z)%N; [apply IH; exact H|discriminate].
Qed.

Definition stops (f : char -> bool) (r : str) : Prop :=
  match r with [] => True | c :: _ => f c = false end.

Lemma span_app f (a : str) : forall r : str, forallb f a = true -> stops f r -> span f (a ++ r) = (a, r).
Proof.
  induction a as [|c a IH]; intros r Ha Hr; cbn [app].
  - destruct r as [|c r]; cbn [span]; [reflexivity|]. cbn [stops] in Hr. rewrite Hr. reflexivity.
  - cbn [forallb] in Ha. apply andb_prop in Ha. destruct Ha as [Hc Ha]. cbn [span]. rewrite Hc.
    rewrite (IH r Ha Hr). reflexivity.
Qed.

Lemma span_stops f (s : str) : stops f s -> span f s = ([], s).
Proof. intros H. apply (span_app f [] s eq_refl H). Qed.

Lemma consumed_app (a r : str) : consumed (a ++ r) r = a.
Proof.
  unfold consumed. rewrite app_length. replace (length a + length r - length r) with (length a) by lia.
  rewrite firstn_app, Nat.sub_diag, firstn_all. cbn. apply app_nil_r.
Qed.

Lemma skipn_app_exact {A} (a r : list A) : skipn (length a) (a ++ r) = r.
Proof. induction a; cbn; auto. Qed.

Lemma firstn_app_exact {A} (a r : list A) : firstn (length a) (a ++ r) = a.
Proof. induction a; cbn; [reflexivity|]. f_equal. assumption. Qed.

Section L.
Variable G : list pexpr.
Notation denote := (denote G).
Notation den1 := (den1 G).

Definition parses (e : pexpr) (s : str) (t : tree) (r : str) : Prop :=
  exists f0, forall f, f0 <= f -> denote f e s = Ok (t, r).
Definition fails (e : pexpr) (s : str) : Prop :=
  exists f0, forall f, f0 <= f -> denote f e s = Fail.

Local Ltac step := rewrite (denote_eq G); cbn [Peg.den1 bind fst snd].

(** ** terminals *)
Lemma parses_tag (a r : str) : parses (Tag a) (a ++ r) (TStr a) r.
Proof. exists 0. intros f _. step. rewrite prefix_app. reflexivity. Qed.

Lemma parses_tag_lit (a s r : str) : prefix a s = Some r -> parses (Tag a) s (TStr a) r.
Proof. intros H. exists 0. intros f _. step. rewrite H. reflexivity. Qed.

Lemma fails_tag (a s : str) : prefix a s = None -> fails (Tag a) s.
Proof. intros H. exists 0. intros f _. step. rewrite H. reflexivity. Qed.

Lemma parses_chars0 p (a r : str) : forallb (eval p) a = true -> stops (eval p) r -> parses (Chars0 p) (a ++ r) (TStr a) r.
Proof. intros Ha Hr. exists 0. intros f _. step. rewrite (span_app _ a r Ha Hr). reflexivity. Qed.

Lemma parses_chars0_nil p (r : str) : stops (eval p) r -> parses (Chars0 p) r (TStr []) r.
Proof. intros Hr. apply (parses_chars0 p [] r eq_refl Hr). Qed.

Lemma parses_chars1 p (a r : str) : a <> [] -> forallb (eval p) a = true -> stops (eval p) r -> parses (Chars1 p) (a ++ r) (TStr a) r.
Proof.
  intros Hn Ha Hr. exists 0. intros f _. step. rewrite (span_app _ a r Ha Hr).
  destruct a; [contradiction|reflexivity].
Qed.

Lemma fails_chars1 p (s : str) : stops (eval p) s -> fails (Chars1 p) s.
Proof. intros H. exists 0. intros f _. step. rewrite (span_stops _ s H). reflexivity. Qed.

(** ** sequencing *)
Lemma parses_seq a b s ta r1 tb r2 :
  parses a s ta r1 -> parses b r1 tb r2 -> parses (Seq a b) s (TPair ta tb) r2.
Proof.
  intros [f1 H1] [f2 H2]. exists (max f1 f2). intros f Hf. step.
  rewrite H1 by lia. cbn [bind fst snd]. rewrite H2 by lia. reflexivity.
Qed.

Lemma parses_seql a b s ta r1 tb r2 :
  parses a s ta r1 -> parses b r1 tb r2 -> parses (SeqL a b) s ta r2.
Proof.
  intros [f1 H1] [f2 H2]. exists (max f1 f2). intros f Hf. step.
  rewrite H1 by lia. cbn [bind fst snd]. rewrite H2 by lia. reflexivity.
Qed.

Lemma parses_seqr a b s ta r1 tb r2 :
  parses a s ta r1 -> parses b r1 tb r2 -> parses (SeqR a b) s tb r2.
Proof.
  intros [f1 H1] [f2 H2]. exists (max f1 f2). intros f Hf. step.
  rewrite H1 by lia. cbn [bind fst snd]. rewrite H2 by lia. reflexivity.
Qed.

Lemma fails_seq_l a b s : fails a s -> fails (Seq a b) s.
Proof. intros [f1 H1]. exists f1. intros f Hf. step. rewrite H1 by lia. reflexivity. Qed.
Lemma fails_seql_l a b s : fails a s -> fails (SeqL a b) s.
Proof. intros [f1 H1]. exists f1. intros f Hf. step. rewrite H1 by lia. reflexivity. Qed.
Lemma fails_seqr_l a b s : fails a s -> fails (SeqR a b) s.
Proof. intros [f1 H1]. exists f1. intros f Hf. step. rewrite H1 by lia. reflexivity. Qed.

Lemma fails_seq_r a b s ta r1 : parses a s ta r1 -> fails b r1 -> fails (Seq a b) s.
Proof.
  intros [f1 H1] [f2 H2]. exists (max f1 f2). intros f Hf. step.
  rewrite H1 by lia. cbn [bind fst snd]. rewrite H2 by lia. reflexivity.
Qed.
Lemma fails_seql_r a b s ta r1 : parses a s ta r1 -> fails b r1 -> fails (SeqL a b) s.
Proof.
  intros [f1 H1] [f2 H2]. exists (max f1 f2). intros f Hf. step.
  rewrite H1 by lia. cbn [bind fst snd]. rewrite H2 by lia. reflexivity.
Qed.
Lemma fails_seqr_r a b s ta r1 : parses a s ta r1 -> fails b r1 -> fails (SeqR a b) s.
Proof.
  intros [f1 H1] [f2 H2]. exists (max f1 f2). intros f Hf. step.
  rewrite H1 by lia. cbn [bind fst snd]. rewrite H2 by lia. reflexivity.
Qed.

(** ** choice *)
Lemma parses_alt_l a b s t r : parses a s t r -> parses (Alt a b) s t r.
Proof. intros [f1 H1]. exists f1. intros f Hf. step. rewrite H1 by lia. reflexivity. Qed.

Lemma parses_alt_r a b s t r : fails a s -> parses b s t r -> parses (Alt a b) s t r.
Proof.
  intros [f1 H1] [f2 H2]. exists (max f1 f2). intros f Hf. step.
  rewrite H1 by lia. rewrite H2 by lia. reflexivity.
Qed.

Lemma fails_alt a b s : fails a s -> fails b s -> fails (Alt a b) s.
Proof.
  intros [f1 H1] [f2 H2]. exists (max f1 f2). intros f Hf. step.
  rewrite H1 by lia. rewrite H2 by lia. reflexivity.
Qed.

(** ** option, map, recognize, non-terminals *)
Lemma parses_opt_some e s t r : parses e s t r -> parses (Opt e) s (TSome t) r.
Proof. intros [f1 H1]. exists f1. intros f Hf. step. rewrite H1 by lia. reflexivity. Qed.

Lemma parses_opt_none e s : fails e s -> parses (Opt e) s TNone s.
Proof. intros [f1 H1]. exists f1. intros f Hf. step. rewrite H1 by lia. reflexivity. Qed.

Lemma parses_map l e s t r : parses e s t r -> parses (Map l e) s (TMap l t) r.
Proof. intros [f1 H1]. exists f1. intros f Hf. step. rewrite H1 by lia. reflexivity. Qed.

Lemma fails_map l e s : fails e s -> fails (Map l e) s.
Proof. intros [f1 H1]. exists f1. intros f Hf. step. rewrite H1 by lia. reflexivity. Qed.

Lemma parses_recognize e (a r : str) t : parses e (a ++ r) t r -> parses (Recognize e) (a ++ r) (TStr a) r.
Proof.
  intros [f1 H1]. exists f1. intros f Hf. step. rewrite H1 by lia. cbn [bind fst snd].
  rewrite consumed_app. reflexivity.
Qed.

Lemma fails_recognize e s : fails e s -> fails (Recognize e) s.
Proof. intros [f1 H1]. exists f1. intros f Hf. step. rewrite H1 by lia. reflexivity. Qed.

Lemma parses_nt n s t r : parses (body G n) s t r -> parses (NT n) s t r.
Proof.
  intros [f1 H1]. exists (S f1). intros f Hf. destruct f as [|f]; [lia|]. step.
  cbn [callnt]. apply H1. lia.
Qed.

Lemma fails_nt n s : fails (body G n) s -> fails (NT n) s.
Proof.
  intros [f1 H1]. exists (S f1). intros f Hf. destruct f as [|f]; [lia|]. step.
  cbn [callnt]. apply H1. lia.
Qed.

Lemma parses_verify p1 p2 e s t r : parses e s t r -> verify_eq p1 p2 t = true -> parses (VerifyEq p1 p2 e) s t r.
Proof. intros [f1 H1] Hv. exists f1. intros f Hf. step. rewrite H1 by lia. cbn [bind fst]. rewrite Hv. reflexivity. Qed.

Lemma fails_verify p1 p2 e s : fails e s -> fails (VerifyEq p1 p2 e) s.
Proof. intros [f1 H1]. exists f1. intros f Hf. step. rewrite H1 by lia. reflexivity. Qed.

(** ** helper::take_until / take_except *)
Lemma parses_take_until_none e pat (v r : str) t :
  parses e (v ++ r) t r -> find_sub pat v = None -> parses (TakeUntil e pat) (v ++ r) (TStr v) r.
Proof.
  intros [f1 H1] Hn. exists f1. intros f Hf. step. rewrite H1 by lia. cbn [bind fst snd].
  rewrite consumed_app, Hn. reflexivity.
Qed.

(** [e] may run past the pattern: the slice is cut at its first occurrence *)
Lemma parses_take_until_cut e pat (a z r : str) t :
  parses e (a ++ z ++ r) t r -> find_sub pat (a ++ z) = Some (length a) ->
  parses (TakeUntil e pat) (a ++ z ++ r) (TStr a) (z ++ r).
Proof.
  intros [f1 H1] Hs. exists f1. intros f Hf. step. rewrite H1 by lia. cbn [bind fst snd].
  rewrite app_assoc, consumed_app, Hs. rewrite <- app_assoc, firstn_app_exact, skipn_app_exact. reflexivity.
Qed.

Lemma parses_take_except e pat (v r : str) t :
  parses e (v ++ r) t r -> ci_reject pat v = false -> parses (TakeExcept e pat) (v ++ r) (TStr v) r.
Proof.
  intros [f1 H1] Hn. exists f1. intros f Hf. step. rewrite H1 by lia. cbn [bind fst snd].
  rewrite consumed_app, Hn. reflexivity.
Qed.

(** ** repetition *)
Inductive many_parses (e : pexpr) : str -> list tree -> str -> Prop :=
| mp_stop s : fails e s -> many_parses e s [] s
| mp_step s t r1 ts r : parses e s t r1 -> length r1 < length s -> many_parses e r1 ts r ->
                        many_parses e s (t :: ts) r.

Lemma many_parses_loop e s ts r : many_parses e s ts r ->
  exists f0, forall f, f0 <= f -> forall k acc, length s < k ->
    many_loop k (denote f e) s acc = Ok (TList (rev acc ++ ts), r).
Proof.
  induction 1 as [s [f1 H1]|s t r1 ts r [f1 H1] Hlt _ [f2 IH]].
  - exists f1. intros f Hf k acc Hk. destruct k as [|k]; [lia|]. cbn [many_loop].
    rewrite H1 by lia. rewrite app_nil_r. reflexivity.
  - exists (max f1 f2). intros f Hf k acc Hk. destruct k as [|k]; [lia|]. cbn [many_loop].
    rewrite H1 by lia. apply Nat.ltb_lt in Hlt. rewrite Hlt.
    rewrite IH by (try lia; apply Nat.ltb_lt in Hlt; lia). cbn [rev]. rewrite <- app_assoc. reflexivity.
Qed.

Lemma parses_many0 e s ts r : many_parses e s ts r -> parses (Many0 e) s (TList ts) r.
Proof.
  intros H. destruct (many_parses_loop e s ts r H) as [f0 H0]. exists f0. intros f Hf. step.
  rewrite H0 by lia. reflexivity.
Qed.

Lemma parses_many1 e s t r1 ts r :
  parses e s t r1 -> many_parses e r1 ts r -> parses (Many1 e) s (TList (t :: ts)) r.
Proof.
  intros [f1 H1] H. destruct (many_parses_loop e r1 ts r H) as [f0 H0]. exists (max f1 f0). intros f Hf. step.
  rewrite H1 by lia. cbn [bind fst snd]. rewrite H0 by lia. reflexivity.
Qed.

Lemma fails_many1 e s : fails e s -> fails (Many1 e) s.
Proof. intros [f1 H1]. exists f1. intros f Hf. step. rewrite H1 by lia. reflexivity. Qed.

(** ** fuel monotonicity: a result other than [Oof] does not change when fuel is added *)
Lemma many_loop_ext (p p' : str -> res (tree * str)) :
  (forall s, p s <> Oof -> p' s = p s) ->
  forall k s acc, many_loop k p s acc <> Oof -> many_loop k p' s acc = many_loop k p s acc.
Proof.
  intros H. induction k as [|k IH]; intros s acc Hn; cbn [many_loop] in *; [reflexivity|].
  destruct (p s) as [[t r]| |] eqn:E.
  - rewrite (H s) by (rewrite E; discriminate). rewrite E.
    destruct (length r <? length s); [apply IH; exact Hn|reflexivity].
  - rewrite (H s) by (rewrite E; discriminate). rewrite E. reflexivity.
  - contradiction.
Qed.

Lemma sep_loop_ext (q q' p p' : str -> res (tree * str)) :
  (forall s, q s <> Oof -> q' s = q s) -> (forall s, p s <> Oof -> p' s = p s) ->
  forall k s acc, sep_loop k q p s acc <> Oof -> sep_loop k q' p' s acc = sep_loop k q p s acc.
Proof.
  intros Hq Hp. induction k as [|k IH]; intros s acc Hn; cbn [sep_loop] in *; [reflexivity|].
  destruct (q s) as [[t1 r1]| |] eqn:E.
  - rewrite (Hq s) by (rewrite E; discriminate). rewrite E.
    destruct (length r1 <? length s); [|reflexivity].
    destruct (p r1) as [[t2 r2]| |] eqn:E2.
    + rewrite (Hp r1) by (rewrite E2; discriminate). rewrite E2. apply IH. exact Hn.
    + rewrite (Hp r1) by (rewrite E2; discriminate). rewrite E2. reflexivity.
    + contradiction.
  - rewrite (Hq s) by (rewrite E; discriminate). rewrite E. reflexivity.
  - contradiction.
Qed.

Lemma bind_noof {A B} (x : res A) (f : A -> res B) : bind x f <> Oof -> x <> Oof.
Proof. destruct x; cbn; congruence. Qed.

Lemma denote_mono : forall f e s, denote f e s <> Oof -> forall f', f <= f' -> denote f' e s = denote f e s.
Proof.
  induction f as [|f IHf].
  - (* fuel 0: structural induction on the expression; NT is Oof *)
    induction e; intros inp Hn f' Hf; rewrite (denote_eq G f'), (denote_eq G 0) in *; cbn [Peg.den1] in *;
      try reflexivity.
    all: try (pose proof (bind_noof _ _ Hn) as Ha; rewrite (IHe1 inp Ha f' Hf);
              destruct (Peg.denote G 0 e1 inp) as [[t r]| |]; cbn [bind fst snd] in *; try reflexivity;
              pose proof (bind_noof _ _ Hn) as Hb; rewrite (IHe2 r Hb f' Hf); reflexivity).
    + (* Alt *) destruct (Peg.denote G 0 e1 inp) as [[t r]| |] eqn:E.
      * rewrite (IHe1 inp) by (rewrite ?E; try discriminate; lia). rewrite E. reflexivity.
      * rewrite (IHe1 inp) by (rewrite ?E; try discriminate; lia). rewrite E. apply IHe2; [exact Hn|lia].
      * contradiction.
    + (* Many0 *) apply many_loop_ext; [|exact Hn]. intros s0 H0. apply IHe; [exact H0|lia].
    + (* Many1 *) pose proof (bind_noof _ _ Hn) as Ha. rewrite (IHe inp Ha f' Hf).
      destruct (Peg.denote G 0 e inp) as [[t r]| |]; cbn [bind fst snd] in *; try reflexivity.
      apply many_loop_ext; [|exact Hn]. intros s0 H0. apply IHe; [exact H0|lia].
    + (* Opt *) destruct (Peg.denote G 0 e inp) as [[t r]| |] eqn:E.
      * rewrite (IHe inp) by (rewrite ?E; try discriminate; lia). rewrite E. reflexivity.
      * rewrite (IHe inp) by (rewrite ?E; try discriminate; lia). rewrite E. reflexivity.
      * contradiction.
    + (* SepBy0 *) destruct (Peg.denote G 0 e2 inp) as [[t r]| |] eqn:E.
      * rewrite (IHe2 inp) by (rewrite ?E; try discriminate; lia). rewrite E.
        apply sep_loop_ext; [| |exact Hn]; intros s0 H0; [apply IHe1|apply IHe2]; try exact H0; lia.
      * rewrite (IHe2 inp) by (rewrite ?E; try discriminate; lia). rewrite E. reflexivity.
      * contradiction.
    + (* SepBy1 *) pose proof (bind_noof _ _ Hn) as Ha. rewrite (IHe2 inp Ha f' Hf).
      destruct (Peg.denote G 0 e2 inp) as [[t r]| |]; cbn [bind fst snd] in *; try reflexivity.
      apply sep_loop_ext; [| |exact Hn]; intros s0 H0; [apply IHe1|apply IHe2]; try exact H0; lia.
    + (* Recognize *) pose proof (bind_noof _ _ Hn) as Ha. rewrite (IHe inp Ha f' Hf). reflexivity.
    + (* Map *) pose proof (bind_noof _ _ Hn) as Ha. rewrite (IHe inp Ha f' Hf). reflexivity.
    + (* TakeUntil *) pose proof (bind_noof _ _ Hn) as Ha. rewrite (IHe inp Ha f' Hf). reflexivity.
    + (* TakeExcept *) pose proof (bind_noof _ _ Hn) as Ha. rewrite (IHe inp Ha f' Hf). reflexivity.
    + (* VerifyEq *) pose proof (bind_noof _ _ Hn) as Ha. rewrite (IHe inp Ha f' Hf). reflexivity.
    + (* NT *) cbn [callnt] in Hn. contradiction.
  - induction e; intros inp Hn f' Hf; rewrite (denote_eq G f'), (denote_eq G (S f)) in *; cbn [Peg.den1] in *;
      try reflexivity.
    all: try (pose proof (bind_noof _ _ Hn) as Ha; rewrite (IHe1 inp Ha f' Hf);
              destruct (Peg.denote G (S f) e1 inp) as [[t r]| |]; cbn [bind fst snd] in *; try reflexivity;
              pose proof (bind_noof _ _ Hn) as Hb; rewrite (IHe2 r Hb f' Hf); reflexivity).
    + destruct (Peg.denote G (S f) e1 inp) as [[t r]| |] eqn:E.
      * rewrite (IHe1 inp) by (rewrite ?E; try discriminate; lia). rewrite E. reflexivity.
      * rewrite (IHe1 inp) by (rewrite ?E; try discriminate; lia). rewrite E. apply IHe2; [exact Hn|lia].
      * contradiction.
    + apply many_loop_ext; [|exact Hn]. intros s0 H0. apply IHe; [exact H0|lia].
    + pose proof (bind_noof _ _ Hn) as Ha. rewrite (IHe inp Ha f' Hf).
      destruct (Peg.denote G (S f) e inp) as [[t r]| |]; cbn [bind fst snd] in *; try reflexivity.
      apply many_loop_ext; [|exact Hn]. intros s0 H0. apply IHe; [exact H0|lia].
    + destruct (Peg.denote G (S f) e inp) as [[t r]| |] eqn:E.
      * rewrite (IHe inp) by (rewrite ?E; try discriminate; lia). rewrite E. reflexivity.
      * rewrite (IHe inp) by (rewrite ?E; try discriminate; lia). rewrite E. reflexivity.
      * contradiction.
    + destruct (Peg.denote G (S f) e2 inp) as [[t r]| |] eqn:E.
      * rewrite (IHe2 inp) by (rewrite ?E; try discriminate; lia). rewrite E.
        apply sep_loop_ext; [| |exact Hn]; intros s0 H0; [apply IHe1|apply IHe2]; try exact H0; lia.
      * rewrite (IHe2 inp) by (rewrite ?E; try discriminate; lia). rewrite E. reflexivity.
      * contradiction.
    + pose proof (bind_noof _ _ Hn) as Ha. rewrite (IHe2 inp Ha f' Hf).
      destruct (Peg.denote G (S f) e2 inp) as [[t r]| |]; cbn [bind fst snd] in *; try reflexivity.
      apply sep_loop_ext; [| |exact Hn]; intros s0 H0; [apply IHe1|apply IHe2]; try exact H0; lia.
    + pose proof (bind_noof _ _ Hn) as Ha. rewrite (IHe inp Ha f' Hf). reflexivity.
    + pose proof (bind_noof _ _ Hn) as Ha. rewrite (IHe inp Ha f' Hf). reflexivity.
    + pose proof (bind_noof _ _ Hn) as Ha. rewrite (IHe inp Ha f' Hf). reflexivity.
    + pose proof (bind_noof _ _ Hn) as Ha. rewrite (IHe inp Ha f' Hf). reflexivity.
    + pose proof (bind_noof _ _ Hn) as Ha. rewrite (IHe inp Ha f' Hf). reflexivity.
    + (* NT *) destruct f' as [|f']; [lia|]. cbn [callnt] in *. apply IHf; [exact Hn|lia].
Qed.

(** a [parses] fact holds at any fuel at which the parser does not run out *)
Lemma parses_at e s t r f : parses e s t r -> denote f e s <> Oof -> denote f e s = Ok (t, r).
Proof.
  intros [f0 H0] Hn. rewrite <- (denote_mono f e s Hn (max f f0)) by lia. apply H0. lia.
Qed.

Lemma fails_at e s f : fails e s -> denote f e s <> Oof -> denote f e s = Fail.
Proof.
  intros [f0 H0] Hn. rewrite <- (denote_mono f e s Hn (max f f0)) by lia. apply H0. lia.
Qed.

Lemma parses_fails_false e s t r : parses e s t r -> fails e s -> False.
Proof.
  intros [f1 H1] [f2 H2]. specialize (H1 (max f1 f2) (Nat.le_max_l _ _)). specialize (H2 (max f1 f2) (Nat.le_max_r _ _)). congruence.
Qed.

(** a successful run at some fuel is a [parses] fact *)
Lemma parses_of_denote f e s t r : denote f e s = Ok (t, r) -> parses e s t r.
Proof.
  intros H. exists f. intros f' Hf. rewrite (denote_mono f e s) by (rewrite ?H; try discriminate; exact Hf). exact H.
Qed.

End L.
