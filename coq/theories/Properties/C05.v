(** C05 -- XPath evaluation returns the value XPath 1.0 prescribes.
    This file only names the theorems; proofs live in Proofs/XPathRefine.v (and Proofs/XPathCanon.v).

    Specification: [Spec/XPath10.v] ([spec_query], sections 2-5 of the recommendation on tree
    positions) + [Spec/XPathCore.v] (section 4 on scalars, property C09).
    Model: [Model/XPathEval.v] ([query]), tied to the code by the `xpath` correspondence.

    FULL STATEMENT (the goal of the ladder; NOT proved as a whole):

      Theorem eval_refines_spec : forall doc c e,
        DocInv doc -> SpecShape doc -> NamesOk doc -> supported e ->
        value_abs (fst (query doc e c)) = spec_query doc (c_ns c) (get_position c) (get_size c) e.

    where [value_abs] maps [XNodes l] to [SNodes (map Row l)], an error to [None], and [supported e]
    excludes the namespace axis and [id()].  What is proved ([_partial]: each is one brick of the
    refinement, universally quantified):
      rung 0  identity and document order: the model's canonical form of a node list (de-duplicate
              and sort by ORDER KEY) is the specification's node-set (by TREE POSITION);
              every node-set value of the model is in document order without duplicates (C07);
      rung 1  navigation: child, attribute, self, descendant, descendant-or-self axes and the
              string-values of elements and leaves agree between model and specification;
              node tests agree given [NamesOk] (the dom's expanded names are those of Namespaces
              in XML: the statement of C10, decidable: [names_ok_b]);
              WHOLE QUERIES that are one location path without predicates over these axes and
              parent / ancestor / ancestor-or-self, with any node tests, [/] and [//], relative or
              absolute: [query] = [spec_query] ([C05_rung1_paths_partial]).
      rung 2  (round 2) ALL axes except [namespace] -- following-sibling, preceding-sibling,
              following, preceding included -- agree as LISTS: the model's axis result is a
              duplicate-free list of nodes of the tree, the specification's axis the increasing list
              of the same rows, so that the key sort of a step yields the list the specification
              numbers the predicates along ([C05_rung2_axes_partial], [C05_rung2_sort_partial]);
              the string-value of every node of the tree, the document node included
              ([C05_rung2_string_value_partial]).
    Hypotheses added in round 2, all decidable and evaluated on every generated document by the
    extracted checkers: [SpecShape] now also says that the rows read by the specification's walk
    ([all_nodes]) are in increasing order (the table is the pre-order walk), that a listed
    attribute is an attribute whose parent observation is the listing element, that a listed child
    has the listing node as parent observation and a kind with siblings, that row 0 is a document
    node whose children are one element, comments, processing instructions and the document type;
    [NamesOk] now also says that a processing instruction reports (target, no prefix, no URI) and
    that documents, text and comments report no name.
    Not proved: predicates and the
    induction over all expressions, comparisons, the function library (C09).  For everything that is not proved the
    equality is TESTED on every run: checks/C05.py evaluates implementation, model and
    specification on the same generated cases (and an exhaustive axis x test x predicate family).

    The statement is moreover false where the dom's data model departs from section 5 (with
    witnesses below and a classifier in checks/xpath_common.py): DTD-default attributes and
    namespace nodes have order key 0 and namespace nodes have no owner element (D19).  Repaired
    departures, now Examples of the equality: the document-type node was a child of the root (D16),
    attributes had no parent (D22b) and had their value items as children (D55), lang() compared
    for equality and read any attribute named lang (D17). *)
From Coq Require Import List NArith Bool Sorting.Sorted.
From XmlRs Require Import Base.CPred Model.XPathAst Model.XDoc Model.XDocCheck Model.XPathEval.
From XmlRs Require Import Spec.XPath10.
From XmlRs Require Import Proofs.XPathNav Proofs.XPathSort Proofs.XPathAstPred Proofs.XPathCanon Proofs.XPathRefine
  Proofs.XPathRefinePaths Proofs.XPathRefineTree Proofs.XPathRefineAxes Proofs.XPathRefineVal
  Proofs.XPathExamples Proofs.XPathWitness.
Import ListNotations.

(** what the model's value denotes in the specification *)
Definition value_abs (r : res xvalue) : option sval :=
  match r with
  | Ok (XBool b) => Some (SBool b)
  | Ok (XNum x) => Some (SNum x)
  | Ok (XText s) => Some (SStr s)
  | Ok (XNodes l) => Some (SNodes (map Row l))
  | _ => None
  end.

(** rung 0 *)
Theorem C05_rung0_nodeset_partial :
  forall (doc : xdoc) (l : list node), DocInv doc -> Forall (good doc) l ->
    map Row (union_finish doc l) = nodeset doc (map Row l).
Proof. intros doc l Hinv. exact (canon_agrees doc Hinv l). Qed.

(** rung 1, navigation *)
Theorem C05_rung1_axis_child_partial :
  forall (doc : xdoc) (i : node), SpecShape doc -> valid doc i ->
    axis_nodes doc (AxisName AxChild) i = Ok (xchildren doc i) /\
    s_axis doc AxChild (Row i) = map Row (xchildren doc i).
Proof. intros doc i Hs. exact (axis_child_agrees doc Hs i). Qed.

Theorem C05_rung1_axis_attribute_partial :
  forall (doc : xdoc) (i : node), kind doc i = KElement ->
    axis_nodes doc (AxisName AxAttribute) i = Ok (attributes doc i) /\
    s_axis doc AxAttribute (Row i) = map Row (attributes doc i).
Proof. exact axis_attribute_agrees. Qed.

Theorem C05_rung1_axis_self_partial :
  forall (doc : xdoc) (i : node),
    axis_nodes doc (AxisName AxCurrent) i = Ok [i] /\ s_axis doc AxCurrent (Row i) = [Row i].
Proof. exact axis_self_agrees. Qed.

Theorem C05_rung1_axis_descendant_partial :
  forall (doc : xdoc) (i : node), DocInv doc -> SpecShape doc -> valid doc i ->
    axis_nodes doc (AxisName AxDescendant) i = Ok (desc doc i) /\
    s_axis doc AxDescendant (Row i) = map Row (desc doc i).
Proof. intros doc i Hinv Hs. exact (axis_descendant_agrees doc Hinv Hs i). Qed.

Theorem C05_rung1_axis_descendant_or_self_partial :
  forall (doc : xdoc) (i : node), DocInv doc -> SpecShape doc -> valid doc i ->
    axis_nodes doc (AxisName AxDescendantOrSelf) i = Ok (i :: desc doc i) /\
    s_axis doc AxDescendantOrSelf (Row i) = map Row (i :: desc doc i).
Proof. intros doc i Hinv Hs. exact (axis_descendant_or_self_agrees doc Hinv Hs i). Qed.

Theorem C05_rung1_string_value_element_partial :
  forall (doc : xdoc) (i : node), DocInv doc -> SpecShape doc -> valid doc i -> kind doc i = KElement ->
    string_value doc i = Ok (s_string_value doc (Row i)).
Proof. intros doc i Hinv Hs. exact (string_value_agrees doc Hinv Hs i). Qed.

(** node tests *)
Theorem C05_rung1_node_test_partial :
  forall (doc : xdoc), NamesOk doc ->
  forall (ns : list (option str * str)), ns_lookup ns None = None ->
  forall (a : axis_spec) (t : node_test) (i : node), good doc i -> test_bound ns t ->
    test_rel (eval_node_test doc ns a t i) (s_test doc ns (axis_of a) t (Row i)).
Proof. exact node_test_agrees. Qed.

(** a query that is one predicate-free location path over the child, attribute, self, descendant,
    descendant-or-self, parent, ancestor, ancestor-or-self axes (abbreviated or not: [@], [.], [..]),
    any node tests with bound prefixes, steps joined by [/] or [//], relative or absolute, has the
    value XPath 1.0 prescribes: the same nodes in the same order, and the context is returned
    unchanged.  [ParentsOk]: the dom's parent observation is the parent in the tree (decidable; it
    fails for documents with a document type declaration, whose row has the document as dom parent
    but is not a node of the data model: the theorem does not speak about those documents). *)
Theorem C05_rung1_paths_partial :
  forall (doc : xdoc), DocInv doc -> SpecShape doc -> NamesOk doc -> ParentsOk doc ->
  forall (ns : list (option str * str)), ns_lookup ns None = None ->
  forall (p : path_expr) (c : ctx) (pos size : N), c_ns c = ns -> simple_path ns p ->
  exists lm : list node,
    query doc (path_query p) c = (Ok (XNodes lm), c) /\
    spec_query doc ns pos size (path_query p) = Some (SNodes (map Row lm)).
Proof. exact path_query_agrees. Qed.

(** round 2, rung 2: ALL axes except [namespace], at the level of lists.  For a node [i] of the tree
    ([T doc i]: row [i] is reached by the specification's walk of the document) the model's axis
    returns a duplicate-free list of tree nodes, the specification's axis is the increasing list of
    rows with the same elements: following-sibling, preceding-sibling, following, preceding
    included.  Sorting the model's list by order key therefore gives the specification's list
    ([C05_rung2_sort_partial]), which is what a step does before it numbers the nodes for its
    predicates. *)
Theorem C05_rung2_axes_partial :
  forall (doc : xdoc), DocInv doc -> SpecShape doc -> ParentsOk doc ->
  forall (a : axis_spec) (i : node), T doc i -> not_ns_axis a = true ->
  exists l l' : list node,
    axis_nodes doc a i = Ok l /\ NoDup l /\ Forall (T doc) l /\
    s_axis doc (axis_of a) (Row i) = map Row l' /\ StronglySorted N.lt l' /\
    (forall x, In x l' <-> In x l).
Proof. intros doc Hinv Hs Hp a i. exact (axis_agrees doc Hinv Hs Hp a i). Qed.

Theorem C05_rung2_sort_partial :
  forall (doc : xdoc), DocInv doc -> SpecShape doc ->
  forall l l' : list node, NoDup l -> Forall (T doc) l -> StronglySorted N.lt l' ->
    (forall x, In x l' <-> In x l) -> sort_by_key doc l = l'.
Proof. intros doc Hinv Hs. exact (sort_is_spec_list doc Hinv Hs). Qed.

(** the string-value of every node of the tree -- the document node, elements, attributes, text,
    comments, processing instructions -- is the one of section 5 *)
Theorem C05_rung2_string_value_partial :
  forall (doc : xdoc) (i : node), DocInv doc -> SpecShape doc -> T doc i ->
    string_value doc i = Ok (s_string_value doc (Row i)).
Proof. intros doc i Hinv Hs. exact (sv_agrees doc Hinv Hs i). Qed.

Theorem C05_names_ok_decidable : forall doc : xdoc, names_ok_b doc = true -> NamesOk doc.
Proof. exact names_ok_b_sound. Qed.
Theorem C05_parents_ok_decidable : forall doc : xdoc, parents_ok_b doc = true -> ParentsOk doc.
Proof. exact parents_ok_b_sound. Qed.

Theorem C05_spec_shape_decidable : forall doc : xdoc, spec_shape_b doc = true -> SpecShape doc.
Proof. exact spec_shape_b_sound. Qed.

(** the hypotheses are satisfiable, and on the example the whole equality holds *)
Example C05_example_hypotheses : DocInv ex_doc /\ SpecShape ex_doc.
Proof. split; [exact ex_doc_inv|apply spec_shape_b_sound; vm_compute; reflexivity]. Qed.

(** <r xmlns:p="urn:p" a="1"><b p:x="2">t<p:e/></b><c><f/></c><d/></r> with p bound to urn:p:
    //b/p:e, /r//node(), //@star, r/b/@p:x, //f/ancestor-or-self::star and //p:e/../@p:x are instances of
    [C05_rung1_paths_partial] *)
Definition c05_ctx : ctx := add_ns (Some [112]%N) [117;114;110;58;112]%N ctx_default.
Example C05_example_paths_hypotheses :
  DocInv path_doc /\ SpecShape path_doc /\ NamesOk path_doc /\ ParentsOk path_doc /\
  ns_lookup (c_ns c05_ctx) None = None.
Proof.
  split; [apply Proofs.XPathDocCheck.doc_inv_b_sound; vm_compute; reflexivity|].
  split; [apply spec_shape_b_sound; vm_compute; reflexivity|].
  split; [apply names_ok_b_sound; vm_compute; reflexivity|].
  split; [apply parents_ok_b_sound; vm_compute; reflexivity|reflexivity].
Qed.
Example C05_example_paths_values :
  fst (query path_doc path_doc_e0 c05_ctx) = Ok (XNodes [9]%N) /\
  spec_query path_doc (c_ns c05_ctx) 0 0 path_doc_e0 = Some (SNodes [Row 9%N]) /\
  value_abs (fst (query path_doc path_doc_e1 c05_ctx)) = spec_query path_doc (c_ns c05_ctx) 0 0 path_doc_e1 /\
  value_abs (fst (query path_doc path_doc_e3 c05_ctx)) = spec_query path_doc (c_ns c05_ctx) 0 0 path_doc_e3 /\
  fst (query path_doc path_doc_e3 c05_ctx) = Ok (XNodes [7]%N) /\
  value_abs (fst (query path_doc path_doc_e4 c05_ctx)) = spec_query path_doc (c_ns c05_ctx) 0 0 path_doc_e4 /\
  fst (query path_doc path_doc_e4 c05_ctx) = Ok (XNodes [1; 11; 13]%N) /\
  value_abs (fst (query path_doc path_doc_e5 c05_ctx)) = spec_query path_doc (c_ns c05_ctx) 0 0 path_doc_e5 /\
  fst (query path_doc path_doc_e5 c05_ctx) = Ok (XNodes [7]%N).
Proof. vm_compute. repeat split; reflexivity. Qed.

Example C05_example_refines :
  value_abs (fst (query ex_doc ex_doc_e0 ctx_default)) = spec_query ex_doc [] 0 0 ex_doc_e0 /\
  value_abs (fst (query ex_doc ex_doc_e1 ctx_default)) = spec_query ex_doc [] 0 0 ex_doc_e1 /\
  value_abs (fst (query ex_doc ex_doc_e6 ctx_default)) = spec_query ex_doc [] 0 0 ex_doc_e6 /\
  value_abs (fst (query c05_doc c05_doc_e5 ctx_default)) = spec_query c05_doc [] 0 0 c05_doc_e5.
Proof. vm_compute. repeat split; reflexivity. Qed.

(** repaired departures from the data model, now equalities (document
    <!DOCTYPE r [<!ATTLIST r d CDATA "dv">]><r a="1" xml:lang="en-US"><b>t</b></r>): the document type
    is not a node (D16: /node()), the parent of an attribute is its element (D22b: //@a/..), an
    attribute has no children (D55: //@a/node()), the content of its element follows an attribute
    (//@a/following::node()), lang() follows 4.3 (D17: /r[lang("en")]) *)
Example C05_example_repaired :
  value_abs (fst (query c05_doc c05_doc_e0 ctx_default)) = spec_query c05_doc [] 0 0 c05_doc_e0 /\
  spec_query c05_doc [] 0 0 c05_doc_e0 = Some (SNodes [Row 2%N]) /\
  value_abs (fst (query c05_doc c05_doc_e1 ctx_default)) = spec_query c05_doc [] 0 0 c05_doc_e1 /\
  spec_query c05_doc [] 0 0 c05_doc_e1 = Some (SNodes [Row 2%N]) /\
  value_abs (fst (query c05_doc c05_doc_e2 ctx_default)) = spec_query c05_doc [] 0 0 c05_doc_e2 /\
  spec_query c05_doc [] 0 0 c05_doc_e2 = Some (SNodes []) /\
  value_abs (fst (query c05_doc c05_doc_e6 ctx_default)) = spec_query c05_doc [] 0 0 c05_doc_e6 /\
  spec_query c05_doc [] 0 0 c05_doc_e6 = Some (SNodes [Row 7; Row 9]%N) /\
  value_abs (fst (query c05_doc c05_doc_e4 ctx_default)) = spec_query c05_doc [] 0 0 c05_doc_e4 /\
  spec_query c05_doc [] 0 0 c05_doc_e4 = Some (SNodes [Row 2%N]).
Proof. vm_compute. repeat split; reflexivity. Qed.

(** the full statement is still false where namespace nodes are involved: they have no owner in the
    dom (no parent: //namespace::star/..) and no usable order key (D19) *)
Theorem C05_refuted_namespace_parent_D19 :
  value_abs (fst (query c05_doc c05_doc_e7 ctx_default)) = Some (SNodes []) /\
  spec_query c05_doc [] 0 0 c05_doc_e7 = Some (SNodes [Row 2; Row 7]%N).
Proof. vm_compute. split; reflexivity. Qed.

Theorem C05_refuted_namespace_nodes_D19 :               (* //namespace::* on <r xmlns:p="u"><b/></r> *)
  value_abs (fst (query ns_doc ns_doc_e0 ctx_default)) = Some (SNodes [Row 3; Row 2]%N) /\
  spec_query ns_doc [] 0 0 ns_doc_e0 = Some (SNodes [NsOf 1 2; NsOf 1 3; NsOf 4 2; NsOf 4 5]%N).
Proof. vm_compute. split; reflexivity. Qed.

Print Assumptions C05_rung0_nodeset_partial.
Print Assumptions C05_rung1_axis_child_partial.
Print Assumptions C05_rung1_axis_descendant_partial.
Print Assumptions C05_rung1_axis_descendant_or_self_partial.
Print Assumptions C05_rung1_string_value_element_partial.
Print Assumptions C05_rung1_node_test_partial.
Print Assumptions C05_rung1_paths_partial.
Print Assumptions C05_rung2_axes_partial.
Print Assumptions C05_rung2_sort_partial.
Print Assumptions C05_rung2_string_value_partial.
