(** * The XPath expression parser never panics (parser half of C06).

    The only panic sites of xpath/src/expr/ are the [unreachable!()] arms of the [From<&str>]
    impls of the operator / axis / node-type enums (modelled as [VPanic]); [VBad] would be an
    ill-typed application of a [map] function.  Here: whatever the input, every tree that the
    regenerated grammar [G_xpath] can produce for a non-terminal is interpreted by [act] as a
    value of the type that non-terminal has in the Rust source.  Hence [parse_expr] answers
    [POk] or [PErr] on EVERY string: never [PPanic], never [PBad], and (generic termination)
    never [POof].

    The proof inverts [Peg.denote] production by production (generic inversion lemmas first),
    by induction on the fuel. *)
From Coq Require Import List NArith Arith Lia Bool.
From XmlRs Require Import Base.CPred Model.Peg Model.XPathAst Model.ParseActionsXPath
  Gen.XmlcharGen Gen.GrammarXPathGen Proofs.PegTermination Proofs.XPathParseBase Proofs.XPathParseProds
  Proofs.XPathParseAct.
Import ListNotations.
Local Open Scope nat_scope.

(** ** inversion of the interpreter *)
Section Inv.
Variable G : list pexpr.
Notation denote := (denote G).

Definition produced (f : nat) (p : pexpr) (x : tree) : Prop := exists s r, denote f p s = Ok (x, r).

Lemma bind_ok {A B} (x : res A) (k : A -> res B) b : bind x k = Ok b -> exists a, x = Ok a /\ k a = Ok b.
Proof. destruct x; cbn [bind]; intros H; try discriminate. eauto. Qed.

Lemma inv_seq f a b s t r : denote f (Seq a b) s = Ok (t, r) ->
  exists ta r1 tb, denote f a s = Ok (ta, r1) /\ denote f b r1 = Ok (tb, r) /\ t = TPair ta tb.
Proof.
  rewrite den_eq. cbn [den1]. intros H. apply bind_ok in H. destruct H as ([ta r1] & Ha & H).
  apply bind_ok in H. destruct H as ([tb r2] & Hb & H). cbn [fst snd] in *. injection H as <- <-. eauto 6.
Qed.

Lemma inv_seql f a b s t r : denote f (SeqL a b) s = Ok (t, r) ->
  exists r1 tb, denote f a s = Ok (t, r1) /\ denote f b r1 = Ok (tb, r).
Proof.
  rewrite den_eq. cbn [den1]. intros H. apply bind_ok in H. destruct H as ([ta r1] & Ha & H).
  apply bind_ok in H. destruct H as ([tb r2] & Hb & H). cbn [fst snd] in *. injection H as <- <-. eauto.
Qed.

Lemma inv_seqr f a b s t r : denote f (SeqR a b) s = Ok (t, r) ->
  exists ta r1, denote f a s = Ok (ta, r1) /\ denote f b r1 = Ok (t, r).
Proof.
  rewrite den_eq. cbn [den1]. intros H. apply bind_ok in H. destruct H as ([ta r1] & Ha & H).
  apply bind_ok in H. destruct H as ([tb r2] & Hb & H). cbn [fst snd] in *. injection H as <- <-. eauto.
Qed.

Lemma inv_alt f a b s x : denote f (Alt a b) s = Ok x -> denote f a s = Ok x \/ denote f b s = Ok x.
Proof. rewrite den_eq. cbn [den1]. destruct (Peg.denote G f a s) as [y| |]; intros H; [left; exact H|right; exact H|discriminate]. Qed.

Lemma inv_map f l p s t r : denote f (Map l p) s = Ok (t, r) -> exists t', denote f p s = Ok (t', r) /\ t = TMap l t'.
Proof.
  rewrite den_eq. cbn [den1]. intros H. apply bind_ok in H. destruct H as ([t' r'] & Hp & H).
  cbn [fst snd] in H. injection H as <- <-. eauto.
Qed.

Lemma inv_opt f p s t r : denote f (Opt p) s = Ok (t, r) ->
  t = TNone \/ exists t', t = TSome t' /\ denote f p s = Ok (t', r).
Proof.
  rewrite den_eq. cbn [den1]. destruct (Peg.denote G f p s) as [[t' r']| |] eqn:E; intros H; try discriminate.
  - injection H as <- <-. right. eauto.
  - injection H as <- _. left. reflexivity.
Qed.

Lemma inv_tag f a s t r : denote f (Tag a) s = Ok (t, r) -> t = TStr a.
Proof. rewrite den_eq. cbn [den1]. destruct (prefix a s); intros H; [injection H as <- _; reflexivity|discriminate]. Qed.

Lemma inv_chars0 f p s t r : denote f (Chars0 p) s = Ok (t, r) -> exists x, t = TStr x.
Proof. rewrite den_eq. cbn [den1]. destruct (span (eval p) s). intros H. injection H as <- _. eauto. Qed.

Lemma inv_chars1 f p s t r : denote f (Chars1 p) s = Ok (t, r) -> exists x, t = TStr x.
Proof. rewrite den_eq. cbn [den1]. destruct (span (eval p) s) as [[|c a] b]; intros H; [discriminate|]. injection H as <- _. eauto. Qed.

Lemma inv_recognize f p s t r : denote f (Recognize p) s = Ok (t, r) -> exists x, t = TStr x.
Proof.
  rewrite den_eq. cbn [den1]. intros H. apply bind_ok in H. destruct H as ([t' r'] & _ & H).
  injection H as <- _. eauto.
Qed.

Lemma inv_take_except f p pat s t r : denote f (TakeExcept p pat) s = Ok (t, r) -> exists x, t = TStr x.
Proof.
  rewrite den_eq. cbn [den1]. intros H. apply bind_ok in H. destruct H as ([t' r'] & _ & H).
  destruct (ci_reject pat _); [discriminate|]. injection H as <- _. eauto.
Qed.

Lemma inv_nt f n s x : denote (S f) (NT n) s = x -> denote f (body G n) s = x.
Proof. rewrite den_eq. cbn [den1 callnt]. trivial. Qed.

Lemma inv_nt0 n s x : denote 0 (NT n) s = Ok x -> False.
Proof. rewrite den_eq. cbn [den1 callnt]. discriminate. Qed.

Lemma many_loop_inv k (p : str -> res (tree * str)) : forall s acc t r,
  many_loop k p s acc = Ok (t, r) ->
  exists l, t = TList (rev acc ++ l) /\ Forall (fun x => exists s' r', p s' = Ok (x, r')) l.
Proof.
  induction k as [|k IH]; intros s acc t r; cbn [many_loop]; [discriminate|].
  destruct (p s) as [[t' r']| |] eqn:E; try discriminate.
  - destruct (Nat.ltb (length r') (length s)); [|discriminate]. intros H.
    destruct (IH _ _ _ _ H) as (l & -> & Hall). exists (t' :: l). split.
    + cbn [rev]. now rewrite <- app_assoc.
    + constructor; [eauto|exact Hall].
  - intros H. injection H as <- _. exists []. split; [now rewrite app_nil_r|constructor].
Qed.

Lemma sep_loop_inv k (sp p : str -> res (tree * str)) : forall s acc t r,
  sep_loop k sp p s acc = Ok (t, r) ->
  exists l, t = TList (rev acc ++ l) /\ Forall (fun x => exists s' r', p s' = Ok (x, r')) l.
Proof.
  induction k as [|k IH]; intros s acc t r; cbn [sep_loop]; [discriminate|].
  destruct (sp s) as [[t1 r1]| |] eqn:E1; try discriminate.
  - destruct (Nat.ltb (length r1) (length s)); [|discriminate].
    destruct (p r1) as [[t2 r2]| |] eqn:E2; try discriminate.
    + intros H. destruct (IH _ _ _ _ H) as (l & -> & Hall). exists (t2 :: l). split.
      * cbn [rev]. now rewrite <- app_assoc.
      * constructor; [eauto|exact Hall].
    + intros H. injection H as <- _. exists []. split; [now rewrite app_nil_r|constructor].
  - intros H. injection H as <- _. exists []. split; [now rewrite app_nil_r|constructor].
Qed.

Lemma inv_many0 f p s t r : denote f (Many0 p) s = Ok (t, r) ->
  exists l, t = TList l /\ Forall (produced f p) l.
Proof.
  rewrite den_eq. cbn [den1]. intros H. destruct (many_loop_inv _ _ _ _ _ _ H) as (l & -> & Hall).
  exists l. split; [reflexivity|exact Hall].
Qed.

Lemma inv_sepby1 f sp p s t r : denote f (SepBy1 sp p) s = Ok (t, r) ->
  exists x l, t = TList (x :: l) /\ Forall (produced f p) (x :: l).
Proof.
  rewrite den_eq. cbn [den1]. intros H. apply bind_ok in H. destruct H as ([t0 r0] & Hp & H).
  cbn [fst snd] in H. destruct (sep_loop_inv _ _ _ _ _ _ _ H) as (l & -> & Hall).
  exists t0, l. split; [reflexivity|]. constructor; [exists s, r0; exact Hp|exact Hall].
Qed.

Lemma inv_sepby0 f sp p s t r : denote f (SepBy0 sp p) s = Ok (t, r) ->
  exists l, t = TList l /\ Forall (produced f p) l.
Proof.
  rewrite den_eq. cbn [den1]. destruct (Peg.denote G f p s) as [[t0 r0]| |] eqn:Hp; try discriminate.
  - intros H. destruct (sep_loop_inv _ _ _ _ _ _ _ H) as (l & -> & Hall).
    exists (t0 :: l). split; [reflexivity|]. constructor; [exists s, r0; exact Hp|exact Hall].
  - intros H. injection H as <- _. exists []. split; [reflexivity|constructor].
Qed.

End Inv.

(** ** values of lists *)
Lemma act_list_of (Q : val -> Prop) (l : list tree) :
  (forall v, Q v -> clean v) -> Forall (fun x => Q (act x)) l ->
  act (TList l) = VList (map act l) /\ Forall Q (map act l).
Proof.
  intros Hc Hall. induction Hall as [|x l Hx Hl [IH1 IH2]].
  - split; [reflexivity|constructor].
  - split; [|constructor; assumption].
    apply act_list_cons; [reflexivity|apply Hc, Hx|exact IH1].
Qed.

Lemma to_exprs_all l : Forall (fun v => exists e, v = VOr e) l -> exists es, to_exprs l = Some es.
Proof.
  induction 1 as [|v l [e ->] _ [es IH]]; [eexists; reflexivity|]. cbn [to_exprs]. rewrite IH. eauto.
Qed.
Lemma to_paths_all l : Forall (fun v => exists e, v = VPath e) l -> exists es, to_paths l = Some es.
Proof.
  induction 1 as [|v l [e ->] _ [es IH]]; [eexists; reflexivity|]. cbn [to_paths]. rewrite IH. eauto.
Qed.
Lemma to_ands_all l : Forall (fun v => exists e, v = VAnd e) l -> exists es, to_ands l = Some es.
Proof.
  induction 1 as [|v l [e ->] _ [es IH]]; [eexists; reflexivity|]. cbn [to_ands]. rewrite IH. eauto.
Qed.
Lemma to_eqs_all l : Forall (fun v => exists e, v = VEq e) l -> exists es, to_eqs l = Some es.
Proof.
  induction 1 as [|v l [e ->] _ [es IH]]; [eexists; reflexivity|]. cbn [to_eqs]. rewrite IH. eauto.
Qed.
Lemma to_stepops_all l : Forall (fun v => exists o s, v = VPair (VLpOp o) (VStep s)) l -> exists es, to_stepops l = Some es.
Proof.
  induction 1 as [|v l (o & s & ->) _ [es IH]]; [eexists; reflexivity|]. cbn [to_stepops]. rewrite IH. eauto.
Qed.
Lemma to_eqops_all l : Forall (fun v => exists o s, v = VPair (VEqOp o) (VRel s)) l -> exists es, to_eqops l = Some es.
Proof.
  induction 1 as [|v l (o & s & ->) _ [es IH]]; [eexists; reflexivity|]. cbn [to_eqops]. rewrite IH. eauto.
Qed.
Lemma to_relops_all l : Forall (fun v => exists o s, v = VPair (VRelOp o) (VAdd s)) l -> exists es, to_relops l = Some es.
Proof.
  induction 1 as [|v l (o & s & ->) _ [es IH]]; [eexists; reflexivity|]. cbn [to_relops]. rewrite IH. eauto.
Qed.
Lemma to_addops_all l : Forall (fun v => exists o s, v = VPair (VAddOp o) (VMul s)) l -> exists es, to_addops l = Some es.
Proof.
  induction 1 as [|v l (o & s & ->) _ [es IH]]; [eexists; reflexivity|]. cbn [to_addops]. rewrite IH. eauto.
Qed.
Lemma to_mulops_all l : Forall (fun v => exists o s, v = VPair (VMulOp o) (VUnary s)) l -> exists es, to_mulops l = Some es.
Proof.
  induction 1 as [|v l (o & s & ->) _ [es IH]]; [eexists; reflexivity|]. cbn [to_mulops]. rewrite IH. eauto.
Qed.

(** ** the type of every non-terminal *)
Notation D := (denote G_xpath).

Definition is_str (t : tree) : Prop := exists s, t = TStr s.

Definition tys : list (tree -> Prop) := [
  (* ncname *) is_str;
  (* qname *) (fun t => exists q, act t = VQName q);
  (* prefixed_name *) (fun t => exists p l, act t = VPrefixed p l);
  (* parse *) (fun t => exists e, act t = VOr e);
  (* relative_location_path *) (fun t => exists p, act t = VRelPath p);
  (* step *) (fun t => exists s, act t = VStep s);
  (* axis_specifier *) (fun t => exists a, act t = VAxisSpec a);
  (* axis_name *) (fun t => exists a, act t = VAxisName a);
  (* node_test *) (fun t => exists x, act t = VNodeTest x);
  (* predicate *) (fun t => exists e, act t = VOr e);
  (* predicate_expr *) (fun t => exists e, act t = VOr e);
  (* expr *) (fun t => exists e, act t = VOr e);
  (* primary_expr *) (fun t => exists p, act t = VPrimary p);
  (* function_call *) (fun t => exists n a, act t = VCall n a);
  (* argument *) (fun t => exists e, act t = VOr e);
  (* union_expr *) (fun t => exists u, act t = VUnion u);
  (* path_expr *) (fun t => exists p, act t = VPath p);
  (* filter_expr *) (fun t => exists f, act t = VFilter f);
  (* or_expr *) (fun t => exists e, act t = VOr e);
  (* and_expr *) (fun t => exists e, act t = VAnd e);
  (* equality_expr *) (fun t => exists e, act t = VEq e);
  (* relation_expr *) (fun t => exists e, act t = VRel e);
  (* additive_expr *) (fun t => exists e, act t = VAdd e);
  (* multiplicative_expr *) (fun t => exists e, act t = VMul e);
  (* unary_expr *) (fun t => exists e, act t = VUnary e);
  (* literal *) is_str;
  (* number *) is_str;
  (* function_name *) (fun t => exists q, act t = VQName q);
  (* variable_reference *) (fun t => exists q, act t = VQName q);
  (* name_test *) (fun t => exists x, act t = VNameTest x);
  (* node_type *) (fun t => exists x, act t = VNodeType x)
].

Definition ty (n : nat) (t : tree) : Prop := nth n tys (fun _ => False) t.

Ltac uty := unfold ty; cbv beta iota delta [nth tys nt_ncname nt_qname nt_prefixed_name nt_parse nt_relative_location_path nt_step nt_axis_specifier nt_axis_name nt_node_test nt_predicate nt_predicate_expr nt_expr nt_primary_expr nt_function_call nt_argument nt_union_expr nt_path_expr nt_filter_expr nt_or_expr nt_and_expr nt_equality_expr nt_relation_expr nt_additive_expr nt_multiplicative_expr nt_unary_expr nt_literal nt_number nt_function_name nt_variable_reference nt_name_test nt_node_type].

Definition IHty (f : nat) : Prop := forall n s t r, D f (NT n) s = Ok (t, r) -> ty n t.

Lemma ty_ncname f s t r : D f (body G_xpath nt_ncname) s = Ok (t, r) -> ty nt_ncname t.
Proof. rewrite prod_ncname. intros H. uty. apply inv_recognize in H. exact H. Qed.

Lemma ty_prefixed_name f s t r : IHty f -> D f (body G_xpath nt_prefixed_name) s = Ok (t, r) -> ty nt_prefixed_name t.
Proof.
  intros IH. rewrite prod_prefixed_name. intros H. uty.
  apply inv_map in H. destruct H as (t' & H & ->). apply inv_seq in H. destruct H as (ta & r1 & tb & Ha & Hb & ->).
  apply inv_seqr in Hb. destruct Hb as (_ & r2 & _ & Hb).
  destruct (IH _ _ _ _ Ha) as [p ->]. destruct (IH _ _ _ _ Hb) as [l ->]. exists p, l. reflexivity.
Qed.

Lemma ty_qname f s t r : IHty f -> D f (body G_xpath nt_qname) s = Ok (t, r) -> ty nt_qname t.
Proof.
  intros IH. rewrite prod_qname. intros H. uty. apply inv_alt in H. destruct H as [H|H];
  apply inv_map in H; destruct H as (t' & H & ->).
  - destruct (IH _ _ _ _ H) as (p & l & E). eexists. cbn [act]. rewrite E. reflexivity.
  - destruct (IH _ _ _ _ H) as [x ->]. eexists. reflexivity.
Qed.

Lemma ty_alias f n m s t r : IHty f -> body G_xpath n = NT m -> ty m = ty n ->
  D f (body G_xpath n) s = Ok (t, r) -> ty n t.
Proof. intros IH E Ety H. rewrite E in H. rewrite <- Ety. apply (IH _ _ _ _ H). Qed.

(** lists of sub-results *)
Lemma produced_ty f p n l : IHty f -> p = NT n -> Forall (produced G_xpath f p) l -> Forall (ty n) l.
Proof.
  intros IH -> H. induction H as [|x l (s & r & Hx) _ IHl]; constructor; [apply (IH _ _ _ _ Hx)|exact IHl].
Qed.

Lemma list_vals (Q : val -> Prop) l : (forall v, Q v -> clean v) -> Forall (fun x => Q (act x)) l ->
  act (TList l) = VList (map act l) /\ Forall Q (map act l).
Proof. apply act_list_of. Qed.

Lemma ty_or_expr f s t r : IHty f -> D f (body G_xpath nt_or_expr) s = Ok (t, r) -> ty nt_or_expr t.
Proof.
  intros IH. rewrite prod_or_expr. intros H. uty. apply inv_map in H. destruct H as (t' & H & ->).
  apply inv_sepby1 in H. destruct H as (x & l & -> & Hall).
  pose proof (produced_ty f _ nt_and_expr _ IH eq_refl Hall) as Hty.
  destruct (list_vals (fun v => exists e, v = VAnd e) (x :: l)) as [E Hv].
  { intros v [e ->]. reflexivity. }
  { exact Hty. }
  change (act (TMap L_model_OrExpr_from (TList (x :: l)))) with (apply_label L_model_OrExpr_from (act (TList (x :: l)))).
  rewrite E. cbn [map] in *. inversion Hv as [|v vs [e Ev] Hvs]; subst.
  destruct (to_ands_all _ Hvs) as [es Hes]. exists (EOr e es). rewrite Ev. cbn. now rewrite Hes.
Qed.

Lemma ty_and_expr f s t r : IHty f -> D f (body G_xpath nt_and_expr) s = Ok (t, r) -> ty nt_and_expr t.
Proof.
  intros IH. rewrite prod_and_expr. intros H. uty. apply inv_map in H. destruct H as (t' & H & ->).
  apply inv_sepby1 in H. destruct H as (x & l & -> & Hall).
  pose proof (produced_ty f _ nt_equality_expr _ IH eq_refl Hall) as Hty.
  destruct (list_vals (fun v => exists e, v = VEq e) (x :: l)) as [E Hv].
  { intros v [e ->]. reflexivity. }
  { exact Hty. }
  change (act (TMap L_model_AndExpr_from (TList (x :: l)))) with (apply_label L_model_AndExpr_from (act (TList (x :: l)))).
  rewrite E. cbn [map] in *. inversion Hv as [|v vs [e Ev] Hvs]; subst.
  destruct (to_eqs_all _ Hvs) as [es Hes]. exists (EAnd e es). rewrite Ev. cbn. now rewrite Hes.
Qed.

Lemma ty_union_expr f s t r : IHty f -> D f (body G_xpath nt_union_expr) s = Ok (t, r) -> ty nt_union_expr t.
Proof.
  intros IH. rewrite prod_union_expr. intros H. uty. apply inv_map in H. destruct H as (t' & H & ->).
  apply inv_sepby1 in H. destruct H as (x & l & -> & Hall).
  pose proof (produced_ty f _ nt_path_expr _ IH eq_refl Hall) as Hty.
  destruct (list_vals (fun v => exists e, v = VPath e) (x :: l)) as [E Hv].
  { intros v [e ->]. reflexivity. }
  { exact Hty. }
  change (act (TMap L_model_UnionExpr_from (TList (x :: l)))) with (apply_label L_model_UnionExpr_from (act (TList (x :: l)))).
  rewrite E. destruct (to_paths_all _ Hv) as [es Hes]. exists (EUnion es). cbn -[to_paths map]. now rewrite Hes.
Qed.

(** shape A: operand, many0 of (operator, operand) *)
Lemma opchain_items f (Lop : N) (alts : pexpr) (m : nat) (QO QV : val -> Prop) l :
  IHty f ->
  (forall s t r, D f (Map Lop alts) s = Ok (t, r) -> QO (act t)) ->
  (forall t, ty m t -> QV (act t)) ->
  (forall v, QO v -> clean v) -> (forall v, QV v -> clean v) ->
  Forall (produced G_xpath f (Seq (SeqR WS (SeqL (Map Lop alts) WS)) (NT m))) l ->
  Forall (fun x => exists o v, act x = VPair o v /\ QO o /\ QV v) l.
Proof.
  intros IH HO HV Hco Hcv H. induction H as [|x l (s & r & Hx) _ IHl]; constructor; [|exact IHl].
  apply inv_seq in Hx. destruct Hx as (ta & r1 & tb & Ha & Hb & ->).
  apply inv_seqr in Ha. destruct Ha as (_ & r2 & _ & Ha). apply inv_seql in Ha. destruct Ha as (r3 & _ & Ha & _).
  pose proof (HO _ _ _ Ha) as Ho. pose proof (HV _ (IH _ _ _ _ Hb)) as Hv.
  exists (act ta), (act tb). split; [|auto]. apply act_pair; auto.
Qed.

Ltac tag_alts H :=
  repeat (apply inv_alt in H; destruct H as [H|H]); apply inv_tag in H; subst.

Lemma ty_eq_op f s t r : D f (Map L_model_EqualityOperator_from (Alt (Tag [61%N]) (Tag [33%N;61%N]))) s = Ok (t, r) ->
  exists o, act t = VEqOp o.
Proof. intros H. apply inv_map in H. destruct H as (t' & H & ->). tag_alts H; eexists; reflexivity. Qed.

Lemma ty_rel_op f s t r : D f (Map L_model_RelationalOperator_from (Alt (Tag [60%N;61%N]) (Alt (Tag [62%N;61%N]) (Alt (Tag [60%N]) (Tag [62%N]))))) s = Ok (t, r) ->
  exists o, act t = VRelOp o.
Proof. intros H. apply inv_map in H. destruct H as (t' & H & ->). tag_alts H; eexists; reflexivity. Qed.

Lemma ty_add_op f s t r : D f (Map L_model_AdditiveOperator_from (Alt (Tag [43%N]) (Tag [45%N]))) s = Ok (t, r) ->
  exists o, act t = VAddOp o.
Proof. intros H. apply inv_map in H. destruct H as (t' & H & ->). tag_alts H; eexists; reflexivity. Qed.

Lemma ty_mul_op f s t r : D f (Map L_model_MultiplicativeOperator_from (Alt (Tag [42%N]) (Alt (Tag [100%N;105%N;118%N]) (Tag [109%N;111%N;100%N])))) s = Ok (t, r) ->
  exists o, act t = VMulOp o.
Proof. intros H. apply inv_map in H. destruct H as (t' & H & ->). tag_alts H; eexists; reflexivity. Qed.

Lemma ty_lp_op f s t r : D f (Map L_model_LocationPathOperator_from (Alt (Tag [47%N;47%N]) (Tag [47%N]))) s = Ok (t, r) ->
  exists o, act t = VLpOp o.
Proof. intros H. apply inv_map in H. destruct H as (t' & H & ->). tag_alts H; eexists; reflexivity. Qed.

Lemma pairs_refine (QO QV : val -> Prop) (R : val -> Prop) vs :
  (forall o v, QO o -> QV v -> R (VPair o v)) ->
  Forall (fun x => exists o v, x = VPair o v /\ QO o /\ QV v) vs -> Forall R vs.
Proof. intros HR H. induction H as [|x l (o & v & -> & Ho & Hv) _ IH]; constructor; auto. Qed.

Lemma ty_equality_expr f s t r : IHty f -> D f (body G_xpath nt_equality_expr) s = Ok (t, r) -> ty nt_equality_expr t.
Proof.
  intros IH. rewrite prod_equality_expr. intros H. uty. apply inv_map in H. destruct H as (t' & H & ->).
  apply inv_seq in H. destruct H as (t0 & r1 & tl & H0 & Hl & ->).
  apply inv_many0 in Hl. destruct Hl as (l & -> & Hall).
  destruct (IH _ _ _ _ H0) as [e0 E0].
  pose proof (opchain_items f _ _ nt_relation_expr (fun v => exists o, v = VEqOp o) (fun v => exists e, v = VRel e) l IH
                (ty_eq_op f) (fun t H => H) ltac:(intros v [o ->]; reflexivity) ltac:(intros v [e ->]; reflexivity) Hall) as Hitems.
  destruct (list_vals (fun x => exists o v, x = VPair o v /\ (exists o', o = VEqOp o') /\ (exists e, v = VRel e)) l) as [E Hv].
  { intros v (o & x & -> & [o' ->] & [e ->]). reflexivity. }
  { exact Hitems. }
  assert (Hv' : Forall (fun v => exists o s, v = VPair (VEqOp o) (VRel s)) (map act l)).
  { eapply pairs_refine; [|exact Hv]. intros o v [o' ->] [e ->]. eauto. }
  destruct (to_eqops_all _ Hv') as [ops Hops].
  change (act (TMap L_model_EqualityExpr_from (TPair t0 (TList l)))) with (apply_label L_model_EqualityExpr_from (act (TPair t0 (TList l)))).
  rewrite (act_pair _ _ _ _ E0 eq_refl E eq_refl). exists (EEq e0 ops). cbn -[to_eqops map]. now rewrite Hops.
Qed.

Lemma ty_relation_expr f s t r : IHty f -> D f (body G_xpath nt_relation_expr) s = Ok (t, r) -> ty nt_relation_expr t.
Proof.
  intros IH. rewrite prod_relation_expr. intros H. uty. apply inv_map in H. destruct H as (t' & H & ->).
  apply inv_seq in H. destruct H as (t0 & r1 & tl & H0 & Hl & ->).
  apply inv_many0 in Hl. destruct Hl as (l & -> & Hall).
  destruct (IH _ _ _ _ H0) as [e0 E0].
  pose proof (opchain_items f _ _ nt_additive_expr (fun v => exists o, v = VRelOp o) (fun v => exists e, v = VAdd e) l IH
                (ty_rel_op f) (fun t H => H) ltac:(intros v [o ->]; reflexivity) ltac:(intros v [e ->]; reflexivity) Hall) as Hitems.
  destruct (list_vals (fun x => exists o v, x = VPair o v /\ (exists o', o = VRelOp o') /\ (exists e, v = VAdd e)) l) as [E Hv].
  { intros v (o & x & -> & [o' ->] & [e ->]). reflexivity. }
  { exact Hitems. }
  assert (Hv' : Forall (fun v => exists o s, v = VPair (VRelOp o) (VAdd s)) (map act l)).
  { eapply pairs_refine; [|exact Hv]. intros o v [o' ->] [e ->]. eauto. }
  destruct (to_relops_all _ Hv') as [ops Hops].
  change (act (TMap L_model_RelationalExpr_from (TPair t0 (TList l)))) with (apply_label L_model_RelationalExpr_from (act (TPair t0 (TList l)))).
  rewrite (act_pair _ _ _ _ E0 eq_refl E eq_refl). exists (ERel e0 ops). cbn -[to_relops map]. now rewrite Hops.
Qed.

Lemma ty_additive_expr f s t r : IHty f -> D f (body G_xpath nt_additive_expr) s = Ok (t, r) -> ty nt_additive_expr t.
Proof.
  intros IH. rewrite prod_additive_expr. intros H. uty. apply inv_map in H. destruct H as (t' & H & ->).
  apply inv_seq in H. destruct H as (t0 & r1 & tl & H0 & Hl & ->).
  apply inv_many0 in Hl. destruct Hl as (l & -> & Hall).
  destruct (IH _ _ _ _ H0) as [e0 E0].
  pose proof (opchain_items f _ _ nt_multiplicative_expr (fun v => exists o, v = VAddOp o) (fun v => exists e, v = VMul e) l IH
                (ty_add_op f) (fun t H => H) ltac:(intros v [o ->]; reflexivity) ltac:(intros v [e ->]; reflexivity) Hall) as Hitems.
  destruct (list_vals (fun x => exists o v, x = VPair o v /\ (exists o', o = VAddOp o') /\ (exists e, v = VMul e)) l) as [E Hv].
  { intros v (o & x & -> & [o' ->] & [e ->]). reflexivity. }
  { exact Hitems. }
  assert (Hv' : Forall (fun v => exists o s, v = VPair (VAddOp o) (VMul s)) (map act l)).
  { eapply pairs_refine; [|exact Hv]. intros o v [o' ->] [e ->]. eauto. }
  destruct (to_addops_all _ Hv') as [ops Hops].
  change (act (TMap L_model_AdditiveExpr_from (TPair t0 (TList l)))) with (apply_label L_model_AdditiveExpr_from (act (TPair t0 (TList l)))).
  rewrite (act_pair _ _ _ _ E0 eq_refl E eq_refl). exists (EAdd e0 ops). cbn -[to_addops map]. now rewrite Hops.
Qed.

Lemma ty_multiplicative_expr f s t r : IHty f -> D f (body G_xpath nt_multiplicative_expr) s = Ok (t, r) -> ty nt_multiplicative_expr t.
Proof.
  intros IH. rewrite prod_multiplicative_expr. intros H. uty. apply inv_map in H. destruct H as (t' & H & ->).
  apply inv_seq in H. destruct H as (t0 & r1 & tl & H0 & Hl & ->).
  apply inv_many0 in Hl. destruct Hl as (l & -> & Hall).
  destruct (IH _ _ _ _ H0) as [e0 E0].
  pose proof (opchain_items f _ _ nt_unary_expr (fun v => exists o, v = VMulOp o) (fun v => exists e, v = VUnary e) l IH
                (ty_mul_op f) (fun t H => H) ltac:(intros v [o ->]; reflexivity) ltac:(intros v [e ->]; reflexivity) Hall) as Hitems.
  destruct (list_vals (fun x => exists o v, x = VPair o v /\ (exists o', o = VMulOp o') /\ (exists e, v = VUnary e)) l) as [E Hv].
  { intros v (o & x & -> & [o' ->] & [e ->]). reflexivity. }
  { exact Hitems. }
  assert (Hv' : Forall (fun v => exists o s, v = VPair (VMulOp o) (VUnary s)) (map act l)).
  { eapply pairs_refine; [|exact Hv]. intros o v [o' ->] [e ->]. eauto. }
  destruct (to_mulops_all _ Hv') as [ops Hops].
  change (act (TMap L_model_MultiplicativeExpr_from (TPair t0 (TList l)))) with (apply_label L_model_MultiplicativeExpr_from (act (TPair t0 (TList l)))).
  rewrite (act_pair _ _ _ _ E0 eq_refl E eq_refl). exists (EMul e0 ops). cbn -[to_mulops map]. now rewrite Hops.
Qed.

Lemma ty_relative_location_path f s t r : IHty f -> D f (body G_xpath nt_relative_location_path) s = Ok (t, r) -> ty nt_relative_location_path t.
Proof.
  intros IH. rewrite prod_relative_location_path. intros H. uty. apply inv_map in H. destruct H as (t' & H & ->).
  apply inv_seq in H. destruct H as (t0 & r1 & tl & H0 & Hl & ->).
  apply inv_many0 in Hl. destruct Hl as (l & -> & Hall).
  destruct (IH _ _ _ _ H0) as [e0 E0].
  pose proof (opchain_items f _ _ nt_step (fun v => exists o, v = VLpOp o) (fun v => exists e, v = VStep e) l IH
                (ty_lp_op f) (fun t H => H) ltac:(intros v [o ->]; reflexivity) ltac:(intros v [e ->]; reflexivity) Hall) as Hitems.
  destruct (list_vals (fun x => exists o v, x = VPair o v /\ (exists o', o = VLpOp o') /\ (exists e, v = VStep e)) l) as [E Hv].
  { intros v (o & x & -> & [o' ->] & [e ->]). reflexivity. }
  { exact Hitems. }
  assert (Hv' : Forall (fun v => exists o s, v = VPair (VLpOp o) (VStep s)) (map act l)).
  { eapply pairs_refine; [|exact Hv]. intros o v [o' ->] [e ->]. eauto. }
  destruct (to_stepops_all _ Hv') as [ops Hops].
  change (act (TMap L_model_RelativeLocationPath_from (TPair t0 (TList l)))) with (apply_label L_model_RelativeLocationPath_from (act (TPair t0 (TList l)))).
  rewrite (act_pair _ _ _ _ E0 eq_refl E eq_refl). exists (ERelPath e0 ops). cbn -[to_stepops map]. now rewrite Hops.
Qed.

Lemma ty_axis_name f s t r : D f (body G_xpath nt_axis_name) s = Ok (t, r) -> ty nt_axis_name t.
Proof.
  rewrite prod_axis_name. intros H. uty. apply inv_map in H. destruct H as (t' & H & ->).
  tag_alts H; eexists; reflexivity.
Qed.

Lemma ty_node_type f s t r : D f (body G_xpath nt_node_type) s = Ok (t, r) -> ty nt_node_type t.
Proof.
  rewrite prod_node_type. intros H. uty. apply inv_map in H. destruct H as (t' & H & ->).
  tag_alts H; eexists; reflexivity.
Qed.

Lemma ty_literal f s t r : D f (body G_xpath nt_literal) s = Ok (t, r) -> ty nt_literal t.
Proof.
  rewrite prod_literal. intros H. uty. apply inv_alt in H. destruct H as [H|H];
  apply inv_seqr in H; destruct H as (_ & r1 & _ & H); apply inv_seql in H; destruct H as (r2 & _ & H & _);
  apply inv_chars0 in H; exact H.
Qed.

Lemma ty_number f s t r : D f (body G_xpath nt_number) s = Ok (t, r) -> ty nt_number t.
Proof.
  rewrite prod_number. intros H. uty. apply inv_alt in H. destruct H as [H|H]; apply inv_recognize in H; exact H.
Qed.

Lemma ty_function_name f s t r : IHty f -> D f (body G_xpath nt_function_name) s = Ok (t, r) -> ty nt_function_name t.
Proof.
  intros IH. rewrite prod_function_name. intros H. uty. apply inv_alt in H. destruct H as [H|H];
  apply inv_map in H; destruct H as (t' & H & ->).
  - apply inv_map in H. destruct H as (t'' & H & ->). apply inv_seq in H. destruct H as (ta & r1 & tb & Ha & Hb & ->).
    apply inv_seqr in Hb. destruct Hb as (_ & r2 & _ & Hb).
    destruct (IH _ _ _ _ Ha) as [p ->]. destruct (IH _ _ _ _ Hb) as [l ->]. eexists. reflexivity.
  - apply inv_take_except in H. destruct H as [x ->]. eexists. reflexivity.
Qed.

Lemma ty_variable_reference f s t r : IHty f -> D f (body G_xpath nt_variable_reference) s = Ok (t, r) -> ty nt_variable_reference t.
Proof.
  intros IH. rewrite prod_variable_reference. intros H. uty. apply inv_seqr in H. destruct H as (_ & r1 & _ & H).
  apply (IH _ _ _ _ H).
Qed.

Lemma ty_name_test f s t r : IHty f -> D f (body G_xpath nt_name_test) s = Ok (t, r) -> ty nt_name_test t.
Proof.
  intros IH. rewrite prod_name_test. intros H. uty. apply inv_alt in H. destruct H as [H|H]; [|apply inv_alt in H; destruct H as [H|H]];
  apply inv_map in H; destruct H as (t' & H & ->).
  - apply inv_tag in H. subst. eexists. reflexivity.
  - apply inv_seql in H. destruct H as (r1 & _ & H & _). destruct (IH _ _ _ _ H) as [x ->]. eexists. reflexivity.
  - destruct (IH _ _ _ _ H) as [q E]. eexists. cbn [act]. rewrite E. reflexivity.
Qed.

Lemma ty_node_test f s t r : IHty f -> D f (body G_xpath nt_node_test) s = Ok (t, r) -> ty nt_node_test t.
Proof.
  intros IH. rewrite prod_node_test. intros H. uty. apply inv_alt in H. destruct H as [H|H]; [|apply inv_alt in H; destruct H as [H|H]];
  apply inv_map in H; destruct H as (t' & H & ->).
  - apply inv_seqr in H. destruct H as (_ & r1 & _ & H). apply inv_seql in H. destruct H as (r2 & _ & H & _).
    destruct (IH _ _ _ _ H) as [x ->]. eexists. reflexivity.
  - apply inv_seql in H. destruct H as (r1 & _ & H & _). destruct (IH _ _ _ _ H) as [x E]. eexists. cbn [act]. rewrite E. reflexivity.
  - destruct (IH _ _ _ _ H) as [x E]. eexists. cbn [act]. rewrite E. reflexivity.
Qed.

Lemma ty_axis_specifier f s t r : IHty f -> D f (body G_xpath nt_axis_specifier) s = Ok (t, r) -> ty nt_axis_specifier t.
Proof.
  intros IH. rewrite prod_axis_specifier. intros H. uty. apply inv_alt in H. destruct H as [H|H];
  apply inv_map in H; destruct H as (t' & H & ->).
  - apply inv_seql in H. destruct H as (r1 & _ & H & _). destruct (IH _ _ _ _ H) as [x E]. eexists. cbn [act]. rewrite E. reflexivity.
  - apply inv_opt in H. destruct H as [->|(t'' & -> & H)]; [eexists; reflexivity|].
    apply inv_tag in H. subst. eexists. reflexivity.
Qed.

Lemma ty_predicate f s t r : IHty f -> D f (body G_xpath nt_predicate) s = Ok (t, r) -> ty nt_predicate t.
Proof.
  intros IH. rewrite prod_predicate. intros H. uty. apply inv_seqr in H. destruct H as (_ & r1 & _ & H).
  apply inv_seql in H. destruct H as (r2 & _ & H & _). apply (IH _ _ _ _ H).
Qed.

(** many0(preceded(multispace0, predicate)) *)
Lemma preds_items f l : IHty f -> Forall (produced G_xpath f (SeqR WS (NT nt_predicate))) l ->
  Forall (fun x => exists e, act x = VOr e) l.
Proof.
  intros IH H. induction H as [|x l (s & r & Hx) _ IHl]; constructor; [|exact IHl].
  apply inv_seqr in Hx. destruct Hx as (_ & r1 & _ & Hx). apply (IH _ _ _ _ Hx).
Qed.

Lemma ty_step f s t r : IHty f -> D f (body G_xpath nt_step) s = Ok (t, r) -> ty nt_step t.
Proof.
  intros IH. rewrite prod_step. intros H. uty. apply inv_alt in H. destruct H as [H|H]; [|apply inv_alt in H; destruct H as [H|H]];
  apply inv_map in H; destruct H as (t' & H & ->).
  - eexists. cbn [act]. apply inv_tag in H. subst. reflexivity.
  - eexists. cbn [act]. apply inv_tag in H. subst. reflexivity.
  - apply inv_seq in H. destruct H as (ta & r1 & tb & Ha & Hb & ->).
    apply inv_seq in Hb. destruct Hb as (tn & r2 & tp & Hn & Hp & ->).
    apply inv_seqr in Hn. destruct Hn as (_ & r3 & _ & Hn).
    apply inv_many0 in Hp. destruct Hp as (l & -> & Hall).
    destruct (IH _ _ _ _ Ha) as [a Ea]. destruct (IH _ _ _ _ Hn) as [x Ex].
    destruct (list_vals (fun v => exists e, v = VOr e) l) as [E Hv].
    { intros v [e ->]. reflexivity. }
    { apply (preds_items f); assumption. }
    destruct (to_exprs_all _ Hv) as [es Hes].
    change (act (TMap L_model_Step_from (TPair ta (TPair tn (TList l))))) with (apply_label L_model_Step_from (act (TPair ta (TPair tn (TList l))))).
    rewrite (act_pair _ _ _ _ Ea eq_refl (act_pair _ _ _ _ Ex eq_refl E eq_refl) eq_refl).
    eexists. cbn -[to_exprs map]. rewrite Hes. reflexivity.
Qed.

Lemma ty_filter_expr f s t r : IHty f -> D f (body G_xpath nt_filter_expr) s = Ok (t, r) -> ty nt_filter_expr t.
Proof.
  intros IH. rewrite prod_filter_expr. intros H. uty. apply inv_map in H. destruct H as (t' & H & ->).
  apply inv_seq in H. destruct H as (tp & r1 & tl & Hp & Hl & ->).
  apply inv_many0 in Hl. destruct Hl as (l & -> & Hall).
  destruct (IH _ _ _ _ Hp) as [p Ep].
  destruct (list_vals (fun v => exists e, v = VOr e) l) as [E Hv].
  { intros v [e ->]. reflexivity. }
  { apply (preds_items f); assumption. }
  destruct (to_exprs_all _ Hv) as [es Hes].
  change (act (TMap L_model_FilterExpr_from (TPair tp (TList l)))) with (apply_label L_model_FilterExpr_from (act (TPair tp (TList l)))).
  rewrite (act_pair _ _ _ _ Ep eq_refl E eq_refl). eexists. cbn -[to_exprs map]. rewrite Hes. reflexivity.
Qed.

Lemma ty_function_call f s t r : IHty f -> D f (body G_xpath nt_function_call) s = Ok (t, r) -> ty nt_function_call t.
Proof.
  intros IH. rewrite prod_function_call. intros H. uty. apply inv_map in H. destruct H as (t' & H & ->).
  apply inv_seq in H. destruct H as (tn & r1 & tl & Hn & Hl & ->).
  apply inv_seqr in Hl. destruct Hl as (_ & r2 & _ & Hl). apply inv_seql in Hl. destruct Hl as (r3 & _ & Hl & _).
  apply inv_sepby0 in Hl. destruct Hl as (l & -> & Hall).
  destruct (IH _ _ _ _ Hn) as [q Eq].
  destruct (list_vals (fun v => exists e, v = VOr e) l) as [E Hv].
  { intros v [e ->]. reflexivity. }
  { apply (produced_ty f _ nt_argument _ IH eq_refl Hall). }
  destruct (to_exprs_all _ Hv) as [es Hes].
  change (act (TMap L_model_FunctionCall_from (TPair tn (TList l)))) with (apply_label L_model_FunctionCall_from (act (TPair tn (TList l)))).
  rewrite (act_pair _ _ _ _ Eq eq_refl E eq_refl). eexists _, _. cbn -[to_exprs map]. rewrite Hes. reflexivity.
Qed.

Lemma ty_primary_expr f s t r : IHty f -> D f (body G_xpath nt_primary_expr) s = Ok (t, r) -> ty nt_primary_expr t.
Proof.
  intros IH. rewrite prod_primary_expr. intros H. uty.
  apply inv_alt in H. destruct H as [H|H]; [|apply inv_alt in H; destruct H as [H|H]; [|apply inv_alt in H; destruct H as [H|H]; [|apply inv_alt in H; destruct H as [H|H]]]];
  apply inv_map in H; destruct H as (t' & H & ->).
  - destruct (IH _ _ _ _ H) as [q E]. eexists. cbn [act]. rewrite E. reflexivity.
  - apply inv_seqr in H. destruct H as (_ & r1 & _ & H). apply inv_seql in H. destruct H as (r2 & _ & H & _).
    destruct (IH _ _ _ _ H) as [e E]. eexists. cbn [act]. rewrite E. reflexivity.
  - destruct (IH _ _ _ _ H) as [x ->]. eexists. reflexivity.
  - destruct (IH _ _ _ _ H) as [x ->]. eexists. reflexivity.
  - destruct (IH _ _ _ _ H) as (n & a & E). eexists. cbn [act]. rewrite E. reflexivity.
Qed.

Lemma ty_path_expr f s t r : IHty f -> D f (body G_xpath nt_path_expr) s = Ok (t, r) -> ty nt_path_expr t.
Proof.
  intros IH. rewrite prod_path_expr. intros H. uty.
  apply inv_alt in H. destruct H as [H|H]; [|apply inv_alt in H; destruct H as [H|H]; [|apply inv_alt in H; destruct H as [H|H]]];
  apply inv_map in H; destruct H as (t' & H & ->).
  - apply inv_seq in H. destruct H as (tf & r1 & to & Hf & Ho & ->). destruct (IH _ _ _ _ Hf) as [fe Ef].
    apply inv_opt in Ho. destruct Ho as [->|(t'' & -> & Ho)].
    + eexists. cbn [act]. rewrite Ef. reflexivity.
    + apply inv_seq in Ho. destruct Ho as (top & r2 & tr & Hop & Hr & ->).
      apply inv_seqr in Hop. destruct Hop as (_ & r3 & _ & Hop). apply inv_seql in Hop. destruct Hop as (r4 & _ & Hop & _).
      destruct (ty_lp_op _ _ _ _ Hop) as [o Eo]. destruct (IH _ _ _ _ Hr) as [p Ep].
      pose proof (act_pair _ _ _ _ Eo eq_refl Ep eq_refl) as Epair.
      assert (Esome : act (TSome (TPair top tr)) = VSome (VPair (VLpOp o) (VRelPath p))).
      { change (act (TSome (TPair top tr))) with (let x := act (TPair top tr) in match poisoned x with Some q => q | None => VSome x end).
        rewrite Epair. reflexivity. }
      change (act (TMap L_closure_dae0d720 (TPair tf (TSome (TPair top tr))))) with (apply_label L_closure_dae0d720 (act (TPair tf (TSome (TPair top tr))))).
      rewrite (act_pair _ _ _ _ Ef eq_refl Esome eq_refl). eexists. reflexivity.
  - apply inv_seq in H. destruct H as (top & r1 & tr & Hop & Hr & ->).
    apply inv_seql in Hop. destruct Hop as (r2 & _ & Hop & _).
    destruct (ty_lp_op _ _ _ _ Hop) as [o Eo]. destruct (IH _ _ _ _ Hr) as [p Ep].
    change (act (TMap L_closure_1402352e (TPair top tr))) with (apply_label L_closure_1402352e (act (TPair top tr))).
    rewrite (act_pair _ _ _ _ Eo eq_refl Ep eq_refl). eexists. reflexivity.
  - destruct (IH _ _ _ _ H) as [p Ep]. eexists. cbn [act]. rewrite Ep. reflexivity.
  - apply inv_tag in H. subst. eexists. reflexivity.
Qed.

Lemma ty_unary_expr f s t r : IHty f -> D f (body G_xpath nt_unary_expr) s = Ok (t, r) -> ty nt_unary_expr t.
Proof.
  intros IH. rewrite prod_unary_expr. intros H. uty. apply inv_map in H. destruct H as (t' & H & ->).
  apply inv_seq in H. destruct H as (tl & r1 & tu & Hl & Hu & ->).
  apply inv_many0 in Hl. destruct Hl as (l & -> & Hall).
  destruct (IH _ _ _ _ Hu) as [u Eu].
  destruct (list_vals (fun v => exists x, v = VStr x) l) as [E Hv].
  { intros v [x ->]. reflexivity. }
  { induction Hall as [|x l (s' & r' & Hx) _ IHl]; constructor; [|exact IHl].
    apply inv_seql in Hx. destruct Hx as (r2 & _ & Hx & _). apply inv_tag in Hx. subst. eexists. reflexivity. }
  change (act (TMap L_model_UnaryExpr_from (TPair (TList l) tu))) with (apply_label L_model_UnaryExpr_from (act (TPair (TList l) tu))).
  rewrite (act_pair _ _ _ _ E eq_refl Eu eq_refl). eexists. reflexivity.
Qed.

(** ** every non-terminal, every fuel *)
Lemma dummy_fails f s x : D f dummy s = Ok x -> False.
Proof.
  unfold dummy. rewrite den_eq. cbn [den1].
  assert (E : span (eval (InR [])) s = ([], s)) by (destruct s; reflexivity). rewrite E. discriminate.
Qed.

Theorem typed : forall f, IHty f.
Proof.
  induction f as [|f IH]; intros n s t r H; [exfalso; eapply inv_nt0; exact H|].
  apply inv_nt in H.
  do 31 (destruct n as [|n]; [
    first [ eapply ty_ncname; exact H | eapply ty_qname; eassumption | eapply ty_prefixed_name; eassumption
          | eapply ty_relative_location_path; eassumption | eapply ty_step; eassumption
          | eapply ty_axis_specifier; eassumption | eapply ty_axis_name; exact H | eapply ty_node_test; eassumption
          | eapply ty_predicate; eassumption | eapply ty_primary_expr; eassumption | eapply ty_function_call; eassumption
          | eapply ty_union_expr; eassumption | eapply ty_path_expr; eassumption | eapply ty_filter_expr; eassumption
          | eapply ty_or_expr; eassumption | eapply ty_and_expr; eassumption | eapply ty_equality_expr; eassumption
          | eapply ty_relation_expr; eassumption | eapply ty_additive_expr; eassumption
          | eapply ty_multiplicative_expr; eassumption | eapply ty_unary_expr; eassumption
          | eapply ty_literal; exact H | eapply ty_number; exact H | eapply ty_function_name; eassumption
          | eapply ty_variable_reference; eassumption | eapply ty_name_test; eassumption | eapply ty_node_type; exact H
          | (eapply ty_alias; [exact IH| | |exact H]; reflexivity) ]
   |]).
  exfalso. unfold body in H. rewrite nth_overflow in H by (cbn; lia). eapply dummy_fails, H.
Qed.

(** the parser answers [POk] or [PErr] on every string *)
Theorem parse_expr_total : forall s : str, (exists e r, parse_expr s = POk e r) \/ parse_expr s = PErr.
Proof.
  intros s. unfold parse_expr, run_expr, run.
  destruct (Peg.denote G_xpath (fuel_bound G_xpath_R s) (NT nt_expr) s) as [[t r]| |] eqn:E.
  - left. destruct (typed _ _ _ _ _ E) as [e He]. rewrite He. eauto.
  - right. reflexivity.
  - exfalso. revert E. apply (certified_grammar_terminates G_xpath G_xpath_nulls G_xpath_ranks G_xpath_R).
    vm_compute. reflexivity.
Qed.

Corollary parse_expr_never_panics : forall s : str,
  parse_expr s <> PPanic /\ parse_expr s <> PBad /\ parse_expr s <> POof.
Proof. intros s. destruct (parse_expr_total s) as [(e & r & ->)| ->]; repeat split; discriminate. Qed.
