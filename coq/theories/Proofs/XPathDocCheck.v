(** * Soundness of the decision procedure of Model/XDocCheck.v. *)
From Coq Require Import List NArith Bool Lia.
From XmlRs Require Import Base.CPred Model.XDoc Model.XDocCheck.
From XmlRs Require Import Proofs.XPathNav Proofs.XPathCanon.
Import ListNotations.
Open Scope N_scope.

Section Check.
Variable doc : xdoc.

Lemma in_table_valid i : in_table doc i = true <-> valid doc i.
Proof. unfold in_table, valid. rewrite N.ltb_lt. lia. Qed.

Lemma valid_in_indices i : valid doc i -> In i (indices doc).
Proof.
  unfold valid, indices. intros H. apply in_map_iff. exists (N.to_nat i). split; [lia|].
  apply in_seq. lia.
Qed.

Lemma nodup_b_sound l : nodup_b l = true -> NoDup l.
Proof.
  induction l as [|x t IH]; intros H; [constructor|]. cbn [nodup_b] in H.
  apply andb_prop in H. destruct H as [H1 H2]. constructor; [|apply IH; exact H2].
  intros Hin. apply negb_true_iff in H1.
  assert (existsb (N.eqb x) t = true) by (apply existsb_exists; exists x; split; [exact Hin|apply N.eqb_refl]).
  congruence.
Qed.

Lemma nkind_eqb_eq a b : nkind_eqb a b = true <-> a = b.
Proof. destruct a, b; cbn; split; intros H; try reflexivity; try discriminate. Qed.

Lemma is_ns_false i : is_ns doc i = false <-> kind doc i <> KNamespace.
Proof.
  unfold is_ns. split.
  - intros H E. apply nkind_eqb_eq in E. congruence.
  - intros H. destruct (nkind_eqb (kind doc i) KNamespace) eqn:E; [|reflexivity].
    apply nkind_eqb_eq in E. contradiction.
Qed.

Ltac andbs H := repeat (apply andb_prop in H; let H' := fresh "Hb" in destruct H as [H H']).

Theorem doc_wf_b_sound : doc_wf_b doc = true -> DocWf doc.
Proof.
  intros H. unfold doc_wf_b in H. apply andb_prop in H. destruct H as [Hroot Hrows].
  rewrite forallb_forall in Hrows.
  assert (Hrow : forall i, valid doc i -> row_wf_b doc i = true).
  { intros i Vi. apply Hrows. apply valid_in_indices. exact Vi. }
  constructor.
  - apply in_table_valid. exact Hroot.
  - intros i c Vi Hc. specialize (Hrow i Vi). unfold row_wf_b in Hrow. andbs Hrow.
    rewrite forallb_forall in Hrow. specialize (Hrow c Hc). apply andb_prop in Hrow.
    destruct Hrow as [H1 H2]. split; [apply in_table_valid; exact H1|apply N.ltb_lt; exact H2].
  - intros i a Vi Ha. specialize (Hrow i Vi). unfold row_wf_b in Hrow. andbs Hrow.
    rewrite forallb_forall in Hb6. apply in_table_valid. apply Hb6. exact Ha.
  - intros i Vi. specialize (Hrow i Vi). unfold row_wf_b in Hrow. andbs Hrow.
    destruct (n_nss (getd doc i)) as [l|]; [|discriminate]. exists l. split; [reflexivity|].
    apply Forall_forall. intros x Hx. rewrite forallb_forall in Hb5. apply in_table_valid. apply Hb5. exact Hx.
  - intros i p Vi Hp. specialize (Hrow i Vi). unfold row_wf_b in Hrow. andbs Hrow.
    unfold parent_node in Hp. rewrite Hp in Hb4. apply andb_prop in Hb4. destruct Hb4 as [H1 H2].
    split; [apply in_table_valid; exact H1|apply N.ltb_lt; exact H2].
  - intros p c Vp Hc. specialize (Hrow p Vp). unfold row_wf_b in Hrow. andbs Hrow.
    rewrite forallb_forall in Hb3. specialize (Hb3 c Hc). apply orb_prop in Hb3. destruct Hb3 as [Hb3|Hb3].
    + left. unfold opt_eqb in Hb3.
      destruct (parent_node doc c) as [q|]; [|discriminate]. apply N.eqb_eq in Hb3. subst. reflexivity.
    + right. apply andb_prop in Hb3. destruct Hb3 as [H1 H2]. unfold is_none in *.
      destruct (next_sibling doc c); [discriminate|]. destruct (previous_sibling doc c); [discriminate|].
      split; reflexivity.
  - intros p Vp. specialize (Hrow p Vp). unfold row_wf_b in Hrow. andbs Hrow.
    apply nodup_b_sound. exact Hb2.
  - intros i Vi. specialize (Hrow i Vi). unfold row_wf_b in Hrow. andbs Hrow.
    intros E. rewrite E in Hb1. discriminate.
  - intros i Vi. specialize (Hrow i Vi). unfold row_wf_b in Hrow. andbs Hrow.
    intros E. rewrite E in Hb0. discriminate.
  - intros i Vi Hk. specialize (Hrow i Vi). unfold row_wf_b in Hrow. andbs Hrow.
    unfold kind in Hk.
    assert (He : existsb (fun c => nkind_eqb (kind doc c) KElement) (n_children (getd doc i)) = true).
    { destruct Hk as [Hk|Hk]; rewrite Hk in Hb; exact Hb. }
    apply existsb_exists in He. destruct He as [e [He1 He2]]. exists e. split; [exact He1|].
    apply nkind_eqb_eq. exact He2.
Qed.

Theorem keys_ok_b_sound : keys_ok_b doc = true -> KeysOk doc.
Proof.
  intros H. unfold keys_ok_b in H. apply andb_prop in H. destruct H as [Hroot Hrows].
  rewrite forallb_forall in Hrows.
  assert (Hrow : forall i, valid doc i -> row_keys_b doc i = true).
  { intros i Vi. apply Hrows. apply valid_in_indices. exact Vi. }
  constructor.
  - apply is_ns_false. apply negb_true_iff. exact Hroot.
  - intros i c Vi Hc. specialize (Hrow i Vi). unfold row_keys_b in Hrow. andbs Hrow.
    rewrite forallb_forall in Hrow. apply is_ns_false. apply negb_true_iff. apply Hrow. exact Hc.
  - intros i a Vi Ha. specialize (Hrow i Vi). unfold row_keys_b in Hrow. andbs Hrow.
    rewrite forallb_forall in Hb2. apply is_ns_false. apply negb_true_iff. apply Hb2. exact Ha.
  - intros i p Vi Hp. specialize (Hrow i Vi). unfold row_keys_b in Hrow. andbs Hrow.
    unfold parent_node in Hp. rewrite Hp in Hb1. apply is_ns_false. apply negb_true_iff. exact Hb1.
  - intros i [Vi Hi]. specialize (Hrow i Vi). unfold row_keys_b in Hrow. andbs Hrow.
    apply is_ns_false in Hi. rewrite Hi in Hb0. cbn [orb] in Hb0. apply N.ltb_lt. exact Hb0.
  - intros i j [Vi Hi] [Vj Hj] Hij. specialize (Hrow i Vi). unfold row_keys_b in Hrow. andbs Hrow.
    rewrite forallb_forall in Hb. specialize (Hb j (valid_in_indices j Vj)).
    apply is_ns_false in Hi. apply is_ns_false in Hj. rewrite Hi, Hj in Hb. cbn [orb] in Hb.
    apply N.ltb_lt in Hij. rewrite Hij in Hb. cbn [negb orb] in Hb. apply N.ltb_lt. exact Hb.
Qed.

Theorem doc_inv_b_sound : doc_inv_b doc = true -> DocInv doc.
Proof.
  intros H. unfold doc_inv_b in H. apply andb_prop in H. destruct H as [H1 H2].
  constructor; [apply doc_wf_b_sound; exact H1|apply keys_ok_b_sound; exact H2].
Qed.

End Check.
