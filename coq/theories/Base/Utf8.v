(** * UTF-8 byte lengths and byte offsets of Rust [str] values.

    Strings are lists of code points ([str := list N], scalar values).  Rust code that works on
    BYTE offsets ([str::len], [str::split_at], slicing) is modelled with the functions below, so
    that a byte / character confusion is visible in the model instead of being abstracted away
    (XPath [string-length], [substring]: defects D30, D31). *)
From Coq Require Import NArith List Bool Lia.
From XmlRs Require Import Base.CPred.
Import ListNotations.
Open Scope N_scope.

(** number of bytes of the UTF-8 encoding of a scalar value *)
Definition utf8_len (c : char) : N :=
  if c <? 0x80 then 1 else if c <? 0x800 then 2 else if c <? 0x10000 then 3 else 4.

(** [str::len] *)
Fixpoint byte_len (s : str) : N :=
  match s with
  | [] => 0
  | c :: t => utf8_len c + byte_len t
  end.

(** the UTF-8 encoding itself (bytes as numbers below 256) *)
Definition utf8_encode_char (c : char) : list N :=
  if c <? 0x80 then [c]
  else if c <? 0x800 then [0xC0 + c / 64; 0x80 + c mod 64]
  else if c <? 0x10000 then [0xE0 + c / 4096; 0x80 + (c / 64) mod 64; 0x80 + c mod 64]
  else [0xF0 + c / 262144; 0x80 + (c / 4096) mod 64; 0x80 + (c / 64) mod 64; 0x80 + c mod 64].

Definition utf8_encode (s : str) : list N := flat_map utf8_encode_char s.

(** [str::is_char_boundary]: the offset is 0, the length, or the start of a character *)
Fixpoint is_char_boundary (s : str) (off : N) : bool :=
  (off =? 0) ||
  match s with
  | [] => false
  | c :: t => (utf8_len c <=? off) && is_char_boundary t (off - utf8_len c)
  end.

(** [str::split_at]: [None] is the panic (offset past the end or inside a character) *)
Fixpoint split_at_bytes (s : str) (off : N) : option (str * str) :=
  if off =? 0 then Some ([], s)
  else
    match s with
    | [] => None
    | c :: t =>
        if utf8_len c <=? off then
          match split_at_bytes t (off - utf8_len c) with
          | Some (a, b) => Some (c :: a, b)
          | None => None
          end
        else None
    end.
