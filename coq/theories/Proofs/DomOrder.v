(** * Document order: the pre-order walk of a store and the order keys (C14)

    [Walk s n l]: [l] is the pre-order walk of the subtree of [n] in which an element precedes
    its attributes (namespace declarations first, each attribute followed by its value items) and
    its attributes precede its children -- the specification, no fuel.  Under the tree invariant
    the model's [preorder] (what [init_order_recursive] computes) is that walk from the document,
    it has no duplicates and contains exactly the nodes attached to the document; hence the keys
    read by [HasContext::order] are non-zero, distinct and strictly increasing along it, and 0
    for every node outside the document. *)
From Coq Require Import List NArith Bool Lia.
From XmlRs Require Import Base.CPred Model.Store Proofs.DomBase Proofs.DomTree Proofs.DomAnc.
Import ListNotations.
Open Scope N_scope.

(** ** lists *)
Lemma nodup_app {A} (l1 l2 : list A) :
  NoDup l1 -> NoDup l2 -> (forall x, In x l1 -> ~ In x l2) -> NoDup (l1 ++ l2).
Proof.
  induction 1 as [|x t Hx Hnd IH]; intros H2 Hd; cbn; [exact H2|].
  constructor.
  - rewrite in_app_iff. intros [H|H]; [contradiction | eapply Hd; [left; reflexivity | exact H]].
  - apply IH; [exact H2|]. intros y Hy. apply Hd. right. exact Hy.
Qed.

Lemma nodup_flat_map {A B} (g : A -> list B) (l : list A) :
  NoDup l -> (forall x, In x l -> NoDup (g x)) ->
  (forall x y z, In x l -> In y l -> x <> y -> In z (g x) -> ~ In z (g y)) ->
  NoDup (flat_map g l).
Proof.
  induction 1 as [|a t Ha Hnd IH]; intros Hg Hd; cbn; [constructor|].
  apply nodup_app.
  - apply Hg. left. reflexivity.
  - apply IH; [intros x Hx; apply Hg; right; exact Hx|].
    intros x y z Hx Hy. apply Hd; right; assumption.
  - intros z Hz Hin. apply in_flat_map in Hin. destruct Hin as [y [Hy Hzy]].
    eapply (Hd a y z); [left; reflexivity | right; exact Hy | intros ->; contradiction | exact Hz | exact Hzy].
Qed.

Lemma nodup_filter_partition (f : id -> bool) l : NoDup l -> NoDup (filter f l ++ filter (fun a => negb (f a)) l).
Proof.
  intros H. apply nodup_app; [apply NoDup_filter; exact H | apply NoDup_filter; exact H|].
  intros x H1 H2. apply filter_In in H1. apply filter_In in H2. destruct H1 as [_ H1], H2 as [_ H2]. rewrite H1 in H2. discriminate.
Qed.

(** the nodes a node lists, in document order: namespace declarations, other attributes, children *)
Definition listed_seq (s : store) (n : id) : list id :=
  match get s n with
  | Some it =>
    match ikind it with
    | KEl => (filter (attr_is_ns s) (iattrs it) ++ filter (fun a => negb (attr_is_ns s a)) (iattrs it)) ++ ichildren it
    | KAt | KDoc => ichildren it
    | _ => []
    end
  | None => []
  end.

Lemma pre_fuel_S f s n :
  pre_fuel (S f) s n = match get s n with
                       | Some _ => n :: flat_map (pre_fuel f s) (listed_seq s n)
                       | None => []
                       end.
Proof.
  cbn [pre_fuel]. unfold listed_seq. destruct (get s n) as [it|]; [|reflexivity].
  destruct (ikind it); try reflexivity. rewrite !flat_map_app, <- app_assoc. reflexivity.
Qed.

(** specification of the walk *)
Inductive Walk (s : store) : id -> list id -> Prop :=
| walk_node n it ls :
    get s n = Some it ->
    Forall2 (Walk s) (listed_seq s n) ls ->
    Walk s n (n :: concat ls).

(** ancestors of a node form a chain *)
Lemma anc_up s c p a : par s c p -> anc s c a -> a = p \/ anc s p a.
Proof.
  intros Hp Ha. inversion Ha as [c' p' Hp' | c' p' a' Hp' Ha']; subst.
  - left. eapply par_fun; eassumption.
  - right. rewrite (par_fun s c p p' Hp Hp'). exact Ha'.
Qed.

Lemma anc_linear s x a b : anc s x a -> anc s x b -> a = b \/ anc s a b \/ anc s b a.
Proof.
  induction 1 as [x p Hp | x p a Hp Hpa IH]; intros Hb.
  - destruct (anc_up s x p b Hp Hb) as [->|H]; [left; reflexivity | right; left; exact H].
  - destruct (anc_up s x p b Hp Hb) as [->|H]; [right; right; exact Hpa | apply IH; exact H].
Qed.

Section Order.
  Variable s : store.
  Hypothesis T : TreeInv s.

  Lemma listed_seq_lists n c : In c (listed_seq s n) -> lists s n c.
  Proof.
    unfold listed_seq. destruct (get s n) as [it|] eqn:Hn; [|intros []].
    intros H. exists it. split; [exact Hn|].
    destruct (ikind it); try contradiction; try (left; exact H).
    rewrite !in_app_iff, !filter_In in H. destruct H as [[[H _]|[H _]]|H]; [right | right | left]; exact H.
  Qed.

  Lemma lists_listed_seq n c : lists s n c -> In c (listed_seq s n).
  Proof.
    intros [it [Hn Hin]]. unfold listed_seq. rewrite Hn.
    destruct Hin as [Hin|Hin].
    - destruct (lists_live_child s T n c) as [cit Hc]; [exists it; split; [exact Hn | left; exact Hin]|].
      pose proof (ti_child_kind s T n it c cit Hn Hin Hc) as Hok. apply child_ok_container in Hok.
      destruct (ikind it); try discriminate; [exact Hin | | exact Hin].
      rewrite !in_app_iff. right. exact Hin.
    - destruct (lists_live_child s T n c) as [cit Hc]; [exists it; split; [exact Hn | right; exact Hin]|].
      destruct (ti_attr_kind s T n it c cit Hn Hin Hc) as [Ke _]. rewrite Ke.
      rewrite !in_app_iff, !filter_In. left.
      destruct (attr_is_ns s c) eqn:E; [left; split; [exact Hin | reflexivity] | right; split; [exact Hin | reflexivity]].
  Qed.

  Lemma listed_seq_nodup n : NoDup (listed_seq s n).
  Proof.
    unfold listed_seq. destruct (get s n) as [it|] eqn:Hn; [|constructor].
    pose proof (ti_nodup_c s T n it Hn) as Hc. pose proof (ti_nodup_a s T n it Hn) as Ha.
    destruct (ikind it); try constructor; try exact Hc.
    apply nodup_app; [apply nodup_filter_partition; exact Ha | exact Hc|].
    intros x Hx Hx'. rewrite in_app_iff, !filter_In in Hx.
    eapply (child_attr_disjoint s T n it x Hn Hx'). destruct Hx as [[H _]|[H _]]; exact H.
  Qed.

  Lemma listed_par n c : In c (listed_seq s n) -> par s c n.
  Proof. intros H. apply (ti_lists_par s T). apply listed_seq_lists. exact H. Qed.

  (** *** membership in the walk *)
  Lemma pre_fuel_in f : forall n x, In x (pre_fuel f s n) -> x = n \/ anc s x n.
  Proof.
    induction f as [|f IH]; intros n x H; [contradiction|].
    rewrite pre_fuel_S in H. destruct (get s n) as [it|]; [|contradiction].
    destruct H as [<-|H]; [left; reflexivity|]. right.
    apply in_flat_map in H. destruct H as [c [Hc Hx]].
    pose proof (listed_par n c Hc) as Hp.
    destruct (IH c x Hx) as [->|Ha]; [apply anc1; exact Hp | eapply anc_trans; [exact Ha | apply anc1; exact Hp]].
  Qed.

  Lemma pre_fuel_nodup f : forall n, NoDup (pre_fuel f s n).
  Proof.
    induction f as [|f IH]; intros n; [constructor|].
    rewrite pre_fuel_S. destruct (get s n) as [it|] eqn:Hn; [|constructor].
    constructor.
    - intros H. apply in_flat_map in H. destruct H as [c [Hc Hx]].
      pose proof (listed_par n c Hc) as Hp.
      destruct (pre_fuel_in f c n Hx) as [->|Ha].
      + apply (ti_acyclic s T c). apply anc1. exact Hp.
      + apply (ti_acyclic s T n). eapply anc_trans; [exact Ha | apply anc1; exact Hp].
    - apply nodup_flat_map; [apply listed_seq_nodup | intros x _; apply IH|].
      intros c1 c2 z H1 H2 Hne Hz1 Hz2.
      pose proof (listed_par n c1 H1) as P1. pose proof (listed_par n c2 H2) as P2.
      assert (Hno : forall a b, par s a n -> par s b n -> a <> b -> ~ anc s a b).
      { intros a b Pa Pb Hab Hanc. destruct (anc_up s a n b Pa Hanc) as [->|H].
        - apply (ti_acyclic s T n). apply anc1. exact Pb.
        - apply (ti_acyclic s T n). eapply anc_trans; [exact H | apply anc1; exact Pb]. }
      destruct (pre_fuel_in f c1 z Hz1) as [E1|A1], (pre_fuel_in f c2 z Hz2) as [E2|A2].
      + apply Hne. congruence.
      + subst z. eapply (Hno c1 c2); eassumption.
      + subst z. eapply (Hno c2 c1); [exact P2 | exact P1 | intros E; apply Hne; symmetry; exact E | exact A1].
      + destruct (anc_linear s z c1 c2 A1 A2) as [E|[H|H]]; [contradiction | eapply (Hno c1 c2); eassumption|].
        eapply (Hno c2 c1); [exact P2 | exact P1 | intros E; apply Hne; symmetry; exact E | exact H].
  Qed.

  Theorem preorder_nodup : NoDup (preorder s).
  Proof. apply pre_fuel_nodup. Qed.

  (** *** the fuel suffices: depth is below [next s] *)
  Lemma ancn_strict n c a : ancn s n c a -> (n < N.to_nat (next s))%nat.
  Proof.
    intros H. destruct (ancn_chain s T n c a H) as [l [Hlen [Hnd [Hanc Hlt]]]].
    assert (Hc : c < next s).
    { inversion H as [c' p Hp | n' c' p a' Hp _]; subst; destruct Hp as [cit [Hg _]]; eapply (ti_bound s T); eassumption. }
    assert (Hnd' : NoDup (c :: l)).
    { constructor; [|exact Hnd]. intros Hin. apply (ti_acyclic s T c). apply Hanc. exact Hin. }
    assert (Hle : (length (c :: l) <= N.to_nat (next s))%nat).
    { apply below_list; [exact Hnd'|]. intros x [<-|Hx]; [lia | specialize (Hlt x Hx); lia]. }
    cbn in Hle. lia.
  Qed.

  Lemma ancn_top n : forall c a, ancn s (S n) c a -> exists q, par s q a /\ (match n with O => c = q | S _ => ancn s n c q end).
  Proof.
    induction n as [|n IH]; intros c a H.
    - inversion H as [c' p Hp | n' c' p a' Hp Hn]; subst.
      + exists c. split; [exact Hp | reflexivity].
      + inversion Hn.
    - inversion H as [| n' c' p a' Hp Hn]; subst.
      destruct (IH p a Hn) as [q [Hq Hm]]. exists q. split; [exact Hq|].
      destruct n as [|n].
      + subst q. constructor. exact Hp.
      + econstructor; eassumption.
  Qed.

  Lemma ancn_join n c p a : ancn s n c p -> par s p a -> ancn s (S n) c a.
  Proof.
    induction 1 as [c p Hp | n c p q Hp Hn IH]; intros Ha.
    - econstructor; [exact Hp | constructor; exact Ha].
    - econstructor; [exact Hp | apply IH; exact Ha].
  Qed.

  Lemma pre_fuel_self f n it : get s n = Some it -> In n (pre_fuel (S f) s n).
  Proof. intros H. rewrite pre_fuel_S, H. left. reflexivity. Qed.

  Lemma pre_fuel_complete n : forall f c a, ancn s n c a -> (n < f)%nat -> In c (pre_fuel f s a).
  Proof.
    induction n as [|n IH]; intros f c a H Hlt; [inversion H|].
    destruct f as [|f]; [lia|].
    destruct (ancn_top n c a H) as [q [Hq Hm]].
    pose proof (ti_par_lists s T _ _ Hq) as Hl. pose proof Hl as [ait [Ha _]].
    rewrite pre_fuel_S, Ha. right. apply in_flat_map. exists q. split; [apply lists_listed_seq; exact Hl|].
    destruct n as [|n].
    - subst q. destruct f as [|f]; [lia|]. destruct Hq as [cit [Hc _]]. eapply pre_fuel_self. exact Hc.
    - apply IH; [exact Hm | lia].
  Qed.

  Definition attached (x : id) : Prop := x = sroot s \/ anc s x (sroot s).

  (** the walk visits exactly the nodes attached to the document *)
  Theorem preorder_attached x : In x (preorder s) <-> attached x.
  Proof.
    unfold preorder, attached. split.
    - apply pre_fuel_in.
    - intros [->|H].
      + destruct (ti_root s T) as [rit [Hr _]].
        assert (Hpos : (0 < N.to_nat (next s))%nat) by (pose proof (ti_bound s T _ _ Hr); lia).
        destruct (N.to_nat (next s)) as [|f]; [lia|]. eapply pre_fuel_self. exact Hr.
      + destruct (anc_ancn s _ _ H) as [n Hn]. eapply pre_fuel_complete; [exact Hn | apply ancn_strict in Hn; exact Hn].
  Qed.

  (** *** [preorder] is the specified walk *)
  Lemma pre_fuel_walk f : forall n it, get s n = Some it ->
    (forall d k, ancn s k d n -> (k <= f)%nat) -> Walk s n (pre_fuel (S f) s n).
  Proof.
    induction f as [|f IH]; intros n it Hn Hb.
    - rewrite pre_fuel_S, Hn.
      assert (E : listed_seq s n = []).
      { destruct (listed_seq s n) as [|c t] eqn:E; [reflexivity|]. exfalso.
        assert (Hp : par s c n) by (apply listed_par; rewrite E; left; reflexivity).
        specialize (Hb c 1%nat (ancn1 s c n Hp)). lia. }
      rewrite E. cbn. change (@nil id) with (concat (@nil (list id))). econstructor; [exact Hn | rewrite E; constructor].
    - rewrite pre_fuel_S, Hn. rewrite flat_map_concat_map. econstructor; [exact Hn|].
      assert (Hall : forall c, In c (listed_seq s n) -> Walk s c (pre_fuel (S f) s c)).
      { intros c Hc. pose proof (listed_par n c Hc) as Hp. pose proof Hp as [cit [Hcg _]].
        eapply IH; [exact Hcg|]. intros d k Hk. pose proof (ancn_join k d c n Hk Hp) as Hj. specialize (Hb d (S k) Hj). lia. }
      clear Hb. induction (listed_seq s n) as [|c t IHt]; cbn; constructor.
      + apply Hall. left. reflexivity.
      + apply IHt. intros c' Hc'. apply Hall. right. exact Hc'.
  Qed.

  Theorem preorder_walk : Walk s (sroot s) (preorder s).
  Proof.
    destruct (ti_root s T) as [rit [Hr _]]. unfold preorder.
    assert (Hpos : (0 < N.to_nat (next s))%nat) by (pose proof (ti_bound s T _ _ Hr); lia).
    destruct (N.to_nat (next s)) as [|f] eqn:E; [lia|].
    eapply pre_fuel_walk; [exact Hr|]. intros d k Hk. apply ancn_strict in Hk. lia.
  Qed.
End Order.

(** the walk relation is functional: the specification determines the list *)
Lemma walk_fun s : forall n l1, Walk s n l1 -> forall l2, Walk s n l2 -> l1 = l2.
Proof.
  fix IH 3. intros n l1 H1 l2 H2.
  destruct H1 as [n it ls Hn Hls]. inversion H2 as [n' it' ls' Hn' Hls']; subst.
  f_equal. f_equal. clear Hn Hn' H2.
  revert ls' Hls'. induction Hls as [|c l cs lss Hc Hrest IHrest]; intros ls' Hls'; inversion Hls'; subst; [reflexivity|].
  f_equal; [eapply IH; eassumption | apply IHrest; assumption].
Qed.

(** ** keys *)
Lemma pos_in_app x l1 l2 k : ~ In x l1 -> pos_in x (l1 ++ x :: l2) k = k + N.of_nat (length l1).
Proof.
  revert k. induction l1 as [|y t IH]; intros k Hn; cbn [app pos_in length].
  - rewrite N.eqb_refl. lia.
  - destruct (N.eqb_spec y x) as [->|Hne]; [exfalso; apply Hn; left; reflexivity|].
    rewrite IH by (intros H; apply Hn; right; exact H). lia.
Qed.

Lemma pos_in_absent x l k : ~ In x l -> pos_in x l k = 0.
Proof.
  revert k. induction l as [|y t IH]; intros k Hn; cbn [pos_in]; [reflexivity|].
  destruct (N.eqb_spec y x) as [->|Hne]; [exfalso; apply Hn; left; reflexivity|].
  apply IH. intros H. apply Hn. right. exact H.
Qed.

(** the order vector is usable: stale, or equal to the walk *)
Definition OrderOK (s : store) : Prop := dirty s = true \/ order s = preorder s.

Lemma order_refresh s : OrderOK s -> order (refresh s) = preorder s.
Proof. intros [H|H]; unfold refresh; [rewrite H; reflexivity | destruct (dirty s); [reflexivity | exact H]]. Qed.

Record OrderInv (s : store) : Prop := mkOrderInv {
  oi_walk : Walk s (sroot s) (preorder s);
  oi_attached : forall x, In x (preorder s) <-> attached s x;
  oi_nonzero : forall x, In x (preorder s) -> key s x <> 0;
  oi_increasing : forall l1 x l2 y l3, preorder s = l1 ++ x :: l2 ++ y :: l3 -> key s x < key s y;
  oi_detached : forall x, ~ In x (preorder s) -> key s x = 0
}.

Theorem order_inv s : TreeInv s -> OrderOK s -> OrderInv s.
Proof.
  intros T O. pose proof (preorder_nodup s T) as Hnd. pose proof (order_refresh s O) as Ho.
  constructor.
  - apply preorder_walk. exact T.
  - apply preorder_attached. exact T.
  - intros x Hx. unfold key. rewrite Ho. apply in_split in Hx. destruct Hx as [l1 [l2 E]].
    rewrite E in Hnd |- *. rewrite pos_in_app; [lia|].
    apply NoDup_remove_2 in Hnd. intros H. apply Hnd. apply in_or_app. left. exact H.
  - intros l1 x l2 y l3 E. unfold key. rewrite Ho, E. rewrite E in Hnd.
    assert (Hx : ~ In x l1).
    { apply NoDup_remove_2 in Hnd. intros H. apply Hnd. apply in_or_app. left. exact H. }
    rewrite pos_in_app by exact Hx.
    replace (l1 ++ x :: l2 ++ y :: l3) with ((l1 ++ x :: l2) ++ y :: l3) by (rewrite <- app_assoc; reflexivity).
    assert (Hy : ~ In y (l1 ++ x :: l2)).
    { replace (l1 ++ x :: l2 ++ y :: l3) with ((l1 ++ x :: l2) ++ y :: l3) in Hnd by (rewrite <- app_assoc; reflexivity).
      apply NoDup_remove_2 in Hnd. intros H. apply Hnd. apply in_or_app. left. exact H. }
    rewrite pos_in_app by exact Hy. rewrite app_length. cbn [length]. lia.
  - intros x Hx. unfold key. rewrite Ho. apply pos_in_absent. exact Hx.
Qed.

(** ** the walk does not depend on data, nor on nodes outside the lists *)
Lemma walk_transfer (s s' : store) :
  TreeInv s ->
  (forall n it, get s n = Some it -> listed_seq s' n = listed_seq s n) ->
  forall n l, Walk s' n l -> (exists it, get s n = Some it) -> Walk s n l.
Proof.
  intros T Hseq. fix IH 3. intros n l H [it Hn].
  destruct H as [n it' ls Hn' Hls].
  apply (walk_node s n it ls Hn).
  rewrite (Hseq n it Hn) in Hls.
  assert (Hlive : forall c, In c (listed_seq s n) -> exists cit, get s c = Some cit).
  { intros c Hc. eapply lists_live_child; [exact T | apply listed_seq_lists; exact Hc]. }
  revert Hlive. induction Hls as [|c lc cs lss Hc Hrest IHrest]; intros Hlive; constructor.
  - apply IH; [exact Hc | apply Hlive; left; reflexivity].
  - apply IHrest. intros c' Hc'. apply Hlive. right. exact Hc'.
Qed.

Theorem preorder_stable (s s' : store) :
  TreeInv s -> TreeInv s' -> sroot s' = sroot s ->
  (forall n it, get s n = Some it -> listed_seq s' n = listed_seq s n) ->
  preorder s' = preorder s.
Proof.
  intros T T' Hr Hseq.
  pose proof (preorder_walk s' T') as W'. rewrite Hr in W'.
  destruct (ti_root s T) as [rit [Hroot _]].
  pose proof (walk_transfer s s' T Hseq _ _ W' (ex_intro _ rit Hroot)) as W.
  eapply walk_fun; [exact W | apply preorder_walk; exact T].
Qed.
