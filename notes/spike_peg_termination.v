From Coq Require Import List NArith Arith Lia Bool.
Import ListNotations.

Definition char := N.
Definition str := list char.
Inductive res := Ok (rest : str) | Fail | Oof.

Inductive pexpr :=
| Tag (s : str) | Chars0 (c : nat) | Chars1 (c : nat)
| Seq (a b : pexpr) | Alt (a b : pexpr) | Many0 (p : pexpr) | Opt (p : pexpr) | NT (n : nat).

Section Den.
Variable G : list pexpr.
Variable cls : nat -> char -> bool.
Definition body n := nth n G (Tag [0%N]).

Fixpoint prefix (a s : str) : option str :=
  match a, s with
  | [], _ => Some s
  | x :: a', y :: s' => if N.eqb x y then prefix a' s' else None
  | _, [] => None
  end.
Fixpoint span (f : char -> bool) (s : str) : str * str :=
  match s with
  | c :: s' => if f c then let (a, b) := span f s' in (c :: a, b) else ([], s)
  | [] => ([], [])
  end.
Fixpoint many_loop (k : nat) (p : str -> res) (s : str) : res :=
  match k with
  | O => Oof
  | S k' =>
    match p s with
    | Ok r => if Nat.ltb (length r) (length s) then many_loop k' p r else Fail
    | Fail => Ok s
    | Oof => Oof
    end
  end.

Fixpoint denote (fuel : nat) : pexpr -> str -> res :=
  fix go (e : pexpr) (s : str) {struct e} : res :=
  match e with
  | Tag a => match prefix a s with Some r => Ok r | None => Fail end
  | Chars0 c => Ok (snd (span (cls c) s))
  | Chars1 c => match span (cls c) s with ([], _) => Fail | (_, b) => Ok b end
  | Seq a b => match go a s with Ok r => go b r | x => x end
  | Alt a b => match go a s with Fail => go b s | x => x end
  | Many0 p => many_loop (S (length s)) (go p) s
  | Opt p => match go p s with Fail => Ok s | x => x end
  | NT n => match fuel with O => Oof | S f => denote f (body n) s end
  end.


Definition callnt (fuel : nat) (n : nat) (s : str) : res :=
  match fuel with O => Oof | S f => denote f (body n) s end.
Definition den1 (fuel : nat) (e : pexpr) (s : str) : res :=
  match e with
  | Tag a => match prefix a s with Some r => Ok r | None => Fail end
  | Chars0 c => Ok (snd (span (cls c) s))
  | Chars1 c => match span (cls c) s with ([], _) => Fail | (_, b) => Ok b end
  | Seq a b => match denote fuel a s with Ok r => denote fuel b r | x => x end
  | Alt a b => match denote fuel a s with Fail => denote fuel b s | x => x end
  | Many0 p => many_loop (S (length s)) (denote fuel p) s
  | Opt p => match denote fuel p s with Fail => Ok s | x => x end
  | NT n => callnt fuel n s
  end.
Lemma denote_eq fuel e s : denote fuel e s = den1 fuel e s.
Proof. destruct fuel; destruct e; reflexivity. Qed.
Global Opaque denote.

(* certificate *)
Variable nullb : nat -> bool.
Variable rank : nat -> nat.
Variable R : nat.

Fixpoint enull (e : pexpr) : bool :=
  match e with
  | Tag a => match a with [] => true | _ => false end
  | Chars0 _ => true | Chars1 _ => false
  | Seq a b => enull a && enull b
  | Alt a b => enull a || enull b
  | Many0 _ => true | Opt _ => true
  | NT n => nullb n
  end.
Fixpoint efirst (e : pexpr) : list nat :=
  match e with
  | Tag _ | Chars0 _ | Chars1 _ => []
  | Seq a b => efirst a ++ (if enull a then efirst b else [])
  | Alt a b => efirst a ++ efirst b
  | Many0 p => efirst p | Opt p => efirst p
  | NT n => [n]
  end.
Definition cert_ok : Prop :=
  (forall n, enull (body n) = true -> nullb n = true) /\
  (forall n m, In m (efirst (body n)) -> rank m < rank n) /\
  (forall n, rank n <= R).

Lemma prefix_len a s r : prefix a s = Some r -> length r + length a = length s.
Proof. revert s; induction a as [|x a IH]; intros [|y s]; cbn; intros H; try discriminate.
 - injection H as <-; cbn; lia. - injection H as <-; cbn; lia.
 - destruct (N.eqb x y); [|discriminate]. apply IH in H. cbn [length]. lia. Qed.
Lemma span_len f s : length (fst (span f s)) + length (snd (span f s)) = length s.
Proof. induction s as [|c s IH]; cbn; [reflexivity|]. destruct (f c); cbn; [|reflexivity].
  destruct (span f s); cbn in *; lia. Qed.

Lemma many_len k p s r : (forall s' r', p s' = Ok r' -> length r' <= length s') ->
  many_loop k p s = Ok r -> length r <= length s.
Proof. intros Hp; revert s; induction k as [|k IH]; cbn [many_loop]; intros s; [discriminate|].
  destruct (p s) as [r'| |] eqn:E; try discriminate.
  - destruct (Nat.ltb_spec (length r') (length s)); [|intros; discriminate]. intros H'. apply IH in H'. lia.
  - intros H; injection H as <-; lia. Qed.

Lemma den_len : forall f e s r, denote f e s = Ok r -> length r <= length s.
Proof.
  induction f as [|f IHf]; induction e as [a|c|c|a IHa b IHb|a IHa b IHb|p IHp|p IHp|n]; intros s r H; rewrite denote_eq in H; cbn [den1 callnt] in H;
  try (destruct (prefix a s) eqn:E; [injection H as <-; apply prefix_len in E; lia|discriminate]);
  try (injection H as <-; pose proof (span_len (cls c) s); lia);
  try (pose proof (span_len (cls c) s) as L; destruct (span (cls c) s) as [[|x a'] b']; [discriminate|injection H as <-; cbn in L; lia]);
  try (destruct (denote _ a s) eqn:E; try discriminate; apply IHa in E; apply IHb in H; lia);
  try (destruct (denote _ a s) eqn:E; try discriminate; [injection H as <-; apply IHa in E; lia | apply IHb in H; lia]);
  try (eapply many_len in H; [exact H| intros; eapply IHp; eauto]);
  try (destruct (denote _ p s) eqn:E; try discriminate; [injection H as <-; apply IHp in E; lia | injection H as <-; lia]);
  try discriminate.
  eapply IHf; eauto.
Qed.

Lemma many_null k p s r : many_loop k p s = Ok r -> True. Proof. trivial. Qed.

(* null soundness: success without consumption implies enull *)
Lemma den_null (C : cert_ok) : forall f e s r, denote f e s = Ok r -> length r = length s -> enull e = true.
Proof.
  destruct C as (Cn & _ & _).
  induction f as [|f IHf]; induction e as [a|c|c|a IHa b IHb|a IHa b IHb|p IHp|p IHp|n]; intros s r H L; rewrite denote_eq in H; cbn [den1 callnt] in H; cbn [enull]; try reflexivity;
  try (destruct a; [reflexivity|]; destruct (prefix _ s) eqn:E; [injection H as <-; apply prefix_len in E; cbn in E; lia|discriminate]);
  try (pose proof (span_len (cls c) s) as L'; destruct (span (cls c) s) as [[|x a'] b']; [discriminate|injection H as <-; cbn in L'; lia]);
  try (destruct (denote _ a s) eqn:E; try discriminate;
       pose proof (den_len _ _ _ _ E); pose proof (den_len _ _ _ _ H);
       rewrite (IHa _ _ E) by lia; rewrite (IHb _ _ H) by lia; reflexivity);
  try (destruct (denote _ a s) eqn:E; try discriminate;
       [injection H as <-; rewrite (IHa _ _ E L); reflexivity | rewrite (IHb _ _ H L); apply orb_true_r]);
  try discriminate.
  apply Cn. eapply IHf; eauto.
Qed.

(* main: enough fuel => no Oof *)
Definition need (len rk : nat) := len * (S (S R)) + rk + 1.

Lemma many_no_oof (p : str -> res) (s : str) : (forall s', length s' <= length s -> p s' <> Oof) ->
  (forall s' r', p s' = Ok r' -> length r' <= length s') ->
  forall k s', length s' < k -> length s' <= length s -> many_loop k p s' <> Oof.
Proof. intros Hp Hl; induction k as [|k IH]; intros s' Hk Hs; [lia|]. cbn [many_loop].
  destruct (p s') as [r| |] eqn:E; try discriminate.
  - destruct (Nat.ltb_spec (length r) (length s')); [|discriminate]. apply IH; lia.
  - exfalso; eapply Hp; eauto. Qed.

Theorem no_oof (C : cert_ok) : forall len rk f e s,
  length s <= len ->
  (* e is evaluated inside a nonterminal of rank bound rk: NTs reachable at start have rank < rk if at start position *)
  (length s = len -> forall m, In m (efirst e) -> rank m < rk) ->
  need len rk <= S f ->
  denote (S f) e s <> Oof.
Proof.
  induction len as [len IHlen] using lt_wf_ind.
  induction rk as [rk IHrk] using lt_wf_ind.
  intros f; induction e as [a|c|c|a IHa b IHb|a IHa b IHb|p IHp|p IHp|n]; intros s Hs Hfirst Hf; rewrite denote_eq; cbn [den1 callnt].
  - destruct (prefix a s); discriminate.
  - discriminate.
  - destruct (span (cls c) s) as [[|? ?] ?]; discriminate.
  - destruct (denote (S f) a s) as [r| |] eqn:E; try discriminate.
    + apply IHb. * apply den_len in E; lia.
      * intros L m Hm. apply Hfirst; [pose proof (den_len _ _ _ _ E); lia|]. cbn.
        apply in_or_app. right. rewrite (den_null C _ _ _ _ E); [exact Hm|]. pose proof (den_len _ _ _ _ E); lia.
      * exact Hf.
    + exfalso. revert E. apply IHa; auto. intros L m Hm. apply Hfirst; auto. cbn. apply in_or_app; auto.
  - destruct (denote (S f) a s) as [r| |] eqn:E; try discriminate.
    + apply IHb; auto. intros L m Hm. apply Hfirst; auto. cbn. apply in_or_app; auto.
    + exfalso. revert E. apply IHa; auto. intros L m Hm. apply Hfirst; auto. cbn. apply in_or_app; auto.
  - apply (many_no_oof _ s); try lia.
    + intros s' Hs'. apply IHp; [lia| |exact Hf]. intros L m Hm. apply Hfirst; [lia|exact Hm].
    + intros s' r' Hr. eapply den_len; eauto.
  - destruct (denote (S f) p s) as [r| |] eqn:E; try discriminate.
    exfalso. revert E. apply IHp; auto.
  - (* NT n *)
    destruct f as [|f].
    + exfalso. unfold need in Hf. assert (rk = 0) by lia. subst. destruct (Nat.eq_dec (length s) len) as [L|L].
      * specialize (Hfirst L n (or_introl eq_refl)). lia.
      * unfold need in Hf. lia.
    + destruct (Nat.eq_dec (length s) len) as [L|L].
      * (* same position: rank decreases *)
        pose proof (Hfirst L n (or_introl eq_refl)) as Hr.
        apply (IHrk (rank n) Hr f (body n) s Hs).
        -- intros _ m Hm. destruct C as (_ & Cr & _). apply Cr; exact Hm.
        -- unfold need in *. lia.
      * (* shorter input: restart with full rank budget *)
        assert (Hlt : length s < len) by lia.
        apply (IHlen (length s) Hlt (S (rank n)) f (body n) s (le_n _)).
        -- intros _ m Hm. destruct C as (_ & Cr & _). apply Nat.lt_lt_succ_r, Cr; exact Hm.
        -- destruct C as (_ & _ & CR). pose proof (CR n). unfold need in *.
           assert (S (length s) * S (S R) <= len * S (S R)) by (apply Nat.mul_le_mono_r; lia). lia.
Qed.
End Den.
Print Assumptions no_oof.
