(** * One-step unfolding equations of the evaluator model (Model/XPathEval.v), one per
    constructor, all by [reflexivity].  Every proof about the evaluator rewrites with these
    instead of reducing the 22-function mutual fixpoint. *)
From Coq Require Import List NArith Bool.
From XmlRs Require Import Base.CPred Base.NList Base.Float64.
From XmlRs Require Import Spec.XPathCore Model.XPathFuncs.
From XmlRs Require Import Model.XPathAst Model.XDoc Model.XPathScalar Model.XPathEval.
Import ListNotations.
Open Scope N_scope.

Section Eqs.
Variable doc : xdoc.

Lemma eval_or_expr_eq first rest n :
  eval_or_expr doc (EOr first rest) n =
  (op1 <- eval_and_expr doc first n ;; eval_or_rest doc rest op1 n).
Proof. reflexivity. Qed.

Lemma eval_or_rest_nil op1 n : eval_or_rest doc AndNil op1 n = ret op1.
Proof. reflexivity. Qed.

Lemma eval_or_rest_cons a t op1 n :
  eval_or_rest doc (AndCons a t) op1 n =
  (if val_to_bool op1 then ret (XBool true)
   else v <- eval_and_expr doc a n ;; eval_or_rest doc t (XBool (val_to_bool v)) n).
Proof. reflexivity. Qed.

Lemma eval_and_expr_eq first rest n :
  eval_and_expr doc (EAnd first rest) n =
  (op1 <- eval_eq_expr doc first n ;; eval_and_rest doc rest op1 n).
Proof. reflexivity. Qed.

Lemma eval_and_rest_nil op1 n : eval_and_rest doc EqNil op1 n = ret op1.
Proof. reflexivity. Qed.

Lemma eval_and_rest_cons a t op1 n :
  eval_and_rest doc (EqCons a t) op1 n =
  (if negb (val_to_bool op1) then ret (XBool false)
   else v <- eval_eq_expr doc a n ;; eval_and_rest doc t (XBool (val_to_bool v)) n).
Proof. reflexivity. Qed.

Lemma eval_eq_expr_eq operand ops n :
  eval_eq_expr doc (EEq operand ops) n =
  (op1 <- eval_rel_expr doc operand n ;; eval_eq_ops doc ops op1 n).
Proof. reflexivity. Qed.

Lemma eval_eq_ops_nil op1 n : eval_eq_ops doc EqopNil op1 n = ret op1.
Proof. reflexivity. Qed.

Lemma eval_eq_ops_cons op e t op1 n :
  eval_eq_ops doc (EqopCons op e t) op1 n =
  (op2 <- eval_rel_expr doc e n ;;
   r <- lift (eq_value doc (match op with OpEqual => false | OpNotEqual => true end) op1 op2) ;;
   eval_eq_ops doc t (XBool r) n).
Proof. reflexivity. Qed.

Lemma eval_rel_expr_eq operand ops n :
  eval_rel_expr doc (ERel operand ops) n =
  (op1 <- eval_add_expr doc operand n ;; eval_rel_ops doc ops op1 n).
Proof. reflexivity. Qed.

Lemma eval_rel_ops_nil op1 n : eval_rel_ops doc RelopNil op1 n = ret op1.
Proof. reflexivity. Qed.

Lemma eval_rel_ops_cons op e t op1 n :
  eval_rel_ops doc (RelopCons op e t) op1 n =
  (op2 <- eval_add_expr doc e n ;;
   r <- lift (rel_value doc op op1 op2) ;;
   eval_rel_ops doc t (XBool r) n).
Proof. reflexivity. Qed.

Lemma eval_add_expr_eq operand ops n :
  eval_add_expr doc (EAdd operand ops) n =
  (op1 <- eval_mul_expr doc operand n ;; eval_add_ops doc ops op1 n).
Proof. reflexivity. Qed.

Lemma eval_add_ops_nil op1 n : eval_add_ops doc AddopNil op1 n = ret op1.
Proof. reflexivity. Qed.

Lemma eval_add_ops_cons op e t op1 n :
  eval_add_ops doc (AddopCons op e t) op1 n =
  (op2 <- eval_mul_expr doc e n ;;
   r <- lift (arith doc (match op with OpAdd => f64_add | OpSub => f64_sub end) op1 op2) ;;
   eval_add_ops doc t r n).
Proof. reflexivity. Qed.

Lemma eval_mul_expr_eq operand ops n :
  eval_mul_expr doc (EMul operand ops) n =
  (op1 <- eval_unary_expr doc operand n ;; eval_mul_ops doc ops op1 n).
Proof. reflexivity. Qed.

Lemma eval_mul_ops_nil op1 n : eval_mul_ops doc MulopNil op1 n = ret op1.
Proof. reflexivity. Qed.

Lemma eval_mul_ops_cons op e t op1 n :
  eval_mul_ops doc (MulopCons op e t) op1 n =
  (op2 <- eval_unary_expr doc e n ;;
   r <- lift (arith doc (match op with OpMul => f64_mul | OpDiv => f64_div | OpMod => f64_rem end) op1 op2) ;;
   eval_mul_ops doc t r n).
Proof. reflexivity. Qed.

Lemma eval_unary_expr_eq inv u n :
  eval_unary_expr doc (EUnary inv u) n =
  (v <- eval_union_expr doc u n ;; lift (neg_times doc (N.to_nat inv) v)).
Proof. reflexivity. Qed.

Lemma eval_union_expr_nil n : eval_union_expr doc (EUnion PathNil) n = ret (XNodes []).
Proof. reflexivity. Qed.

Lemma eval_union_expr_one first n :
  eval_union_expr doc (EUnion (PathCons first PathNil)) n =
  (v <- eval_path_expr doc first n ;;
   match v with
   | XNodes l => ret (XNodes (union_finish doc l))
   | _ => ret v
   end).
Proof. reflexivity. Qed.

Lemma eval_union_expr_many first p t n :
  eval_union_expr doc (EUnion (PathCons first (PathCons p t))) n =
  (v <- eval_path_expr doc first n ;;
   match v with
   | XNodes l => eval_union_rest doc (PathCons p t) l n
   | _ => lift (Err XErrInvalidType)
   end).
Proof. reflexivity. Qed.

Lemma eval_union_rest_nil acc n :
  eval_union_rest doc PathNil acc n = ret (XNodes (union_finish doc acc)).
Proof. reflexivity. Qed.

Lemma eval_union_rest_cons p t acc n :
  eval_union_rest doc (PathCons p t) acc n =
  (v <- eval_path_expr doc p n ;;
   match v with
   | XNodes l' => eval_union_rest doc t (acc ++ l') n
   | _ => lift (Err XErrInvalidType)
   end).
Proof. reflexivity. Qed.

Lemma eval_path_expr_root n : eval_path_expr doc PRoot n = ret (XNodes (root_of doc n)).
Proof. reflexivity. Qed.

Lemma eval_path_expr_filter f n : eval_path_expr doc (PFilter f) n = eval_filter_expr doc f n.
Proof. reflexivity. Qed.

Lemma eval_path_expr_rel l n :
  eval_path_expr doc (PRel l) n =
  (collected <- flat_map_m (eval_rel_path doc l) [n] ;; ret (XNodes (sort_by_key doc collected))).
Proof. reflexivity. Qed.

Lemma eval_path_expr_abs op l n :
  eval_path_expr doc (PAbs op l) n =
  (nodes <- lift (match op with
                  | LpCurrent => Ok (root_of doc n)
                  | LpDescendantOrSelfNode => flat_map_res (descendant_and_self doc) (root_of doc n)
                  end) ;;
   collected <- flat_map_m (eval_rel_path doc l) nodes ;;
   ret (XNodes (sort_by_key doc collected))).
Proof. reflexivity. Qed.

Lemma eval_path_expr_filterpath f op l n :
  eval_path_expr doc (PFilterPath f op l) n =
  (v <- eval_filter_expr doc f n ;;
   match v with
   | XNodes fl =>
       nodes <- lift (match op with
                      | LpCurrent => Ok fl
                      | LpDescendantOrSelfNode => flat_map_res (descendant_and_self doc) fl
                      end) ;;
       collected <- flat_map_m (eval_rel_path doc l) nodes ;;
       ret (XNodes (sort_by_key doc collected))
   | _ => lift (Err XErrInvalidType)
   end).
Proof. reflexivity. Qed.

Lemma eval_filter_expr_nopred primary n :
  eval_filter_expr doc (EFilter primary ExprNil) n = eval_primary_expr doc primary n.
Proof. reflexivity. Qed.

Lemma eval_filter_expr_preds primary p t n :
  eval_filter_expr doc (EFilter primary (ExprCons p t)) n =
  (v <- eval_primary_expr doc primary n ;;
   match v with
   | XNodes l => r <- eval_predicates doc (ExprCons p t) l ;; ret (XNodes r)
   | _ => lift (Err XErrInvalidType)
   end).
Proof. reflexivity. Qed.

Lemma eval_primary_expr_expr x n : eval_primary_expr doc (PrimExpr x) n = eval_or_expr doc x n.
Proof. reflexivity. Qed.

Lemma eval_primary_expr_function name args n :
  eval_primary_expr doc (PrimFunction name args) n =
  (fun c =>
     match resolve_fn (c_ns c) name (expr_list_len args) with
     | Ok local => (vs <- eval_args doc args n ;; exec_fn doc local vs n) c
     | Err e => (Err e, c)
     | Panic => (Panic, c)
     | OutOfFuel => (OutOfFuel, c)
     end).
Proof. reflexivity. Qed.

Lemma eval_primary_expr_literal s n : eval_primary_expr doc (PrimLiteral s) n = ret (XText s).
Proof. reflexivity. Qed.

Lemma eval_primary_expr_number s n :
  eval_primary_expr doc (PrimNumber s) n =
  match rust_parse_f64 s with Some x => ret (XNum x) | None => lift Panic end.
Proof. reflexivity. Qed.

Lemma eval_primary_expr_variable q n :
  eval_primary_expr doc (PrimVariable q) n =
  (fun c =>
     match expanded_name (c_ns c) q with
     | Ok (local, _, _) => (Err (XErrNotFoundVariable local), c)
     | Err e => (Err e, c)
     | Panic => (Panic, c)
     | OutOfFuel => (OutOfFuel, c)
     end).
Proof. reflexivity. Qed.

Lemma eval_args_nil n : eval_args doc ExprNil n = ret [].
Proof. reflexivity. Qed.

Lemma eval_args_cons e t n :
  eval_args doc (ExprCons e t) n =
  (v <- eval_or_expr doc e n ;; vs <- eval_args doc t n ;; ret (v :: vs)).
Proof. reflexivity. Qed.

Lemma eval_predicates_nil nodes : eval_predicates doc ExprNil nodes = ret nodes.
Proof. reflexivity. Qed.

Lemma eval_predicates_cons p t nodes :
  eval_predicates doc (ExprCons p t) nodes =
  (fun c =>
     match pred_loop (predicate_of (eval_or_expr doc p)) nodes 1 (push_size (len nodes) c) with
     | (Ok filtered, c1) => eval_predicates doc t filtered (pop_size c1)
     | other => other
     end).
Proof. reflexivity. Qed.

Lemma eval_rel_path_eq operand ops n :
  eval_rel_path doc (ERelPath operand ops) n =
  (nodes <- eval_step doc operand n ;; eval_stepops doc ops nodes).
Proof. reflexivity. Qed.

Lemma eval_stepops_nil nodes : eval_stepops doc StepopNil nodes = ret nodes.
Proof. reflexivity. Qed.

Lemma eval_stepops_cons op s t nodes :
  eval_stepops doc (StepopCons op s t) nodes =
  (from <- lift (match op with
                 | LpCurrent => Ok nodes
                 | LpDescendantOrSelfNode => flat_map_res (descendant_and_self doc) nodes
                 end) ;;
   collected <- flat_map_m (eval_step doc s) from ;;
   eval_stepops doc t (step_dedup doc collected)).
Proof. reflexivity. Qed.

Lemma eval_step_current n : eval_step doc StepCurrent n = ret [n].
Proof. reflexivity. Qed.

Lemma eval_step_parent n : eval_step doc StepParent n = ret (opt_list (parent_node doc n)).
Proof. reflexivity. Qed.

Lemma eval_step_test axis test preds n :
  eval_step doc (StepTest axis test preds) n =
  (fun c =>
     match bind (axis_nodes doc axis n) (filter_res (eval_node_test doc (c_ns c) axis test)) with
     | Ok tested => eval_predicates doc preds (axis_sort doc axis tested) c
     | Err e => (Err e, c)
     | Panic => (Panic, c)
     | OutOfFuel => (OutOfFuel, c)
     end).
Proof. reflexivity. Qed.

End Eqs.

(** the evaluator is only ever unfolded through the equations above *)
Global Opaque eval_or_expr eval_or_rest eval_and_expr eval_and_rest eval_eq_expr eval_eq_ops
  eval_rel_expr eval_rel_ops eval_add_expr eval_add_ops eval_mul_expr eval_mul_ops
  eval_unary_expr eval_union_expr eval_union_rest eval_path_expr eval_filter_expr
  eval_primary_expr eval_args eval_predicates eval_rel_path eval_stepops eval_step.
