(** * The XPath evaluator, function by function (xpath/src/eval/mod.rs, eval/model.rs and the
    node-set functions of eval/func.rs).

    This is the code of branch agent-xpath (main merged): the pinned tree with the repairs D14
    (name tests respect the principal node type), D15 (following / preceding cover the document),
    D16 (the document type is not selected), D17 (lang()), D22 (the parent of a parentless node
    selects nothing; the parent of an attribute is its element), D23 ($v is an error), D24
    (processing-instruction('t')), D25 (id()), D27 (union sorts), D29 (numeric predicate compares
    numbers), D50 (stacks popped before an error is propagated), D55 (attributes have no
    children), the de-duplication of the node list after every step of a relative location path
    (d31a0ff), the absolute path from a namespace node, unary minus once per sign, D63 (an
    unprefixed function name is in no namespace whatever the default binding, 9d405ca), the repaired
    scalar library (Model/XPathFuncs.v) and the dom's sibling lookup by id (D21) / PI keys (D18).
    Still modelled as found: sorting and de-duplication BY ORDER KEY (so the D19 key collisions of
    namespace nodes and DTD-default attributes conflate nodes).

    Conventions.  [ctx] is eval::model::Context: the position stack, the size stack and the
    namespace bindings; every function threads it and returns it ([M A = ctx -> res A * ctx]),
    so that "the context is restored" is a statement about this model (C19).  A Rust panic is
    the value [Panic]; the context that comes with it is the one at the panic site (unwinding
    pops nothing).  [OutOfFuel] is reported as a hang.  Recursion is structural on the AST; the
    loops over node lists are the combinators [pred_loop] and [flat_map_m]; the navigation loops
    of the axes carry the fuel [nav_fuel doc] (sufficiency: Proofs/XPathNav.v).

    No proofs here. *)
From Coq Require Import List NArith ZArith Bool.
From Coq Require Import Floats.SpecFloat.
From XmlRs Require Import Base.CPred Base.NList Base.Float64.
From XmlRs Require Import Spec.XPathCore Model.XPathFuncs.
From XmlRs Require Import Model.XPathAst Model.XDoc Model.XPathScalar.
Import ListNotations.
Open Scope N_scope.

(** ** eval::model::Context *)
Record ctx := mk_ctx {
  c_size : list N;                       (* top of the stack first *)
  c_position : list N;
  c_ns : list (option str * str) }.

Definition ctx_default : ctx := mk_ctx [] [] [].

Definition get_position (c : ctx) : N := hd 0 (c_position c).
Definition get_size (c : ctx) : N := hd 0 (c_size c).
Definition push_position (p : N) (c : ctx) : ctx := mk_ctx (c_size c) (p :: c_position c) (c_ns c).
Definition pop_position (c : ctx) : ctx := mk_ctx (c_size c) (tl (c_position c)) (c_ns c).
Definition push_size (s : N) (c : ctx) : ctx := mk_ctx (s :: c_size c) (c_position c) (c_ns c).
Definition pop_size (c : ctx) : ctx := mk_ctx (tl (c_size c)) (c_position c) (c_ns c).

(** [add_ns]: replace the binding of the prefix, append *)
Definition add_ns (p : option str) (u : str) (c : ctx) : ctx :=
  mk_ctx (c_size c) (c_position c)
         (filter (fun b => negb (ostr_eqb (fst b) p)) (c_ns c) ++ [(p, u)]).

(** [get_ns_uri(prefix)] / the lookups of [expanded_name] *)
Definition ns_lookup (ns : list (option str * str)) (p : option str) : option str :=
  match find (fun b => ostr_eqb (fst b) p) ns with
  | Some b => Some (snd b)
  | None => None
  end.

(** [Context::expanded_name(qname)] -> (local part, prefix, uri) *)
Definition expanded_name (ns : list (option str * str)) (q : qname)
  : res (str * option str * option str) :=
  match q with
  | QPrefixed p l =>
      match ns_lookup ns (Some p) with
      | Some u => Ok (l, Some p, Some u)
      | None => Err (XErrNotFoundNamespace p)
      end
  | QUnprefixed u => Ok (u, None, ns_lookup ns None)
  end.

(** ** eval::model::Value *)
Inductive xvalue :=
| XBool (b : bool)
| XNodes (l : list node)
| XNum (x : f64)
| XText (s : str).

Definition is_node (v : xvalue) : bool := match v with XNodes _ => true | _ => false end.
Definition is_bool (v : xvalue) : bool := match v with XBool _ => true | _ => false end.
Definition is_number (v : xvalue) : bool := match v with XNum _ => true | _ => false end.

(** ** the state-and-result monad *)
Definition M (A : Type) := ctx -> res A * ctx.

Definition ret {A} (a : A) : M A := fun c => (Ok a, c).
Definition lift {A} (r : res A) : M A := fun c => (r, c).

Definition bindM {A B} (m : M A) (f : A -> M B) : M B :=
  fun c =>
    match m c with
    | (Ok a, c') => f a c'
    | (Err e, c') => (Err e, c')
    | (Panic, c') => (Panic, c')
    | (OutOfFuel, c') => (OutOfFuel, c')
    end.

Notation "x <- m ;; f" := (bindM m (fun x => f)) (at level 61, m at next level, right associativity).

Section Eval.
Variable doc : xdoc.

(** ** order keys: [sort_by_cached_key(|v| v.order())] (stable) and the HashSet de-duplication *)
Fixpoint insert_by_key (x : node) (l : list node) : list node :=
  match l with
  | [] => [x]
  | y :: t => if key doc x <=? key doc y then x :: l else y :: insert_by_key x t
  end.

Definition sort_by_key (l : list node) : list node := fold_right insert_by_key [] l.

(** [nodes.retain(|v| set.insert(v.order()))]: the first node of every key is kept *)
Fixpoint dedup_keys (seen : list N) (l : list node) : list node :=
  match l with
  | [] => []
  | x :: t =>
      if existsb (N.eqb (key doc x)) seen then dedup_keys seen t
      else x :: dedup_keys (key doc x :: seen) t
  end.

(** what [eval_union_expr] does to the collected nodes *)
Definition union_finish (l : list node) : list node := sort_by_key (dedup_keys [] l).

(** what [eval_loc_expr] does to the nodes collected by one step (fix of the exponential growth of
    [a/../a/..]): [collected.retain(|v| { let order = v.order(); order == 0 || set.insert(order) })]
    -- the first node of every non-zero key is kept, nodes with key 0 are never dropped *)
Fixpoint step_dedup_from (seen : list N) (l : list node) : list node :=
  match l with
  | [] => []
  | x :: t =>
      if key doc x =? 0 then x :: step_dedup_from seen t
      else if existsb (N.eqb (key doc x)) seen then step_dedup_from seen t
      else x :: step_dedup_from (key doc x :: seen) t
  end.

Definition step_dedup (l : list node) : list node := step_dedup_from [] l.

(** ** conversions of values ([TryFrom<&Value>]); node-sets go through the string-value of the
    first node, which may fail *)
Definition val_to_bool (v : xvalue) : bool :=
  match v with
  | XBool b => b
  | XNodes l => match l with [] => false | _ => true end
  | XNum x => model_to_bool (VNum x)
  | XText s => model_to_bool (VStr s)
  end.

Definition val_to_string (v : xvalue) : res str :=
  match v with
  | XBool b => Ok (model_to_string (VBool b))
  | XNodes [] => Ok []
  | XNodes (n :: _) => string_value doc n
  | XNum x => Ok (model_to_string (VNum x))
  | XText s => Ok s
  end.

Definition val_to_number (v : xvalue) : res f64 :=
  match v with
  | XBool b => Ok (model_to_number (VBool b))
  | XNodes _ => bind (val_to_string v) (fun s => Ok (str_to_number s))
  | XNum x => Ok x
  | XText s => Ok (str_to_number s)
  end.

(** the operators [+ - * div mod] and unary minus [unwrap()] the conversion *)
Definition unwrap_num (r : res f64) : res f64 :=
  match r with
  | Err _ => Panic
  | other => other
  end.

Definition arith (f : f64 -> f64 -> f64) (a b : xvalue) : res xvalue :=
  bind (unwrap_num (val_to_number a)) (fun x =>
  bind (unwrap_num (val_to_number b)) (fun y => Ok (XNum (f x y)))).

(** [impl Neg for Value]: [-a] *)
Definition neg_value (a : xvalue) : res xvalue :=
  bind (unwrap_num (val_to_number a)) (fun x => Ok (XNum (f64_neg x))).

(** [for _ in uni.inv() { value = -value; }] *)
Fixpoint neg_times (k : nat) (v : xvalue) : res xvalue :=
  match k with
  | O => Ok v
  | S k' => bind (neg_value v) (neg_times k')
  end.

(** ** comparisons (the equal_* / not_equal_* / greater_* / less_* families) *)

(** some node of [l] whose string-value satisfies [p] ([for i in b { if ... { return Ok(true) } }]) *)
Fixpoint exists_sv (p : str -> bool) (l : list node) : res bool :=
  match l with
  | [] => Ok false
  | i :: t => bind (string_value doc i) (fun s => if p s then Ok true else exists_sv p t)
  end.

(** [for i in b { for j in values { if rel(sv j, sv i) ... } }] *)
Fixpoint exists_sv2 (p : str -> str -> bool) (b values : list node) : res bool :=
  match b with
  | [] => Ok false
  | i :: t =>
      bind ((fix inner (vs : list node) : res bool :=
               match vs with
               | [] => Ok false
               | j :: vt =>
                   bind (string_value doc j) (fun sj =>
                   bind (string_value doc i) (fun si =>
                   if p sj si then Ok true else inner vt))
               end) values)
           (fun r => if r then Ok true else exists_sv2 p t values)
  end.

(** [equal_node] (neq = false) and [not_equal_node] (neq = true): [a] against the node-set [b] *)
Definition eq_node (neq : bool) (a : xvalue) (b : list node) : res bool :=
  let empty := match b with [] => true | _ => false end in
  match a with
  | XBool x => Ok (if neq then Bool.eqb x empty else negb (Bool.eqb x empty))
  | XNodes values => exists_sv2 (fun sj si => xorb neq (str_eqb sj si)) b values
  | XNum x => exists_sv (fun s => xorb neq (f64_eqb (str_to_number s) x)) b
  | XText t => exists_sv (fun s => xorb neq (str_eqb s t)) b
  end.

(** [equal_value] / [not_equal_value] *)
Definition eq_value (neq : bool) (a b : xvalue) : res bool :=
  match a, b with
  | XNodes na, _ => eq_node neq b na
  | _, XNodes nb => eq_node neq a nb
  | _, _ =>
      if is_bool a || is_bool b then Ok (xorb neq (Bool.eqb (val_to_bool a) (val_to_bool b)))
      else if is_number a || is_number b then
        bind (val_to_number a) (fun x => bind (val_to_number b) (fun y => Ok (xorb neq (f64_eqb x y))))
      else
        bind (val_to_string a) (fun x => bind (val_to_string b) (fun y => Ok (xorb neq (str_eqb x y))))
  end.

(** [x op y] on numbers *)
Definition num_rel (op : rel_op) (x y : f64) : bool :=
  match op with
  | OpLessThan => f64_ltb x y
  | OpLessEqual => f64_leb x y
  | OpGreaterThan => f64_ltb y x
  | OpGreaterEqual => f64_leb y x
  end.

(** [x op y] on booleans (false < true) *)
Definition bool_rel (op : rel_op) (x y : bool) : bool :=
  match op with
  | OpLessThan => negb x && y
  | OpLessEqual => negb x || y
  | OpGreaterThan => x && negb y
  | OpGreaterEqual => x || negb y
  end.

(** [greater_eq_node], [greater_than_node], [less_eq_node], [less_than_node]: [a op b] for a
    node-set [b].  A boolean is compared with [!b.is_empty()]; a number [a] with the number of
    each string-value ([sv <= a] for [>=], ...); a string likewise after [number()]; two
    node-sets by the double loop. *)
Definition rel_node (op : rel_op) (a : xvalue) (b : list node) : res bool :=
  let nonempty := match b with [] => false | _ => true end in
  match a with
  | XBool x => Ok (bool_rel op x nonempty)
  | XNodes values =>
      exists_sv2 (fun sj si => num_rel op (str_to_number sj) (str_to_number si)) b values
  | XNum x => exists_sv (fun s => num_rel op x (str_to_number s)) b
  | XText t => exists_sv (fun s => num_rel op (str_to_number t) (str_to_number s)) b
  end.

Definition flip_rel (op : rel_op) : rel_op :=
  match op with
  | OpLessThan => OpGreaterThan
  | OpLessEqual => OpGreaterEqual
  | OpGreaterThan => OpLessThan
  | OpGreaterEqual => OpLessEqual
  end.

(** [greater_eq_value] etc.: a node-set on the right first, then on the left (mirrored) *)
Definition rel_value (op : rel_op) (a b : xvalue) : res bool :=
  match b with
  | XNodes nb => rel_node op a nb
  | _ =>
      match a with
      | XNodes na => rel_node (flip_rel op) b na
      | _ => bind (val_to_number a) (fun x => bind (val_to_number b) (fun y => Ok (num_rel op x y)))
      end
  end.

(** ** the axes (navigation through parent / children / siblings, as the Rust does) *)

(** [fn parent(node)]: the owner element for an attribute, [parent_node()] otherwise -- both are
    the [n_parent] observation of the row *)
Definition xp_parent (i : node) : option node := parent_node doc i.

(** [fn child(node)]: nothing for an attribute; the document type is skipped *)
Definition xp_child (i : node) : list node :=
  match kind doc i with
  | KAttribute => []
  | _ => filter (fun c => negb (nkind_eqb (kind doc c) KDocumentType)) (child_nodes doc i)
  end.

Fixpoint ancestor_fuel (fuel : nat) (i : node) : res (list node) :=
  match fuel with
  | O => OutOfFuel
  | S f =>
      match xp_parent i with
      | None => Ok []
      | Some p => bind (ancestor_fuel f p) (fun l => Ok (p :: l))
      end
  end.

Definition ancestor (i : node) : res (list node) := ancestor_fuel (nav_fuel doc) i.

Definition ancestor_and_self (i : node) : res (list node) :=
  bind (ancestor i) (fun l => Ok (i :: l)).

Fixpoint flat_map_res (g : node -> res (list node)) (l : list node) : res (list node) :=
  match l with
  | [] => Ok []
  | x :: t => bind (g x) (fun a => bind (flat_map_res g t) (fun b => Ok (a ++ b)))
  end.

(** [descendant]: children, each followed by its own descendants (depth-fuelled) *)
Fixpoint descendant_fuel (fuel : nat) (i : node) : res (list node) :=
  match fuel with
  | O => OutOfFuel
  | S f =>
      flat_map_res (fun c => bind (descendant_fuel f c) (fun d => Ok (c :: d))) (xp_child i)
  end.

Definition descendant (i : node) : res (list node) := descendant_fuel (nav_fuel doc) i.

Definition descendant_and_self (i : node) : res (list node) :=
  bind (descendant i) (fun l => Ok (i :: l)).

(** [while let Some(n) = next { nodes.push(n); next = n.next_sibling() }] *)
Fixpoint sibling_loop (step : node -> option node) (fuel : nat) (cur : option node) : res (list node) :=
  match cur with
  | None => Ok []
  | Some n =>
      match fuel with
      | O => OutOfFuel
      | S f => bind (sibling_loop step f (step n)) (fun l => Ok (n :: l))
      end
  end.

(** the loops skip the document type declaration *)
Definition not_doctype (l : list node) : list node :=
  filter (fun c => negb (nkind_eqb (kind doc c) KDocumentType)) l.

Definition following_sibling (i : node) : res (list node) :=
  bind (sibling_loop (next_sibling doc) (nav_fuel doc) (next_sibling doc i)) (fun l => Ok (not_doctype l)).

Definition preceding_sibling (i : node) : res (list node) :=
  bind (sibling_loop (previous_sibling doc) (nav_fuel doc) (previous_sibling doc i)) (fun l => Ok (not_doctype l)).

(** [for a in ancestor_and_self(node) { for n in following_sibling(a) { descendant_and_self(n) } }] *)
Definition following (i : node) : res (list node) :=
  bind (match kind doc i, xp_parent i with
        | KAttribute, Some owner => descendant owner      (* the content of its element follows an attribute *)
        | _, _ => Ok []
        end) (fun pre =>
  bind (ancestor_and_self i) (fun al =>
  bind (flat_map_res (fun a => bind (following_sibling a) (flat_map_res descendant_and_self)) al) (fun rest =>
  Ok (pre ++ rest)))).

Definition preceding (i : node) : res (list node) :=
  bind (ancestor_and_self i) (fun al =>
    flat_map_res (fun a =>
      bind (preceding_sibling a)
           (flat_map_res (fun p => bind (descendant_and_self p) (fun d => Ok (rev d))))) al).

(** [namespace]: [in_scope_namespace().unwrap()] of an element, nothing otherwise *)
Definition namespace_axis (i : node) : res (list node) :=
  match kind doc i with
  | KElement => match n_nss (getd doc i) with Some l => Ok l | None => Panic end
  | _ => Ok []
  end.

Definition opt_list (o : option node) : list node :=
  match o with Some x => [x] | None => [] end.

(** the document node of [i]; nothing for a node without owner document *)
Definition root_of (i : node) : list node :=
  match kind doc i with
  | KDocument => [i]
  | _ => opt_list (owner_document doc i)
  end.

Definition s_at : str := [64].

Definition is_attribute_axis (a : axis_spec) : bool :=
  match a with
  | AxisAbbreviated s => str_eqb s s_at
  | AxisName AxAttribute => true
  | _ => false
  end.

Definition axis_nodes (a : axis_spec) (i : node) : res (list node) :=
  match a with
  | AxisAbbreviated s => if str_eqb s s_at then Ok (attributes doc i) else Ok (xp_child i)
  | AxisName AxAncestor => ancestor i
  | AxisName AxAncestorOrSelf => ancestor_and_self i
  | AxisName AxAttribute => Ok (attributes doc i)
  | AxisName AxChild => Ok (xp_child i)
  | AxisName AxDescendant => descendant i
  | AxisName AxDescendantOrSelf => descendant_and_self i
  | AxisName AxFollowing => following i
  | AxisName AxFollowingSibling => following_sibling i
  | AxisName AxNamespace => namespace_axis i
  | AxisName AxParent => Ok (opt_list (xp_parent i))
  | AxisName AxPreceding => preceding i
  | AxisName AxPrecedingSibling => preceding_sibling i
  | AxisName AxCurrent => Ok [i]
  end.

(** the sort after the node test: by key, reversed for the four reverse axes *)
Definition is_reverse_axis (a : axis_spec) : bool :=
  match a with
  | AxisName AxAncestor | AxisName AxAncestorOrSelf | AxisName AxPreceding
  | AxisName AxPrecedingSibling => true
  | _ => false
  end.

Definition axis_sort (a : axis_spec) (l : list node) : list node :=
  if is_reverse_axis a then rev (sort_by_key l) else sort_by_key l.

(** ** node tests *)
Definition is_principal_node_type (a : axis_spec) (i : node) : bool :=
  if is_attribute_axis a then nkind_eqb (kind doc i) KAttribute
  else match a with
       | AxisName AxNamespace => nkind_eqb (kind doc i) KNamespace
       | _ => nkind_eqb (kind doc i) KElement
       end.

Definition is_text_type (k : nkind) : bool :=
  match k with KText | KExpandedText | KEntityReference | KCData => true | _ => false end.

Definition eval_node_test (ns : list (option str * str)) (a : axis_spec) (t : node_test) (i : node)
  : res bool :=
  match t with
  | TestName nt =>
      if negb (is_principal_node_type a i) then Ok false
      else match nt with
           | NameAll => Ok true
           | NameNamespace p =>
               match ns_lookup ns (Some p) with
               | None => Err (XErrNotFoundNamespace p)
               | Some ua =>
                   match name_of doc i with
                   | XNameErr => Err XErrDom
                   | XNameNone => Ok false
                   | XName _ _ ub => Ok (ostr_eqb (Some ua) ub)
                   end
               end
           | NameQName q =>
               match name_of doc i with
               | XNameErr => Err XErrDom
               | XNameNone => Ok false
               | XName la _ ua =>
                   bind (expanded_name ns q) (fun '(lb, _, ub) => Ok (str_eqb la lb && ostr_eqb ua ub))
               end
           end
  | TestPI target =>
      Ok (nkind_eqb (kind doc i) KPI &&
          match name_of doc i with XName l _ _ => str_eqb l target | _ => false end)
  | TestType NtComment => Ok (nkind_eqb (kind doc i) KComment)
  | TestType NtNode => Ok true
  | TestType NtPI => Ok (nkind_eqb (kind doc i) KPI)
  | TestType NtText => Ok (is_text_type (kind doc i))
  end.

Fixpoint filter_res (p : node -> res bool) (l : list node) : res (list node) :=
  match l with
  | [] => Ok []
  | x :: t => bind (p x) (fun b => bind (filter_res p t) (fun r => Ok (if b then x :: r else r)))
  end.

(** ** loops over node lists *)

(** the predicate loop of [eval_filter_expr] and [eval_axis_node_test] for ONE predicate [f]:
    position pushed, predicate evaluated, position popped; on an error the size is popped too
    and the error returned (fix D50); a panic unwinds with the stacks as they are. *)
Fixpoint pred_loop (f : node -> M bool) (nodes : list node) (pos : N) : M (list node) :=
  fun c =>
    match nodes with
    | [] => (Ok [], c)
    | n :: t =>
        match f n (push_position pos c) with
        | (Ok keep, c1) =>
            match pred_loop f t (pos + 1) (pop_position c1) with
            | (Ok r, c2) => (Ok (if keep then n :: r else r), c2)
            | other => other
            end
        | (Err e, c1) => (Err e, pop_size (pop_position c1))
        | (Panic, c1) => (Panic, c1)
        | (OutOfFuel, c1) => (OutOfFuel, c1)
        end
    end.

(** [for n in nodes { collected.append(&mut f(n)?) }] *)
Fixpoint flat_map_m (f : node -> M (list node)) (l : list node) : M (list node) :=
  match l with
  | [] => ret []
  | n :: t => a <- f n ;; b <- flat_map_m f t ;; ret (a ++ b)
  end.

(** [eval_predicate]: a number is compared with the context position (as numbers, fix D29),
    anything else is converted to a boolean *)
Definition predicate_of (ev : node -> M xvalue) (n : node) : M bool :=
  v <- ev n ;;
  (fun c => match v with
            | XNum x => (Ok (f64_eqb x (f64_of_N (get_position c))), c)
            | _ => (Ok (val_to_bool v), c)
            end).

(** ** function calls (eval_func_expr and the node-set functions of func.rs) *)
Definition fn_last : str := [108;97;115;116].
Definition fn_position : str := [112;111;115;105;116;105;111;110].
Definition fn_count : str := [99;111;117;110;116].
Definition fn_id : str := [105;100].
Definition fn_local_name : str := [108;111;99;97;108;45;110;97;109;101].
Definition fn_namespace_uri : str := [110;97;109;101;115;112;97;99;101;45;117;114;105].
Definition fn_name : str := [110;97;109;101].
Definition fn_lang : str := [108;97;110;103].
Definition fn_sum : str := [115;117;109].
Definition s_xmlns : str := [120;109;108;110;115].

(** func::table() is [func_table] (= Gen/FuncTableGen.table, regenerated from func.rs);
    every namespace URI is None *)
Definition find_func (name : str) : option (N * option N) := lookup_arity name func_table.

(** the argument of local-name / namespace-uri / name: the first argument (a node-set) or the
    context node *)
Definition name_arg (args : list xvalue) (n : node) : res (list node) :=
  match args with
  | [] => Ok [n]
  | XNodes l :: _ => Ok l
  | _ :: _ => Err XErrInvalidType
  end.

Definition fn_names (which : N) (args : list xvalue) (n : node) : res xvalue :=
  bind (name_arg args n) (fun l =>
    match l with
    | [] => Ok (XText [])
    | x :: _ =>
        match name_of doc x with
        | XNameErr => Err XErrDom
        | XNameNone => Ok (XText [])
        | XName local prefix uri =>
            if which =? 0 then Ok (XText local)                              (* local-name *)
            else if which =? 1 then Ok (XText (match uri with Some u => u | None => [] end))
            else match prefix with                                           (* name *)
                 | Some p => if str_eqb p s_xmlns then Ok (XText local)
                             else Ok (XText (p ++ 58 :: local))
                 | None => Ok (XText local)
                 end
        end
    end).

(** [lang] (fix D17): from the context node upwards, the first attribute whose expanded name is
    (lang, prefix "xml") decides: its value, in ASCII lower case, equals the argument or starts
    with the argument followed by '-' *)
Definition s_xml : str := [120;109;108].
Definition ascii_lower (c : char) : char := if (65 <=? c) && (c <=? 90) then c + 32 else c.

Fixpoint str_prefix (p s : str) : bool :=
  match p, s with
  | [], _ => true
  | x :: p', y :: s' => (x =? y) && str_prefix p' s'
  | _ :: _, [] => false
  end.

(** [for attr in attrs.iter() { if let Some((l, Some(p), _)) = attr.as_expanded_name()? ... }] *)
Fixpoint find_xml_lang (l : list node) : res (option node) :=
  match l with
  | [] => Ok None
  | a :: t =>
      match name_of doc a with
      | XNameErr => Err XErrDom
      | XName local (Some p) _ =>
          if str_eqb local fn_lang && str_eqb p s_xml then Ok (Some a) else find_xml_lang t
      | _ => find_xml_lang t
      end
  end.

Fixpoint lang_fuel (fuel : nat) (name : str) (cur : option node) : res bool :=
  match cur with
  | None => Ok false
  | Some e =>
      match fuel with
      | O => OutOfFuel
      | S f =>
          bind (find_xml_lang (attributes doc e)) (fun o =>
            match o with
            | Some a =>
                bind (data_res (n_data (getd doc a))) (fun v =>
                  let v' := map ascii_lower v in
                  Ok (str_eqb v' name || str_prefix (name ++ [45]) v'))
            | None => lang_fuel f name (xp_parent e)
            end)
      end
  end.

Fixpoint sum_nodes (acc : f64) (l : list node) : res f64 :=
  match l with
  | [] => Ok acc
  | x :: t => bind (string_value doc x) (fun s => sum_nodes (f64_add acc (str_to_number s)) t)
  end.

Definition has_doctype (d : node) : bool :=
  existsb (fun c => nkind_eqb (kind doc c) KDocumentType) (child_nodes doc d).

(** what a scalar function may see of an argument: for a node-set the string-value of its
    first node (never computed for boolean() / not(), which do not look at it) *)
Definition to_scalar (need_sv : bool) (v : xvalue) : res value :=
  match v with
  | XBool b => Ok (VBool b)
  | XNum x => Ok (VNum x)
  | XText s => Ok (VStr s)
  | XNodes [] => Ok (VNodes [])
  | XNodes (x :: _) =>
      if need_sv then bind (string_value doc x) (fun s => Ok (VNodes [s])) else Ok (VNodes [[]])
  end.

Fixpoint to_scalars (need_sv : bool) (l : list xvalue) : res (list value) :=
  match l with
  | [] => Ok []
  | v :: t => bind (to_scalar need_sv v) (fun a => bind (to_scalars need_sv t) (fun b => Ok (a :: b)))
  end.

Definition of_scalar (v : value) : xvalue :=
  match v with
  | VBool b => XBool b
  | VNum x => XNum x
  | VStr s => XText s
  | VNodes _ => XNodes []
  end.

Definition uses_ctx_sv (name : str) : bool :=
  str_eqb name fn_string || str_eqb name fn_string_length || str_eqb name fn_normalize_space
  || str_eqb name fn_number.

(** [Entry::exec] *)
Definition exec_fn (local : str) (args : list xvalue) (n : node) : M xvalue :=
  fun c =>
    if str_eqb local fn_last then (Ok (XNum (f64_of_N (get_size c))), c)
    else if str_eqb local fn_position then (Ok (XNum (f64_of_N (get_position c))), c)
    else if str_eqb local fn_count then
      (match args with
       | XNodes l :: _ => Ok (XNum (f64_of_N (len l)))
       | _ :: _ => Err XErrInvalidType
       | [] => Panic end, c)
    else if str_eqb local fn_id then
      (match root_of n with
       | d :: _ => if has_doctype d then Err (XErrNotFoundFunction fn_id) else Ok (XNodes [])
       | [] => Ok (XNodes []) end, c)
    else if str_eqb local fn_local_name then (fn_names 0 args n, c)
    else if str_eqb local fn_namespace_uri then (fn_names 1 args n, c)
    else if str_eqb local fn_name then (fn_names 2 args n, c)
    else if str_eqb local fn_lang then
      (match args with
       | a :: _ => bind (val_to_string a) (fun s => bind (lang_fuel (nav_fuel doc) (map ascii_lower s) (Some n))
                                                         (fun b => Ok (XBool b)))
       | [] => Panic end, c)
    else if str_eqb local fn_sum then
      (match args with
       | XNodes l :: _ => bind (sum_nodes f64_zero l) (fun s => Ok (XNum s))
       | _ :: _ => Err XErrInvalidType
       | [] => Panic end, c)
    else
      (let need := negb (str_eqb local fn_boolean || str_eqb local fn_not) in
       bind (to_scalars need args) (fun sargs =>
       bind (match args with
             | [] => if uses_ctx_sv local then string_value doc n else Ok []
             | _ => Ok [] end) (fun ctx_sv =>
       match scalar_fn ctx_sv local sargs with
       | ROk v => Ok (of_scalar v)
       | RErr EInvalidType => Err XErrInvalidType
       | RErr EInvalidArgumentCount => Err (XErrInvalidArgumentCount local)
       | RErr ENotFoundFunction => Err (XErrNotFoundFunction local)
       | RPanic => Panic
       | RNeedsNode => Panic           (* not reachable: the node functions are handled above *)
       end)), c).

(** the part of [eval_func_expr] before the arguments are evaluated: name resolution, table
    lookup, arity.  A function name without prefix is in no namespace (fix D63, 9d405ca: it used to
    go through [Context::expanded_name], which gives an unprefixed name the default namespace of the
    context, so every function call failed once [add_ns(None, ..)] had been called); a prefixed
    name is resolved through the bindings ([NotFoundNamespace] when the prefix is unbound) *)
Definition fn_key (ns : list (option str * str)) (name : qname) : res (str * option str) :=
  match name with
  | QUnprefixed u => Ok (u, None)       (* fix D63: no namespace, whatever the default binding is *)
  | QPrefixed _ _ => bind (expanded_name ns name) (fun '(local, _, uri) => Ok (local, uri))
  end.

Definition resolve_fn (ns : list (option str * str)) (name : qname) (nargs : N) : res str :=
  bind (fn_key ns name) (fun '(local, uri) =>
    match uri, find_func local with
    | None, Some (mn, mx) =>
        if (nargs <? mn) || (match mx with Some m => m <? nargs | None => false end)
        then Err (XErrInvalidArgumentCount local) else Ok local
    | _, _ => Err (XErrNotFoundFunction local)
    end).

(** ** the evaluator proper *)
Fixpoint eval_or_expr (e : or_expr) (n : node) {struct e} : M xvalue :=
  match e with
  | EOr first rest => op1 <- eval_and_expr first n ;; eval_or_rest rest op1 n
  end

with eval_or_rest (l : and_list) (op1 : xvalue) (n : node) {struct l} : M xvalue :=
  match l with
  | AndNil => ret op1
  | AndCons a t =>
      if val_to_bool op1 then ret (XBool true)
      else v <- eval_and_expr a n ;; eval_or_rest t (XBool (val_to_bool v)) n
  end

with eval_and_expr (e : and_expr) (n : node) {struct e} : M xvalue :=
  match e with
  | EAnd first rest => op1 <- eval_eq_expr first n ;; eval_and_rest rest op1 n
  end

with eval_and_rest (l : eq_list) (op1 : xvalue) (n : node) {struct l} : M xvalue :=
  match l with
  | EqNil => ret op1
  | EqCons a t =>
      if negb (val_to_bool op1) then ret (XBool false)
      else v <- eval_eq_expr a n ;; eval_and_rest t (XBool (val_to_bool v)) n
  end

with eval_eq_expr (e : eq_expr) (n : node) {struct e} : M xvalue :=
  match e with
  | EEq operand ops => op1 <- eval_rel_expr operand n ;; eval_eq_ops ops op1 n
  end

with eval_eq_ops (l : eqop_list) (op1 : xvalue) (n : node) {struct l} : M xvalue :=
  match l with
  | EqopNil => ret op1
  | EqopCons op e t =>
      op2 <- eval_rel_expr e n ;;
      r <- lift (eq_value (match op with OpEqual => false | OpNotEqual => true end) op1 op2) ;;
      eval_eq_ops t (XBool r) n
  end

with eval_rel_expr (e : rel_expr) (n : node) {struct e} : M xvalue :=
  match e with
  | ERel operand ops => op1 <- eval_add_expr operand n ;; eval_rel_ops ops op1 n
  end

with eval_rel_ops (l : relop_list) (op1 : xvalue) (n : node) {struct l} : M xvalue :=
  match l with
  | RelopNil => ret op1
  | RelopCons op e t =>
      op2 <- eval_add_expr e n ;;
      r <- lift (rel_value op op1 op2) ;;
      eval_rel_ops t (XBool r) n
  end

with eval_add_expr (e : add_expr) (n : node) {struct e} : M xvalue :=
  match e with
  | EAdd operand ops => op1 <- eval_mul_expr operand n ;; eval_add_ops ops op1 n
  end

with eval_add_ops (l : addop_list) (op1 : xvalue) (n : node) {struct l} : M xvalue :=
  match l with
  | AddopNil => ret op1
  | AddopCons op e t =>
      op2 <- eval_mul_expr e n ;;
      r <- lift (arith (match op with OpAdd => f64_add | OpSub => f64_sub end) op1 op2) ;;
      eval_add_ops t r n
  end

with eval_mul_expr (e : mul_expr) (n : node) {struct e} : M xvalue :=
  match e with
  | EMul operand ops => op1 <- eval_unary_expr operand n ;; eval_mul_ops ops op1 n
  end

with eval_mul_ops (l : mulop_list) (op1 : xvalue) (n : node) {struct l} : M xvalue :=
  match l with
  | MulopNil => ret op1
  | MulopCons op e t =>
      op2 <- eval_unary_expr e n ;;
      r <- lift (arith (match op with OpMul => f64_mul | OpDiv => f64_div | OpMod => f64_rem end) op1 op2) ;;
      eval_mul_ops t r n
  end

with eval_unary_expr (e : unary_expr) (n : node) {struct e} : M xvalue :=
  match e with
  | EUnary inv u =>
      v <- eval_union_expr u n ;; lift (neg_times (N.to_nat inv) v)
  end

with eval_union_expr (e : union_expr) (n : node) {struct e} : M xvalue :=
  match e with
  | EUnion PathNil => ret (XNodes [])
  | EUnion (PathCons first PathNil) =>
      v <- eval_path_expr first n ;;
      match v with
      | XNodes l => ret (XNodes (union_finish l))
      | _ => ret v
      end
  | EUnion (PathCons first rest) =>
      v <- eval_path_expr first n ;;
      match v with
      | XNodes l => eval_union_rest rest l n
      | _ => lift (Err XErrInvalidType)
      end
  end

with eval_union_rest (l : path_list) (acc : list node) (n : node) {struct l} : M xvalue :=
  match l with
  | PathNil => ret (XNodes (union_finish acc))
  | PathCons p t =>
      v <- eval_path_expr p n ;;
      match v with
      | XNodes l' => eval_union_rest t (acc ++ l') n
      | _ => lift (Err XErrInvalidType)
      end
  end

with eval_path_expr (e : path_expr) (n : node) {struct e} : M xvalue :=
  match e with
  | PRoot => ret (XNodes (root_of n))
  | PFilter f => eval_filter_expr f n
  | PRel l =>                                          (* eval_filtered_loc_expr, no filter *)
      collected <- flat_map_m (eval_rel_path l) [n] ;;
      ret (XNodes (sort_by_key collected))
  | PAbs op l =>
      nodes <- lift (match op with
                     | LpCurrent => Ok (root_of n)
                     | LpDescendantOrSelfNode => flat_map_res descendant_and_self (root_of n)
                     end) ;;
      collected <- flat_map_m (eval_rel_path l) nodes ;;
      ret (XNodes (sort_by_key collected))
  | PFilterPath f op l =>
      v <- eval_filter_expr f n ;;
      match v with
      | XNodes fl =>
          nodes <- lift (match op with
                         | LpCurrent => Ok fl
                         | LpDescendantOrSelfNode => flat_map_res descendant_and_self fl
                         end) ;;
          collected <- flat_map_m (eval_rel_path l) nodes ;;
          ret (XNodes (sort_by_key collected))
      | _ => lift (Err XErrInvalidType)
      end
  end

with eval_filter_expr (e : filter_expr) (n : node) {struct e} : M xvalue :=
  match e with
  | EFilter primary ExprNil => eval_primary_expr primary n
  | EFilter primary preds =>
      v <- eval_primary_expr primary n ;;
      match v with
      | XNodes l => r <- eval_predicates preds l ;; ret (XNodes r)
      | _ => lift (Err XErrInvalidType)
      end
  end

with eval_primary_expr (e : primary_expr) (n : node) {struct e} : M xvalue :=
  match e with
  | PrimExpr x => eval_or_expr x n
  | PrimFunction name args =>
      fun c =>
        match resolve_fn (c_ns c) name (expr_list_len args) with
        | Ok local => (vs <- eval_args args n ;; exec_fn local vs n) c
        | Err e => (Err e, c)
        | Panic => (Panic, c)
        | OutOfFuel => (OutOfFuel, c)
        end
  | PrimLiteral s => ret (XText s)
  | PrimNumber s =>
      match rust_parse_f64 s with
      | Some x => ret (XNum x)
      | None => lift Panic
      end
  | PrimVariable q =>
      fun c =>
        match expanded_name (c_ns c) q with
        | Ok (local, _, _) => (Err (XErrNotFoundVariable local), c)
        | Err e => (Err e, c)
        | Panic => (Panic, c)
        | OutOfFuel => (OutOfFuel, c)
        end
  end

with eval_args (l : expr_list) (n : node) {struct l} : M (list xvalue) :=
  match l with
  | ExprNil => ret []
  | ExprCons e t => v <- eval_or_expr e n ;; vs <- eval_args t n ;; ret (v :: vs)
  end

(** [for predicate in predicates { push_size; loop; pop_size }] *)
with eval_predicates (l : expr_list) (nodes : list node) {struct l} : M (list node) :=
  match l with
  | ExprNil => ret nodes
  | ExprCons p t =>
      fun c =>
        match pred_loop (predicate_of (eval_or_expr p)) nodes 1 (push_size (len nodes) c) with
        | (Ok filtered, c1) => eval_predicates t filtered (pop_size c1)
        | other => other
        end
  end

(** eval_loc_expr *)
with eval_rel_path (e : rel_path) (n : node) {struct e} : M (list node) :=
  match e with
  | ERelPath operand ops => nodes <- eval_step operand n ;; eval_stepops ops nodes
  end

with eval_stepops (l : stepop_list) (nodes : list node) {struct l} : M (list node) :=
  match l with
  | StepopNil => ret nodes
  | StepopCons op s t =>
      from <- lift (match op with
                    | LpCurrent => Ok nodes
                    | LpDescendantOrSelfNode => flat_map_res descendant_and_self nodes
                    end) ;;
      collected <- flat_map_m (eval_step s) from ;;
      eval_stepops t (step_dedup collected)
  end

(** eval_step_expr and eval_axis_node_test *)
with eval_step (s : step) (n : node) {struct s} : M (list node) :=
  match s with
  | StepCurrent => ret [n]
  | StepParent => ret (opt_list (xp_parent n))
  | StepTest axis test preds =>
      fun c =>
        match bind (axis_nodes axis n) (filter_res (eval_node_test (c_ns c) axis test)) with
        | Ok tested => eval_predicates preds (axis_sort axis tested) c
        | Err e => (Err e, c)
        | Panic => (Panic, c)
        | OutOfFuel => (OutOfFuel, c)
        end
  end.

(** eval::document / lib.rs [query] after parsing: evaluation starts at the document node *)
Definition eval_expr (e : expr) (n : node) : M xvalue := eval_or_expr e n.

Definition query (e : expr) : M xvalue := eval_expr e doc_root.

(** a series of queries against one shared context (C19) *)
Fixpoint run_shared (es : list expr) (c : ctx) : list (res xvalue * ctx) :=
  match es with
  | [] => []
  | e :: t => let '(r, c') := query e c in (r, c') :: run_shared t c'
  end.

End Eval.
