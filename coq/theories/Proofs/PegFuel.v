(** * More fuel never changes a result: [denote] is monotone in its fuel.

    Together with [no_oof] this makes [run] (standard fuel) THE meaning of a certified
    grammar: any larger fuel gives the same answer. *)
From Coq Require Import List NArith Arith Lia Bool.
From XmlRs Require Import Base.CPred Model.Peg Proofs.PegTermination.
Import ListNotations.
Local Open Scope nat_scope.

Section F.
Variable G : list pexpr.
Notation denote := (denote G).

Definition defined {A} (r : res A) : Prop := r <> Oof.

Definition ext_on (p q : str -> res (tree * str)) : Prop :=
  forall s, defined (p s) -> q s = p s.

Lemma many_loop_ext p q : ext_on p q -> forall k s acc,
  defined (many_loop k p s acc) -> many_loop k q s acc = many_loop k p s acc.
Proof.
  intros H. induction k as [|k IH]; intros s acc Hd; cbn [many_loop] in *; [exfalso; apply Hd; reflexivity|].
  assert (Hp : defined (p s)).
  { intros E. rewrite E in Hd. apply Hd. reflexivity. }
  rewrite (H s Hp). destruct (p s) as [[t r]| |]; try reflexivity.
  destruct (Nat.ltb (length r) (length s)); [|reflexivity]. apply IH. exact Hd.
Qed.

Lemma sep_loop_ext sp sq p q : ext_on sp sq -> ext_on p q -> forall k s acc,
  defined (sep_loop k sp p s acc) -> sep_loop k sq q s acc = sep_loop k sp p s acc.
Proof.
  intros Hs Hp. induction k as [|k IH]; intros s acc Hd; cbn [sep_loop] in *; [exfalso; apply Hd; reflexivity|].
  assert (Hsp : defined (sp s)) by (intros E; rewrite E in Hd; apply Hd; reflexivity).
  rewrite (Hs s Hsp). destruct (sp s) as [[t1 r1]| |]; try reflexivity.
  destruct (Nat.ltb (length r1) (length s)); [|reflexivity].
  assert (Hpp : defined (p r1)) by (intros E; rewrite E in Hd; apply Hd; reflexivity).
  rewrite (Hp r1 Hpp). destruct (p r1) as [[t2 r2]| |]; try reflexivity. apply IH. exact Hd.
Qed.

Lemma bind_defined {A B} (x : res A) (f : A -> res B) : defined (bind x f) -> defined x.
Proof. intros H E. rewrite E in H. apply H. reflexivity. Qed.

Lemma match_defined (x : res (tree * str)) (k1 : tree * str -> res (tree * str)) (k2 : res (tree * str)) :
  defined (match x with Ok a => k1 a | Fail => k2 | Oof => Oof end) -> defined x.
Proof. intros H E. rewrite E in H. apply H. reflexivity. Qed.

Theorem denote_fuel_step : forall f e s, defined (denote f e s) -> denote (S f) e s = denote f e s.
Proof.
  induction f as [|f IHf];
  induction e as [a|c|c|a IHa b IHb|a IHa b IHb|a IHa b IHb|a IHa b IHb|p IHp|p IHp|p IHp
                  |sp IHsp p IHp|sp IHsp p IHp|p IHp|l p IHp|p IHp pat|p IHp pat|q1 q2 p IHp|n];
  intros s Hd; rewrite (denote_eq G (S _)); rewrite denote_eq in Hd; rewrite (denote_eq G) at 1;
  cbn [den1 callnt] in *; try reflexivity.
  (* Seq / SeqL / SeqR *)
  all: try (rewrite (IHa s (bind_defined _ _ Hd)); destruct (denote _ a s) as [[ta ra]| |]; cbn [bind fst snd] in *; try reflexivity;
            rewrite (IHb ra (bind_defined _ _ Hd)); reflexivity).
  (* Alt *)
  all: try (rewrite (IHa s (match_defined _ _ _ Hd)); destruct (denote _ a s) as [[ta ra]| |]; try reflexivity; apply IHb; exact Hd).
  (* Many0 *)
  all: try (apply many_loop_ext; [intros s' Hs'; apply IHp; exact Hs'|exact Hd]).
  (* Many1 / SepBy1 / Recognize / Map / TakeUntil / TakeExcept / VerifyEq: bind on p first *)
  all: try (rewrite (IHp s (bind_defined _ _ Hd)); destruct (denote _ p s) as [[tp rp]| |]; cbn [bind fst snd] in *; try reflexivity;
            first [ apply many_loop_ext; [intros s' Hs'; apply IHp; exact Hs'|exact Hd]
                  | apply sep_loop_ext; [intros s' Hs'; apply IHsp; exact Hs'|intros s' Hs'; apply IHp; exact Hs'|exact Hd] ]).
  (* Opt *)
  all: try (rewrite (IHp s (match_defined _ _ _ Hd)); reflexivity).
  (* SepBy0 *)
  all: try (match goal with Hd' : defined (match denote ?ff ?pp ?ss with _ => _ end) |- _ =>
              assert (Hp : defined (denote ff pp ss)) by (intros E; rewrite E in Hd'; apply Hd'; reflexivity);
              rewrite (IHp ss Hp); destruct (denote ff pp ss) as [[tp rp]| |]; try reflexivity;
              apply sep_loop_ext; [intros s' Hs'; apply IHsp; exact Hs'|intros s' Hs'; apply IHp; exact Hs'|exact Hd'] end).
  (* NT *)
  - exfalso. apply Hd. reflexivity.
  - apply IHf. exact Hd.
Qed.

Theorem denote_fuel_mono : forall f f' e s, f <= f' -> defined (denote f e s) -> denote f' e s = denote f e s.
Proof.
  intros f f' e s Hle Hd. induction Hle as [|f' Hle IH]; [reflexivity|].
  rewrite denote_fuel_step; [exact IH|]. rewrite IH. exact Hd.
Qed.

End F.

(** for a certified grammar, any fuel at least the standard one gives the standard answer *)
Corollary run_fuel_independent G nulls ranks R n s f :
  cert_okb G nulls ranks R = true -> fuel_bound R s <= f -> denote G f (NT n) s = run G R n s.
Proof.
  intros C Hle. unfold run. apply denote_fuel_mono; [exact Hle|].
  exact (certified_grammar_terminates G nulls ranks R C n s).
Qed.
