(** * Abstraction: the AST of xpath/src/expr/model.rs read as a tree of the recommendation.

    [abs_or : XPathAst.expr -> XPathSyntax.xexpr] is the only bridge between the types that
    mirror the Rust code and the abstract syntax of Spec/XPathSyntax.v:
    - the flat operator chains [operand, Vec<(op, operand)>] of the Rust types are folded FROM
      THE LEFT, which is how xpath/src/eval/mod.rs evaluates them ([for (op, op2) in
      operations { op1 = op1 <op> op2 }]); a chain with no operation is its operand;
    - [UnaryExpr { inv, value }] is [inv.len()] nested negations;
    - [PrimaryExpr::Expr] is [XParen]; a [FilterExpr] without predicates is its primary;
    - [AxisSpecifier::Abbreviated("@")] is [AAt], any other abbreviated text is [AOmit] (the
      evaluator's reading: ["@" => attributes, _ => child]);
    - [Step::Current], [Step::Parent], [LocationPathOperator::DescendantOrSelfNode] stay the
      abbreviated constructors [XDot], [XDotDot], [SDSlash]: expanding them is the business of
      [XPathSyntax.norm].
    No proofs here. *)
From Coq Require Import List NArith.
From XmlRs Require Import Base.CPred Model.XPathAst Spec.XPathSyntax.
Import ListNotations.

Definition abs_qname (q : qname) : xqname :=
  match q with QPrefixed p l => QN (Some p) l | QUnprefixed l => QN None l end.

Definition abs_sep (o : lp_op) : sep :=
  match o with LpCurrent => SSlash | LpDescendantOrSelfNode => SDSlash end.

Definition abs_axis_name (a : axis_name) : axis :=
  match a with
  | AxAncestor => XAncestor | AxAncestorOrSelf => XAncestorOrSelf | AxAttribute => XAttribute
  | AxChild => XChild | AxDescendant => XDescendant | AxDescendantOrSelf => XDescendantOrSelf
  | AxFollowing => XFollowing | AxFollowingSibling => XFollowingSibling | AxNamespace => XNamespace
  | AxParent => XParent | AxPreceding => XPreceding | AxPrecedingSibling => XPrecedingSibling
  | AxCurrent => XSelf
  end.

Definition abs_axis (a : XPathAst.axis_spec) : XPathSyntax.axis_spec :=
  match a with
  | AxisName n => AFull (abs_axis_name n)
  | AxisAbbreviated [64%N] => AAt
  | AxisAbbreviated _ => AOmit
  end.

Definition abs_test (t : node_test) : ntest :=
  match t with
  | TestName NameAll => TAny
  | TestName (NameNamespace p) => TNs p
  | TestName (NameQName q) => TName (abs_qname q)
  | TestType NtComment => TType KComment
  | TestType NtText => TType KText
  | TestType NtPI => TType KPi
  | TestType NtNode => TType KNode
  | TestPI s => TPi s
  end.

Definition abs_eq_op (o : eq_op) : binop := match o with OpEqual => BEq | OpNotEqual => BNe end.
Definition abs_rel_op (o : rel_op) : binop :=
  match o with OpLessThan => BLt | OpGreaterThan => BGt | OpLessEqual => BLe | OpGreaterEqual => BGe end.
Definition abs_add_op (o : add_op) : binop := match o with OpAdd => BAdd | OpSub => BSub end.
Definition abs_mul_op (o : mul_op) : binop := match o with OpMul => BMul | OpDiv => BDiv | OpMod => BMod end.

(** [UnionExpr] with no operand does not come out of the parser ([separated_list1]) *)
Definition abs_empty_union : xexpr := XRoot.

Fixpoint abs_or (e : or_expr) : xexpr :=
  match e with EOr f r => abs_ands (abs_and f) r end
with abs_ands (acc : xexpr) (l : and_list) : xexpr :=
  match l with AndNil => acc | AndCons a t => abs_ands (XBin BOr acc (abs_and a)) t end
with abs_and (e : and_expr) : xexpr :=
  match e with EAnd f r => abs_eqs (abs_eq f) r end
with abs_eqs (acc : xexpr) (l : eq_list) : xexpr :=
  match l with EqNil => acc | EqCons a t => abs_eqs (XBin BAnd acc (abs_eq a)) t end
with abs_eq (e : eq_expr) : xexpr :=
  match e with EEq f ops => abs_eqops (abs_rel f) ops end
with abs_eqops (acc : xexpr) (l : eqop_list) : xexpr :=
  match l with EqopNil => acc | EqopCons o a t => abs_eqops (XBin (abs_eq_op o) acc (abs_rel a)) t end
with abs_rel (e : rel_expr) : xexpr :=
  match e with ERel f ops => abs_relops (abs_add f) ops end
with abs_relops (acc : xexpr) (l : relop_list) : xexpr :=
  match l with RelopNil => acc | RelopCons o a t => abs_relops (XBin (abs_rel_op o) acc (abs_add a)) t end
with abs_add (e : add_expr) : xexpr :=
  match e with EAdd f ops => abs_addops (abs_mul f) ops end
with abs_addops (acc : xexpr) (l : addop_list) : xexpr :=
  match l with AddopNil => acc | AddopCons o a t => abs_addops (XBin (abs_add_op o) acc (abs_mul a)) t end
with abs_mul (e : mul_expr) : xexpr :=
  match e with EMul f ops => abs_mulops (abs_unary f) ops end
with abs_mulops (acc : xexpr) (l : mulop_list) : xexpr :=
  match l with MulopNil => acc | MulopCons o a t => abs_mulops (XBin (abs_mul_op o) acc (abs_unary a)) t end
with abs_unary (e : unary_expr) : xexpr :=
  match e with EUnary n u => N.iter n XNeg (abs_union u) end
with abs_union (e : union_expr) : xexpr :=
  match e with
  | EUnion PathNil => abs_empty_union
  | EUnion (PathCons p r) => abs_paths (abs_path p) r
  end
with abs_paths (acc : xexpr) (l : path_list) : xexpr :=
  match l with PathNil => acc | PathCons p t => abs_paths (XBin BUnion acc (abs_path p)) t end
with abs_path (e : path_expr) : xexpr :=
  match e with
  | PRoot => XRoot
  | PFilter f => abs_filter f
  | PRel (ERelPath s ops) => XPath SRel (abs_step s) (abs_stepops ops)
  | PAbs o (ERelPath s ops) => XPath (SAbs (abs_sep o)) (abs_step s) (abs_stepops ops)
  | PFilterPath f o (ERelPath s ops) => XPath (SFrom (abs_filter f) (abs_sep o)) (abs_step s) (abs_stepops ops)
  end
with abs_filter (e : filter_expr) : xexpr :=
  match e with
  | EFilter p ExprNil => abs_primary p
  | EFilter p ps => XFilter (abs_primary p) (abs_exprs ps)
  end
with abs_primary (e : primary_expr) : xexpr :=
  match e with
  | PrimVariable q => XVar (abs_qname q)
  | PrimExpr x => XParen (abs_or x)
  | PrimLiteral s => XLit s
  | PrimNumber s => XNum s
  | PrimFunction n args => XCall (abs_qname n) (abs_exprs args)
  end
with abs_exprs (l : expr_list) : list xexpr :=
  match l with ExprNil => [] | ExprCons e t => abs_or e :: abs_exprs t end
with abs_stepops (l : stepop_list) : list (sep * xstep) :=
  match l with StepopNil => [] | StepopCons o s t => (abs_sep o, abs_step s) :: abs_stepops t end
with abs_step (s : step) : xstep :=
  match s with
  | StepTest a t ps => XStep (abs_axis a) (abs_test t) (abs_exprs ps)
  | StepCurrent => XDot
  | StepParent => XDotDot
  end.
