(** * C12 / C14 for histories that contain [normalize] calls (Model/DomNormalize.v) *)
From Coq Require Import List NArith Bool.
From XmlRs Require Import Base.CPred Model.Store Model.DomOps Model.DomNormalize
  Proofs.DomTree Proofs.DomOpsInv Proofs.DomNav Proofs.DomExample Proofs.DomC12 Proofs.DomNormalizeHist.
Import ListNotations.
Open Scope N_scope.

Theorem tree_inv_reachable_with_normalize : forall init nops, WInv init -> WInv (run_n init nops).
Proof. intros init nops. apply (run_n_invariant WInv). intros ops w. apply run_inv. Qed.

Theorem tree_inv_normalize : forall merged w r, WInv w -> WInv (fst (normalize merged w r)).
Proof. intros merged w r H. exact (tree_inv_reachable_with_normalize w [Normalize merged r] H). Qed.

Theorem navigation_agrees_reachable_with_normalize :
  forall init nops k s, WInv init -> doc_at (run_n init nops) k = Some s -> NavAgree s.
Proof.
  intros init nops k s Hi D. destruct (run_n_history nops init) as [ops [E _]]. rewrite E in D.
  exact (navigation_agrees_reachable init ops k s Hi D).
Qed.

(** the hypotheses are satisfiable: the example world of Proofs/DomExample.v and a history with two [normalize] calls *)
(** on [<r><a x="1">t</a><b/></r>]: t.split_text(0) (the tail "t" gets id 8), two fresh Text nodes "]]" (id 9)
    and ">" (id 10) appended to [a], then r.normalize() in the raw view and once more in the merged view *)
Definition nz_ops : list nop :=
  [ Op (SplitText (0, 6) 0);
    Op (CreateTextNode (0, 1) (text_arg [93; 93])); Op (AppendChild (0, 3) (0, 9));
    Op (CreateTextNode (0, 1) (text_arg [62])); Op (AppendChild (0, 3) (0, 10));
    Normalize false (0, 2); Normalize true (0, 2) ].

Definition nz_before : world := run_n ex_world (firstn 5 nz_ops).
Definition nz_final : world := run_n ex_world nz_ops.
Definition store0 (w : world) : store := match doc_at w 0 with Some s => s | None => ex_store end.

(** before: a = ["" ; "t" ; "]]" ; ">"]; after: a = ["t]]" ; ">"] -- the empty node took "t" and "]]", the
    append of ">" was refused ("]]>" is no character data) and the pair stays apart; the merged nodes 8 and 9
    are removed (no parent) and keep their data *)
Example nz_example :
  (children_of (store0 nz_before) 3, map (data_of (store0 nz_before)) [6; 8; 9; 10]) = ([6; 8; 9; 10], [[]; [116]; [93; 93]; [62]])
  /\ (children_of (store0 nz_final) 3, map (data_of (store0 nz_final)) [6; 8; 9; 10], map (parent_of (store0 nz_final)) [6; 8; 9; 10])
     = ([6; 10], [[116; 93; 93]; [116]; [93; 93]; [62]], [Some 3; None; None; Some 3])
  /\ WInv nz_final /\ NavAgree (store0 nz_final).
Proof.
  split; [vm_compute; reflexivity|]. split; [vm_compute; reflexivity|].
  split; [apply tree_inv_reachable_with_normalize; exact ex_world_inv|].
  apply (navigation_agrees_reachable_with_normalize ex_world nz_ops 0 _ ex_world_inv). vm_compute. reflexivity.
Qed.
