(** * Scalar side of the XPath evaluator: the one place where [Model/XPathEval.v] touches
    numbers, number <-> string conversion and the functions of xpath/src/eval/func.rs that do
    not look at the document.

    The binary64 arithmetic is [Base/Float64.v].  Everything else below is a thin model of
    xpath/src/eval/model.rs ([TryFrom<&Value>] for [String], [bool], [f64]; the operators) and
    of the string / number functions of func.rs AS THEY ARE on the branch this evaluator model
    is tied to (byte lengths, Rust's [f64] grammar for [number()], [0 - x] for unary minus,
    [round] away from zero: the defects D30-D34 belong to the scalar library, property C09,
    and are repaired and specified there; when those repairs land, only this file changes).

    Node-sets reach this file abstracted to the list of the string-values of their nodes
    ([VNodes]), which is all a scalar function can see of them.  No proofs here. *)
From Coq Require Import List NArith ZArith Bool.
From Coq Require Import Floats.SpecFloat.
From XmlRs Require Import Base.CPred Base.Float64 Base.Utf8.
Import ListNotations.
Open Scope N_scope.

(** ** strings *)
Fixpoint str_eqb (a b : str) : bool :=
  match a, b with
  | [], [] => true
  | x :: a', y :: b' => (x =? y) && str_eqb a' b'
  | _, _ => false
  end.

Definition ostr_eqb (a b : option str) : bool :=
  match a, b with
  | None, None => true
  | Some x, Some y => str_eqb x y
  | _, _ => false
  end.

Fixpoint starts_with (s p : str) : bool :=
  match p, s with
  | [], _ => true
  | y :: p', x :: s' => (x =? y) && starts_with s' p'
  | _ :: _, [] => false
  end.

(** [str::split_once(pat)]: first occurrence, [None] when absent (the empty pattern matches at 0) *)
Fixpoint split_once (s p : str) : option (str * str) :=
  if starts_with s p then Some ([], skipn (length p) s)
  else match s with
       | [] => None
       | x :: t => match split_once t p with
                   | Some (a, b) => Some (x :: a, b)
                   | None => None
                   end
       end.

Definition contains (s p : str) : bool :=
  match split_once s p with Some _ => true | None => false end.

(** [char::is_whitespace] (Unicode White_Space) *)
Definition is_whitespace (c : char) : bool :=
  ((9 <=? c) && (c <=? 13)) || (c =? 32) || (c =? 0x85) || (c =? 0xA0) || (c =? 0x1680)
  || ((0x2000 <=? c) && (c <=? 0x200A)) || (c =? 0x2028) || (c =? 0x2029) || (c =? 0x202F)
  || (c =? 0x205F) || (c =? 0x3000).

(** [split_whitespace().collect::<Vec<_>>().join(" ")] *)
Fixpoint split_ws (s : str) (cur : str) : list str :=
  match s with
  | [] => match cur with [] => [] | _ => [rev cur] end
  | c :: t =>
      if is_whitespace c then
        match cur with [] => split_ws t [] | _ => rev cur :: split_ws t [] end
      else split_ws t (c :: cur)
  end.

Fixpoint join_sp (l : list str) : str :=
  match l with
  | [] => []
  | [w] => w
  | w :: t => w ++ 32 :: join_sp t
  end.

Definition normalize_space (s : str) : str := join_sp (split_ws s []).

Fixpoint position_of (c : char) (s : str) (k : nat) : option nat :=
  match s with
  | [] => None
  | x :: t => if x =? c then Some k else position_of c t (S k)
  end.

Fixpoint translate (s1 s2 s3 : str) : str :=
  match s1 with
  | [] => []
  | c :: t =>
      match position_of c s2 0 with
      | Some k => match nth_error s3 k with
                  | Some r => r :: translate t s2 s3
                  | None => translate t s2 s3
                  end
      | None => c :: translate t s2 s3
      end
  end.

Definition ascii_lower (c : char) : char := if (65 <=? c) && (c <=? 90) then c + 32 else c.

(** ** Rust [str::parse::<f64>()] (core::num::dec2flt): [sign] (digits [. digits] | . digits)
    [(e|E) [sign] digits] | [sign] (inf | infinity | nan) case-insensitively; nothing else, no
    white space.  Correctly rounded ([f64_of_decimal]). *)
Definition is_digit (c : char) : bool := (48 <=? c) && (c <=? 57).

Fixpoint take_digits (s : str) (acc : Z) (n : Z) : Z * Z * str :=
  match s with
  | c :: t => if is_digit c then take_digits t (10 * acc + Z.of_N (c - 48))%Z (n + 1)%Z
              else (acc, n, s)
  | [] => (acc, n, s)
  end.

Definition parse_exp (s : str) : option Z :=
  match s with
  | [] => Some 0%Z
  | c :: t =>
      if (c =? 101) || (c =? 69) then
        let '(neg, t') := match t with
                          | 45 :: r => (true, r)
                          | 43 :: r => (false, r)
                          | _ => (false, t)
                          end in
        let '(v, n, rest) := take_digits t' 0%Z 0%Z in
        match rest with
        | [] => if (n =? 0)%Z then None else Some (if neg then (- v)%Z else v)
        | _ => None
        end
      else None
  end.

Definition rust_parse_f64 (s : str) : option f64 :=
  let '(neg, body) := match s with
                      | 45 :: r => (true, r)
                      | 43 :: r => (false, r)
                      | _ => (false, s)
                      end in
  let low := map ascii_lower body in
  if str_eqb low [105;110;102] || str_eqb low [105;110;102;105;110;105;116;121]
  then Some (S754_infinity neg)
  else if str_eqb low [110;97;110] then Some S754_nan
  else
    let '(ip, ni, r1) := take_digits body 0%Z 0%Z in
    let '(fp, nf, r2) := match r1 with
                         | 46 :: r => take_digits r ip 0%Z
                         | _ => (ip, 0%Z, r1)
                         end in
    if ((ni + nf) =? 0)%Z then None
    else match parse_exp r2 with
         | Some e => Some (f64_of_decimal neg fp (e - nf)%Z)
         | None => None
         end.

(** Rust [f64::to_string()] ([Display]): shortest digits that read back, never an exponent *)
Definition rust_f64_to_string (x : f64) : str :=
  match x with
  | S754_nan => [78;97;78]
  | S754_infinity false => [105;110;102]
  | S754_infinity true => [45;105;110;102]
  | S754_zero false => [48]
  | S754_zero true => [45;48]
  | S754_finite s _ _ => (if s then [45] else []) ++ f64_fmt_decimal x
  end.

(** ** values as scalar functions see them *)
Inductive value :=
| VBool (b : bool) | VNum (x : f64) | VStr (s : str)
| VNodes (l : list str).          (* the string-values of the nodes, in order *)

Inductive fres :=
| ROk (v : value)
| RInvalidType
| RInvalidArgumentCount
| RNotFoundFunction
| RPanic.

Definition s_true : str := [116;114;117;101].
Definition s_false : str := [102;97;108;115;101].
Definition s_Infinity : str := [73;110;102;105;110;105;116;121].

(** [String::try_from(&Value)] *)
Definition model_to_string (v : value) : str :=
  match v with
  | VBool true => s_true
  | VBool false => s_false
  | VNodes [] => []
  | VNodes (s :: _) => s
  | VNum (S754_infinity false) => s_Infinity
  | VNum (S754_infinity true) => 45 :: s_Infinity
  | VNum x => rust_f64_to_string x
  | VStr s => s
  end.

Definition str_to_number (s : str) : f64 :=
  match rust_parse_f64 s with Some x => x | None => f64_nan end.

(** [f64::try_from(&Value)] *)
Definition model_to_number (v : value) : f64 :=
  match v with
  | VBool true => f64_one
  | VBool false => f64_zero
  | VNodes _ => str_to_number (model_to_string v)
  | VNum x => x
  | VStr s => str_to_number s
  end.

(** [bool::try_from(&Value)] *)
Definition model_to_bool (v : value) : bool :=
  match v with
  | VBool b => b
  | VNodes l => match l with [] => false | _ => true end
  | VNum x => negb (f64_eqb x f64_zero || f64_is_nan x)
  | VStr s => match s with [] => false | _ => true end
  end.

(** ** operators on values (impl Add/Sub/Mul/Div/Rem/Neg for Value) *)
Definition model_add (a b : value) : f64 := f64_add (model_to_number a) (model_to_number b).
Definition model_sub (a b : value) : f64 := f64_sub (model_to_number a) (model_to_number b).
Definition model_mul (a b : value) : f64 := f64_mul (model_to_number a) (model_to_number b).
Definition model_div (a b : value) : f64 := f64_div (model_to_number a) (model_to_number b).
Definition model_rem (a b : value) : f64 := f64_rem (model_to_number a) (model_to_number b).
(** [Neg]: [0f64 - a] *)
Definition model_neg (a : value) : f64 := f64_sub f64_zero (model_to_number a).

(** ** the functions of func.rs that need neither the document nor the context stacks.
    [ctx_sv] is the string-value of the context node (used by the zero-argument forms).
    The arity has been checked by the caller ([eval_func_expr]). *)
Definition arg_or_ctx (ctx_sv : str) (args : list value) : value :=
  match args with [] => VNodes [ctx_sv] | a :: _ => a end.

(** names as code points *)
Definition fn_string : str := [115;116;114;105;110;103].
Definition fn_concat : str := [99;111;110;99;97;116].
Definition fn_starts_with : str := [115;116;97;114;116;115;45;119;105;116;104].
Definition fn_contains : str := [99;111;110;116;97;105;110;115].
Definition fn_substring_before : str := [115;117;98;115;116;114;105;110;103;45;98;101;102;111;114;101].
Definition fn_substring_after : str := [115;117;98;115;116;114;105;110;103;45;97;102;116;101;114].
Definition fn_substring : str := [115;117;98;115;116;114;105;110;103].
Definition fn_string_length : str := [115;116;114;105;110;103;45;108;101;110;103;116;104].
Definition fn_normalize_space : str := [110;111;114;109;97;108;105;122;101;45;115;112;97;99;101].
Definition fn_translate : str := [116;114;97;110;115;108;97;116;101].
Definition fn_boolean : str := [98;111;111;108;101;97;110].
Definition fn_not : str := [110;111;116].
Definition fn_true : str := [116;114;117;101].
Definition fn_false : str := [102;97;108;115;101].
Definition fn_number : str := [110;117;109;98;101;114].
Definition fn_floor : str := [102;108;111;111;114].
Definition fn_ceiling : str := [99;101;105;108;105;110;103].
Definition fn_round : str := [114;111;117;110;100].

(** [substring]: [round() as usize - 1] (debug profile: underflow panics), byte offsets through
    [split_at] (panics past the end or inside a character) -- D30 as found *)
Definition substring_model (v : str) (a : f64) (c : option f64) : fres :=
  let s1 := f64_to_usize (f64_round_away a) in
  if s1 =? 0 then RPanic
  else match split_at_bytes v (s1 - 1) with
       | None => RPanic
       | Some (_, r) =>
           match c with
           | None => ROk (VStr r)
           | Some cf =>
               match split_at_bytes r (f64_to_usize (f64_round_away cf)) with
               | None => RPanic
               | Some (r', _) => ROk (VStr r')
               end
           end
       end.

Definition scalar_fn (ctx_sv : str) (name : str) (args : list value) : fres :=
  if str_eqb name fn_string then ROk (VStr (model_to_string (arg_or_ctx ctx_sv args)))
  else if str_eqb name fn_concat then ROk (VStr (concat (map model_to_string args)))
  else if str_eqb name fn_starts_with then
    match args with
    | a :: b :: _ => ROk (VBool (starts_with (model_to_string a) (model_to_string b)))
    | _ => RPanic end
  else if str_eqb name fn_contains then
    match args with
    | a :: b :: _ => ROk (VBool (contains (model_to_string a) (model_to_string b)))
    | _ => RPanic end
  else if str_eqb name fn_substring_before then
    match args with
    | a :: b :: _ => ROk (VStr (match split_once (model_to_string a) (model_to_string b) with
                                | Some (x, _) => x | None => [] end))
    | _ => RPanic end
  else if str_eqb name fn_substring_after then
    match args with
    | a :: b :: _ => ROk (VStr (match split_once (model_to_string a) (model_to_string b) with
                                | Some (_, y) => y | None => [] end))
    | _ => RPanic end
  else if str_eqb name fn_substring then
    match args with
    | a :: b :: rest =>
        substring_model (model_to_string a) (model_to_number b)
          (match rest with c :: _ => Some (model_to_number c) | [] => None end)
    | _ => RPanic end
  else if str_eqb name fn_string_length then
    ROk (VNum (f64_of_N (byte_len (model_to_string (arg_or_ctx ctx_sv args)))))
  else if str_eqb name fn_normalize_space then
    ROk (VStr (normalize_space (model_to_string (arg_or_ctx ctx_sv args))))
  else if str_eqb name fn_translate then
    match args with
    | a :: b :: c :: _ => ROk (VStr (translate (model_to_string a) (model_to_string b) (model_to_string c)))
    | _ => RPanic end
  else if str_eqb name fn_boolean then
    match args with a :: _ => ROk (VBool (model_to_bool a)) | _ => RPanic end
  else if str_eqb name fn_not then
    match args with a :: _ => ROk (VBool (negb (model_to_bool a))) | _ => RPanic end
  else if str_eqb name fn_true then ROk (VBool true)
  else if str_eqb name fn_false then ROk (VBool false)
  else if str_eqb name fn_number then ROk (VNum (model_to_number (arg_or_ctx ctx_sv args)))
  else if str_eqb name fn_floor then
    match args with a :: _ => ROk (VNum (f64_floor (model_to_number a))) | _ => RPanic end
  else if str_eqb name fn_ceiling then
    match args with a :: _ => ROk (VNum (f64_ceil (model_to_number a))) | _ => RPanic end
  else if str_eqb name fn_round then
    match args with a :: _ => ROk (VNum (f64_round_away (model_to_number a))) | _ => RPanic end
  else RNotFoundFunction.

(** the functions [scalar_fn] answers, with the inclusive arity bounds of [func::table()]
    ([None] = unbounded) *)
Definition scalar_table : list (str * N * option N) :=
  [ (fn_string, 0, Some 1); (fn_concat, 2, None); (fn_starts_with, 2, Some 2);
    (fn_contains, 2, Some 2); (fn_substring_before, 2, Some 2); (fn_substring_after, 2, Some 2);
    (fn_substring, 2, Some 3); (fn_string_length, 0, Some 1); (fn_normalize_space, 0, Some 1);
    (fn_translate, 3, Some 3); (fn_boolean, 1, Some 1); (fn_not, 1, Some 1); (fn_true, 0, Some 0);
    (fn_false, 0, Some 0); (fn_number, 0, Some 1); (fn_floor, 1, Some 1); (fn_ceiling, 1, Some 1);
    (fn_round, 1, Some 1) ].
