"""C05 -- XPath evaluation returns the value XPath 1.0 prescribes."""
import time
from . import lib
from . import xpath_common as X

def norm(v):
    return 'err' if v.startswith('err') else v

def exhaustive_items(quick=False):
    """all (context kind x axis x node test x small predicate) combinations on the fixed documents of the C06
    stream; the quick tier keeps every context kind, axis and node test and thins the predicates"""
    out = []
    preds = ['', '[1]', '[last()]', '[position() = 2]', '[@x]', '[. = "t"]', '[count(*) > 0]']
    if quick:
        preds = ['', '[1]', '[last()]']
    for d in X.KIND_DOCS[:3] + ['<r><a x="1">t<b/><b x="2">5</b></a><a/>z<c><a><b>t</b></a></c></r>']:
        for sel in ['//*', '//node()', '/*', '//b', '//@*', '//*/@x', '//text()', '//comment()', '/']:      # every kind of context node, attributes included
            for t in ['node()', '*', 'text()', 'a', 'b', 'comment()']:
                ex = []
                for ax in X.AXES:
                    if ax == 'namespace':
                        continue
                    for p in preds:
                        ex.append('%s/%s::%s%s' % (sel, ax, t, p))
                for k in range(0, len(ex), 28):
                    out.append({'doc': d, 'exprs': ex[k:k + 28], 'merged': True, 'binds': [('p', 'urn:p')]})
        # `//` in the middle of a path followed by a step with a positional predicate: the predicate counts among
        # the children of EACH descendant-or-self node, not among all matching descendants (XPath 1.0 2.5, NOTE)
        ex = []
        for head in ['/*', '/r', '//a', '.', '/*/*', '(//a)', '//c/..']:
            for t in ['a', 'b', '*', 'node()', 'text()']:
                for p in ['[1]', '[2]', '[last()]', '[position() = 2]', '[position() < last()]', '[1][@x]', '[@x][1]']:
                    ex.append('%s//%s%s' % (head, t, p))
                    ex.append('count(%s//%s%s)' % (head, t, p))
        for k in range(0, len(ex), 28):
            out.append({'doc': d, 'exprs': ex[k:k + 28], 'merged': True, 'binds': [('p', 'urn:p')]})
    return out

def scalar_items():
    """whole queries through the core function library and the operators at the boundary values of double
    arithmetic (the per-function statement is C09's; here the same values travel through query(): literals,
    node string-values converted by number(), predicates that compare a rounded value with the node)"""
    B = ['0.49999999999999994', '0.5', '1.5', '2.5', '0.2', '4503599627370497', '4503599627370496.5', '9007199254740993',
         '0.1', '0.30000000000000004', '1000000000000000000000', '0.0000001', '0']
    doc = '<r>' + ''.join('<v>%s</v><v>-%s</v>' % (b, b) for b in B) + '<v> 12 </v><v>abc</v><v/></r>'
    ex = []
    for b in B:
        for sg in ('', '-'):
            x = sg + b
            for f in ('round', 'floor', 'ceiling'):
                ex.append('%s(%s)' % (f, x))
                ex.append('1 div %s(%s)' % (f, x))
            ex.append('string(%s)' % x)
            ex.append('%s + 0.1' % x)
            ex.append('%s mod 2' % x)
            ex.append("substring('abcdef', %s, 2)" % x)
            ex.append("substring('abcdef', 1, %s)" % x)
    for f in ('round', 'floor', 'ceiling'):
        ex.append('/r/v[%s(.) = .]' % f)
        ex.append('count(/r/v[%s(.) = .])' % f)
        ex.append('sum(/r/v[%s(.) < 10])' % f)
        ex.append('/r/v[1 div %s(.) < 0]' % f)
    ex += ['sum(/r/v)', '/r/v[. > 0.49999999999999994]', '/r/v[number(.) != number(.)]', 'string(sum(/r/v[position() < 5]))']
    return [{'doc': doc, 'exprs': ex[k:k + 30], 'merged': True, 'binds': [('p', 'urn:p')]} for k in range(0, len(ex), 30)]

def interaction_items():
    """families aimed at interactions a random expression rarely builds (seeded changes W7-C05-1 / W7-C05-2):
    (1) comparisons between two node-sets (and a node-set and a scalar) whose string-values mix numbers and
        non-numbers at the first / middle / last position: XPath 1.0 3.4 asks for SOME pair, so no shortcut through
        minimum / maximum survives a NaN; every operator, both operand orders, top level and inside predicates;
    (2) predicates whose value is a NUMBER THAT DEPENDS ON THE CONTEXT NODE (XPath 1.0 2.4: true iff equal to the
        context position -- possibly at several nodes), on forward and reverse axes, filter expressions and `//`."""
    vals = [['n/a', '5', '3'], ['5', 'n/a', '3'], ['5', '3', 'n/a'], ['1', '2', '3'], ['x', 'y'], ['7'], [], ['', '4'], ['4', ' 4 ', '04']]
    lims = [['4', '6', 'none'], ['none', '4', '6'], ['4', 'none', '6'], ['9'], ['0'], [], ['z']]
    out = []
    ops = ['<', '<=', '>', '>=', '=', '!=']
    for vi in range(0, len(vals), 3):
        doc = '<report>' + ''.join('<m k="%d">%s</m>' % (j + vi, ''.join('<v>%s</v>' % x for x in v)) for j, v in enumerate(vals[vi:vi + 3])) \
              + ''.join('<l k="%d">%s</l>' % (j, ''.join('<max>%s</max>' % x for x in l)) for j, l in enumerate(lims)) + '</report>'
        ex = []
        for j in range(len(vals[vi:vi + 3])):
            A = '/report/m[%d]/v' % (j + 1)
            for k in range(len(lims)):
                B = '/report/l[%d]/max' % (k + 1)
                for o in ops:
                    ex.append('%s %s %s' % (A, o, B))
                    ex.append('%s %s %s' % (B, o, A))
            for o in ops:
                for sc in ['4', "'4'", "'n/a'", 'true()', '0 div 0', "''"]:
                    ex.append('%s %s %s' % (A, o, sc))
                    ex.append('%s %s %s' % (sc, o, A))
                ex.append('count(%s[. %s /report/l[1]/max])' % (A, o))
                ex.append('count(//v[. %s ../../l[2]/max])' % o)
                ex.append('count(//m[v %s v])' % o)
                ex.append('count(//m[v %s //max])' % o)
        for k in range(0, len(ex), 30):
            out.append({'doc': doc, 'exprs': ex[k:k + 30], 'merged': True, 'binds': [('p', 'urn:p')]})
    docs = ['<list><i pos="1">a</i><i pos="3">b</i><i pos="3">c</i><i pos="4">d</i><i pos="9">e</i></list>',
            '<list><i pos="2">ab</i><i pos="2">xy</i><i pos="1">abc</i><g><i pos="1">p</i><i pos="2">qq</i><i pos="2">r</i></g><i pos="5">abcde</i><i pos="x">q</i><i/></list>']
    numpreds = ['number(@pos)', '@pos + 0', 'position()', 'position() + 0', 'last() - position() + 1', 'count(preceding-sibling::*) + 1',
                'count(following-sibling::*) + 1', 'string-length(.)', 'sum(@pos)', 'round(@pos)', '-(-position())', 'number(@pos) div 1',
                'floor(@pos div 2) + 1', 'count(../i)', '@pos * 1', 'position() mod 2 + 1', 'number(../i[1]/@pos)', 'last()', '2', '0', '1.5', '0.5', '.25', '0.999', '1.0', '2.000', '3.', '4294967297', 'number("x")']
    heads = ['/list/i', '//i', '/list/*', '(//i)', '(/list/i | //g/i)', '/list/i[last()]/preceding-sibling::i', '//i[last()]/preceding::i',
             '/list/i[1]/following-sibling::*', '//g/i[last()]/ancestor-or-self::*', '/list//i', '/list/i[@pos]', '(//i)[@pos > 1]']
    for d in docs:
        ex = []
        for h in heads:
            for q in numpreds:
                ex.append('%s[%s]' % (h, q))
            ex.append('count(%s[number(@pos)][1])' % h)
            ex.append('count(%s[1][number(@pos)])' % h)
            ex.append('%s[number(@pos)][position()]' % h)
            ex.append('%s[position()][number(@pos)]' % h)
        for k in range(0, len(ex), 30):
            out.append({'doc': d, 'exprs': ex[k:k + 30], 'merged': True, 'binds': [('p', 'urn:p')]})
    return out

def c05_oracle(case, out, item):
    """spec vs implementation on one concrete case -> 'spec-mismatch' or None"""
    if out.get('hang'):
        return 'hang'
    if not out.get('D'):
        return None
    spec, _ = X.run_model([case], [out], binary=lib.spec_bin('xpath'))
    if not spec[0]:
        return None
    rows = X.table_of(out)
    for e, a, b in zip(case['exprs'], out['R'], spec[0]['R']):
        if norm(a[0]) != norm(b[0]) and not X.classify_c05(rows, e, norm(a[0]), norm(b[0])):
            return 'spec-mismatch'
    return None

def nsdefault_items(rng, n):
    """documents whose DTD supplies namespace declarations by ATTLIST default (D67; the documents of the C10 campaign),
    queried with name tests, namespace-uri() and name().  The table both sides evaluate on is the dump of the
    implementation, so the namespace rows of these documents are the implementation's (property C10 checks them against
    Namespaces in XML): here the evaluator and its model run over such tables.  Ordinary attributes supplied by default
    are left out (order key 0: listed finding D19)."""
    from . import C10
    out = []
    uni = C10.small_universe(rng)
    while len(out) < n:
        if rng.random() < 0.4:
            _, doc, dtd = C10.small_universe_dtd(rng, rng.choice(uni), rng.randrange(1000))
        else:
            doc, dtd = C10.random_dtd_case(rng)
        dtd = C10.strip_attr_defaults(dtd)
        if not dtd or not C10.nswf(C10.apply_defaults(dtd, doc)):
            continue
        ex = ['//p:*', '//d:*', '//q:*', '//@p:*', '//@d:*', 'count(//*[namespace-uri() = "u1"])', 'count(//@*[namespace-uri() = "u2"])',
              '//*[namespace-uri() = ""]', 'name(//d:*)', 'local-name(//p:*[last()])', '//*[@d:zd]', '//p:a/@*', 'namespace-uri(//*[last()])']
        out.append({'doc': C10.render_case_xml({'doc': doc, 'dtd': dtd}), 'exprs': rng.sample(ex, 6), 'merged': True,
                    'binds': [('p', rng.choice(['u1', 'u2'])), ('q', 'u2'), ('d', rng.choice(['u1', 'u2']))], 'nsdefault': True})
    return out

def check(run):
    t0 = time.time()
    run.trusted = ['Coq 8.16.1 kernel + VM', 'Spec/XPath10.v + Spec/XPathCore.v: transcription of XPath 1.0 sections 2-5',
                   'Model/XPathEval.v (tied by the xpath correspondence)', 'harness XDoc dump = the document both sides evaluate on']
    proved, _ = lib.proof_step(run, 'C05', [])
    okr, mok, sok = lib.build_binaries(run, model_areas=['xpath'], spec_areas=['xpath'])
    if not (okr and mok.get('xpath') and sok.get('xpath')):
        return run.finish(level='proof (partial)', rule='(binaries missing)')
    quick = run.tier == 'quick'
    items = X.generated_cases(run.seed + 5, 900 if quick else 12000, run.tier)
    for it in items:                       # the property is claimed in the merged-text view, XPath 1.0 has no default binding
        it['merged'] = True
        it['binds'] = [b for b in it['binds'] if b[0] is not None]   # every prefix the expressions use stays bound (p, q and, for default-namespace documents, d)
    ex = exhaustive_items(quick)
    if quick:
        ex = [it for k, it in enumerate(ex) if len(it['exprs']) and ('//' not in it['exprs'][0][2:] or k % 3 == 0)]   # the mid-path // family is thinned, the axis family is complete
    nsd = nsdefault_items(run.rng, 150 if quick else 2500)
    run.extra['documents_with_attlist_namespace_defaults'] = len(nsd)
    items += ex + scalar_items() + interaction_items() + X.corpus_items('C05') + nsd
    res, okm = X.evaluate(items, spec=True)
    if not okm:
        run.tie_breaks.append('model driver failed on some case')
    failing = []
    agree = 0
    hyp = {'DocWf': 0, 'DocInv': 0, 'SpecShape': 0, 'NamesOk': 0, 'ParentsOk': 0, 'all': 0, 'documents': 0,
           'expressions': 0, 'supported': 0, 'inside_theorem': 0}
    for it, r in zip(items, res):
        X.account(run, it, r)
        if r['model'] and len(r['model'].get('I', '')) == 5:
            bits = r['model']['I']
            hyp['documents'] += 1
            for k, name in enumerate(['DocWf', 'DocInv', 'SpecShape', 'NamesOk', 'ParentsOk']):
                hyp[name] += bits[k] == '1'
            hyp['all'] += bits[1:4] == '111'          # the hypotheses of C05_eval_refines_spec (ParentsOk is no longer one)
            sup = r['model'].get('S', '')
            nodefault = not any(b[0] is None for b in r['case'].get('binds', []))
            hyp['expressions'] += len(sup)
            hyp['supported'] += sup.count('1')
            if bits[1:4] == '111' and nodefault:
                hyp['inside_theorem'] += sup.count('1')
        if r['impl'] is None or not r['dump'].get('D'):
            continue
        d = X.compare_model(r)
        if d:
            run.tie_breaks.append('model/implementation: ' + d + ' | doc ' + r['case']['doc'][:200])
        if r['impl'].get('hang'):
            failing.append((it, r, 'hang', 'evaluation does not terminate'))
            continue
        if not r['spec']:
            run.tie_breaks.append('spec driver gave no answer for ' + r['case']['doc'][:100])
            continue
        unexplained = None
        for e, a, b in zip(r['case']['exprs'], r['impl']['R'], r['spec']['R']):
            run.evaluations += 1
            av, bv = norm(a[0]), norm(b[0])
            if av == bv:
                agree += 1
                if av != 'err' and av not in ('ns:', 'b:0', 's:-'):
                    run.nontrivial.add((r['case']['doc'], e))
                continue
            k = X.classify_c05(r['rows'], e, av, bv)
            if k:
                what, n = run.known_hits.get(k, (X.FINDINGS.get(k, k), 0))
                run.known_hits[k] = (what, n + 1)
                run.extra.setdefault('known_finding_samples', {}).setdefault(k, {'doc': r['case']['doc'][:300], 'expr': e, 'implementation': av[:120], 'specification': bv[:120]})
            elif unexplained is None:
                unexplained = (e, av, bv)
        if unexplained:
            e, av, bv = unexplained
            one = dict(it)
            if isinstance(it.get('doc'), dict):
                one['exprs'] = [it['exprs'][r['case']['exprs'].index(e)]]
            else:
                one['exprs'] = [e]
            r1 = dict(r); r1['case'] = dict(r['case'], exprs=[e])
            failing.append((one, r1, 'spec-mismatch', '%s: implementation %s, XPath 1.0 %s' % (e, av[:150], bv[:150])))
    run.extra['agreeing_evaluations'] = agree
    run.extra['cases_satisfying_theorem_hypotheses'] = hyp
    X.report_failures(run, 'C05', failing, oracle=c05_oracle)
    run.extra['wall_generate_evaluate_s'] = round(time.time() - t0, 1)
    return run.finish(level='proof (partial)',
        rule='cases = (document, expression) evaluated by implementation, model and specification; non-trivial = distinct pairs with a non-empty, non-error value on which implementation and specification agree',
        assumptions=['merged-text view; XPath 1.0 has no default namespace for names in expressions (no default binding in the context)',
                     'context position / size outside predicates are host-defined: 0 as xml_xpath::query has it',
                     'id() is outside the property'])

def replay(path):
    return X.replay(path)
