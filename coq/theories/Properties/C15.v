(** C15 -- Edits that succeed keep the document serializable and faithful.

    "No sequence of DOM calls that each report success can leave a document whose serialization
    the parser rejects or that denotes content different from what the DOM reports.  Character
    data, comments, CDATA sections, PI targets and data, element and attribute names and attribute
    values supplied through the API are either stored so that they survive a print/parse round
    trip or refused with an error - also when the offending sequence (']]>', '--', '?>', a quote,
    '<', '&') only arises from combining several individually harmless edits."

    Full statement (DESIGN 5.15):
      printable_reachable : forall d ops, Printable (fold_left step ops (parse d))
      edited_roundtrip    : forall st, TreeInv st -> Printable st ->
                            exists d', from_raw_model (display st) = Ok ([], d') /\ merged d' = merged st

    What is proved here, for the model of the repaired code (Model/DomOps.v after the fixes D39,
    D46): [C15_printable_reachable] -- after EVERY history (calls that fail, are refused or panic
    included) every stored string satisfies the lexical invariant of its node kind
    ([Printable], Proofs/DomPrintable.v): a Text holds characters other than "<" and "&", a
    Comment no "--" and no trailing "-", a CDATASection no "]]>", a PI a name and data without
    "?>", elements / attributes / entity references hold names.  The character-data clauses need
    no hypothesis: the model validates the RESULTING string of every data edit with the checks of
    Model/CharData.v (= the storability predicates of XML 1.0, Proofs/CharDataProofs.v), which is
    exactly what the repair of D46 made the code do -- "combining several individually harmless
    edits" is covered because the invariant is re-established on the combined string.  Names, PI
    data and attribute value pieces enter the model as facts computed by the implementation's
    parser; the theorem assumes those facts are lexically sound ([op_facts_ok]).

    PARTIAL: [edited_roundtrip] is NOT proved (it needs the parser and printer models on edited
    stores: Model/ParseActions.v, Model/Info.v, Model/Display.v are another area, and none of them
    covers stores built by edits).  It is checked on the implementation by checks/C15.py: after
    every successful call the serialisation of every document is re-parsed and its content
    compared.  The position- and neighbour-dependent clauses of the full invariant (a Text holding
    "]]>" moved from an attribute value into content, "]]" next to ">", both quotation marks in one
    attribute value, a document without element or whose entity declarations were removed) are
    refuted on the implementation by that check and listed as findings with narrow classifiers. *)
From Coq Require Import List NArith Bool.
From XmlRs Require Import Base.CPred Spec.XmlChars Spec.DomCharData Model.Store Model.StoreCheck Model.PrintableCheck Model.DomOps
  Proofs.DomOpsInv Proofs.CharDataProofs Proofs.DomPrintable.
From XmlRs Require Model.CharData.
Import ListNotations.
Open Scope N_scope.

Theorem C15_step_printable : forall w o, WPrintable w -> op_facts_ok o -> WPrintable (fst (step w o)).
Proof. exact step_printable. Qed.

Theorem C15_printable_reachable_partial : forall ops w,
  WPrintable w -> Forall op_facts_ok ops -> WPrintable (run w ops).
Proof. exact printable_reachable. Qed.

(** the character-data calls carry no fact at all: for histories of data edits, tree edits and the
    text / comment / CDATA factories the theorem is unconditional *)
Definition data_only (o : op) : bool :=
  match o with
  | AppendChild _ _ | InsertBefore _ _ _ | ReplaceChild _ _ _ | RemoveChild _ _
  | SetAttributeNode _ _ | RemoveAttribute _ _ | RemoveAttributeNode _ _ | SetNamedItem _ _ | RemoveNamedItem _ _
  | CreateTextNode _ _ | CreateComment _ _ | CreateCDataSection _ _ | CreateDocumentFragment _
  | SetData _ _ | AppendData _ _ | InsertData _ _ _ | DeleteData _ _ _ | ReplaceData _ _ _ _ | SplitText _ _ | Query _ => true
  | _ => false
  end.

Theorem C15_printable_reachable_data : forall ops w,
  WPrintable w -> forallb data_only ops = true -> WPrintable (run w ops).
Proof.
  intros ops w Hw H. apply printable_reachable; [exact Hw|].
  apply Forall_forall. intros o Ho. rewrite forallb_forall in H. specialize (H o Ho).
  destruct o; try discriminate; exact I.
Qed.

(** what the invariant gives for each node, in the vocabulary of XML 1.0 (via C16's lemmas) *)
Theorem C15_stored_strings_storable : forall s i it, Printable s -> get s i = Some it ->
  match ikind it with
  | KCm => storable KComment (idata it) = true
  | KCd => storable KCData (idata it) = true
  | KTx => forallb (fun c => isChar c && negb (c =? 60) && negb (c =? 38)) (idata it) = true
  | _ => True
  end.
Proof.
  intros s i it P H. pose proof (P i it H) as Ho. unfold item_ok in Ho. destruct (ikind it); try exact I.
  - unfold text_lex in Ho. erewrite forallb_ext_eq; [exact Ho|]. intros c. cbn. now rewrite is_xml_char_spec.
  - cbn [storable]. rewrite <- check_cdata_spec. exact Ho.
  - cbn [storable]. rewrite <- check_comment_spec. exact Ho.
Qed.

Theorem C15_printable_items : forall s i it, Printable s -> get s i = Some it ->
  match ikind it with
  | KTx => forallb (fun c => negb (c =? 60) && negb (c =? 38)) (idata it) = true
  | KCm => CharData.has_double_hyphen (idata it) = false /\ CharData.ends_with_hyphen (idata it) = false
  | KCd => CharData.has_cdend (idata it) = false
  | KPi => CharData.has_sub [63; 62] (idata it) = false
  | _ => True
  end.
Proof. exact printable_items. Qed.

(** the hypotheses are satisfiable by a non-trivial world and history: "a" -> append "]]" (stored),
    append ">" (refused: the result would hold "]]>"), the comment "a-x-b" -> delete "x" (refused) *)
Definition ex_store : store :=
  mkStore (fun i => if i =? 1 then Some (mkItem KDoc None [] [] false None [2] [] [])
                    else if i =? 2 then Some (mkItem KEl None [114] [] false (Some 1) [3; 4] [] [])
                    else if i =? 3 then Some (mkItem KTx None [] [97] false (Some 2) [] [] [])
                    else if i =? 4 then Some (mkItem KCm None [] [97; 45; 120; 45; 98] false (Some 2) [] [] [])
                    else None) 5 [] 1 [] true.
Definition ex_world : world := mkWorld [ex_store].
Definition dinfo (s : str) : data_info := mkData s false false false None None.
Definition ex_ops : list op :=
  [AppendData (0, 3) (dinfo [93; 93]); AppendData (0, 3) (dinfo [62]); DeleteData (0, 4) 2 1;
   ReplaceData (0, 4) 2 1 (dinfo [121])].

Example ex_world_printable : WPrintable ex_world.
Proof.
  constructor; [|constructor]. intros i it H. unfold ex_store, get in H. cbn [items] in H.
  repeat match type of H with
         | (if ?c then _ else _) = _ => destruct c; [inversion H; subst; reflexivity|]
         end.
  discriminate.
Qed.

Example ex_history :
  forallb data_only ex_ops = true
  /\ map (fun k => snd (step (run ex_world (firstn k ex_ops)) (nth k ex_ops (Query (0, 0))))) [0; 1; 2; 3]%nat
     = [Ok RUnit; Failed InfoErr; Failed InfoErr; Ok RUnit]
  /\ option_map (fun s => (data_of s 3, data_of s 4)) (doc_at (run ex_world ex_ops) 0)
     = Some ([97; 93; 93], [97; 45; 121; 45; 98]).
Proof. vm_compute. repeat split. Qed.

(** the hypothesis [WPrintable init] is decidable on the finite tables the model driver builds from
    the implementation's dump of the parsed documents, and is evaluated there for every case *)
Theorem C15_printable_checkable : forall l nx decl root, printable_b l = true -> Printable (store_of_list l nx decl root).
Proof. exact printable_b_sound. Qed.

Print Assumptions C15_printable_checkable.
Print Assumptions C15_step_printable.
Print Assumptions C15_printable_reachable_partial.
Print Assumptions C15_printable_reachable_data.
Print Assumptions C15_stored_strings_storable.
Print Assumptions C15_printable_items.
