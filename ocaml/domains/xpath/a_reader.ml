(* shared by the model and the spec drivers (specdomains/xpath/a_reader.ml is a symlink to this file):
   reading the XDoc table and the AST dump of the harness.
   xpath: the extracted evaluator model (Model/XPathEval.v) on the observations of the harness.

   input  (one line, words):  B <nb> (<prefix|~> <uri>)*nb # D <n> <node>*n # A <ast> # A X # ...
          (the D and A sections are copied verbatim from the output of `xh xpath`)
   output: R <value> P<pos>,<size> # R ... # I <wf><inv>     one R per A section, same syntax as the
           harness; I reports doc_wf_b / doc_inv_b of the table (hypotheses of the C06 / C07 theorems) *)

exception Bad of string

(* ---- the XDoc table ---- *)
let kind_of_string = function
  | "El" -> KElement | "At" -> KAttribute | "Tx" -> KText | "Cd" -> KCData
  | "Er" -> KEntityReference | "En" -> KEntity | "Pi" -> KPI | "Co" -> KComment
  | "Do" -> KDocument | "Dt" -> KDocumentType | "Df" -> KDocumentFragment | "No" -> KNotation
  | "Ns" -> KNamespace | "Xt" -> KExpandedText | s -> raise (Bad ("kind " ^ s))

let idx_list s = if s = "-" then [] else List.map (fun x -> n_of_int (int_of_string x)) (String.split_on_char '.' s)
let ostr s = if s = "~" then None else Some (dec s)

let parse_node (w : string) : xnode * (string * string * string) =
  match String.split_on_char ';' w with
  | [k; id; key; par; ch; at; ns; nm; d] ->
    let name = if nm = "!" then XNameNone else if nm = "E" then XNameErr else
        (match String.split_on_char '/' nm with
         | [l; p; u] -> XName (dec l, ostr p, ostr u)
         | _ -> raise (Bad "name")) in
    let data = if d = "E" then DataErr else if d = "~" then DataComputed else DataStr (dec d) in
    ({ n_kind = kind_of_string k; n_id = n_of_int (int_of_string id); n_key = n_of_int (int_of_string key);
       n_parent = (if par = "-" then None else Some (n_of_int (int_of_string par)));
       n_children = idx_list ch; n_attrs = idx_list at;
       n_nss = (if ns = "E" then None else Some (idx_list ns));
       n_name = name; n_data = data }, (k, nm, d))
  | _ -> raise (Bad "node")

(* ---- the AST reader (prefix notation of harness dump_ast) ---- *)
let toks : string list ref = ref []
let next () = match !toks with [] -> raise (Bad "eof") | t :: r -> toks := r; t
let expect s = let t = next () in if t <> s then raise (Bad ("expected " ^ s ^ " got " ^ t))
let count () = int_of_string (next ())
let str () = dec (next ())

let r_qname () = match next () with
  | "qp" -> let p = str () in let l = str () in QPrefixed (p, l)
  | "qu" -> QUnprefixed (str ())
  | t -> raise (Bad ("qname " ^ t))

let r_lpop () = match next () with "/" -> LpCurrent | "//" -> LpDescendantOrSelfNode | t -> raise (Bad ("lpop " ^ t))

let rec r_or () =
  expect "or"; let k = count () in
  if k = 0 then raise (Bad "empty or");
  let first = r_and () in
  let rec rest i = if i = 0 then AndNil else let a = r_and () in AndCons (a, rest (i - 1)) in
  EOr (first, rest (k - 1))
and r_and () =
  expect "and"; let k = count () in
  if k = 0 then raise (Bad "empty and");
  let first = r_eq () in
  let rec rest i = if i = 0 then EqNil else let a = r_eq () in EqCons (a, rest (i - 1)) in
  EAnd (first, rest (k - 1))
and r_eq () =
  expect "eq"; let o = r_rel () in let k = count () in
  let rec ops i = if i = 0 then EqopNil else
      let op = (match next () with "=" -> OpEqual | "!=" -> OpNotEqual | t -> raise (Bad t)) in
      let e = r_rel () in EqopCons (op, e, ops (i - 1)) in
  EEq (o, ops k)
and r_rel () =
  expect "rel"; let o = r_add () in let k = count () in
  let rec ops i = if i = 0 then RelopNil else
      let op = (match next () with "<" -> OpLessThan | ">" -> OpGreaterThan | "<=" -> OpLessEqual | ">=" -> OpGreaterEqual | t -> raise (Bad t)) in
      let e = r_add () in RelopCons (op, e, ops (i - 1)) in
  ERel (o, ops k)
and r_add () =
  expect "add"; let o = r_mul () in let k = count () in
  let rec ops i = if i = 0 then AddopNil else
      let op = (match next () with "+" -> OpAdd | "-" -> OpSub | t -> raise (Bad t)) in
      let e = r_mul () in AddopCons (op, e, ops (i - 1)) in
  EAdd (o, ops k)
and r_mul () =
  expect "mul"; let o = r_unary () in let k = count () in
  let rec ops i = if i = 0 then MulopNil else
      let op = (match next () with "*" -> OpMul | "div" -> OpDiv | "mod" -> OpMod | t -> raise (Bad t)) in
      let e = r_unary () in MulopCons (op, e, ops (i - 1)) in
  EMul (o, ops k)
and r_unary () =
  expect "un"; let inv = count () in let u = r_union () in EUnary (n_of_int inv, u)
and r_union () =
  expect "union"; let k = count () in
  let rec ps i = if i = 0 then PathNil else let p = r_path () in PathCons (p, ps (i - 1)) in
  EUnion (ps k)
and r_path () = match next () with
  | "root" -> PRoot
  | "pfilter" -> PFilter (r_filter ())
  | "prel" -> PRel (r_relpath ())
  | "pabs" -> let op = r_lpop () in PAbs (op, r_relpath ())
  | "pfpath" -> let f = r_filter () in let op = r_lpop () in PFilterPath (f, op, r_relpath ())
  | t -> raise (Bad ("path " ^ t))
and r_filter () =
  expect "filter"; let p = r_primary () in let k = count () in EFilter (p, r_exprs k)
and r_exprs k = if k = 0 then ExprNil else let e = r_or () in ExprCons (e, r_exprs (k - 1))
and r_primary () = match next () with
  | "var" -> PrimVariable (r_qname ())
  | "paren" -> PrimExpr (r_or ())
  | "lit" -> PrimLiteral (str ())
  | "num" -> PrimNumber (str ())
  | "fn" -> let q = r_qname () in let k = count () in PrimFunction (q, r_exprs k)
  | t -> raise (Bad ("primary " ^ t))
and r_relpath () =
  expect "relpath"; let s = r_step () in let k = count () in
  let rec ops i = if i = 0 then StepopNil else
      let op = r_lpop () in let s = r_step () in StepopCons (op, s, ops (i - 1)) in
  ERelPath (s, ops k)
and r_step () = match next () with
  | "dot" -> StepCurrent
  | "dotdot" -> StepParent
  | "step" ->
    let axis = (match next () with
        | "abbr" -> AxisAbbreviated (str ())
        | "axis" -> AxisName (match next () with
            | "ancestor" -> AxAncestor | "ancestor-or-self" -> AxAncestorOrSelf
            | "attribute" -> AxAttribute | "child" -> AxChild | "descendant" -> AxDescendant
            | "descendant-or-self" -> AxDescendantOrSelf | "following" -> AxFollowing
            | "following-sibling" -> AxFollowingSibling | "namespace" -> AxNamespace
            | "parent" -> AxParent | "preceding" -> AxPreceding
            | "preceding-sibling" -> AxPrecedingSibling | "self" -> AxCurrent
            | t -> raise (Bad ("axis " ^ t)))
        | t -> raise (Bad ("axisspec " ^ t))) in
    let test = (match next () with
        | "t*" -> TestName NameAll
        | "tns" -> TestName (NameNamespace (str ()))
        | "tq" -> TestName (NameQName (r_qname ()))
        | "tt" -> TestType (match next () with
            | "comment" -> NtComment | "text" -> NtText | "pi" -> NtPI | "node" -> NtNode
            | t -> raise (Bad ("type " ^ t)))
        | "tpi" -> TestPI (str ())
        | t -> raise (Bad ("test " ^ t))) in
    let k = count () in
    StepTest (axis, test, r_exprs k)
  | t -> raise (Bad ("step " ^ t))

