"""C17 -- xe rewrites exactly the selected nodes; xq prints exactly the selection."""
import json, os, re
from . import lib

NAMES = ['a', 'b', 'c', 'r', 'item', 'x1']
ATTRS = ['p', 'q', 'id']
TEXTS = ['t', 'hello', ' ', 'x y', 'é', '\U0001F600', '1', '', 'a]b', '>']

def gen_doc(rng, depth=0):
    """(xml text) of a small well-formed document; a quarter of them use the prefix p (bound to u on the root)"""
    ns = rng.random() < 0.25
    def elem(d):
        name = rng.choice(NAMES)
        if ns and rng.random() < 0.6:
            name = 'p:' + name
        if d == 0 and ns:
            return elem_named(name, d, ' xmlns:p="u"')
        return elem_named(name, d, '')
    def elem_named(name, d, extra):
        attrs = extra
        for a in rng.sample(ATTRS, rng.choice([0, 0, 1, 2])):
            q = rng.choice('"\'')
            attrs += ' %s=%s%s%s' % (a, q, rng.choice(['1', 'v', 'x y', '&amp;', '']), q)
        if d >= 3 or rng.random() < 0.25:
            return '<%s%s/>' % (name, attrs)
        kids = ''
        for _ in range(rng.choice([0, 1, 2, 3, 4])):
            k = rng.random()
            if k < 0.45: one = elem(d + 1)
            elif k < 0.7: one = rng.choice(['t', 'hello ', 'x&lt;y', '&amp;', 'é', ' '])
            elif k < 0.8: one = '<![CDATA[%s]]>' % rng.choice(['c', '<&>', ''])
            elif k < 0.9: one = '<!--%s-->' % rng.choice(['k', ' a b ', ''])
            else: one = '<?%s %s?>' % (rng.choice(['pi', 'x']), rng.choice(['d', 'a b']))
            kids += one
            if rng.random() < 0.25 and not (k >= 0.45 and k < 0.7):
                kids += one                  # look-alike neighbours: node identity is never content equality
        return '<%s%s>%s</%s>' % (name, attrs, kids, name)
    pro = rng.choice(['', '', '<?xml version="1.0"?>', '<!--top-->', '<?p d?>'])
    epi = rng.choice(['', '', '<!--end-->', '\n'])
    root = elem(0)
    if rng.random() < 0.12:
        # attribute defaults from the DTD, for element types of the document and of the replacement values
        rn = re.match(r'<([^\s/>]+)', root).group(1)
        decls = ''.join('<!ATTLIST %s %s CDATA "%s">' % (rng.choice(NAMES + ['k', 'm']), rng.choice(ATTRS + ['a']), rng.choice(['d', 'dv']))
                        for _ in range(rng.choice([1, 2, 3])))
        if rng.random() < 0.5:
            decls += '<!ATTLIST k a CDATA "d">'       # the replacement values write <k a="1">
        pro += '<!DOCTYPE %s [%s]>' % (rn, decls)
    return pro + root + epi

XPATHS = ['//k', '//a/@p|//a/@a',  '//p:a', '//p:*', '//p:b|//p:c', '/', '/*', '//a', '//b', '//a|//b', '//*', '//@p', '//@*', '/*/*[1]', '//*[@p]', '//a//b', '/*/a', '//c/..', '//item',
          '/|//@p', '//@*|/', '/|//a', '//a|/',      # the document node TOGETHER with other nodes
          '//a|//a/@p', '//*|//@*', '/*|//@*', '//a/@q|//a', '//b|//@p', '//@*|/*/*',      # an element TOGETHER with one of its own attributes (W7-C17-1)
          '//text()', '//comment()', 'count(//a)', 'string(/*)', '1+', '//a[', '//nosuch', '//*[last()]', '/*/*[position()=2]', '//a/@q']
VALUES = ['', 'new', '<k/>', 'x<k a="1">y</k>z', '<!--c-->', '<![CDATA[<raw>]]>', 'a&amp;b', '<k><m/><m/>t</k>', 'two<k/><k/>',
          '<![CDATA[]]><k/>', '<k/><![CDATA[]]>', '<!--c--><k/><?p d?>', '<k/> ',      # under the document node: empty character data is a node for the tool
          'it"s\'x', '"', "'", 'a"b', "a'b'c", '"\'&amp;\'"', 'x<k a=\'"\'/>',      # both kinds of quotation mark in a text that becomes an attribute value (W7-C17-2)
          '<?pi d?>', '&#65;', '<p:g xmlns:p="u"/>', '<k p:a="1" xmlns:p="u"/>', '<k', 'a<b', '&undeclared;', '<k/><!--c-->', 'é\U0001F600', ' ', '<k>&lt;</k>']

def enc(s):
    return lib.enc(s)

def fields(line):
    out = {}
    for f in line.split(' | '):
        k, _, v = f.partition('=')
        out[k] = v
    return out

def frag_features(fragdump):
    """features of the replacement that the known finding D48 is about"""
    feats = set()
    if '(p ' in fragdump: feats.add('pi')
    for m in re.finditer(r'\(r ([0-9,]+)\)', fragdump):
        name = lib.dec(m.group(1))
        if name not in ('amp', 'lt', 'gt', 'apos', 'quot'): feats.add('charref')
    for m in re.finditer(r'\((?:e|a) ([0-9,]+)', fragdump):
        if ':' in lib.dec(m.group(1)): feats.add('prefixed')
    return feats

def noempty(dump):
    """character data without characters (an empty CDATA section of the replacement; C01 finding WF14, C14 finding DD3) is in no
    serialisation and is not an information item: dropped from both sides before the tool's re-parsed output is compared"""
    return dump.replace('(t -)', '')

def check(run):
    run.trusted = ['Coq 8.16.1 kernel', 'Spec/XeSpec.v (replace_spec: what "replace the children of exactly the selected nodes" means on abstract trees) and Spec/XeStrict.v (replace_spec_strict: the same document, refused when the replacement cannot stand at some selected node; oracle of the search)',
                   'Model/Cli.v (hand-written model of xpath/examples/xe.rs), tied by the cli correspondence against the real binaries',
                   'selection and parsing are taken from the library (properties C05/C01 are decided by their own checks)',
                   'harness/src/domains/cli.rs dump format; OS process spawning, exit codes and pipes are observed, not modelled']
    proved, _ = lib.proof_step(run, 'C17', [])
    okr, mok, sok = lib.build_binaries(run, model_areas=['cli'], spec_areas=['cli'])
    # the tools themselves, from /repo's working tree
    exdir = os.path.join(lib.VERIF, 'harness', 'target', 'repo-examples')
    with lib.Lock():
        rc, out, _ = lib.sh(['cargo', 'build', '--offline', '--examples', '-p', 'xml-xpath', '--manifest-path', os.path.join(lib.REPO, 'Cargo.toml'),
                             '--target-dir', exdir], timeout=1200)
    if rc != 0:
        run.tie_breaks.append('xq/xe do not build: ' + out[-300:])
        return run.finish(level='proof', rule='')
    lib.ENV['XH_EXAMPLES'] = os.path.join(exdir, 'debug', 'examples')
    rng = run.rng
    n = 700 if run.tier == 'quick' else 12000
    cases = []
    for i in range(n):
        tool = 'xe' if rng.random() < 0.75 else 'xq'
        doc = gen_doc(rng) if rng.random() < 0.93 else rng.choice(['<a><b></a>', '', 'x', '<a/><b/>', '<a>&u;</a>'])
        xp = rng.choice(XPATHS)
        val = rng.choice(VALUES) if tool == 'xe' else '-'
        noindent = 1 if rng.random() < 0.85 else 0
        ns = ''
        if rng.random() < 0.1 or 'p:' in xp:
            ns = ' %s=%s' % (enc('p'), enc('u'))
        cases.append((tool, noindent, doc, xp, val, ns))
    # crafted: the replacement writes an attribute for which the document's DTD declares a default
    for dt in ('<!DOCTYPE r [<!ATTLIST k a CDATA "d">]>', '<!DOCTYPE r [<!ATTLIST k a CDATA #FIXED "1" b CDATA "x">]>', '<!DOCTYPE r [<!ATTLIST c q CDATA "d"><!ATTLIST k a NMTOKENS " u  v ">]>'):
        for v in ('<k a="1"/>', 'x<k a="1">y</k>z', '<k/>', '<k a="1"><k a="1"/></k>'):
            for x in ('/r/c', '/r', '/', '//c'):
                cases.append(('xe', 1, dt + '<r><c q="1">t</c><c/></r>', x, v, ''))
    lines = ['%s %d %s %s %s%s' % (t, ni, enc(d), enc(x), enc(v) if v != '-' else '-', ns) for t, ni, d, x, v, ns in cases]
    rc, outs = lib.run_bin(lib.rust_bin(), ['cli'], lines, timeout=1500, shards=min(12, lib.NPROC))
    # model and spec on the xe cases that reached the editing stage
    idx, mlines = [], []
    for i, (c, o) in enumerate(zip(cases, outs)):
        f = fields(o)
        if c[0] == 'xe' and f.get('doc', 'err').startswith('(') and f.get('sel', '').startswith('nodes:') and f.get('frag', 'err').startswith('('):
            idx.append(i)
            mlines.append('%s | %s | %s' % (f['doc'], f['frag'], f['sel'].split(':')[2] if f['sel'].count(':') >= 2 else ''))
    rcm, mouts = lib.run_bin(lib.model_bin('cli'), ['xe'], mlines, timeout=600) if mok.get('cli') else (1, [])
    rcs, souts = lib.run_bin(lib.spec_bin('cli'), ['xe'], mlines, timeout=600) if sok.get('cli') else (1, [])
    mo = dict(zip(idx, mouts)); so = dict(zip(idx, souts))
    known = {}
    def fail(i, what, cls):
        t, ni, d, x, v, ns = cases[i]
        run.failing_inputs.append({'property': 'C17', 'class': cls, 'what': what, 'tool': t, 'no_indent': ni, 'document': d, 'xpath': x,
                                   'value': v, 'setns': ns.strip(), 'observed': outs[i][:2000], 'case_line': lines[i]})
    for i, (c, o) in enumerate(zip(cases, outs)):
        tool, ni, d, x, v, ns = c
        f = fields(o)
        run.evaluations += 1
        run.count('tool:' + tool); run.count('sel:' + f.get('sel', '?').split(':')[0]); run.count('rc:' + f.get('rc', '?'))
        if f.get('sel', '').startswith('nodes:') and not f['sel'].startswith('nodes:0'):
            run.nontrivial.add((tool, d, x, v))
        if i < 4: run.sample({'tool': tool, 'document': d, 'xpath': x, 'value': v, 'result': o[:400]})
        crashed = f.get('crash') == '1' or f.get('rc') in ('signal', '101') or f.get('sel') == 'panic'
        if crashed:
            fail(i, '%s crashed (panic or signal) instead of ending with an error message' % tool, 'crash'); continue
        rc_ok = f.get('rc') == '0'
        usable = f.get('doc', 'err').startswith('(') and f.get('sel', 'err') not in ('err',)
        if not usable:
            if rc_ok: fail(i, '%s exited 0 on unusable input (ill-formed document or failing query)' % tool, 'exit-status')
            continue
        if tool == 'xq':
            if not rc_ok:
                fail(i, 'xq failed on a query the library evaluates', 'xq-exit'); continue
            if ni == 1 and f.get('out', '')[4:] != f.get('exp', ''):
                fail(i, 'xq output differs from the serialisations of the selected nodes in order', 'xq-output')
            kinds = f.get('sel', '').split(':')[2] if f.get('sel', '').count(':') >= 2 else ''
            if kinds and set(kinds) <= {'e'} and f.get('outwf') == '0':
                fail(i, 'xq printed selected elements as text that is not well-formed', 'xq-wellformed')
            continue
        # xe
        if f.get('sel') == 'scalar' or f.get('frag') == 'err':
            if rc_ok: fail(i, 'xe exited 0 although the path is scalar-valued or the value is not well-formed', 'exit-status')
            continue
        if ni == 0:
            # indented output: content is not claimed, but it must be a well-formed document whenever
            # the compact run of the same edit is
            so_i = so.get(i)
            if rc_ok and so_i is not None and so_i.startswith('done:') and not f.get('out', '').startswith('(doc') and not frag_features(f.get('frag', '')):
                fail(i, 'xe indented output is not a well-formed document', 'xe-indent-wellformed')
            continue
        feats = frag_features(f.get('frag', ''))
        if '<!DOCTYPE' in d and '@' in x:
            continue          # a selected attribute may be one the DTD supplies: not in the dump (specified attributes only)
        # correspondence: model vs tool
        m = mo.get(i)
        if m is not None and m != 'unmodelled':
            want = ('rc=0 out=' + noempty(m[5:])) if m.startswith('done:') else 'rc=1'
            got = ('rc=0 out=' + noempty(f.get('out', ''))) if rc_ok else 'rc=' + f.get('rc', '?')
            if want != got:
                run.tie_breaks.append('cli correspondence: xe on %r xpath %r value %r: model %s, tool %s' % (d, x, v, want[:200], got[:200]))
        # search: spec vs tool
        s = so.get(i)
        if s is None:
            continue
        if s.startswith('done:'):
            if rc_ok and noempty(f.get('out', '')) == noempty(s[5:]):
                continue
            what = 'xe output is not the document with exactly the selected nodes\' children replaced'
        else:
            if not rc_ok:
                continue
            what = 'xe accepted a replacement that cannot stand at the selected position (or printed a document that is not well-formed)'
        if feats:
            known['D48'] = known.get('D48', 0) + 1; continue
        fail(i, what, 'xe-effect')
    if known.get('D48'):
        run.known_hits['D48'] = ('xe loses or refuses parts of the replacement: processing instructions, character references, prefixed names / namespace declarations', known['D48'])
    run.tie_breaks = run.tie_breaks[:6]
    return run.finish(level='proof',
        rule='(tool, document, path, value, flags) tuples from a seeded generator run through the real xq/xe binaries; distinct by (tool, document, path, value); non-trivial = the path selects at least one node',
        assumptions=['parsing, selection and serialisation of single nodes are taken from the library (decided by C01/C04/C05)', 'pretty (indented) output is claimed for totality only'])

def replay(path):
    d = json.load(open(path))
    print(json.dumps({k: d[k] for k in d if k != 'observed'}, indent=1, ensure_ascii=False))
    if 'case_line' in d:
        exdir = os.path.join(lib.VERIF, 'harness', 'target', 'repo-examples', 'debug', 'examples')
        lib.ENV['XH_EXAMPLES'] = exdir
        rc, out = lib.run_bin(lib.rust_bin(), ['cli'], [d['case_line']])
        print('implementation:', out)
    return 0
