"""Shared machinery of the XPath evaluator checks (C05 C06 C07 C19).

* protocol of the `xpath` domain (harness/src/domains/xpath.rs, ocaml/domains/xpath/xpath.ml)
* generators: documents with mixed node kinds, a type-directed expression generator
* runners: implementation (in-process with catch_unwind, isolated for hang-prone cases),
  extracted model, extracted spec
* classifiers of the known findings, the shrinker, the case cache shared between the checks
* eval_totality(run, ...): the evaluation half of C06 (called by checks/C06.py)
"""
import json, os, random, re, subprocess, time
from . import lib

# ------------------------------------------------------------------ protocol
enc, dec = lib.enc, lib.dec

def case_line(case, dump_only=False):
    view = (1 if case.get('merged', True) else 0) + (2 if dump_only else 0) + (4 if case.get('cold') else 0)
    w = [str(view), enc(case['doc']), str(len(case.get('binds', [])))]
    for p, u in case.get('binds', []):
        w += ['~' if p is None else enc(p), enc(u)]
    w += [enc(e) for e in case['exprs']]
    return ' '.join(w)

def parse_out(line):
    """harness / model output line -> dict(D=str|None, A=[str], R=[(value, pos, size)], U=str|None, raw=line)"""
    o = {'D': None, 'A': [], 'R': [], 'C': [], 'U': None, 'raw': line}
    for sec in line.split(' # '):
        if sec.startswith('D '):
            o['D'] = sec
        elif sec.startswith('A '):
            o['A'].append(sec)
        elif sec.startswith('R '):
            m = re.match(r'^R (\S*) P(\d+),(\d+)$', sec)
            o['R'].append((m.group(1), int(m.group(2)), int(m.group(3))) if m else (sec, -1, -1))
        elif sec.startswith('C '):
            o['C'].append(sec[2:])
        elif sec.startswith('U '):
            o['U'] = sec[2:]
        elif sec.startswith('I '):
            o['I'] = sec[2:]
        elif sec.startswith('S '):
            o['S'] = sec[2:]
    return o

def model_line(case, dump):
    """input line of the model / spec drivers: bindings + the D and A sections of the harness"""
    b = ['B', str(len(case.get('binds', [])))]
    for p, u in case.get('binds', []):
        b += ['~' if p is None else enc(p), enc(u)]
    return ' # '.join([' '.join(b), dump['D']] + dump['A'])

def table_of(dump):
    """the D section -> list of dict rows"""
    rows = []
    for w in dump['D'].split(' ')[2:]:
        f = w.split(';')
        rows.append({'kind': f[0], 'id': int(f[1]), 'key': int(f[2]), 'parent': None if f[3] == '-' else int(f[3]),
                     'children': [] if f[4] == '-' else [int(x) for x in f[4].split('.')],
                     'attrs': [] if f[5] == '-' else [int(x) for x in f[5].split('.')],
                     'nss': None if f[6] == 'E' else ([] if f[6] == '-' else [int(x) for x in f[6].split('.')]),
                     'name': f[7], 'data': f[8]})
    return rows

def nodes_of(value):
    """'ns:1.2.z..' -> list of ints / descriptor strings; None when not a node-set"""
    if not value.startswith('ns:'):
        return None
    body = value[3:]
    if not body:
        return []
    out = []
    for x in body.split('.'):
        out.append(int(x) if x.isdigit() else x)
    return out

# ------------------------------------------------------------------ runners
def impl_bin():
    return lib.rust_bin()

def run_impl(cases, dump_only=False, timeout=300):
    """all cases in one process (panics are caught per query by the harness).  Returns the list of
    parsed outputs; a batch that does not finish is re-run case by case in isolation and the
    stuck cases answer {'hang': True}."""
    lines = [case_line(c, dump_only) for c in cases]
    rc, out = lib.run_bin(impl_bin(), ['xpath'], lines, timeout=timeout)
    if rc == 0 and len(out) == len(lines):
        return [parse_out(l) for l in out]
    res = []
    for l in lines:
        res.append(run_isolated_line(l))
    return res

def run_isolated_line(line, timeout=10):
    cls, out = lib.run_isolated(impl_bin(), ['xpath'], line, timeout=timeout)
    if cls == 'hang':
        return {'hang': True, 'R': [], 'A': [], 'D': None, 'U': None, 'raw': 'hang'}
    if cls == 'abort':
        return {'abort': True, 'R': [], 'A': [], 'D': None, 'U': None, 'raw': 'abort ' + out}
    return parse_out(out)

def run_isolated(case, timeout=10):
    return run_isolated_line(case_line(case), timeout)

def run_model(cases, dumps, binary=None, timeout=300):
    """extracted model (or spec) on the dumps -> list of parsed outputs (R sections only)"""
    binary = binary or lib.model_bin('xpath')
    idx, lines = [], []
    for k, (c, d) in enumerate(zip(cases, dumps)):
        if d.get('D'):
            idx.append(k)
            lines.append(model_line(c, d))
    rc, out = lib.run_bin(binary, ['xpath'], lines, timeout=timeout, shards=min(8, lib.NPROC))
    res = [None] * len(cases)
    for k, l in zip(idx, out):
        res[k] = parse_out(l)
    return res, (rc == 0 and len(out) == len(lines))

# ------------------------------------------------------------------ documents
NAMES = ['a', 'b', 'c', 'd']
ATTRS = ['x', 'y', 'id', 'lang']
NSURI = {'p': 'urn:p', 'q': 'urn:q'}
TEXTS = ['1', '2', '3', '10', '2.5', '-3', ' 4 ', 'abc', 'a b', 't', 'true', '', 'NaN', '0', '07', 'en', 'en-US', 'x']

class El:
    def __init__(self, name, attrs=None, nsdecl=None, children=None):
        self.name, self.attrs, self.nsdecl, self.children = name, attrs or [], nsdecl or [], children or []

def gen_doc(rng, feat=None):
    """abstract document: (dtd, prolog misc, root El, epilog misc).  `feat` switches node kinds."""
    f = {'pi': rng.random() < 0.18, 'dtd': rng.random() < 0.18, 'ns': rng.random() < 0.3,
         'cdata': rng.random() < 0.4, 'comment': rng.random() < 0.5, 'ref': rng.random() < 0.35,
         'prolog': rng.random() < 0.15, 'xmllang': rng.random() < 0.2}
    if feat:
        f.update(feat)
    depth = rng.choice([3, 3, 4, 4, 5])
    budget = [rng.randint(6, 22)]
    def name():
        n = rng.choice(NAMES)
        if f['ns'] and rng.random() < 0.3:
            n = rng.choice(list(NSURI)) + ':' + n
        return n
    def leaf():
        r = rng.random()
        if f['cdata'] and r < 0.12:
            return ('cdata', rng.choice(TEXTS) or 'c')
        if f['comment'] and r < 0.24:
            return ('comment', rng.choice(['c1', 'note', ' ', 'x y']))
        if f['pi'] and r < 0.36:
            return ('pi', rng.choice(['pa', 'pb', 'style']), rng.choice(['', 'v', 'a="1"']))
        if f['ref'] and r < 0.46:
            return ('ref', rng.choice(['&amp;', '&lt;', '&#65;', '&#x42;'] + (['&e;'] if f['dtd'] else [])))
        return ('text', rng.choice(TEXTS) or 't')
    def el(d):
        budget[0] -= 1
        e = El(name())
        used = set()
        for _ in range(rng.choice([0, 0, 1, 1, 2, 3])):
            a = rng.choice(ATTRS)
            if f['ns'] and rng.random() < 0.2:
                a = rng.choice(list(NSURI)) + ':' + a
            if f['xmllang'] and rng.random() < 0.3:
                a = 'xml:lang'
            if a in used:
                continue
            used.add(a)
            e.attrs.append((a, rng.choice(TEXTS)))
        if f['ns'] and rng.random() < 0.25:
            p = rng.choice(list(NSURI))
            e.nsdecl.append((p, NSURI[p] if rng.random() < 0.8 else 'urn:other'))
        if f['ns'] and rng.random() < 0.12:
            e.nsdecl.append((None, rng.choice(['urn:d', 'urn:p', '', ''])))
        n = 0 if d <= 1 else rng.choice([0, 1, 2, 2, 3, 4])
        for _ in range(n):
            if budget[0] > 0 and d > 1 and rng.random() < 0.6:
                e.children.append(el(d - 1))
            else:
                e.children.append(leaf())
        # structurally identical siblings (node identity must never be decided by content)
        if e.children and rng.random() < 0.3:
            e.children.insert(rng.randint(0, len(e.children)), rng.choice(e.children))
        return e
    root = el(depth)
    # guarantee depth >= 3 and repeated names
    if not any(isinstance(c, El) and any(isinstance(g, El) for g in c.children) for c in root.children):
        root.children.append(El(rng.choice(NAMES), [('x', '1')], [], [El(rng.choice(NAMES), [], [], [('text', '5')]), ('text', 'z')]))
    if f.get('dflt'):
        root.nsdecl = [(q, u) for q, u in root.nsdecl if q is not None] + [(None, 'urn:d')]
        # the default namespace is undeclared (xmlns="") and declared again further down: unprefixed element
        # names below an undeclaration are in NO namespace (Namespaces in XML 6.2)
        def walk(e, top):
            for c in e.children:
                if isinstance(c, El):
                    if not any(q is None for q, _ in c.nsdecl):
                        r = rng.random()
                        if r < 0.3: c.nsdecl.append((None, ''))
                        elif r < 0.4: c.nsdecl.append((None, 'urn:d'))
                    walk(c, False)
        walk(root, True)
    if f['ns']:
        for p, u in NSURI.items():          # every prefix used is declared at the root
            if not any(q == p for q, _ in root.nsdecl):
                root.nsdecl.append((p, u))
    dtd = None
    if f['dtd']:
        dtd = [('attlist', rng.choice(NAMES), 'dflt', rng.choice(['dv', '7'])), ('entity', 'e', 'ent')]
        if rng.random() < 0.5:
            dtd.append(('attlist', rng.choice(NAMES), 'x', '9'))
    pro = [('comment', 'pro')] if f['prolog'] and f['comment'] else ([('pi', 'pp', 'v')] if f['prolog'] and f['pi'] else [])
    epi = [('comment', 'epi')] if f['prolog'] and rng.random() < 0.5 else []
    return {'dtd': dtd, 'pro': pro, 'root': root, 'epi': epi, 'feat': f}

def esc(s, attr=False):
    s = s.replace('&', '&amp;').replace('<', '&lt;')
    return s.replace('"', '&quot;') if attr else s

def render_item(x):
    if isinstance(x, El):
        s = '<' + x.name
        for p, u in x.nsdecl:
            s += ' xmlns%s="%s"' % ('' if p is None else ':' + p, esc(u, True))
        for a, v in x.attrs:
            s += ' %s="%s"' % (a, esc(v, True))
        if not x.children:
            return s + '/>'
        return s + '>' + ''.join(render_item(c) for c in x.children) + '</' + x.name + '>'
    k = x[0]
    if k == 'text': return esc(x[1])
    if k == 'cdata': return '<![CDATA[' + x[1] + ']]>'
    if k == 'comment': return '<!--' + x[1] + '-->'
    if k == 'pi': return '<?' + x[1] + (' ' + x[2] if x[2] else '') + '?>'
    if k == 'ref': return x[1]
    raise ValueError(k)

def render_doc(d):
    s = ''
    if d['dtd'] is not None:
        root = d['root'].name
        s += '<!DOCTYPE %s [' % root
        for t in d['dtd']:
            if t[0] == 'attlist':
                s += '<!ATTLIST %s %s CDATA "%s">' % (t[1], t[2], t[3])
            else:
                s += '<!ENTITY %s "%s">' % (t[1], t[2])
        s += ']>'
    s += ''.join(render_item(x) for x in d['pro'])
    s += render_item(d['root'])
    s += ''.join(render_item(x) for x in d['epi'])
    return s

def doc_features(d):
    f = set(k for k, v in d['feat'].items() if v)
    return f

def shrink_doc_candidates(d):
    """smaller documents: drop one child / attribute / declaration somewhere, drop the DTD / prolog"""
    import copy
    out = []
    def paths(e, pre):
        for i, c in enumerate(e.children):
            yield pre + [i]
            if isinstance(c, El):
                yield from paths(c, pre + [i])
    for p in list(paths(d['root'], [])):
        n = copy.deepcopy(d)
        e = n['root']
        for i in p[:-1]:
            e = e.children[i]
        del e.children[p[-1]]
        out.append(n)
    def els(e, pre):
        yield pre
        for i, c in enumerate(e.children):
            if isinstance(c, El):
                yield from els(c, pre + [i])
    for p in list(els(d['root'], [])):
        e = d['root']
        for i in p:
            e = e.children[i]
        for k in range(len(e.attrs)):
            n = copy.deepcopy(d); x = n['root']
            for i in p: x = x.children[i]
            del x.attrs[k]; out.append(n)
        for k in range(len(e.nsdecl)):
            n = copy.deepcopy(d); x = n['root']
            for i in p: x = x.children[i]
            del x.nsdecl[k]; out.append(n)
    for key in ('pro', 'epi'):
        if d[key]:
            n = copy.deepcopy(d); n[key] = []; out.append(n)
    if d['dtd']:
        n = copy.deepcopy(d); n['dtd'] = None; out.append(n)
    return out

# ------------------------------------------------------------------ expressions (type-directed)
AXES = ['ancestor', 'ancestor-or-self', 'attribute', 'child', 'descendant', 'descendant-or-self', 'following',
        'following-sibling', 'namespace', 'parent', 'preceding', 'preceding-sibling', 'self']
REVERSE_AXES = {'ancestor', 'ancestor-or-self', 'preceding', 'preceding-sibling'}
SIBLING_AXES = {'following', 'following-sibling', 'preceding', 'preceding-sibling'}

class Gen:
    """expressions are nested tuples; render() gives the text.  Kinds:
    ('path', abs, [(sep, step)])   abs in '', '/', '//';  step = ('step', axis|None, test, [pred]) | '.' | '..'
    ('union', a, b) ('filter', e, [pred], tail|None) ('call', name, [args]) ('lit', s) ('num', s)
    ('bin', op, a, b) ('neg', a) ('paren', e) ('var', name) ('root',)"""
    def __init__(self, rng, weights=None):
        self.rng = rng
        self.w = {'ns_axis': 0.04, 'unsupported': 0.0, 'prefix': 0.12, 'substring': 0.0}
        self.prefixes = ['p', 'q']
        if weights:
            self.w.update(weights)

    def test(self, axis):
        r = self.rng.random()
        if axis in ('attribute', '@'):
            if r < 0.5: return self.rng.choice(ATTRS)
            if r < 0.8: return '*'
            if r < 0.9: return 'node()'
            return 'p:*' if self.rng.random() < self.w['prefix'] * 3 else '*'
        if axis == 'namespace':
            return self.rng.choice(['*', '*', 'p', 'xml', 'node()'])
        if r < 0.45:
            n = self.rng.choice(NAMES)
            if self.rng.random() < self.w['prefix']:
                n = self.rng.choice(self.prefixes) + ':' + n
            return n
        if r < 0.65: return '*'
        if r < 0.78: return 'node()'
        if r < 0.88: return 'text()'
        if r < 0.92: return 'comment()'
        if r < 0.96: return 'processing-instruction()'
        if r < 0.98: return "processing-instruction('pa')" if self.w['unsupported'] >= 0 else 'node()'
        return (self.rng.choice(self.prefixes) + ':*') if self.rng.random() < 0.5 else 'node()'

    def step(self, d):
        r = self.rng.random()
        if r < 0.03: return '.'
        if r < 0.07: return '..'
        if r < 0.55:
            axis = None                       # abbreviated child
            if self.rng.random() < 0.2: axis = '@'
        else:
            axis = self.rng.choice(AXES)
            if axis == 'namespace' and self.rng.random() > self.w['ns_axis'] * 13:
                axis = 'child'
        preds = []
        if d > 0:
            while self.rng.random() < 0.3 and len(preds) < 2:
                preds.append(self.pred(d - 1))
        return ('step', axis, self.test(axis), preds)

    def pred(self, d):
        r = self.rng.random()
        if d > 0 and self.rng.random() < 0.15:
            # nested positional predicate: x[k], x[last()], x[position() = k] inside a predicate
            inner = self.rng.choice([('num', self.rng.choice(['1', '2', '3'])), ('call', 'last', []),
                                     ('bin', self.rng.choice(['=', '<', '>=']), ('call', 'position', []), ('num', self.rng.choice(['1', '2'])))])
            ax = self.rng.choice([None, None, 'descendant', 'following-sibling', 'preceding-sibling', 'ancestor', '@'])
            t = '*' if ax != '@' else '*'
            return ('path', '', [('/', ('step', ax, self.rng.choice([t, 'node()'] + ([self.rng.choice(NAMES)] if ax != '@' else [])), [inner]))])
        if r < 0.25: return ('num', self.rng.choice(['1', '2', '3', '1', '2', '1', '2', '0', '1.5', '10']))
        if r < 0.33: return ('call', 'last', [])
        if r < 0.45: return ('bin', self.rng.choice(['=', '<', '>', '<=', '>=', '!=']), ('call', 'position', []), self.rng.choice([('num', '1'), ('num', '2'), ('call', 'last', []), ('bin', '-', ('call', 'last', []), ('num', '1'))]))
        if r < 0.6: return self.nodeset(d, rel=True)
        return self.boolean(d)

    def path(self, d, rel=False):
        """absolute paths mostly start at //name or /*/ so that they select something"""
        n = self.rng.choice([1, 1, 2, 2, 3, 4]) if d > 0 else 1
        steps = []
        if rel:
            abs_ = ''
        else:
            abs_ = self.rng.choice(['//', '//', '//', '/', '/', ''])
        for i in range(n):
            sep = '/' if i == 0 else self.rng.choice(['/', '/', '/', '/', '//'])
            st = self.step(d)
            if i == 0 and abs_ in ('/', '') and not rel and isinstance(st, tuple) and self.rng.random() < 0.8:
                # the only child element of the document node is the root element
                st = ('step', self.rng.choice([None, None, 'child', 'descendant', 'descendant-or-self']), self.rng.choice(['*', '*', 'node()', self.rng.choice(NAMES)]), st[3])
            steps.append((sep, st))
        return ('path', abs_, steps)

    def nodeset(self, d, rel=False):
        r = self.rng.random()
        if d <= 0 or r < 0.6:
            return self.path(d, rel)
        if r < 0.75:
            return ('union', self.nodeset(d - 1, rel), self.nodeset(d - 1, rel))
        if r < 0.93:
            inner = self.nodeset(d - 1, rel)
            preds = [self.pred(d - 1) for _ in range(self.rng.choice([0, 1, 1, 2]))]
            tail = None
            if self.rng.random() < 0.45:
                t = self.path(d - 1, rel=True)
                tail = (self.rng.choice(['/', '/', '//']), t)
            return ('filter', inner, preds, tail)
        if r < 0.95 and self.w['unsupported'] > 0:
            return ('call', 'id', [('lit', 'x')])
        if r < 0.96:
            return ('root',)
        return self.path(d, rel)

    def number(self, d):
        r = self.rng.random()
        if d <= 0 or r < 0.25:
            if self.rng.random() < 0.2:       # boundary values of the rounding functions and of double arithmetic
                return ('num', self.rng.choice(['0.49999999999999994', '4503599627370497', '4503599627370496.5', '9007199254740993', '0.2', '0.5', '1.5',
                                                '0.1', '0.30000000000000004', '123456789012345678901234567890', '0.000000000000000000001']))
            return ('num', self.rng.choice(['0', '1', '2', '3', '10', '2.5', '.5', '1.', '100']))
        if r < 0.35: return ('call', 'position', [])
        if r < 0.42: return ('call', 'last', [])
        if r < 0.55: return ('call', 'count', [self.nodeset(d - 1)])
        if r < 0.63: return ('call', 'sum', [self.nodeset(d - 1)])
        if r < 0.78: return ('bin', self.rng.choice(['+', '-', '*', 'div', 'mod']), self.number(d - 1), self.number(d - 1))
        if r < 0.84: return ('call', 'number', [self.any(d - 1)] if self.rng.random() < 0.8 else [])
        if r < 0.88: return ('call', 'string-length', [self.string(d - 1)] if self.rng.random() < 0.8 else [])
        if r < 0.94: return ('call', self.rng.choice(['floor', 'ceiling', 'round']), [self.number(d - 1)])
        return ('neg', self.number(d - 1))

    def string(self, d):
        r = self.rng.random()
        if d <= 0 or r < 0.3: return ('lit', self.rng.choice(TEXTS + ['a', 'b', 'urn:p']))
        if r < 0.45: return ('call', 'string', [self.any(d - 1)] if self.rng.random() < 0.85 else [])
        if r < 0.55: return ('call', 'concat', [self.string(d - 1) for _ in range(self.rng.choice([2, 2, 3]))])
        if r < 0.7: return ('call', self.rng.choice(['local-name', 'name', 'namespace-uri']), [self.nodeset(d - 1)] if self.rng.random() < 0.75 else [])
        if r < 0.8: return ('call', self.rng.choice(['substring-before', 'substring-after']), [self.string(d - 1), self.string(d - 1)])
        if r < 0.88: return ('call', 'normalize-space', [self.string(d - 1)] if self.rng.random() < 0.8 else [])
        if r < 0.95: return ('call', 'translate', [self.string(d - 1), ('lit', 'abc'), ('lit', 'AB')])
        if self.w['substring'] > 0 and self.rng.random() < self.w['substring']:
            return ('call', 'substring', [self.string(d - 1), self.number(d - 1)] + ([self.number(d - 1)] if self.rng.random() < 0.5 else []))
        return ('lit', 'k')

    def boolean(self, d):
        r = self.rng.random()
        if d <= 0 or r < 0.1: return ('call', self.rng.choice(['true', 'false']), [])
        if r < 0.45:
            op = self.rng.choice(['=', '=', '!=', '<', '<=', '>', '>='])
            return ('bin', op, self.any(d - 1), self.any(d - 1))
        if r < 0.6: return ('bin', self.rng.choice(['and', 'or']), self.boolean(d - 1), self.boolean(d - 1))
        if r < 0.7: return ('call', 'not', [self.any(d - 1)])
        if r < 0.76: return ('call', 'boolean', [self.any(d - 1)])
        if r < 0.86: return ('call', self.rng.choice(['contains', 'starts-with']), [self.string(d - 1), self.string(d - 1)])
        if r < 0.9: return ('call', 'lang', [('lit', self.rng.choice(['en', 'en-US', 'x']))])
        return self.nodeset(d - 1, rel=True)

    def any(self, d):
        r = self.rng.random()
        if r < 0.4: return self.nodeset(d, rel=self.rng.random() < 0.5)
        if r < 0.65: return self.number(d)
        if r < 0.85: return self.string(d)
        return self.boolean(d)

PREC = {'or': 1, 'and': 2, '=': 3, '!=': 3, '<': 4, '<=': 4, '>': 4, '>=': 4, '+': 5, '-': 5, '*': 6, 'div': 6, 'mod': 6}

def render_step(s):
    if s in ('.', '..'):
        return s
    _, axis, test, preds = s
    t = ('@' + test) if axis == '@' else (test if axis is None else axis + '::' + test)
    return t + ''.join('[' + render(p) + ']' for p in preds)

def render(e, prec=0):
    k = e[0]
    if k == 'path':
        s = e[1]
        for i, (sep, st) in enumerate(e[2]):
            t = render_step(st)
            if i == 0 and e[1] == '' and isinstance(st, tuple) and st[1] is None and st[2].endswith(')'):
                t = 'child::' + t     # D28 (expression parser): a leading text() / node() is read as a function call
            s += (sep if i > 0 else '') + t
        return s
    if k == 'root':
        return '/'
    if k == 'union':
        s = render(e[1], 8) + ' | ' + render(e[2], 8)
        return '(' + s + ')' if prec > 7 else s
    if k == 'filter':
        s = '(' + render(e[1]) + ')' + ''.join('[' + render(p) + ']' for p in e[2])
        if e[3]:
            s += e[3][0] + render(e[3][1])
        return s
    if k == 'call':
        return e[1] + '(' + ', '.join(render(a) for a in e[2]) + ')'
    if k == 'lit':
        return ('"' + e[1] + '"') if '"' not in e[1] else ("'" + e[1] + "'")
    if k == 'num':
        return e[1]
    if k == 'var':
        return '$' + e[1]
    if k == 'neg':
        return '-' + render(e[1], 7)
    if k == 'paren':
        return '(' + render(e[1]) + ')'
    if k == 'bin':
        p = PREC[e[1]]
        s = render(e[2], p) + ' ' + e[1] + ' ' + render(e[3], p + 1)
        return '(' + s + ')' if prec > p else s
    raise ValueError(e)

def expr_features(e, acc=None):
    """syntactic features of an expression tree (axes, functions, constructs)"""
    acc = acc if acc is not None else set()
    if isinstance(e, tuple):
        k = e[0]
        if k == 'step':
            ax = e[1]
            acc.add('axis:' + ('child' if ax is None else 'attribute' if ax == '@' else ax))
            acc.add('test:' + re.sub(r'[a-d]$|^(x|y|id|lang)$', 'name', e[2]))
            if e[3]: acc.add('pred')
            for p in e[3]:
                if p[0] == 'num': acc.add('pred:num')
                expr_features(p, acc)
            return acc
        if k == 'call': acc.add('fn:' + e[1])
        if k == 'union': acc.add('union')
        if k == 'filter': acc.add('filter'); acc.add('filter-tail') if e[3] else None
        if k == 'bin': acc.add('op:' + e[1])
        if k == 'var': acc.add('var')
        if k == 'path':
            acc.add('abs:' + (e[1] or 'rel'))
            for sep, st in e[2]:
                if sep == '//': acc.add('//')
                if st == '..': acc.add('dotdot')
                expr_features(st, acc)
            return acc
        for x in e[1:]:
            if isinstance(x, (tuple, list)):
                expr_features(x, acc)
    elif isinstance(e, list):
        for x in e:
            expr_features(x, acc)
    return acc

def text_features(s):
    """features read off the TEXT of an expression (used by the classifiers on shrunk cases)"""
    f = set()
    for ax in AXES:
        if ax + '::' in s: f.add('axis:' + ax)
    if '@' in s: f.add('axis:attribute')
    if '..' in s: f.add('dotdot')
    for fn in ('id', 'lang', 'substring', 'string-length', 'round', 'number', 'sum', 'name', 'local-name', 'namespace-uri'):
        if re.search(r'(^|[^-\w])' + re.escape(fn) + r'\s*\(', s): f.add('fn:' + fn)
    if '$' in s: f.add('var')
    return f

def shrink_expr_candidates(e):
    """smaller expression trees (one edit each)"""
    out = []
    k = e[0] if isinstance(e, tuple) else None
    if k == 'path':
        abs_, steps = e[1], e[2]
        if len(steps) > 1:
            for i in range(len(steps)):
                ns = steps[:i] + steps[i + 1:]
                ns = [('/', ns[0][1])] + ns[1:]
                out.append(('path', abs_, ns))
        for i, (sep, st) in enumerate(steps):
            if isinstance(st, tuple):
                for j in range(len(st[3])):
                    out.append(('path', abs_, steps[:i] + [(sep, ('step', st[1], st[2], st[3][:j] + st[3][j + 1:]))] + steps[i + 1:]))
                for j, p in enumerate(st[3]):
                    for q in shrink_expr_candidates(p):
                        out.append(('path', abs_, steps[:i] + [(sep, ('step', st[1], st[2], st[3][:j] + [q] + st[3][j + 1:]))] + steps[i + 1:]))
                if st[2] not in ('*', 'node()'):
                    out.append(('path', abs_, steps[:i] + [(sep, ('step', st[1], 'node()', st[3]))] + steps[i + 1:]))
            if sep == '//' and i > 0:
                out.append(('path', abs_, steps[:i] + [('/', st)] + steps[i + 1:]))
    elif k == 'union':
        out += [e[1], e[2]]
        out += [('union', x, e[2]) for x in shrink_expr_candidates(e[1])]
        out += [('union', e[1], x) for x in shrink_expr_candidates(e[2])]
    elif k == 'filter':
        out.append(e[1])
        if e[3]: out.append(('filter', e[1], e[2], None))
        for j in range(len(e[2])):
            out.append(('filter', e[1], e[2][:j] + e[2][j + 1:], e[3]))
        out += [('filter', x, e[2], e[3]) for x in shrink_expr_candidates(e[1])]
        for j, p in enumerate(e[2]):
            out += [('filter', e[1], e[2][:j] + [q] + e[2][j + 1:], e[3]) for q in shrink_expr_candidates(p)]
        if e[3]:
            out += [('filter', e[1], e[2], (e[3][0], q)) for q in shrink_expr_candidates(e[3][1])]
    elif k == 'call':
        for j, a in enumerate(e[2]):
            out.append(a)
            out += [('call', e[1], e[2][:j] + [q] + e[2][j + 1:]) for q in shrink_expr_candidates(a)]
    elif k == 'bin':
        out += [e[2], e[3]]
        out += [('bin', e[1], x, e[3]) for x in shrink_expr_candidates(e[2])]
        out += [('bin', e[1], e[2], x) for x in shrink_expr_candidates(e[3])]
    elif k in ('neg', 'paren'):
        out.append(e[1])
    return out

def shrink(doc, exprs, fails, budget=150, drop_exprs=True):
    """greedy delta debugging on the abstract case; `fails(doc, exprs)` -> bool"""
    steps = 0
    changed = True
    while drop_exprs and len(exprs) > 1 and steps < budget:
        for i in range(len(exprs)):
            steps += 1
            ne = exprs[:i] + exprs[i + 1:]
            try:
                if fails(doc, ne):
                    exprs = ne
                    break
            except Exception:
                pass
        else:
            break
    while changed and steps < budget:
        changed = False
        for i in range(len(exprs)):
            for cand in shrink_expr_candidates(exprs[i]):
                steps += 1
                ne = exprs[:i] + [cand] + exprs[i + 1:]
                try:
                    if fails(doc, ne):
                        exprs = ne; changed = True; break
                except Exception:
                    pass
                if steps >= budget: break
            if changed or steps >= budget: break
        if changed: continue
        for cand in shrink_doc_candidates(doc):
            steps += 1
            try:
                if fails(cand, exprs):
                    doc = cand; changed = True; break
            except Exception:
                pass
            if steps >= budget: break
    return doc, exprs

# ------------------------------------------------------------------ classifiers of known findings
def doc_key_anomalies(rows):
    """what the table says about order keys: zero keys / equal keys among the rows"""
    a = set()
    seen = {}
    for i, r in enumerate(rows):
        if r['key'] == 0:
            a.add('zero-key:' + r['kind'])
        elif r['key'] in seen:
            a.add('dup-key')
        seen[r['key']] = i
    return a

def has_pi(rows):
    return any(r['kind'] == 'Pi' for r in rows)

def equal_key_siblings(rows):
    """some child list contains two nodes with the same order key (D18: two PIs; D21 then cycles)"""
    for r in rows:
        ks = [rows[c]['key'] for c in r['children'] if c < len(rows)]
        if len(ks) != len(set(ks)):
            return True
    return False

def classify(prop, rows, exprs_text, what=''):
    """-> (finding id, description) of the known finding that explains a failing case, or None.
    Narrow by construction: each class names the document shape AND the expression shape.
    (D18 / D21 -- processing instructions with order key 0, sibling lookup by key -- were classes
    here until the dom fixes 4f12942 / a4a0768; a PI document that fails now is a violation.)"""
    feats = set()
    for s in exprs_text:
        feats |= text_features(s)
    anomalies = doc_key_anomalies(rows) if rows else set()
    if what in ('canonical', 'union_comm', 'union_idem', 'union_assoc', 'union_perm', 'union_elements', 'filter_position', 'spec-mismatch'):
        if rows and 'axis:namespace' in feats and 'zero-key:Ns' in anomalies:
            return ('D19', 'namespace axis: namespace nodes have order key 0 (implicit xml) or the key of the inherited declaration')
        if rows and 'zero-key:At' in anomalies and ('axis:attribute' in feats or 'axis:namespace' in feats):
            return ('D19', 'attribute axis over an element with DTD-default attributes: they have order key 0')
    return None

# ------------------------------------------------------------------ case cache shared by the checks
def cache_path(name):
    d = os.path.join(lib.WORK, 'xpath_cache')
    os.makedirs(d, exist_ok=True)
    return os.path.join(d, name)

def generated_cases(seed, n, tier, weights=None, nexpr=(1, 3)):
    """n cases (abstract document, expression trees) from one seed; cached under work/ so that the
    four checks of one run share the generation cost.  Each item: dict(doc=abstract, exprs=[tree])."""
    rng = random.Random(seed * 7919 + 17)
    g = Gen(rng, weights)
    out = []
    docs = []
    for k in range(n):
        if not docs or rng.random() < 0.35:
            # one document in eight has a default namespace that is undeclared and re-declared below the root
            docs.append(gen_doc(rng, {'ns': True, 'dflt': True}) if rng.random() < 0.125 else gen_doc(rng))
        d = rng.choice(docs[-4:])
        dflt = bool(d['feat'].get('dflt'))
        # ... and is queried with a prefix bound to that namespace name (and unprefixed names = no namespace)
        g.prefixes = ['p', 'q', 'd', 'd'] if dflt else ['p', 'q']
        old = g.w['prefix']
        if dflt: g.w['prefix'] = 0.45
        ex = []
        for _ in range(rng.randint(*nexpr)):
            t = rng.random()
            depth = rng.choice([1, 2, 2, 3, 3, 4])
            ex.append(g.nodeset(depth) if t < 0.55 else g.boolean(depth) if t < 0.7 else g.number(depth) if t < 0.85 else g.string(depth))
        g.w['prefix'] = old
        out.append({'doc': d, 'exprs': ex, 'merged': rng.random() < 0.7,
                    'binds': [('p', 'urn:p'), ('q', 'urn:q')] + ([('d', 'urn:d')] if dflt else []) + ([(None, 'urn:d')] if rng.random() < 0.03 else [])})
    return out

def concrete(item):
    return {'doc': render_doc(item['doc']), 'exprs': [render(e) for e in item['exprs']], 'merged': item.get('merged', True),
            'binds': item.get('binds', [])}

# ------------------------------------------------------------------ two-phase execution
def evaluate(items, run=None, isolate_limit=3, want_model=True, spec=False):
    """dump -> model prediction -> implementation.  Returns list of dict(case, dump, model, impl, rows).
    Cases the model predicts to hang are not run in-process: up to `isolate_limit` of them are run in
    isolation (10 s) to confirm the hang, the others are marked impl=None."""
    cases = [concrete(it) if isinstance(it['doc'], dict) else it for it in items]
    dumps = run_impl(cases, dump_only=True)
    models, okm = run_model(cases, dumps) if want_model else ([None] * len(cases), True)
    specs = None
    if spec:
        specs, oks = run_model(cases, dumps, binary=lib.spec_bin('xpath'))
    res = []
    todo, todo_idx = [], []
    confirmed = 0
    for k, (c, d, m) in enumerate(zip(cases, dumps, models)):
        rows = table_of(d) if d.get('D') else None
        r = {'case': c, 'dump': d, 'model': m, 'impl': None, 'rows': rows, 'spec': specs[k] if specs else None}
        res.append(r)
        predicted_hang = m is not None and any(v[0] == 'hang' for v in m['R'])
        if not d.get('D'):
            r['impl'] = d
        elif predicted_hang:
            r['predicted_hang'] = True
            if confirmed < isolate_limit:
                confirmed += 1
                r['impl'] = run_isolated(c, timeout=10)
        else:
            todo.append(c); todo_idx.append(k)
    outs = run_impl(todo)
    for k, o in zip(todo_idx, outs):
        res[k]['impl'] = o
    return res, okm

def compare_model(r):
    """None when model and implementation agree on every R section, else a description"""
    m, i = r['model'], r['impl']
    if i is None or m is None:
        return None
    if i.get('hang'):
        if any(v[0] == 'hang' for v in m['R']):
            return None
        return 'implementation hangs, model answers ' + ' '.join(v[0] for v in m['R'])
    if len(m['R']) != len(i['R']):
        return 'model answered %d results, implementation %d: %s' % (len(m['R']), len(i['R']), m['raw'][:200])
    for k, (a, b) in enumerate(zip(m['R'], i['R'])):
        if a != b:
            return 'query %d (%s): model %s, implementation %s' % (k, r['case']['exprs'][k], a, b)
    return None

# ------------------------------------------------------------------ findings, accounting, reports
FINDINGS = {
    'D19': 'namespace nodes and DTD-default attributes have order key 0 (or the key of the inherited declaration): on the namespace axis / attribute axis with defaults they sort first and distinct ones collapse',
    'D13': 'general entity references are not expanded in the DOM view (reference node without value)',
}

def corpus_items(prop):
    """regression cases of verif/corpus/xpath_*.json (minimised failures found earlier)"""
    d = os.path.join(lib.VERIF, 'corpus')
    out = []
    try:
        names = sorted(os.listdir(d))
    except OSError:
        return out
    for fn in names:
        if fn.startswith('xpath_') and fn.endswith('.json'):
            try:
                for c in json.load(open(os.path.join(d, fn))).get('cases', []):
                    out.append({'doc': c['doc'], 'exprs': c['exprs'], 'merged': c.get('merged', True),
                                'binds': [tuple(b) for b in c.get('binds', [])], 'corpus': fn})
            except (OSError, ValueError, KeyError):
                pass
    return out

def account(run, item, r):
    """histogram of the input distribution"""
    if isinstance(item.get('doc'), dict):
        for f in doc_features(item['doc']):
            run.count('doc:' + f)
        for e in item['exprs']:
            for f in expr_features(e):
                run.count(f)
    if r.get('rows'):
        run.count('rows:%d' % (10 * (len(r['rows']) // 10)))
    if r.get('predicted_hang'):
        run.count('model-predicts-hang')
    if r['impl'] and r['impl'].get('R'):
        for v in r['impl']['R']:
            k = v[0].split(':')[0]
            run.count('result:' + (k if k != 'err' else ':'.join(v[0].split(':')[:2])))
    if len(run.samples) < 12 and r['impl'] and r['impl'].get('R'):
        run.sample({'doc': r['case']['doc'][:300], 'exprs': r['case']['exprs'][:4], 'results': [v[0][:80] for v in r['impl']['R'][:4]]})

def strip_anomalies(doc):
    """the abstract document without processing instructions and without DTD (counterfactual for D18/D19/D21)"""
    import copy
    d = copy.deepcopy(doc)
    def clean(e):
        e.children = [c for c in e.children if isinstance(c, El) or c[0] != 'pi']
        for c in e.children:
            if isinstance(c, El):
                clean(c)
    clean(d['root'])
    d['pro'] = [x for x in d['pro'] if x[0] != 'pi']
    d['epi'] = [x for x in d['epi'] if x[0] != 'pi']
    d['dtd'] = None
    def refs(e):
        e.children = [c for c in e.children if isinstance(c, El) or not (c[0] == 'ref' and c[1] == '&e;')]
        for c in e.children:
            if isinstance(c, El):
                refs(c)
    refs(d['root'])
    return d

def build_exprs(item, trees):
    b = item.get('build')
    return b(trees) if b else trees

def run_one(item, doc, trees, isolated=False):
    case = {'doc': render_doc(doc) if isinstance(doc, dict) else doc,
            'exprs': [render(e) if isinstance(e, tuple) else e for e in build_exprs(item, trees)],
            'merged': item.get('merged', True), 'binds': item.get('binds', [])}
    out = run_isolated(case, timeout=5) if isolated else run_impl([case], timeout=20)[0]
    return case, out

def report_failures(run, prop, failing, oracle, max_shrunk=6):
    """failing: [(item, result, class, detail)].  Classify against the known findings (with a
    counterfactual run on the document without the anomaly), shrink the unexplained ones, file them."""
    shrunk = 0
    seen_classes = {}
    for item, r, cls, detail in failing:
        rows = r.get('rows')
        texts = r['case']['exprs']
        known = classify(prop, rows, texts, cls)
        abstract = isinstance(item.get('doc'), dict)
        if known and abstract and known[0] == 'D19' and not any('namespace::' in t for t in texts):
            # counterfactual: the same query on the document without PIs / DTD must not fail
            try:
                trees = item.get('trees', item['exprs'])
                case2, out2 = run_one(item, strip_anomalies(item['doc']), trees, isolated=(cls == 'hang'))
                if out2.get('D') and oracle(case2, out2, item) == cls:
                    rows2 = table_of(out2)
                    if not classify(prop, rows2, case2['exprs'], cls):
                        known = None
                        r = dict(r); r['case'] = case2; r['impl'] = out2; rows = rows2
            except Exception as ex:
                run.notes.append('counterfactual run failed: %r' % (ex,))
        if known:
            fid = known[0]
            what, n = run.known_hits.get(fid, (FINDINGS.get(fid, known[1]), 0))
            run.known_hits[fid] = (what, n + 1)
            if fid not in seen_classes:
                seen_classes[fid] = 1
                run.extra.setdefault('known_finding_samples', {})[fid] = {'doc': r['case']['doc'][:400], 'exprs': r['case']['exprs'], 'class': cls, 'detail': detail[:300]}
                listed = [e for e in lib.known_findings(prop) if e.get('id') == fid]
                if not listed:
                    run.notes.append('finding %s is classified by checks/xpath_common.py; entry proposed in notes/xpath_known_findings.json' % fid)
            continue
        case, out = r['case'], r['impl']
        if abstract and shrunk < max_shrunk:
            shrunk += 1
            trees = item.get('trees', item['exprs'])
            def fails(doc, ex):
                c2, o2 = run_one(item, doc, ex, isolated=(cls == 'hang'))
                return bool(o2.get('D') or o2.get('hang')) and oracle(c2, o2, item) == cls and not classify(prop, table_of(o2) if o2.get('D') else None, c2['exprs'], cls)
            try:
                d2, t2 = shrink(item['doc'], list(trees), fails, drop_exprs=not item.get('build'))
                case, out = run_one(item, d2, t2, isolated=(cls == 'hang'))
            except Exception as ex:
                run.notes.append('shrinking failed: %r' % (ex,))
        run.failing_inputs.append({'property': prop, 'class': cls, 'what': '%s (before shrinking: %s)' % (cls, detail[:400]),
                                   'doc': case['doc'], 'exprs': case['exprs'], 'merged': case.get('merged', True),
                                   'binds': case.get('binds', []), 'implementation': out.get('raw', '')[-600:] if isinstance(out, dict) else ''})

def replay(path):
    d = json.load(open(path))
    print(json.dumps(d, indent=1, ensure_ascii=False)[:3000])
    if 'doc' in d and 'exprs' in d:
        case = {'doc': d['doc'], 'exprs': d['exprs'], 'merged': d.get('merged', True), 'binds': [tuple(b) for b in d.get('binds', [])]}
        dump = run_impl([case], dump_only=True)[0]
        out = run_isolated(case, timeout=10)
        print('implementation:', ' # '.join('R %s P%d,%d' % v for v in out['R']) if out.get('R') else out.get('raw'))
        if dump.get('D'):
            m, _ = run_model([case], [dump])
            print('model:         ', m[0]['raw'] if m[0] else '(no output)')
            if os.path.exists(lib.spec_bin('xpath')):
                s, _ = run_model([case], [dump], binary=lib.spec_bin('xpath'))
                print('spec:          ', s[0]['raw'] if s[0] else '(no output)')
    return 0

# ------------------------------------------------------------------ error injection (C06, C19)
ERRORS = [
    ('call', 'nosuch', []),                                   # NotFoundFunction
    ('var', 'v'),                                             # NotFoundVariable (fixed D23)
    ('path', '', [('/', ('step', None, 'zz:x', []))]),        # NotFoundNamespace
    ('call', 'count', [('num', '1')]),                        # InvalidType
    ('union', ('num', '1'), ('num', '2')),                    # InvalidType
    ('call', 'concat', [('lit', 'a')]),                       # InvalidArgumentCount
    ('filter', ('lit', 'a'), [('num', '1')], None),           # InvalidType (predicate on a string)
    ('call', 'sum', [('lit', 'x')]),                          # InvalidType
    ('call', 'zz:f', []),                                     # NotFoundNamespace (function prefix)
    ('filter', ('num', '1'), [], ('/', ('path', '', [('/', ('step', None, 'a', []))]))),   # InvalidType: 1/a
]
UNSUPPORTED = [
    ('var', 'v'), ('var', 'p:v'),
    ('call', 'id', [('lit', 'x')]),
    ('path', '//', [('/', ('step', None, "processing-instruction('pa')", []))]),
    ('path', '', [('/', ('step', 'child', "processing-instruction('zz')", []))]),
    ('path', '/', [('/', '..')]),                             # parent of the root
    ('path', '//', [('/', ('step', '@', '*', [])), ('/', '..')]),             # parent of an attribute
    ('path', '//', [('/', ('step', 'namespace', '*', [])), ('/', '..')]),
    ('path', '/', [('/', ('step', 'parent', 'node()', []))]),
    ('path', '//', [('/', ('step', '@', '*', [])), ('/', ('step', 'parent', '*', []))]),
    ('path', '//', [('/', ('step', 'namespace', '*', [('root',)]))]),         # absolute path at a namespace node
]

def count_steps(t):
    if isinstance(t, tuple):
        if t and t[0] == 'step':
            return 1 + sum(count_steps(p) for p in t[3])
        return sum(count_steps(x) for x in t[1:])
    if isinstance(t, list):
        return sum(count_steps(x) for x in t)
    return 0

def add_pred_at(t, k, pred):
    """add `pred` to the k-th step (pre-order) of tree t; returns (new tree, remaining k)"""
    if isinstance(t, tuple):
        if t and t[0] == 'step':
            if k == 0:
                return ('step', t[1], t[2], t[3] + [pred]), -1
            k -= 1
            preds = []
            for p in t[3]:
                if k >= 0:
                    p, k = add_pred_at(p, k, pred)
                preds.append(p)
            return ('step', t[1], t[2], preds), k
        out = [t[0]]
        for x in t[1:]:
            if k >= 0 and isinstance(x, (tuple, list)):
                x, k = add_pred_at(x, k, pred)
            out.append(x)
        return tuple(out), k
    if isinstance(t, list):
        out = []
        for x in t:
            if k >= 0 and isinstance(x, (tuple, list)):
                x, k = add_pred_at(x, k, pred)
            out.append(x)
        return out, k
    return t, k

def inject(rng, tree, bad):
    """a tree in which `bad` is evaluated in a (usually nested) predicate position"""
    n = count_steps(tree)
    wrap = rng.random()
    pred = bad
    if wrap < 0.3:
        pred = ('path', '', [('/', ('step', rng.choice([None, 'descendant-or-self', 'ancestor-or-self']), rng.choice(['*', 'node()']), [bad]))])
    elif wrap < 0.45:
        pred = ('bin', rng.choice(['or', 'and', '=']), ('call', rng.choice(['true', 'false']), []), bad)
    elif wrap < 0.55:
        pred = ('filter', ('path', '', [('/', '.')]), [bad], None)
    if n == 0:
        return ('filter', tree, [pred], None) if tree[0] in ('path', 'union', 'filter', 'root') else ('bin', 'or', tree, pred)
    t, _ = add_pred_at(tree, rng.randrange(n), pred)
    return t

# ------------------------------------------------------------------ C06: evaluation is total
def hosts(u):
    """`u` in every syntactic position"""
    a = ('path', '//', [('/', ('step', None, '*', []))])
    yield u
    yield ('path', '//', [('/', ('step', None, '*', [u]))])                                     # predicate
    yield ('path', '//', [('/', ('step', None, '*', [('path', '', [('/', ('step', 'descendant-or-self', 'node()', [u]))])]))])   # nested predicate
    yield ('filter', a, [u], None)                                                              # filter predicate
    yield ('filter', a, [('num', '1'), u], ('/', ('path', '', [('/', ('step', None, '*', [u]))])))
    yield ('call', 'count', [u])
    yield ('call', 'string', [u])
    yield ('call', 'concat', [('lit', 'a'), u])
    yield ('call', 'boolean', [u])
    yield ('call', 'not', [u])
    yield ('call', 'sum', [u])
    yield ('call', 'name', [u])
    yield ('union', a, u)
    yield ('union', u, a)
    yield ('filter', u, [], None)                                                               # parenthesised primary
    yield ('filter', u, [('num', '1')], None)
    yield ('filter', u, [], ('/', ('path', '', [('/', ('step', None, '*', []))])))              # (u)/...
    yield ('filter', u, [], ('//', ('path', '', [('/', ('step', '@', '*', []))])))
    for op in ('=', '!=', '<', '>=', 'or', 'and', '+', '-', '*', 'div', 'mod'):
        yield ('bin', op, u, ('num', '1'))
        yield ('bin', op, a, u)
    yield ('neg', u)
    yield ('path', '//', [('/', ('step', '@', '*', [u]))])
    yield ('path', '//', [('/', ('step', 'namespace', '*', [u]))])                              # context node: namespace node
    yield ('path', '//', [('/', ('step', None, 'text()', [u]))])
    yield ('path', '//', [('/', ('step', 'ancestor-or-self', 'node()', [('num', '1'), u]))])

KIND_DOCS = [
    '<r a="1" xml:lang="en"><!--c--><b x="2">t<![CDATA[cd]]>&amp;u<e/></b><c/>tail</r>',
    '<!DOCTYPE r [<!ATTLIST b dflt CDATA "dv"><!ENTITY e "ent">]><r xmlns:p="urn:p" p:a="1"><b>x&e;y</b><p:c><d id="i"/></p:c></r>',
    '<!--pro--><r xmlns="urn:d"><a><b><c>deep</c></b></a><a/><a>2</a></r><!--epi-->',
    '<r><?pa v?><a/><b/></r>',
    '<?pp v?><r><a/><?pa?><b/><?pb x?><c/></r>',
    '<r><a/><b>x</b><a/><b>y</b><a/><!--c--><!--c-->t<a/>t</r>',
    '<ul><li>x</li><li>y</li><li>x</li><li><i/></li><li><i/></li></ul>',
]
CONTEXT_SELECTORS = ['/', '/*', '//*', '//node()', '//@*', '//namespace::*', '//text()', '//comment()', '//processing-instruction()',
                     '//@*/node()', '/node()', '//*[last()]', '/descendant::node()[1]']
AXIS_TESTS = ['node()', '*', 'text()', 'b', 'comment()', 'processing-instruction()']
VOCAB = ['/', '//', '.', '..', '@', '*', '[', ']', '(', ')', '|', '=', '!=', '<', '>', ',', '::', 'a', 'b', 'p:a', 'child', 'ancestor',
         'text()', 'node()', '1', '2.5', '"s"', "'t'", 'and', 'or', 'div', 'mod', '-', '+', '$v', 'count(', 'id(', 'last()', 'position()',
         'processing-instruction(', 'namespace::', 'following-sibling::', 'preceding::', ' ', '  ']

def totality_cases(rng, n_random, quick=True):
    """(item, stream name) list for the C06 evaluation search"""
    out = []
    # (a) unsupported constructs and errors in every position, on two documents
    for u in UNSUPPORTED + ERRORS:
        hs = list(hosts(u))
        for d in (KIND_DOCS[0], KIND_DOCS[1]):
            for i in range(0, len(hs), 8):
                out.append(({'doc': d, 'exprs': [render(h) for h in hs[i:i + 8]], 'merged': True, 'binds': [('p', 'urn:p')]}, 'unsupported-in-position'))
    # (b) every context-node kind x every axis
    for d in KIND_DOCS:
        for merged in (True, False):
            for sel in CONTEXT_SELECTORS:
                for t in AXIS_TESTS if not quick else AXIS_TESTS[:3]:
                    ex = ['%s/%s::%s' % (sel.rstrip('/') if sel != '/' else '', ax, t) for ax in AXES]
                    ex += ['%s/..' % (sel.rstrip('/') if sel != '/' else ''), 'count(%s/ancestor-or-self::node())' % (sel.rstrip('/') if sel != '/' else '')]
                    out.append(({'doc': d, 'exprs': ex, 'merged': merged, 'binds': []}, 'kind-x-axis'))
    # (c) garbage
    for k in range(n_random // 3):
        doc = rng.choice(KIND_DOCS[:3])
        ex = []
        for _ in range(6):
            s = ''.join(rng.choice(VOCAB) for _ in range(rng.randint(1, 9)))
            if s.count('(') <= 5:
                ex.append(s)
        out.append(({'doc': doc, 'exprs': ex or ['a'], 'merged': True, 'binds': [('p', 'urn:p')]}, 'garbage'))
    # (e) the function library on hostile scalar arguments (out-of-range, negative, NaN, infinite, huge)
    STRS = ["''", "'a'", "'12345'", "'\u00e9\u00e9\u00e9'", "'\U0001F600x'", "string(/*)"]
    NUMS = ['0', '1', '2', '3', '-1', '-100', '1.5', '-0.5', '(0 div 0)', '(1 div 0)', '(-1 div 0)', '1000000000000', '4']
    fam = []
    for st in STRS:
        for n1 in NUMS:
            fam.append('substring(%s, %s)' % (st, n1))
            for n2 in NUMS:
                fam.append('substring(%s, %s, %s)' % (st, n1, n2))
    for n1 in NUMS:
        for fn in ('round', 'floor', 'ceiling', 'string', 'boolean', 'number'):
            fam.append('%s(%s)' % (fn, n1))
        fam.append('(//node())[%s]' % n1)
        fam.append('//*[position() = %s]' % n1)
        fam.append('string-length(substring("abc", %s))' % n1)
    for st in STRS:
        for fn in ('string-length', 'normalize-space', 'number', 'boolean'):
            fam.append('%s(%s)' % (fn, st))
        for st2 in STRS[:4]:
            fam.append('translate(%s, %s, %s)' % (st, st2, STRS[1]))
            for fn in ('contains', 'starts-with', 'substring-before', 'substring-after', 'concat'):
                fam.append('%s(%s, %s)' % (fn, st, st2))
    step = 16 if not quick else 16
    if quick:
        rng.shuffle(fam); fam = fam[:480]
    for i in range(0, len(fam), step):
        out.append(({'doc': KIND_DOCS[0], 'exprs': fam[i:i + step], 'merged': True, 'binds': []}, 'hostile-arguments'))
    # (f) functions that look at DOCUMENT strings (xml:lang values, names, string-values) with non-ASCII and
    # empty strings on both sides: byte-indexed slicing panics when a cut falls inside a multi-byte character
    LANGS = ['\u65e5\u672c\u8a9e', '\u00e9l', 'en-US', 'e', '', 'EN', 'x-\U0001F600', '\u00e9-\u00e9']
    ARGS = ['ja', 'f', 'e', '\u00e9', 'en', '\u65e5', '', 'EN-us', '\u65e5\u672c', 'x', '\U0001F600', 'en-US-x']
    ldoc = '<r>' + ''.join('<l xml:lang="%s" n="%s">%s<m/></l>' % (v, v, v) for v in LANGS) + '</r>'
    fam = []
    for a in ARGS:
        fam.append("//*[lang('%s')]" % a)
        fam.append("count(//m[lang('%s')])" % a)
        fam.append("//l[starts-with(@n, '%s')]" % a)
        fam.append("//l[contains(., '%s')]" % a)
        fam.append("//l[substring-before(@n, '%s') = substring-after(., '%s')]" % (a, a))
        fam.append("//l[translate(@n, '%s', 'xy') = .]" % a)
        fam.append("//l[substring(@n, 2, 1) = '%s']" % a)
        fam.append("//l[string-length(@n) = string-length('%s')]" % a)
        fam.append("//l[normalize-space(.) = '%s']" % a)
    for i in range(0, len(fam), 18):
        out.append(({'doc': ldoc, 'exprs': fam[i:i + 18], 'merged': True, 'binds': []}, 'document-strings'))
    # (g) predicates that are NUMBER LITERALS of every lexical form -- fractions below one, fractions above one, zero,
    # huge, negative, leading / trailing dot -- on steps of every axis and on filter expressions (a positional fast
    # path that casts the number to an index underflows or panics on `a[0.5]`: seeded change W8-C06-2)
    NLITS = ['0', '1', '2', '4', '0.5', '.25', '0.999', '.5', '0.0000001', '1.5', '2.5', '1.0', '2.000', '3.', '0.', '00', '99999999999999999999',
             '4294967296', '18446744073709551616', '-1', '-0.5', '1 div 2', '(0 div 0)', '(1 div 0)', '-(1 div 0)', ' 0.5 ', '0.5 + 0']
    HEADS = ['/r/a', '//*', '/r/*', '//node()', '/r/a/@*', '//text()', '/r/a[2]/preceding-sibling::*', '/r/a/following-sibling::node()',
             '//b/ancestor::*', '//b/ancestor-or-self::node()', '/r/descendant::*', '//b/preceding::*', '/r/a[1]/following::*', '//b/parent::*', '/r/self::*', '(/r/a)', '(//*)']
    gdoc = '<r><a x="1" y="2">t<b/></a><a><b>u</b><b/></a><a/>w<c><a><b/></a></c></r>'
    fam = []
    for h in HEADS:
        for nl in NLITS:
            fam.append('%s[%s]' % (h, nl))
        fam.append('count(%s[0.5])' % h)
        fam.append('%s[0.5][1]' % h)
        fam.append('%s[1][0.5]' % h)
        fam.append('%s[@x][.5]' % h)
    for i in range(0, len(fam), 20):
        out.append(({'doc': gdoc, 'exprs': fam[i:i + 20], 'merged': True, 'binds': []}, 'numeric-literal-predicates'))
    # (d) generated expressions with injected failures, substring() included
    g = Gen(rng, {'substring': 0.3, 'unsupported': 1.0, 'ns_axis': 0.1})
    docs = []
    for k in range(n_random):
        if not docs or rng.random() < 0.4:
            docs.append(gen_doc(rng))
        e = g.any(rng.choice([1, 2, 3]))
        if rng.random() < 0.5:
            e = inject(rng, e, rng.choice(ERRORS + UNSUPPORTED))
        out.append(({'doc': rng.choice(docs[-3:]), 'exprs': [e], 'merged': rng.random() < 0.7, 'binds': [('p', 'urn:p'), ('q', 'urn:q')]}, 'generated'))
    return out

def totality_oracle(case, out, item):
    if out.get('hang'):
        return 'hang'
    if out.get('abort'):
        return 'abort'
    if any(v[0] == 'panic' for v in out.get('R', [])):
        return 'panic'
    return None

def eval_totality(run, n_random=300, isolate_limit=3):
    """the evaluation half of C06: every query returns a value or an error; never panics, never
    loops.  Correspondence with the model on the same cases; panics / hangs of the implementation are
    failing inputs, matched against the known findings D18/D21 (dom) and D30 (scalar library)."""
    stream = totality_cases(run.rng, n_random, quick=(run.tier == 'quick'))
    items = [it for it, _ in stream] + corpus_items('C06')
    res, okm = evaluate(items, isolate_limit=isolate_limit)
    if not okm:
        run.tie_breaks.append('xpath model driver failed on some case')
    failing = []
    for k, (it, r) in enumerate(zip(items, res)):
        name = stream[k][1] if k < len(stream) else 'corpus'
        run.count('stream:' + name)
        account(run, it, r)
        if r['impl'] is None:
            continue
        if not r['dump'].get('D'):
            if r['dump'].get('raw', '').startswith('baddoc'):
                run.count('baddoc')
            continue
        d = compare_model(r)
        if d:
            run.tie_breaks.append('model/implementation: ' + d + ' | doc ' + r['case']['doc'][:200])
        if r['impl'].get('hang'):
            failing.append((it, r, 'hang', 'evaluation does not terminate within 10 s'))
            continue
        if r['impl'].get('abort'):
            failing.append((it, r, 'abort', 'process aborted: ' + r['impl'].get('raw', '')[:100]))
            continue
        for e, v in zip(r['case']['exprs'], r['impl']['R']):
            run.evaluations += 1
            if v[0] != 'err:Syntax':
                run.nontrivial.add((r['case']['doc'], e))
            if v[0] == 'panic':
                failing.append((dict(it, exprs=[e]) if not isinstance(it['doc'], dict) else it, dict(r, case=dict(r['case'], exprs=[e])), 'panic', '%s panics' % e))
                break
    report_failures(run, 'C06', failing, oracle=totality_oracle)
    return {'cases': len(items), 'failing': len(failing)}

# ------------------------------------------------------------------ C06: evaluation cost on adversarial shapes
FINDINGS.update({
    'D62': 'predicates nested d deep, each of which re-selects k nodes, cost k^d evaluations (naive evaluation, no memoisation): //a[//a[//a[..]]] on eight <a/> takes 9 s at depth 6 (40 characters) and x8 per level',
})

def predicate_depth(expr):
    d = best = 0
    q = None
    for c in expr:
        if q:
            if c == q: q = None
        elif c in '"\'': q = c
        elif c == '[':
            d += 1; best = max(best, d)
        elif c == ']':
            d -= 1
    return best

COST_DOC_FLAT = '<r>' + '<a/>' * 8 + '</r>'
COST_DOC_DEEP = '<r><a><a><a><a><a><a/><a/></a><a/></a><a/></a><a/></a><a/></a><a/><b/>t</r>'

def cost_cases(quick=True):
    """(family, document, expression): shapes whose evaluation time must stay polynomial in the expression
    length.  Every family except nested-predicates is linear or quadratic on the repaired tree."""
    out = []
    for k in ((8, 16, 32, 64) if quick else (8, 16, 32, 64, 128, 256)):
        out.append(('parent-child-%d' % k, COST_DOC_FLAT, '/r' + '/a/..' * k))
        out.append(('parent-child-count-%d' % k, COST_DOC_FLAT, 'count(/r' + '/a/..' * k + '/a)'))
    for k in ((4, 8, 16) if quick else (4, 8, 16, 32, 64)):
        out.append(('descendant-ancestor-%d' % k, COST_DOC_DEEP, '/descendant::*/ancestor::*' * k))
        out.append(('sibling-pingpong-%d' % k, COST_DOC_FLAT, '/r/a' + '/following-sibling::a/preceding-sibling::a' * k))
        out.append(('following-preceding-%d' % k, COST_DOC_DEEP, '//a' + '/following::*/preceding::*' * k))
        out.append(('descendant-chain-%d' % k, COST_DOC_DEEP, '/' + '/descendant-or-self::node()' * k))
        out.append(('slashslash-chain-%d' % k, COST_DOC_DEEP, '//*' * k))
        out.append(('filter-pingpong-%d' % k, COST_DOC_FLAT, '(//a)' + '/../a' * k))
        out.append(('union-%d' % k, COST_DOC_DEEP, ' | '.join(['//a/..'] * k)))
    out.append(('nested-predicates-3', COST_DOC_FLAT, '//a[' * 3 + '//a' + ']' * 3))
    out.append(('nested-predicates-8', COST_DOC_FLAT, '//a[' * 8 + '//a' + ']' * 8))
    out.append(('nested-relative-predicates-2', COST_DOC_FLAT, '/r/a[../a[' * 2 + 'a' + ']]' * 2))
    out.append(('nested-relative-predicates-5', COST_DOC_FLAT, '/r/a[../a[' * 5 + 'a' + ']]' * 5))
    return out

def eval_cost(run, limit=10):
    """C06, cost clause, on the real crates only (the model has no notion of time): each case alone in a
    process with a time limit; a case that does not finish is a failing input unless it is an instance of
    the listed finding D62 (predicate nesting >= 4)."""
    timings = run.extra.setdefault('cost_timings', {})
    for name, doc, expr in cost_cases(run.tier == 'quick'):
        case = {'doc': doc, 'exprs': [expr], 'merged': True, 'binds': []}
        t0 = time.time()
        out = run_isolated(case, timeout=limit)
        dt = time.time() - t0
        run.evaluations += 1
        run.nontrivial.add(('cost', name))
        run.count('cost:' + name.rsplit('-', 1)[0])
        cls = 'hang' if out.get('hang') else 'abort' if out.get('abort') else ('panic' if any(v[0] == 'panic' for v in out.get('R', [])) else 'ok')
        timings[name] = {'characters': len(expr), 'seconds': round(dt, 3), 'class': cls}
        if cls == 'ok':
            continue
        if cls == 'hang' and predicate_depth(expr) >= 4 and any(e.get('id') == 'D62' and e.get('kind') == 'finding' for e in lib.known_findings('C06')):
            what, n = run.known_hits.get('D62', (FINDINGS['D62'], 0))
            run.known_hits['D62'] = (what, n + 1)
            continue
        run.failing_inputs.append({'property': 'C06', 'class': cls + ':' + name.rsplit('-', 1)[0],
                                   'what': 'query does not finish within %d s (%s, expression of %d characters)' % (limit, name, len(expr)) if cls == 'hang' else '%s on %s' % (cls, name),
                                   'doc': doc, 'exprs': [expr], 'merged': True, 'binds': []})

# ------------------------------------------------------------------ C05: deviations from XPath 1.0 (classifiers)
FINDINGS.update({
    'D34b': 'string() of negative zero is "-0" (scalar library, C09)',
})

def classify_c05(rows, expr, impl, spec):
    """known deviation that explains `impl != spec` for ONE expression text, or None"""
    f = text_features(expr)
    anomalies = doc_key_anomalies(rows) if rows else set()
    has_dt = any(r['kind'] == 'Dt' for r in rows) if rows else False
    attr_step = ('@' in expr) or ('attribute::' in expr)
    ns_step = 'namespace::' in expr
    if ns_step:
        return 'D19'
    if 'zero-key:At' in anomalies and (attr_step or 'node()' in expr):
        return 'D19'
    if isinstance(impl, str) and isinstance(spec, str) and impl.startswith('s:') and spec.startswith('s:') and \
            impl[2:].replace('45,48', '48') == spec[2:]:
        return 'D34b'
    # a negative zero is converted to a string somewhere INSIDE the expression: needs a syntactic source of -0 AND a
    # string-typed consumer (narrow on purpose: `concat` with a hyphen somewhere is not enough)
    source = re.search(r'-\s*(0+\.?0*|\.0+)(?![0-9.])', expr) or re.search(r'\*\s*-|-\s*\(|div\s*-|\bmod\b|round\s*\(|ceiling\s*\(', expr)
    consumer = re.search(r'\b(string|concat|string-length|contains|starts-with|substring|substring-before|substring-after|normalize-space|translate)\s*\(', expr) \
        or re.search(r'[=<>]\s*["\']|["\']\s*[=<>!]', expr)
    if source and consumer:
        return 'D34b'
    return None
