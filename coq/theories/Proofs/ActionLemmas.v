(** * Equations of [ParseActions.apply_label] on the shapes the grammar produces (each by
    computation on the label; the arguments stay symbolic). *)
From Coq Require Import List NArith Bool.
From XmlRs Require Import Base.CPred Model.Peg Gen.GrammarXmlGen Model.ParseActions.
Import ListNotations.

Lemma all_some_map {A} (f : val -> option A) (g : A -> val) (l : list A) :
  (forall a, f (g a) = Some a) -> all_some (map f (map g l)) = Some l.
Proof.
  intros H. induction l as [|a l IH]; cbn [map all_some]; [reflexivity|]. rewrite H, IH. reflexivity.
Qed.

Lemma as_list_map {A} (f : val -> option A) (g : A -> val) (l : list A) :
  (forall a, f (g a) = Some a) -> as_list f (VList (map g l)) = Some l.
Proof. intros H. cbn [as_list]. apply all_some_map. exact H. Qed.

Lemma al_attribute n (l : list att_value) :
  apply_label L_model_Attribute_from (VPair (VAttName n) (VList (map VAttValue l))) = VAttribute (Attribute n l).
Proof.
  change (apply_label L_model_Attribute_from (VPair (VAttName n) (VList (map VAttValue l))))
    with (ret (fun a' => VAttribute (Attribute n a')) (as_list as_attvalue (VList (map VAttValue l)))).
  rewrite as_list_map by reflexivity. reflexivity.
Qed.

Lemma al_element n (l : list attribute) :
  apply_label L_model_Element_from (VPair (VQName n) (VList (map VAttribute l))) = VElement (Element n l None).
Proof.
  change (apply_label L_model_Element_from (VPair (VQName n) (VList (map VAttribute l))))
    with (ret (fun a' => VElement (Element n a' None)) (as_list as_attribute (VList (map VAttribute l)))).
  rewrite as_list_map by reflexivity. reflexivity.
Qed.

Definition val_cell (c : cell) : val := VPair (VContents (fst c)) (VSome (VStr (match snd c with Some t => t | None => [] end))).

Lemma as_cell_val (c : contents) (t : str) : as_cell (VPair (VContents c) (VSome (VStr t))) = Some (c, Some t).
Proof. reflexivity. Qed.

Lemma al_content (h : str) (cs : list (contents * str)) :
  apply_label L_closure_11e3fda0
    (VPair (VSome (VStr h)) (VList (map (fun c => VPair (VContents (fst c)) (VSome (VStr (snd c)))) cs)))
  = VContent (Some h, map (fun c => (fst c, Some (snd c))) cs).
Proof.
  change (apply_label L_closure_11e3fda0 (VPair (VSome (VStr h)) (VList (map (fun c => VPair (VContents (fst c)) (VSome (VStr (snd c)))) cs))))
    with (match as_opt as_str (VSome (VStr h)), as_list as_cell (VList (map (fun c => VPair (VContents (fst c)) (VSome (VStr (snd c)))) cs)) with
          | Some h', Some c' => VContent (h', c') | _, _ => VBad end).
  assert (as_list as_cell (VList (map (fun c : contents * str => VPair (VContents (fst c)) (VSome (VStr (snd c)))) cs))
          = Some (map (fun c => (fst c, Some (snd c))) cs)) as ->.
  { cbn [as_list]. induction cs as [|[c t] cs IH]; cbn [map all_some fst snd]; [reflexivity|].
    rewrite as_cell_val, IH. reflexivity. }
  reflexivity.
Qed.

Lemma al_set_content (s : element) (c : content) (v : val) :
  apply_label L_closure_f7047233 (VPair (VElement s) (VPair (VContent c) v)) = VElement (set_content s c).
Proof. reflexivity. Qed.
