(** * What the Rust code does for character data (dom/src/lib.rs, info/src/lib.rs).

    Function by function, with [usize] arithmetic made explicit.  Strings are [list N] (the
    Rust code goes through [chars()] everywhere, so positions are characters; the harness
    checks that on multi-byte input).  [usize] is [N] below [2^64].

    Two versions of the code are modelled:
    - [Pinned]: the tree as found (defect D47): [offset + count] is an unchecked [usize]
      addition (panics in the debug profile, wraps in the release profile) and [delete_data]
      refuses a count that runs past the end; the validity check looks at the inserted
      FRAGMENT only, [delete_data] checks nothing, and [replace_data] is [delete_data] followed by
      [insert_data] (defects D39, D46 of properties C13 / C15);
    - [Repaired]: after the `fix:` commits (saturating addition, only [offset > length] is an
      error; one primitive [replace_char_range] that validates the RESULTING string and changes
      nothing when it is refused).  This is the code the correspondence check runs against.

    No proofs here. *)
From Coq Require Import List NArith Bool.
From XmlRs Require Import Base.CPred Base.NList Spec.DomCharData.
Import ListNotations.
Open Scope N_scope.

(** ** usize *)
Definition usize_max : N := 18446744073709551615.          (* 2^64 - 1 *)
Definition usize_mod : N := 18446744073709551616.

Inductive version := Pinned | Repaired.
Inductive profile := Debug | Release.                       (* overflow-checks on / off *)

(** [a + b] on usize: [None] is the overflow panic of the debug profile *)
Definition usize_add (p : profile) (a b : N) : option N :=
  match p with
  | Debug => if a + b <=? usize_max then Some (a + b) else None
  | Release => Some ((a + b) mod usize_mod)
  end.

(** [a - b] on usize *)
Definition usize_sub (p : profile) (a b : N) : option N :=
  match p with
  | Debug => if b <=? a then Some (a - b) else None
  | Release => Some ((a + usize_mod - b) mod usize_mod)
  end.

Definition saturating_add (a b : N) : N := N.min (a + b) usize_max.

(** the expression [offset + count] / [s + count] of the pinned code, which the repaired code
    writes [offset.saturating_add(count)] *)
Definition add_site (v : version) (p : profile) (a b : N) : option N :=
  match v with
  | Pinned => usize_add p a b
  | Repaired => Some (saturating_add a b)
  end.

(** ** results *)
Inductive mres :=
| MDone (v : value) (st : cdstate)
| MRaised (e : exc) (st : cdstate)
| MInvalidArg (st : cdstate)          (* Error::Info(InvalidData | Parse): the fragment was refused *)
| MNotOffered (st : cdstate)
| MPanic.

(** result of the info-level editors *)
Inductive ires (A : Type) := IOk (a : A) | IInvalid | IPanic.
Arguments IOk {A} a. Arguments IInvalid {A}. Arguments IPanic {A}.

(** ** info/src/lib.rs *)

(** [fn len]: [self.text.chars().count()] *)
Definition info_len (s : str) : N := len s.

(** [fn substring(range)]: [chars().skip(range.start).take(range.end - range.start).collect()] *)
Definition info_substring (p : profile) (s : str) (start end_ : N) : ires str :=
  match usize_sub p end_ start with
  | Some n => IOk (take n (drop start s))
  | None => IPanic
  end.

(** [fn delete_char_range(value, offset, count)]:
    [s = if offset < len { offset } else { len }],
    pinned:   [e = if s + count < len { s + count } else { len }]  (unchecked [s + count]),
    repaired: [e = s.saturating_add(count).min(len)],
    then [chars.drain(s..e)]; [Vec::drain] panics when [s > e] or [e > len] in every profile *)
Definition delete_char_range (v : version) (p : profile) (s : str) (offset count : N) : ires str :=
  let n := len s in
  let a := if offset <? n then offset else n in
  match add_site v p a count with
  | None => IPanic
  | Some sum =>
      let e := if sum <? n then sum else n in
      if (e <? a) || (n <? e) then IPanic
      else IOk (take a s ++ drop e s)
  end.

(** the validity checks handed to [insert_char_at]; each runs the real parser on the
    *fragment* ([xml_parser::content], [comment] on "<!--s-->", [cdsect] on "<![CDATA[s]]>")
    and requires that everything is consumed (and, for text, that no child is produced).
    What those parsers accept, as predicates on the fragment: *)
Definition is_xml_char (c : N) : bool :=
  (c =? 9) || (c =? 10) || (c =? 13) || ((32 <=? c) && (c <=? 55295))
  || ((57344 <=? c) && (c <=? 65533)) || ((65536 <=? c) && (c <=? 1114111)).

Fixpoint prefix_of (p s : str) : bool :=
  match p, s with
  | [], _ => true
  | _ :: _, [] => false
  | a :: p', b :: s' => (a =? b) && prefix_of p' s'
  end.

Fixpoint has_sub (p s : str) : bool :=
  prefix_of p s || match s with [] => false | _ :: s' => has_sub p s' end.

Definition has_cdend (s : str) : bool := has_sub [93; 93; 62] s.        (* contains "]]>" *)
Definition has_double_hyphen (s : str) : bool := has_sub [45; 45] s.     (* contains "--" *)

Fixpoint ends_with_hyphen (s : str) : bool :=
  match s with
  | [] => false
  | [c] => c =? 45
  | _ :: t => ends_with_hyphen t
  end.

Definition check_text (s : str) : bool :=
  forallb (fun c => is_xml_char c && negb (c =? 60) && negb (c =? 38)) s && negb (has_cdend s).

Definition check_comment (s : str) : bool :=
  forallb is_xml_char s && negb (has_double_hyphen s) && negb (ends_with_hyphen s).

Definition check_cdata (s : str) : bool :=
  forallb is_xml_char s && negb (has_cdend s).

Definition check (k : kind) (s : str) : bool :=
  match k with
  | KText | KExpanded => check_text s
  | KComment => check_comment s
  | KCData => check_cdata s
  end.

(** [fn insert_char_at(value, offset, new, check)]: [index = min offset len]; glue; the pinned code
    checks the fragment [new], the repaired code the resulting string; [Err(InvalidData)] when the
    check fails (a parser error inside [check] surfaces as [Err(Parse)]: same class for the harness) *)
Definition insert_char_at (v : version) (k : kind) (s : str) (offset : N) (new : str) : ires str :=
  let n := len s in
  let index := if offset <? n then offset else n in
  let r := take index s ++ new ++ drop index s in
  if check k (match v with Pinned => new | Repaired => r end) then IOk r else IInvalid.

(** [fn replace_char_range(value, offset, count, new, check)] (repaired code only): delete the range,
    insert, validate the result; nothing is changed when it is refused *)
Definition replace_char_range (p : profile) (k : kind) (s : str) (offset count : N) (new : str) : ires str :=
  match delete_char_range Repaired p s offset count with
  | IOk d => insert_char_at Repaired k d offset new
  | e => e
  end.

(** [fn split_at(offset)]: at [min offset len]; the tail becomes a new node *)
Definition info_split_at (s : str) (offset : N) : str * str :=
  let n := len s in
  let at_ := if offset <? n then offset else n in
  (take at_ s, drop at_ s).

(** ** dom/src/lib.rs *)

Definition with_data (st : cdstate) (d : str) : cdstate := St d (following st).

(** [fn length] *)
Definition m_length (st : cdstate) : N := info_len (data st).

(** [fn substring_data(offset, count)]:
    [if self.length() < offset { Err(IndexSizeErr) } else { Ok(substring(offset..(offset + count))) }];
    [XmlExpandedText] has its own [chars().skip(offset).take(count)] without arithmetic *)
Definition m_substring_data (v : version) (p : profile) (k : kind) (st : cdstate) (offset count : N) : mres :=
  let s := data st in
  if m_length st <? offset then MRaised IndexSizeErr st
  else match k with
       | KExpanded => MDone (VStr (take count (drop offset s))) st
       | _ =>
           match add_site v p offset count with
           | None => MPanic
           | Some e =>
               match info_substring p s offset e with
               | IOk r => MDone (VStr r) st
               | _ => MPanic
               end
           end
       end.

(** [fn insert_data(offset, arg)] *)
Definition m_insert_data (v : version) (k : kind) (st : cdstate) (offset : N) (arg : str) : mres :=
  if m_length st <? offset then MRaised IndexSizeErr st
  else match insert_char_at v k (data st) offset arg with
       | IOk d => MDone VUnit (with_data st d)
       | IInvalid => MInvalidArg st
       | IPanic => MPanic
       end.

(** the repaired [replace_data] of the three node types: [length < offset] is the only DOM error,
    then [replace(offset, count, arg)] on the info node *)
Definition m_edit_data (p : profile) (k : kind) (st : cdstate) (offset count : N) (arg : str) : mres :=
  if m_length st <? offset then MRaised IndexSizeErr st
  else match replace_char_range p k (data st) offset count arg with
       | IOk d => MDone VUnit (with_data st d)
       | IInvalid => MInvalidArg st
       | IPanic => MPanic
       end.

(** [fn delete_data(offset, count)]: the pinned code tests [length < offset + count] and deletes
    unchecked; the repaired code tests [length < offset] and goes through [replace(offset, count, "")] *)
Definition m_delete_data (v : version) (p : profile) (k : kind) (st : cdstate) (offset count : N) : mres :=
  match v with
  | Pinned =>
    match usize_add p offset count with
    | None => MPanic
    | Some b =>
        if m_length st <? b then MRaised IndexSizeErr st
        else match delete_char_range v p (data st) offset count with
             | IOk d => MDone VUnit (with_data st d)
             | _ => MPanic
             end
    end
  | Repaired => m_edit_data p k st offset count []
  end.

(** [fn replace_data]: pinned = trait default [self.delete_data(offset, count)?; self.insert_data(offset, arg)]
    -- when the insertion is refused the deletion has already happened (D39); repaired = one edit *)
Definition m_replace_data (v : version) (p : profile) (k : kind) (st : cdstate) (offset count : N) (arg : str) : mres :=
  match v with
  | Pinned =>
    match m_delete_data v p k st offset count with
    | MDone _ st' => m_insert_data v k st' offset arg
    | r => r
    end
  | Repaired => m_edit_data p k st offset count arg
  end.

(** trait default [fn set_data]: [self.replace_data(0, self.length(), data)] *)
Definition m_set_data (v : version) (p : profile) (k : kind) (st : cdstate) (arg : str) : mres :=
  m_replace_data v p k st 0 (m_length st) arg.

(** trait default [fn append_data]: [self.insert_data(self.length(), arg)] *)
Definition m_append_data (v : version) (k : kind) (st : cdstate) (arg : str) : mres :=
  m_insert_data v k st (m_length st) arg.

(** [fn split_text(offset)] for a node whose parent is an element: [split_at], then
    [insert_after(tail, self)] on the parent *)
Definition m_split_text (st : cdstate) (offset : N) : mres :=
  if m_length st <? offset then MRaised IndexSizeErr st
  else let '(a, b) := info_split_at (data st) offset in
       MDone (VNode b true) (St a (b :: following st)).

(** which traits each type implements *)
Definition implemented (k : kind) (c : call) : bool :=
  match k, c with
  | KExpanded, (Length | Substring _ _) => true
  | KExpanded, _ => false
  | KComment, Split _ => false
  | _, _ => true
  end.

Definition model_call_v (v : version) (p : profile) (k : kind) (st : cdstate) (c : call) : mres :=
  if negb (implemented k c) then MNotOffered st else
  match c with
  | Length => MDone (VNum (m_length st)) st
  | Substring off cnt => m_substring_data v p k st off cnt
  | Append arg => m_append_data v k st arg
  | Insert off arg => m_insert_data v k st off arg
  | Delete off cnt => m_delete_data v p k st off cnt
  | Replace off cnt arg => m_replace_data v p k st off cnt arg
  | SetData arg => m_set_data v p k st arg
  | Split off => m_split_text st off
  end.

Definition mstate_of (r : mres) : option cdstate :=
  match r with
  | MDone _ st | MRaised _ st | MInvalidArg st | MNotOffered st => Some st
  | MPanic => None
  end.

(** a history of calls; a panic ends it *)
Fixpoint model_run_v (v : version) (p : profile) (k : kind) (st : cdstate) (cs : list call) : list mres :=
  match cs with
  | [] => []
  | c :: cs' =>
      let r := model_call_v v p k st c in
      r :: match mstate_of r with
           | Some st' => model_run_v v p k st' cs'
           | None => []
           end
  end.

(** the code under verification: repaired, debug profile (what the harness builds) *)
Definition model_call := model_call_v Repaired Debug.
Definition model_run := model_run_v Repaired Debug.
Definition model_cd (k : kind) (s : str) (op : opname) (off cnt : N) (arg : str) : mres :=
  model_call k (St s []) (mk_call op off cnt arg).

(** the tree as found *)
Definition pinned_call := model_call_v Pinned.
Definition pinned_cd (p : profile) (k : kind) (s : str) (op : opname) (off cnt : N) (arg : str) : mres :=
  pinned_call p k (St s []) (mk_call op off cnt arg).

(** decoding of the `M-<k>` tokens of the case protocol *)
Definition usize_max_minus (k : N) : N := usize_max - k.
