(** C09: the conversions.  [boolean()], [string()] and, the long one, [number()] of a string:
    the repaired Rust code (trim, strip the minus sign, check the characters, then
    [str::parse::<f64>]) computes exactly the XPath 1.0 string-to-number conversion
    ([S? '-'? Number S?], anything else NaN) for EVERY string. *)
From Coq Require Import ZArith NArith List Bool Lia.
From Coq Require Import Floats.SpecFloat.
From XmlRs Require Import Base.CPred Base.Float64 Spec.XPathCore Model.XPathFuncs
  Proofs.XPathFuncsTable Proofs.XPathFuncsStr.
Import ListNotations.
Open Scope N_scope.

(** ** boolean *)
Lemma to_bool_refines v : model_to_bool v = xp_boolean v.
Proof.
  destruct v as [b|x|s|l]; cbn [model_to_bool xp_boolean]; try reflexivity.
  - destruct x as [s|s| |s m e]; try reflexivity; destruct s; reflexivity.
  - now destruct s.
  - now destruct l.
Qed.

(** ** string: equal except that the implementation prints negative zero as "-0" (finding D34b) *)
Definition is_negzero (v : value) : bool :=
  match v with VNum (S754_zero true) => true | _ => false end.

Lemma to_string_refines v : is_negzero v = false -> model_to_string v = xp_string v.
Proof.
  destruct v as [b|x|s|l]; cbn [model_to_string xp_string is_negzero]; try reflexivity.
  destruct x as [s|s| |s m e]; cbn [rust_f64_to_string xp_number_to_string]; try reflexivity.
  - destruct s; [discriminate|reflexivity].
  - destruct s; reflexivity.
Qed.

(** ** number of a string *)

(** character classes *)
Lemma ws_cases c : is_ws c = true -> c = 32 \/ c = 9 \/ c = 13 \/ c = 10.
Proof.
  unfold is_ws. rewrite !orb_true_iff, !N.eqb_eq. intros [[[H|H]|H]|H]; subst; auto.
Qed.

Lemma ws_not_digit c : is_ws c = true -> is_digit c = false.
Proof. intros H. destruct (ws_cases c H) as [->|[->|[->| ->]]]; reflexivity. Qed.
Lemma ws_not_dot c : is_ws c = true -> (c =? 46) = false.
Proof. intros H. destruct (ws_cases c H) as [->|[->|[->| ->]]]; reflexivity. Qed.
Lemma ws_not_minus c : is_ws c = true -> (c =? 45) = false.
Proof. intros H. destruct (ws_cases c H) as [->|[->|[->| ->]]]; reflexivity. Qed.
Lemma digit_not_dot c : is_digit c = true -> (c =? 46) = false.
Proof.
  unfold is_digit. rewrite andb_true_iff, !N.leb_le. intros [H1 H2]. apply N.eqb_neq. lia.
Qed.
Lemma digit_le c : is_digit c = true -> 48 <= c <= 57.
Proof. unfold is_digit. rewrite andb_true_iff, !N.leb_le. tauto. Qed.

(** [span] and [drop_while] *)
Lemma span_app_stop (p : char -> bool) b : (match b with [] => True | c :: _ => p c = false end) ->
  forall a, span p (a ++ b) = (fst (span p a), snd (span p a) ++ b).
Proof.
  intros Hb. induction a as [|c a IH]; cbn [app span].
  - destruct b as [|c b]; [reflexivity|]. cbn [span]. now rewrite Hb.
  - destruct (p c); [|reflexivity]. rewrite IH. destruct (span p a). reflexivity.
Qed.

Lemma span_spec (p : char -> bool) : forall s,
  s = fst (span p s) ++ snd (span p s) /\ forallb p (fst (span p s)) = true /\
  match snd (span p s) with [] => True | c :: _ => p c = false end.
Proof.
  induction s as [|c s (IH1 & IH2 & IH3)]; cbn [span]; [cbn; auto|].
  destruct (p c) eqn:Hp.
  - destruct (span p s) as [a b]. cbn [fst snd app forallb] in *. rewrite Hp, IH2. repeat split; [now f_equal|assumption].
  - cbn [fst snd app forallb]. auto.
Qed.

Lemma span_all (p : char -> bool) s : forallb p s = true -> span p s = (s, []).
Proof.
  induction s as [|c s IH]; cbn [forallb span]; [reflexivity|].
  rewrite andb_true_iff. intros [-> H]. now rewrite IH.
Qed.

Lemma drop_while_split (p : char -> bool) : forall s,
  exists a, s = a ++ drop_while p s /\ forallb p a = true /\
            match drop_while p s with [] => True | c :: _ => p c = false end.
Proof.
  induction s as [|c s (a & H1 & H2 & H3)]; cbn [drop_while].
  - exists []. auto.
  - destruct (p c) eqn:Hp.
    + exists (c :: a). cbn [app forallb]. rewrite Hp, H2. repeat split; [now f_equal|assumption].
    + exists []. cbn [app forallb]. auto.
Qed.

Lemma forallb_rev (p : char -> bool) s : forallb p (rev s) = forallb p s.
Proof.
  induction s as [|c s IH]; [reflexivity|]. cbn [rev]. rewrite forallb_app, IH. cbn [forallb].
  rewrite andb_true_r. apply andb_comm.
Qed.

(** a string none of whose non-empty suffixes is all white space: what [trim_matches] returns *)
Definition no_ws_tail (t : str) : Prop :=
  forall a r, t = a ++ r -> r <> [] -> all_ws r = false.

Lemma trim_spec s :
  exists w2, drop_while is_ws s = rs_trim_matches is_ws s ++ w2 /\ all_ws w2 = true /\
             no_ws_tail (rs_trim_matches is_ws s).
Proof.
  unfold rs_trim_matches. set (u := drop_while is_ws s).
  destruct (drop_while_split is_ws (rev u)) as (a & H1 & H2 & H3).
  exists (rev a). repeat split.
  - rewrite <- rev_app_distr, <- H1. now rewrite rev_involutive.
  - unfold all_ws. now rewrite forallb_rev.
  - intros a' r Ht Hr. destruct (drop_while is_ws (rev u)) as [|x d]; cbn [rev] in Ht.
    + destruct a'; [cbn in Ht; subst; now elim Hr|discriminate].
    + (* t = rev d ++ [x] with x not white space; r is a non-empty suffix, so it ends with x *)
      destruct (exists_last Hr) as (r' & y & ->).
      rewrite app_assoc in Ht. apply app_inj_tail in Ht as [_ <-].
      unfold all_ws. rewrite forallb_app. cbn [forallb]. rewrite H3, andb_false_r. reflexivity.
Qed.

(** ** the two parsers on a trimmed string *)

Lemma strip_char_app (c : char) (t w2 : str) :
  (match w2 with [] => True | x :: _ => (x =? c) = false end) ->
  strip_char c (t ++ w2) = (fst (strip_char c t), snd (strip_char c t) ++ w2).
Proof.
  intros Hw. destruct t as [|x t]; cbn [app strip_char fst snd].
  - destruct w2 as [|y w]; [reflexivity|]. cbn [strip_char]. now rewrite Hw.
  - destruct (x =? c); reflexivity.
Qed.

Lemma strip_char_spec (c : char) (s : str) :
  (fst (strip_char c s) = true /\ s = c :: snd (strip_char c s)) \/
  (fst (strip_char c s) = false /\ snd (strip_char c s) = s /\
   match s with [] => True | x :: _ => (x =? c) = false end).
Proof.
  destruct s as [|x t]; cbn [strip_char]; [right; auto|].
  destruct (N.eqb_spec x c) as [->|Hx]; cbn [fst snd]; [left; auto|right].
  auto.
Qed.

(** the part of [xp_parse_number] after the leading white space *)
Definition core_spec (s1 : str) : option (bool * Z * Z) :=
  let '(neg, s2) := strip_char 45 s1 in
  let '(ip, s3) := span is_digit s2 in
  let '(dot, s4) := strip_char 46 s3 in
  if dot then
    let '(fp, s5) := span is_digit s4 in
    if all_ws s5 && (nonempty ip || nonempty fp)
    then Some (neg, digits_val (ip ++ fp), (- Z.of_nat (List.length fp))%Z)
    else None
  else
    if all_ws s3 && nonempty ip then Some (neg, digits_val ip, 0%Z) else None.

Lemma xp_parse_number_core s : xp_parse_number s = core_spec (drop_while is_ws s).
Proof. reflexivity. Qed.

Definition value_of (r : option (bool * Z * Z)) : f64 :=
  match r with Some (neg, D, k) => f64_of_decimal neg D k | None => f64_nan end.

(** the part of [m_string_to_number] after [trim_matches] *)
Definition number_ok (n : str) : bool :=
  forallb (fun c => rs_is_ascii_digit c || (c =? 46)) n
  && existsb rs_is_ascii_digit n
  && Nat.leb (List.length (filter (fun c => c =? 46) n)) 1.

Definition core_model (t : str) : f64 :=
  if number_ok (rs_strip_prefix_or 45 t)
  then match rust_parse_f64 t with Some x => x | None => f64_nan end
  else f64_nan.

Lemma m_string_to_number_core v : m_string_to_number v = core_model (rs_trim_matches is_ws v).
Proof. reflexivity. Qed.

(** facts about [number_ok] *)
Lemma number_ok_bad_char a c r :
  is_digit c = false -> (c =? 46) = false -> number_ok (a ++ c :: r) = false.
Proof.
  intros H1 H2. unfold number_ok. rewrite forallb_app. cbn [forallb].
  change rs_is_ascii_digit with is_digit. rewrite H1, H2. cbn [orb andb]. now rewrite andb_false_r.
Qed.

Lemma count_dots_digits (a : list N) : forallb is_digit a = true -> @filter N (fun c : N => N.eqb c 46) a = [].
Proof.
  induction a as [|c a IH]; cbn [forallb filter]; [reflexivity|].
  rewrite andb_true_iff. intros [H1 H2]. rewrite (digit_not_dot c H1). auto.
Qed.

Lemma number_ok_two_dots ip fp r :
  forallb is_digit ip = true -> forallb is_digit fp = true ->
  number_ok (ip ++ 46 :: fp ++ 46 :: r) = false.
Proof.
  intros H1 H2. unfold number_ok. change char with N.
  rewrite !filter_app. cbn [filter]. rewrite N.eqb_refl. rewrite !filter_app. cbn [filter]. rewrite N.eqb_refl.
  rewrite (count_dots_digits ip H1), (count_dots_digits fp H2). cbn [app List.length].
  destruct (filter _ r); cbn [List.length Nat.leb]; now rewrite andb_false_r.
Qed.

Lemma forallb_digit_or_dot a : forallb is_digit a = true ->
  forallb (fun c => rs_is_ascii_digit c || (c =? 46)) a = true.
Proof.
  induction a as [|c a IH]; cbn [forallb]; [reflexivity|]. rewrite andb_true_iff. intros [H1 H2].
  rewrite (IH H2). change (rs_is_ascii_digit c) with (is_digit c). now rewrite H1.
Qed.

Lemma existsb_digit a : forallb is_digit a = true -> existsb rs_is_ascii_digit a = nonempty a.
Proof.
  destruct a as [|c a]; [reflexivity|]. cbn [forallb existsb nonempty]. rewrite andb_true_iff.
  intros [H _]. change rs_is_ascii_digit with is_digit. now rewrite H.
Qed.

(** [number_ok] on the two shapes without a stray character *)
Lemma number_ok_digits ip : forallb is_digit ip = true -> number_ok ip = nonempty ip.
Proof.
  intros H. unfold number_ok. rewrite (forallb_digit_or_dot _ H), (existsb_digit _ H). change char with N. rewrite (count_dots_digits _ H).
  cbn [List.length Nat.leb]. now rewrite andb_true_r.
Qed.

Lemma number_ok_dot ip fp : forallb is_digit ip = true -> forallb is_digit fp = true ->
  number_ok (ip ++ 46 :: fp) = nonempty ip || nonempty fp.
Proof.
  intros H1 H2. unfold number_ok. rewrite forallb_app, existsb_app, filter_app.
  cbn [forallb existsb filter]. rewrite N.eqb_refl.
  rewrite (forallb_digit_or_dot _ H1), (forallb_digit_or_dot _ H2), (existsb_digit _ H1), (existsb_digit _ H2).
  change char with N. rewrite (count_dots_digits _ H1), (count_dots_digits _ H2). cbn [app List.length Nat.leb].
  rewrite orb_true_r. cbn [andb]. rewrite andb_true_r.
  replace (rs_is_ascii_digit 46) with false by reflexivity. reflexivity.
Qed.

(** [rust_parse_f64] on the shapes the check lets through *)
Lemma lower_digit_or_dot c : is_digit c = true \/ c = 46 -> rs_lower c = c /\ c <> 105 /\ c <> 110 /\ c <> 45 /\ c <> 43.
Proof.
  intros [H| ->]; [|repeat split; discriminate]. apply digit_le in H. unfold rs_lower.
  destruct (N.leb_spec 65 c); [lia|]. cbn [andb]. repeat split; lia.
Qed.

Lemma not_inf_nan c n : is_digit c = true \/ c = 46 ->
  str_eqb (map rs_lower (c :: n)) lit_inf || str_eqb (map rs_lower (c :: n)) lit_infinity = false /\
  str_eqb (map rs_lower (c :: n)) lit_nan = false.
Proof.
  intros H. destruct (lower_digit_or_dot c H) as (Hl & H1 & H2 & _). cbn [map]. rewrite Hl.
  unfold lit_inf, lit_infinity, lit_nan. cbn [str_eqb].
  apply N.eqb_neq in H1, H2. rewrite H1, H2. auto.
Qed.

Definition with_sign (neg : bool) (n : str) : str := if neg then 45 :: n else n.

(** a string [-?ip(.fp)?] with at least one digit parses to the expected decimal *)
Lemma parse_shape (neg : bool) (ip fp : str) (hasdot : bool) :
  forallb is_digit ip = true -> forallb is_digit fp = true -> ip ++ fp <> [] ->
  (hasdot = false -> fp = []) ->
  rust_parse_f64 (with_sign neg (ip ++ (if hasdot then 46 :: fp else []))) =
  Some (f64_of_decimal neg (digits_val (ip ++ fp)) (- Z.of_nat (List.length fp))%Z).
Proof.
  intros Hip Hfp Hne Hnd. set (n := ip ++ (if hasdot then 46 :: fp else [])).
  assert (Hfirst : exists c n', n = c :: n' /\ (is_digit c = true \/ c = 46)).
  { unfold n. destruct ip as [|c ip].
    - destruct hasdot; [|now rewrite (Hnd eq_refl) in Hne]. cbn [app]. exists 46, fp. auto.
    - cbn [app forallb] in *. apply andb_true_iff in Hip as [Hc _]. eexists c, _. auto. }
  destruct Hfirst as (c & n' & Hcn & Hc).
  assert (Hstrip : rust_sign (with_sign neg n) = (neg, n)).
  { destruct neg; cbn [with_sign rust_sign]; [reflexivity|].
    rewrite Hcn. cbn [rust_sign]. destruct (lower_digit_or_dot c Hc) as (_ & _ & _ & H45 & H43).
    apply N.eqb_neq in H45, H43. now rewrite H45, H43. }
  unfold rust_parse_f64. rewrite Hstrip.
  destruct (not_inf_nan c n' Hc) as [Hi Hna]. rewrite <- Hcn in Hi, Hna. rewrite Hi, Hna.
  change rs_is_ascii_digit with is_digit. unfold n.
  destruct hasdot.
  - rewrite (span_app_stop is_digit (46 :: fp) eq_refl ip). rewrite (span_all _ _ Hip). cbn [fst snd app strip_char].
    rewrite N.eqb_refl. rewrite (span_all _ _ Hfp).
    destruct (ip ++ fp) eqn:E; [now elim Hne|]. reflexivity.
  - rewrite (Hnd eq_refl) in *. rewrite app_nil_r in *. rewrite (span_all _ _ Hip). cbn [strip_char].
    destruct ip as [|d ip]; [now elim Hne|]. cbn [app]. rewrite app_nil_r. reflexivity.
Qed.

(** the main lemma: on a trimmed string followed by white space, both agree *)
Lemma core_agree t w2 :
  no_ws_tail t -> all_ws w2 = true -> value_of (core_spec (t ++ w2)) = core_model t.
Proof.
  intros Ht Hw.
  assert (Hw_hd : forall (p : char -> bool), (forall c, is_ws c = true -> p c = false) ->
                  match w2 with [] => True | x :: _ => p x = false end).
  { intros p Hp. destruct w2 as [|x w]; [exact I|]. apply Hp. cbn [all_ws forallb] in Hw.
    now apply andb_true_iff in Hw as [H _]. }
  unfold core_spec, core_model.
  (* the sign *)
  rewrite (strip_char_app 45 t w2 (Hw_hd (fun x => x =? 45) ws_not_minus)).
  set (neg := fst (strip_char 45 t)). set (n := snd (strip_char 45 t)).
  assert (Hn_strip : rs_strip_prefix_or 45 t = n).
  { unfold n, rs_strip_prefix_or, strip_char. destruct t as [|x t']; [reflexivity|]. now destruct (x =? 45). }
  assert (Htn : t = with_sign neg n).
  { unfold neg, n, with_sign. destruct (strip_char_spec 45 t) as [[-> H]|[-> [H _]]]; [exact H|now rewrite H]. }
  assert (Hn_tail : no_ws_tail n).
  { intros a r Hn Hr. apply (Ht (if neg then 45 :: a else a) r); [|assumption].
    rewrite Htn. unfold with_sign. destruct neg; rewrite Hn; reflexivity. }
  rewrite Hn_strip.
  (* integer digits, then the rest r1 *)
  destruct (span_spec is_digit n) as (Hn & Hip & Hr1).
  set (ip := fst (span is_digit n)) in *. set (r1 := snd (span is_digit n)) in *.
  assert (Hspan_gen : forall a, span is_digit (a ++ w2) = (fst (span is_digit a), snd (span is_digit a) ++ w2)).
  { intros a. apply span_app_stop. exact (Hw_hd is_digit ws_not_digit). }
  rewrite (Hspan_gen n). fold ip r1.
  rewrite (strip_char_app 46 r1 w2 (Hw_hd (fun x => x =? 46) ws_not_dot)).
  assert (Hall : forall a r, n = a ++ r -> all_ws (r ++ w2) = negb (nonempty r)).
  { intros a r Ha. destruct r as [|x r']; [exact Hw|]. unfold all_ws. rewrite forallb_app.
    change (forallb is_ws (x :: r')) with (all_ws (x :: r')).
    rewrite (Hn_tail a (x :: r') Ha) by discriminate. reflexivity. }
  destruct (strip_char_spec 46 r1) as [[Hdot Hr1eq]|[Hdot [Hr1eq Hr1hd]]]; rewrite Hdot.
  - (* a dot: fraction digits fp, then r2 *)
    set (r1' := snd (strip_char 46 r1)) in *.
    destruct (span_spec is_digit r1') as (Hr1' & Hfp & Hr2).
    rewrite (Hspan_gen r1').
    set (fp := fst (span is_digit r1')) in *. set (r2 := snd (span is_digit r1')) in *.
    assert (Hnshape : n = (ip ++ 46 :: fp) ++ r2).
    { rewrite Hn, Hr1eq, Hr1'. now rewrite <- app_assoc. }
    rewrite (Hall _ _ Hnshape).
    destruct r2 as [|c2 r2'] eqn:Er2.
    + rewrite app_nil_r in Hnshape. cbn [nonempty negb andb].
      rewrite Hnshape, (number_ok_dot ip fp Hip Hfp).
      destruct (nonempty ip || nonempty fp) eqn:Hne; [|reflexivity].
      cbn [value_of]. rewrite Htn, Hnshape.
      rewrite (parse_shape neg ip fp true Hip Hfp); [reflexivity| |discriminate].
      intros E. apply app_eq_nil in E as [-> ->]. discriminate.
    + cbn [nonempty negb andb value_of].
      replace (number_ok n) with false; [reflexivity|]. symmetry. rewrite Hnshape.
      destruct (N.eqb_spec c2 46) as [->|Hc2].
      * rewrite <- app_assoc. cbn [app]. now apply number_ok_two_dots.
      * apply number_ok_bad_char; [exact Hr2|now apply N.eqb_neq].
  - (* no dot *)
    rewrite (Hall ip r1 Hn).
    destruct r1 as [|c r1'] eqn:Er1.
    + rewrite app_nil_r in Hn. cbn [nonempty negb andb]. rewrite Hn, (number_ok_digits ip Hip).
      destruct (nonempty ip) eqn:Hne; [|reflexivity].
      cbn [value_of]. rewrite Htn, Hn.
      pose proof (parse_shape neg ip [] false Hip eq_refl) as Hp. rewrite !app_nil_r in Hp.
      rewrite Hp; [reflexivity| |reflexivity]. intros ->. discriminate.
    + cbn [nonempty negb andb value_of].
      replace (number_ok n) with false; [reflexivity|]. symmetry. rewrite Hn.
      apply number_ok_bad_char; [exact Hr1|exact Hr1hd].
Qed.

Theorem string_to_number_refines s : m_string_to_number s = xp_string_to_number s.
Proof.
  rewrite m_string_to_number_core. unfold xp_string_to_number. rewrite xp_parse_number_core.
  destruct (trim_spec s) as (w2 & H1 & H2 & H3). rewrite H1.
  symmetry. exact (core_agree _ w2 H3 H2).
Qed.

Lemma to_number_refines v : model_to_number v = xp_number v.
Proof.
  destruct v as [b|x|s|l]; cbn [model_to_number xp_number]; try reflexivity;
    apply string_to_number_refines.
Qed.

(** ** number literals of an expression: [number.parse::<f64>().unwrap()] on a string of the
    production Number is the value the specification gives it (and does not panic) *)
Lemma all_ws_no_ws (r : str) : existsb is_ws r = false -> all_ws r = true -> r = [].
Proof.
  destruct r as [|c r]; [reflexivity|]. cbn [existsb all_ws forallb].
  rewrite orb_false_iff, andb_true_iff. intros [H1 _] [H2 _]. congruence.
Qed.

Lemma drop_while_no_ws (s : str) : existsb is_ws s = false -> drop_while is_ws s = s.
Proof. destruct s as [|c t]; [reflexivity|]. cbn [existsb drop_while]. rewrite orb_false_iff. now intros [-> _]. Qed.

Theorem literal_refines (s : str) x : spec_literal s = ROk x -> model_literal s = ROk x.
Proof.
  unfold spec_literal, model_literal.
  destruct (fst (strip_char 45 s) || existsb is_ws s) eqn:E; [discriminate|].
  apply orb_false_iff in E as [Em Ew].
  rewrite xp_parse_number_core, (drop_while_no_ws s Ew). unfold core_spec.
  assert (Hs45 : strip_char 45 s = (false, s)).
  { destruct (strip_char_spec 45 s) as [[H _]|[H1 [H2 _]]]; [congruence|].
    destruct (strip_char 45 s) as [b r]. cbn [fst snd] in *. now subst. }
  rewrite Hs45.
  destruct (span_spec is_digit s) as (Hs & Hip & _).
  set (ip := fst (span is_digit s)) in *. set (s3 := snd (span is_digit s)) in *.
  replace (span is_digit s) with (ip, s3) by (unfold ip, s3; now destruct (span is_digit s)).
  assert (Hw3 : existsb is_ws s3 = false).
  { rewrite Hs, existsb_app in Ew. now apply orb_false_iff in Ew as [_ H]. }
  destruct (strip_char_spec 46 s3) as [[Hdot Hs3]|[Hdot [Hs3 _]]].
  - destruct (strip_char 46 s3) as [dot s4]. cbn [fst snd] in Hdot, Hs3. subst dot.
    destruct (span_spec is_digit s4) as (Hs4 & Hfp & _).
    set (fp := fst (span is_digit s4)) in *. set (s5 := snd (span is_digit s4)) in *.
    replace (span is_digit s4) with (fp, s5) by (unfold fp, s5; now destruct (span is_digit s4)).
    assert (Hw5 : existsb is_ws s5 = false).
    { rewrite Hs3 in Hw3. cbn [existsb] in Hw3. apply orb_false_iff in Hw3 as [_ H].
      rewrite Hs4, existsb_app in H. now apply orb_false_iff in H as [_ H']. }
    destruct (all_ws s5) eqn:Ea; [|discriminate]. cbn [andb].
    pose proof (all_ws_no_ws s5 Hw5 Ea) as Hs5. rewrite Hs5, app_nil_r in Hs4.
    destruct (nonempty ip || nonempty fp) eqn:Hne; [|discriminate].
    intros [= <-].
    pose proof (parse_shape false ip fp true Hip Hfp) as Hp. cbv beta iota delta [with_sign] in Hp.
    assert (Hne' : ip ++ fp <> []) by (intros E; apply app_eq_nil in E as [E1 E2]; rewrite E1, E2 in Hne; discriminate).
    specialize (Hp Hne' ltac:(discriminate)).
    rewrite Hs, Hs3, Hs4.
    match goal with |- match ?t with _ => _ end = _ => replace t with (Some (f64_of_decimal false (digits_val (ip ++ fp)) (- Z.of_nat (List.length fp))%Z)) by (symmetry; exact Hp) end.
    reflexivity.
  - destruct (strip_char 46 s3) as [dot s4]. cbn [fst snd] in Hdot. subst dot.
    destruct (all_ws s3) eqn:Ea; [|discriminate]. cbn [andb].
    pose proof (all_ws_no_ws s3 Hw3 Ea) as Hs3'. rewrite Hs3', app_nil_r in Hs.
    destruct (nonempty ip) eqn:Hne; [|discriminate].
    intros [= <-].
    pose proof (parse_shape false ip [] false Hip eq_refl) as Hp. cbv beta iota delta [with_sign] in Hp.
    rewrite !app_nil_r in Hp.
    assert (Hne' : ip <> []) by (intros E; rewrite E in Hne; discriminate).
    specialize (Hp Hne' ltac:(reflexivity)).
    rewrite Hs.
    match goal with |- match ?t with _ => _ end = _ => replace t with (Some (f64_of_decimal false (digits_val ip) (- Z.of_nat (@List.length N []))%Z)) by (symmetry; exact Hp) end.
    reflexivity.
Qed.
