(** * The XPath 1.0 specification evaluator reads the tree only.

    [spec_query] of [Spec/XPath10.v] takes the same document table as the model of the
    evaluator, but identity and document order come from the position of a row in the table:
    the ids ([n_id]), the order keys ([n_key]) and the parent pointers of the dom ([n_parent])
    are never read.  Stated as a theorem: two tables that agree once these three columns are
    erased ([same_tree]) give the same answer to every query ([spec_query_tree_only]).

    Method: every definition of [Section Spec] agrees on the two tables, bottom-up in the order
    of the file; the 22 mutually recursive functions by the combined induction principle
    [ast_mutind] of [Model/XPathAst.v], rewriting with one unfolding equation per constructor
    (each proved by [reflexivity]).  No functional extensionality: where a definition hands a
    function that mentions the table to [filter], [map], [flat_map], [existsb], [find],
    [fold_left], [pred_filter], [opt_flat_map], [opt_filter], an extensionality lemma of that
    list function is used with the pointwise agreement. *)
From Coq Require Import List NArith Bool.
From XmlRs Require Import Base.CPred Base.Float64 Spec.XPathCore Model.XPathAst Model.XDoc Spec.XPath10.
Import ListNotations.
Open Scope N_scope.

(** forget what the specification does not read: id, order key, dom parent *)
Definition erase_row (r : xnode) : xnode :=
  mk_xnode (n_kind r) 0 0 None (n_children r) (n_attrs r) (n_nss r) (n_name r) (n_data r).
Definition erase_keys (doc : xdoc) : xdoc := map erase_row doc.
Definition same_tree (d1 d2 : xdoc) : Prop := erase_keys d1 = erase_keys d2.

(** ** [same_tree] is an equivalence; erasing stays in the class *)
Lemma erase_row_dummy : erase_row dummy_node = dummy_node.
Proof. reflexivity. Qed.

Lemma erase_row_idem (r : xnode) : erase_row (erase_row r) = erase_row r.
Proof. reflexivity. Qed.

Lemma erase_keys_idem (d : xdoc) : erase_keys (erase_keys d) = erase_keys d.
Proof.
  unfold erase_keys. rewrite map_map. apply map_ext. intros r. apply erase_row_idem.
Qed.

Lemma same_tree_refl (d : xdoc) : same_tree d d.
Proof. reflexivity. Qed.

Lemma same_tree_sym (d1 d2 : xdoc) : same_tree d1 d2 -> same_tree d2 d1.
Proof. unfold same_tree. intros H. symmetry. exact H. Qed.

Lemma same_tree_trans (d1 d2 d3 : xdoc) : same_tree d1 d2 -> same_tree d2 d3 -> same_tree d1 d3.
Proof. unfold same_tree. intros H12 H23. rewrite H12. exact H23. Qed.

Lemma same_tree_erase (d : xdoc) : same_tree d (erase_keys d).
Proof. unfold same_tree. symmetry. apply erase_keys_idem. Qed.

(** ** what two tables with the same tree share *)
Lemma same_tree_length (d1 d2 : xdoc) : same_tree d1 d2 -> length d1 = length d2.
Proof.
  unfold same_tree, erase_keys. intros H.
  rewrite <- (map_length erase_row d1), <- (map_length erase_row d2), H. reflexivity.
Qed.

Lemma same_tree_getd (d1 d2 : xdoc) : same_tree d1 d2 ->
  forall i, erase_row (getd d1 i) = erase_row (getd d2 i).
Proof.
  unfold same_tree, erase_keys, getd. intros H i.
  rewrite <- (map_nth erase_row d1 dummy_node (N.to_nat i)).
  rewrite <- (map_nth erase_row d2 dummy_node (N.to_nat i)).
  rewrite H. reflexivity.
Qed.

Lemma same_tree_kind (d1 d2 : xdoc) : same_tree d1 d2 -> forall i, kind d1 i = kind d2 i.
Proof. intros H i. exact (f_equal n_kind (same_tree_getd d1 d2 H i)). Qed.

Lemma same_tree_child_nodes (d1 d2 : xdoc) : same_tree d1 d2 ->
  forall i, child_nodes d1 i = child_nodes d2 i.
Proof. intros H i. exact (f_equal n_children (same_tree_getd d1 d2 H i)). Qed.

Lemma same_tree_attributes (d1 d2 : xdoc) : same_tree d1 d2 ->
  forall i, attributes d1 i = attributes d2 i.
Proof. intros H i. exact (f_equal n_attrs (same_tree_getd d1 d2 H i)). Qed.

Lemma same_tree_nss (d1 d2 : xdoc) : same_tree d1 d2 ->
  forall i, n_nss (getd d1 i) = n_nss (getd d2 i).
Proof. intros H i. exact (f_equal n_nss (same_tree_getd d1 d2 H i)). Qed.

Lemma same_tree_name (d1 d2 : xdoc) : same_tree d1 d2 ->
  forall i, n_name (getd d1 i) = n_name (getd d2 i).
Proof. intros H i. exact (f_equal n_name (same_tree_getd d1 d2 H i)). Qed.

Lemma same_tree_data (d1 d2 : xdoc) : same_tree d1 d2 ->
  forall i, n_data (getd d1 i) = n_data (getd d2 i).
Proof. intros H i. exact (f_equal n_data (same_tree_getd d1 d2 H i)). Qed.

(** ** extensionality of the list functions the specification uses *)
Lemma existsb_ext_to {A} (f g : A -> bool) (l : list A) :
  (forall x, f x = g x) -> existsb f l = existsb g l.
Proof.
  intros Hfg. induction l as [|x t IH]; cbn [existsb]; [reflexivity|].
  rewrite (Hfg x), IH. reflexivity.
Qed.

Lemma find_ext_to {A} (f g : A -> bool) (l : list A) :
  (forall x, f x = g x) -> find f l = find g l.
Proof.
  intros Hfg. induction l as [|x t IH]; cbn [find]; [reflexivity|].
  rewrite (Hfg x), IH. reflexivity.
Qed.

Lemma fold_left_ext_to {A B} (f g : A -> B -> A) (l : list B) (a : A) :
  (forall x y, f x y = g x y) -> fold_left f l a = fold_left g l a.
Proof.
  intros Hfg. revert a. induction l as [|y t IH]; intros a; cbn [fold_left]; [reflexivity|].
  rewrite (Hfg a y). apply IH.
Qed.

Lemma N_iter_ext_to {A} (f g : A -> A) (k : N) (a : A) :
  (forall x, f x = g x) -> N.iter k f a = N.iter k g a.
Proof.
  intros Hfg. induction k as [|k IH] using N.peano_ind; [reflexivity|].
  rewrite !N.iter_succ, IH. apply Hfg.
Qed.

Lemma pred_filter_ext_to (f g : snode -> N -> N -> option bool) (l : list snode) (pos size : N) :
  (forall x p s, f x p s = g x p s) -> pred_filter f l pos size = pred_filter g l pos size.
Proof.
  intros Hfg. revert pos. induction l as [|x t IH]; intros pos; cbn [pred_filter]; [reflexivity|].
  rewrite (Hfg x pos size), (IH (pos + 1)). reflexivity.
Qed.

Lemma opt_flat_map_ext_to {A} (f g : A -> option (list snode)) (l : list A) :
  (forall x, f x = g x) -> opt_flat_map f l = opt_flat_map g l.
Proof.
  intros Hfg. induction l as [|x t IH]; cbn [opt_flat_map]; [reflexivity|].
  rewrite (Hfg x), IH. reflexivity.
Qed.

Lemma opt_filter_ext_to (f g : snode -> option bool) (l : list snode) :
  (forall x, f x = g x) -> opt_filter f l = opt_filter g l.
Proof.
  intros Hfg. induction l as [|x t IH]; cbn [opt_filter]; [reflexivity|].
  rewrite (Hfg x), IH. reflexivity.
Qed.

(** ** one-step unfolding equations of the 22 mutually recursive functions *)
Section Eqs.
Variable doc : xdoc.
Variable ns : bindings.

Lemma to_eq_or f r n pos size :
  s_or doc ns (EOr f r) n pos size =
  match s_and doc ns f n pos size with
  | Some v => s_or_rest doc ns r v n pos size
  | None => None
  end.
Proof. reflexivity. Qed.

Lemma to_eq_or_rest_nil acc n pos size : s_or_rest doc ns AndNil acc n pos size = Some acc.
Proof. reflexivity. Qed.

Lemma to_eq_or_rest_cons a t acc n pos size :
  s_or_rest doc ns (AndCons a t) acc n pos size =
  if s_boolean doc acc then Some (SBool true)
  else match s_and doc ns a n pos size with
       | Some v => s_or_rest doc ns t (SBool (s_boolean doc v)) n pos size
       | None => None
       end.
Proof. reflexivity. Qed.

Lemma to_eq_and f r n pos size :
  s_and doc ns (EAnd f r) n pos size =
  match s_eq doc ns f n pos size with
  | Some v => s_and_rest doc ns r v n pos size
  | None => None
  end.
Proof. reflexivity. Qed.

Lemma to_eq_and_rest_nil acc n pos size : s_and_rest doc ns EqNil acc n pos size = Some acc.
Proof. reflexivity. Qed.

Lemma to_eq_and_rest_cons a t acc n pos size :
  s_and_rest doc ns (EqCons a t) acc n pos size =
  if negb (s_boolean doc acc) then Some (SBool false)
  else match s_eq doc ns a n pos size with
       | Some v => s_and_rest doc ns t (SBool (s_boolean doc v)) n pos size
       | None => None
       end.
Proof. reflexivity. Qed.

Lemma to_eq_eq o ops n pos size :
  s_eq doc ns (EEq o ops) n pos size =
  match s_rel doc ns o n pos size with
  | Some v => s_eq_ops doc ns ops v n pos size
  | None => None
  end.
Proof. reflexivity. Qed.

Lemma to_eq_eq_ops_nil acc n pos size : s_eq_ops doc ns EqopNil acc n pos size = Some acc.
Proof. reflexivity. Qed.

Lemma to_eq_eq_ops_cons op e t acc n pos size :
  s_eq_ops doc ns (EqopCons op e t) acc n pos size =
  match s_rel doc ns e n pos size with
  | Some v =>
      s_eq_ops doc ns t
        (SBool (s_compare doc (match op with OpEqual => OEq | OpNotEqual => ONe end) acc v)) n pos size
  | None => None
  end.
Proof. reflexivity. Qed.

Lemma to_eq_rel o ops n pos size :
  s_rel doc ns (ERel o ops) n pos size =
  match s_add doc ns o n pos size with
  | Some v => s_rel_ops doc ns ops v n pos size
  | None => None
  end.
Proof. reflexivity. Qed.

Lemma to_eq_rel_ops_nil acc n pos size : s_rel_ops doc ns RelopNil acc n pos size = Some acc.
Proof. reflexivity. Qed.

Lemma to_eq_rel_ops_cons op e t acc n pos size :
  s_rel_ops doc ns (RelopCons op e t) acc n pos size =
  match s_add doc ns e n pos size with
  | Some v =>
      s_rel_ops doc ns t
        (SBool (s_compare doc (match op with
                               | OpLessThan => OLt | OpGreaterThan => OGt
                               | OpLessEqual => OLe | OpGreaterEqual => OGe end) acc v)) n pos size
  | None => None
  end.
Proof. reflexivity. Qed.

Lemma to_eq_add o ops n pos size :
  s_add doc ns (EAdd o ops) n pos size =
  match s_mul doc ns o n pos size with
  | Some v => s_add_ops doc ns ops v n pos size
  | None => None
  end.
Proof. reflexivity. Qed.

Lemma to_eq_add_ops_nil acc n pos size : s_add_ops doc ns AddopNil acc n pos size = Some acc.
Proof. reflexivity. Qed.

Lemma to_eq_add_ops_cons op e t acc n pos size :
  s_add_ops doc ns (AddopCons op e t) acc n pos size =
  match s_mul doc ns e n pos size with
  | Some v => match s_arith doc (match op with OpAdd => OAdd | OpSub => OSub end) acc v with
              | Some r => s_add_ops doc ns t r n pos size
              | None => None
              end
  | None => None
  end.
Proof. reflexivity. Qed.

Lemma to_eq_mul o ops n pos size :
  s_mul doc ns (EMul o ops) n pos size =
  match s_unary doc ns o n pos size with
  | Some v => s_mul_ops doc ns ops v n pos size
  | None => None
  end.
Proof. reflexivity. Qed.

Lemma to_eq_mul_ops_nil acc n pos size : s_mul_ops doc ns MulopNil acc n pos size = Some acc.
Proof. reflexivity. Qed.

Lemma to_eq_mul_ops_cons op e t acc n pos size :
  s_mul_ops doc ns (MulopCons op e t) acc n pos size =
  match s_unary doc ns e n pos size with
  | Some v => match s_arith doc (match op with OpMul => OMul | OpDiv => ODiv | OpMod => OMod end) acc v with
              | Some r => s_mul_ops doc ns t r n pos size
              | None => None
              end
  | None => None
  end.
Proof. reflexivity. Qed.

Lemma to_eq_unary inv u n pos size :
  s_unary doc ns (EUnary inv u) n pos size =
  match s_union doc ns u n pos size with
  | Some v => Some (N.iter inv (fun w => SNum (f64_neg (s_number doc w))) v)
  | None => None
  end.
Proof. reflexivity. Qed.

Lemma to_eq_union_nil n pos size : s_union doc ns (EUnion PathNil) n pos size = Some (SNodes []).
Proof. reflexivity. Qed.

Lemma to_eq_union_one p n pos size :
  s_union doc ns (EUnion (PathCons p PathNil)) n pos size = s_path doc ns p n pos size.
Proof. reflexivity. Qed.

Lemma to_eq_union_many p q t n pos size :
  s_union doc ns (EUnion (PathCons p (PathCons q t))) n pos size =
  match s_path doc ns p n pos size with
  | Some (SNodes l) => s_union_rest doc ns (PathCons q t) l n pos size
  | _ => None
  end.
Proof. reflexivity. Qed.

Lemma to_eq_union_rest_nil acc n pos size :
  s_union_rest doc ns PathNil acc n pos size = Some (SNodes (nodeset doc acc)).
Proof. reflexivity. Qed.

Lemma to_eq_union_rest_cons p t acc n pos size :
  s_union_rest doc ns (PathCons p t) acc n pos size =
  match s_path doc ns p n pos size with
  | Some (SNodes l') => s_union_rest doc ns t (acc ++ l') n pos size
  | _ => None
  end.
Proof. reflexivity. Qed.

Lemma to_eq_path_root n pos size : s_path doc ns PRoot n pos size = Some (SNodes [Row doc_root]).
Proof. reflexivity. Qed.

Lemma to_eq_path_filter f n pos size :
  s_path doc ns (PFilter f) n pos size = s_filter doc ns f n pos size.
Proof. reflexivity. Qed.

Lemma to_eq_path_rel l n pos size :
  s_path doc ns (PRel l) n pos size =
  match s_rel_path doc ns l [n] with Some r => Some (SNodes r) | None => None end.
Proof. reflexivity. Qed.

Lemma to_eq_path_abs op l n pos size :
  s_path doc ns (PAbs op l) n pos size =
  match s_rel_path doc ns l (match op with
                             | LpCurrent => [Row doc_root]
                             | LpDescendantOrSelfNode => Row doc_root :: s_descendants doc (Row doc_root)
                             end) with
  | Some r => Some (SNodes r)
  | None => None
  end.
Proof. reflexivity. Qed.

Lemma to_eq_path_filterpath f op l n pos size :
  s_path doc ns (PFilterPath f op l) n pos size =
  match s_filter doc ns f n pos size with
  | Some (SNodes fl) =>
      match s_rel_path doc ns l
              (match op with
               | LpCurrent => fl
               | LpDescendantOrSelfNode => nodeset doc (flat_map (fun x => x :: s_descendants doc x) fl)
               end) with
      | Some r => Some (SNodes r)
      | None => None
      end
  | _ => None
  end.
Proof. reflexivity. Qed.

Lemma to_eq_filter_nil p n pos size :
  s_filter doc ns (EFilter p ExprNil) n pos size = s_primary doc ns p n pos size.
Proof. reflexivity. Qed.

Lemma to_eq_filter_cons p e t n pos size :
  s_filter doc ns (EFilter p (ExprCons e t)) n pos size =
  match s_primary doc ns p n pos size with
  | Some (SNodes l) =>
      match s_preds doc ns (ExprCons e t) l with Some r => Some (SNodes r) | None => None end
  | _ => None
  end.
Proof. reflexivity. Qed.

Lemma to_eq_primary_variable q n pos size : s_primary doc ns (PrimVariable q) n pos size = None.
Proof. reflexivity. Qed.

Lemma to_eq_primary_expr x n pos size :
  s_primary doc ns (PrimExpr x) n pos size = s_or doc ns x n pos size.
Proof. reflexivity. Qed.

Lemma to_eq_primary_literal s n pos size : s_primary doc ns (PrimLiteral s) n pos size = Some (SStr s).
Proof. reflexivity. Qed.

Lemma to_eq_primary_number s n pos size :
  s_primary doc ns (PrimNumber s) n pos size =
  match spec_literal s with ROk v => Some (of_core v) | _ => None end.
Proof. reflexivity. Qed.

Lemma to_eq_primary_function_prefixed p l args n pos size :
  s_primary doc ns (PrimFunction (QPrefixed p l) args) n pos size = None.
Proof. reflexivity. Qed.

Lemma to_eq_primary_function name args n pos size :
  s_primary doc ns (PrimFunction (QUnprefixed name) args) n pos size =
  match s_args doc ns args n pos size with
  | Some vs => s_call doc name vs n pos size
  | None => None
  end.
Proof. reflexivity. Qed.

Lemma to_eq_args_nil n pos size : s_args doc ns ExprNil n pos size = Some [].
Proof. reflexivity. Qed.

Lemma to_eq_args_cons e t n pos size :
  s_args doc ns (ExprCons e t) n pos size =
  match s_or doc ns e n pos size, s_args doc ns t n pos size with
  | Some v, Some vs => Some (v :: vs)
  | _, _ => None
  end.
Proof. reflexivity. Qed.

Lemma to_eq_preds_nil cands : s_preds doc ns ExprNil cands = Some cands.
Proof. reflexivity. Qed.

Lemma to_eq_preds_cons p t cands :
  s_preds doc ns (ExprCons p t) cands =
  match pred_filter (fun x ps sz => match s_or doc ns p x ps sz with
                                    | Some v => Some (pred_truth doc v ps)
                                    | None => None end)
                    cands 1 (N.of_nat (length cands)) with
  | Some r => s_preds doc ns t r
  | None => None
  end.
Proof. reflexivity. Qed.

Lemma to_eq_rel_path s ops start :
  s_rel_path doc ns (ERelPath s ops) start =
  match opt_flat_map (s_step doc ns s) start with
  | Some r => s_stepops doc ns ops (nodeset doc r)
  | None => None
  end.
Proof. reflexivity. Qed.

Lemma to_eq_stepops_nil cur : s_stepops doc ns StepopNil cur = Some cur.
Proof. reflexivity. Qed.

Lemma to_eq_stepops_cons op s t cur :
  s_stepops doc ns (StepopCons op s t) cur =
  match opt_flat_map (s_step doc ns s)
          (match op with
           | LpCurrent => cur
           | LpDescendantOrSelfNode => nodeset doc (flat_map (fun x => x :: s_descendants doc x) cur)
           end) with
  | Some r => s_stepops doc ns t (nodeset doc r)
  | None => None
  end.
Proof. reflexivity. Qed.

Lemma to_eq_step_current n : s_step doc ns StepCurrent n = Some [n].
Proof. reflexivity. Qed.

Lemma to_eq_step_parent n :
  s_step doc ns StepParent n = Some (match s_parent doc n with Some p => [p] | None => [] end).
Proof. reflexivity. Qed.

Lemma to_eq_step_test a t preds n :
  s_step doc ns (StepTest a t preds) n =
  match opt_filter (s_test doc ns (axis_of a) t) (s_axis doc (axis_of a) n) with
  | Some cands => s_preds doc ns preds (if is_reverse (axis_of a) then rev cands else cands)
  | None => None
  end.
Proof. reflexivity. Qed.

End Eqs.

(** ** every definition of the specification agrees on two tables with the same tree *)
Section TreeOnly.
Variables d1 d2 : xdoc.
Hypothesis Hst : same_tree d1 d2.

Lemma to_kind i : kind d1 i = kind d2 i.
Proof. exact (same_tree_kind d1 d2 Hst i). Qed.
Lemma to_child_nodes i : child_nodes d1 i = child_nodes d2 i.
Proof. exact (same_tree_child_nodes d1 d2 Hst i). Qed.
Lemma to_attributes i : attributes d1 i = attributes d2 i.
Proof. exact (same_tree_attributes d1 d2 Hst i). Qed.
Lemma to_n_nss i : n_nss (getd d1 i) = n_nss (getd d2 i).
Proof. exact (same_tree_nss d1 d2 Hst i). Qed.
Lemma to_n_name i : n_name (getd d1 i) = n_name (getd d2 i).
Proof. exact (same_tree_name d1 d2 Hst i). Qed.
Lemma to_n_data i : n_data (getd d1 i) = n_data (getd d2 i).
Proof. exact (same_tree_data d1 d2 Hst i). Qed.

Lemma to_nss_of e : nss_of d1 e = nss_of d2 e.
Proof. unfold nss_of. rewrite (to_n_nss e). reflexivity. Qed.

Lemma to_ord n : ord d1 n = ord d2 n.
Proof. destruct n as [i|e i]; unfold ord; [reflexivity|]. rewrite (to_nss_of e). reflexivity. Qed.

Lemma to_sn_ltb a b : sn_ltb d1 a b = sn_ltb d2 a b.
Proof. unfold sn_ltb. rewrite (to_ord a), (to_ord b). reflexivity. Qed.

Lemma to_sn_eqb a b : sn_eqb d1 a b = sn_eqb d2 a b.
Proof. unfold sn_eqb. rewrite (to_ord a), (to_ord b). reflexivity. Qed.

Lemma to_sn_insert x l : sn_insert d1 x l = sn_insert d2 x l.
Proof.
  induction l as [|y t IH]; cbn [sn_insert]; [reflexivity|].
  rewrite (to_sn_eqb x y), (to_sn_ltb x y), IH. reflexivity.
Qed.

Lemma to_nodeset l : nodeset d1 l = nodeset d2 l.
Proof.
  unfold nodeset. induction l as [|x t IH]; cbn [fold_right]; [reflexivity|].
  rewrite IH. apply to_sn_insert.
Qed.

Lemma to_sn_mem x l : sn_mem d1 x l = sn_mem d2 x l.
Proof. unfold sn_mem. apply existsb_ext_to. intros y. apply to_sn_eqb. Qed.

Lemma to_xchildren i : xchildren d1 i = xchildren d2 i.
Proof.
  unfold xchildren. rewrite (to_kind i), (to_child_nodes i).
  destruct (kind d2 i); try reflexivity; apply filter_ext; intros c; rewrite (to_kind c); reflexivity.
Qed.

Lemma to_fuel0 : fuel0 d1 = fuel0 d2.
Proof. unfold fuel0. rewrite (same_tree_length d1 d2 Hst). reflexivity. Qed.

Lemma to_desc_fuel fuel i : desc_fuel d1 fuel i = desc_fuel d2 fuel i.
Proof.
  revert i. induction fuel as [|f IH]; intros i; cbn [desc_fuel]; [reflexivity|].
  rewrite (to_xchildren i). apply flat_map_ext. intros c. rewrite (IH c). reflexivity.
Qed.

Lemma to_desc i : desc d1 i = desc d2 i.
Proof. unfold desc. rewrite to_fuel0. apply to_desc_fuel. Qed.

Lemma to_walk_fuel fuel i : walk_fuel d1 fuel i = walk_fuel d2 fuel i.
Proof.
  revert i. induction fuel as [|f IH]; intros i; cbn [walk_fuel]; [reflexivity|].
  rewrite (to_kind i), (to_nss_of i), (to_attributes i), (to_xchildren i).
  rewrite (flat_map_ext (walk_fuel d1 f) (walk_fuel d2 f) IH). reflexivity.
Qed.

Lemma to_all_nodes : all_nodes d1 = all_nodes d2.
Proof. unfold all_nodes. rewrite to_fuel0. apply to_walk_fuel. Qed.

Lemma to_s_parent n : s_parent d1 n = s_parent d2 n.
Proof.
  destruct n as [i|e i]; unfold s_parent; [|reflexivity].
  rewrite to_all_nodes.
  rewrite (find_ext_to
    (fun j => existsb (N.eqb i) (xchildren d1 j) ||
              (nkind_eqb (kind d1 j) KElement && existsb (N.eqb i) (attributes d1 j)))
    (fun j => existsb (N.eqb i) (xchildren d2 j) ||
              (nkind_eqb (kind d2 j) KElement && existsb (N.eqb i) (attributes d2 j)))).
  - reflexivity.
  - intros j. rewrite (to_xchildren j), (to_kind j), (to_attributes j). reflexivity.
Qed.

Lemma to_ancestors_fuel fuel n : ancestors_fuel d1 fuel n = ancestors_fuel d2 fuel n.
Proof.
  revert n. induction fuel as [|f IH]; intros n; cbn [ancestors_fuel]; [reflexivity|].
  rewrite (to_s_parent n). destruct (s_parent d2 n) as [p|]; [|reflexivity].
  rewrite (IH p). reflexivity.
Qed.

Lemma to_ancestors n : ancestors d1 n = ancestors d2 n.
Proof. unfold ancestors. rewrite to_fuel0. apply to_ancestors_fuel. Qed.

Lemma to_is_attr_or_ns n : is_attr_or_ns d1 n = is_attr_or_ns d2 n.
Proof. destruct n as [i|e i]; unfold is_attr_or_ns; [|reflexivity]. rewrite (to_kind i). reflexivity. Qed.

Lemma to_s_descendants n : s_descendants d1 n = s_descendants d2 n.
Proof. destruct n as [i|e i]; unfold s_descendants; [|reflexivity]. rewrite (to_desc i). reflexivity. Qed.

Lemma to_s_axis a n : s_axis d1 a n = s_axis d2 a n.
Proof.
  destruct a; unfold s_axis.
  - (* ancestor *) rewrite (to_ancestors n). apply to_nodeset.
  - (* ancestor-or-self *) rewrite (to_ancestors n). apply to_nodeset.
  - (* attribute *)
    destruct n as [i|e i]; [|reflexivity]. rewrite (to_kind i), (to_attributes i). reflexivity.
  - (* child *) destruct n as [i|e i]; [|reflexivity]. rewrite (to_xchildren i). reflexivity.
  - (* descendant *) apply to_s_descendants.
  - (* descendant-or-self *) rewrite (to_s_descendants n). reflexivity.
  - (* following *)
    rewrite to_all_nodes. apply filter_ext. intros m.
    rewrite (to_sn_ltb n m), (to_s_descendants n), (to_sn_mem m), (to_is_attr_or_ns m). reflexivity.
  - (* following-sibling *)
    rewrite (to_is_attr_or_ns n).
    destruct (is_attr_or_ns d2 n); [reflexivity|].
    destruct n as [i|e i]; [|reflexivity].
    rewrite (to_s_parent (Row i)).
    destruct (s_parent d2 (Row i)) as [[p|e j]|]; try reflexivity.
    rewrite (to_xchildren p). reflexivity.
  - (* namespace *)
    destruct n as [i|e i]; [|reflexivity]. rewrite (to_kind i), (to_nss_of i). reflexivity.
  - (* parent *) rewrite (to_s_parent n). reflexivity.
  - (* preceding *)
    rewrite to_all_nodes. apply filter_ext. intros m.
    rewrite (to_sn_ltb m n), (to_ancestors n), (to_sn_mem m), (to_is_attr_or_ns m). reflexivity.
  - (* preceding-sibling *)
    rewrite (to_is_attr_or_ns n).
    destruct (is_attr_or_ns d2 n); [reflexivity|].
    destruct n as [i|e i]; [|reflexivity].
    rewrite (to_s_parent (Row i)).
    destruct (s_parent d2 (Row i)) as [[p|e j]|]; try reflexivity.
    rewrite (to_xchildren p). reflexivity.
  - (* self *) reflexivity.
Qed.

Lemma to_row_name i : row_name d1 i = row_name d2 i.
Proof. unfold row_name. rewrite (to_n_name i). reflexivity. Qed.

Lemma to_row_data i : row_data d1 i = row_data d2 i.
Proof. unfold row_data. rewrite (to_n_data i). reflexivity. Qed.

Lemma to_ns_lookup_in e prefix : ns_lookup_in d1 e prefix = ns_lookup_in d2 e prefix.
Proof.
  unfold ns_lookup_in. rewrite (to_nss_of e).
  set (key := match prefix with Some p => p | None => s_xmlns end).
  rewrite (find_ext_to
    (fun r => match n_name (getd d1 r) with XName l _ _ => str_eqb l key | _ => false end)
    (fun r => match n_name (getd d2 r) with XName l _ _ => str_eqb l key | _ => false end)).
  - match goal with |- context [find ?f ?l] => destruct (find f l) as [r|] end; [|reflexivity]. rewrite (to_row_data r). reflexivity.
  - intros r. rewrite (to_n_name r). reflexivity.
Qed.

Lemma to_s_name n : s_name d1 n = s_name d2 n.
Proof.
  destruct n as [i|e i]; unfold s_name.
  - rewrite (to_kind i), (to_row_name i), (to_s_parent (Row i)).
    destruct (kind d2 i); try reflexivity;
      destruct (row_name d2 i) as [[l p]|]; try reflexivity.
    + rewrite (to_ns_lookup_in i p). reflexivity.
    + destruct p as [q|]; [|reflexivity].
      destruct (s_parent d2 (Row i)) as [[e|e j]|]; try reflexivity.
      rewrite (to_ns_lookup_in e (Some q)). reflexivity.
  - rewrite (to_row_name i). reflexivity.
Qed.

Lemma to_s_string_value n : s_string_value d1 n = s_string_value d2 n.
Proof.
  destruct n as [i|e i]; unfold s_string_value; [|apply to_row_data].
  rewrite (to_kind i), (to_desc i), (to_row_data i).
  rewrite (filter_ext (fun c => is_text_kind (kind d1 c)) (fun c => is_text_kind (kind d2 c))).
  - rewrite (map_ext (row_data d1) (row_data d2) to_row_data). reflexivity.
  - intros c. rewrite (to_kind c). reflexivity.
Qed.

Lemma to_principal a n : principal d1 a n = principal d2 a n.
Proof.
  destruct n as [i|e i]; unfold principal; [|reflexivity].
  rewrite (to_kind i). reflexivity.
Qed.

Lemma to_s_test ns a t n : s_test d1 ns a t n = s_test d2 ns a t n.
Proof.
  unfold s_test. rewrite (to_principal a n), (to_s_name n).
  destruct n as [i|e i]; [|reflexivity].
  rewrite (to_kind i), (to_row_name i). reflexivity.
Qed.

Lemma to_to_core v : to_core d1 v = to_core d2 v.
Proof.
  destruct v as [b|x|s|l]; unfold to_core; try reflexivity.
  rewrite (map_ext (s_string_value d1) (s_string_value d2) to_s_string_value). reflexivity.
Qed.

Lemma to_s_boolean v : s_boolean d1 v = s_boolean d2 v.
Proof. unfold s_boolean. rewrite (to_to_core v). reflexivity. Qed.

Lemma to_s_number v : s_number d1 v = s_number d2 v.
Proof. unfold s_number. rewrite (to_to_core v). reflexivity. Qed.

Lemma to_s_string v : s_string d1 v = s_string d2 v.
Proof. unfold s_string. rewrite (to_to_core v). reflexivity. Qed.

Lemma to_s_compare o a b : s_compare d1 o a b = s_compare d2 o a b.
Proof.
  destruct a as [x|x|x|la], b as [y|y|y|lb]; unfold s_compare; try reflexivity.
  - rewrite (to_s_boolean (SNodes lb)). reflexivity.
  - apply existsb_ext_to. intros n. rewrite (to_s_string_value n). reflexivity.
  - apply existsb_ext_to. intros n. rewrite (to_s_string_value n). reflexivity.
  - rewrite (to_s_boolean (SNodes la)). reflexivity.
  - apply existsb_ext_to. intros n. rewrite (to_s_string_value n). reflexivity.
  - apply existsb_ext_to. intros n. rewrite (to_s_string_value n). reflexivity.
  - apply existsb_ext_to. intros n. apply existsb_ext_to. intros m.
    rewrite (to_s_string_value n), (to_s_string_value m). reflexivity.
Qed.

Lemma to_s_arith o a b : s_arith d1 o a b = s_arith d2 o a b.
Proof. unfold s_arith. rewrite (to_s_number a), (to_s_number b). reflexivity. Qed.

Lemma to_xml_lang_of n : xml_lang_of d1 n = xml_lang_of d2 n.
Proof.
  destruct n as [i|e i]; unfold xml_lang_of; [|reflexivity].
  rewrite (to_kind i), (to_attributes i).
  rewrite (find_ext_to
    (fun a => match row_name d1 a with
              | Some (l, Some p) => str_eqb l s_lang && str_eqb p s_xml
              | _ => false end)
    (fun a => match row_name d2 a with
              | Some (l, Some p) => str_eqb l s_lang && str_eqb p s_xml
              | _ => false end)).
  - destruct (nkind_eqb (kind d2 i) KElement); [|reflexivity].
    match goal with |- context [find ?f ?l] => destruct (find f l) as [a|] end; [|reflexivity]. rewrite (to_row_data a). reflexivity.
  - intros a. rewrite (to_row_name a). reflexivity.
Qed.

Lemma to_s_lang_fn n arg : s_lang_fn d1 n arg = s_lang_fn d2 n arg.
Proof.
  unfold s_lang_fn. rewrite (to_ancestors n).
  rewrite (flat_map_ext
    (fun m => match xml_lang_of d1 m with Some v => [v] | None => [] end)
    (fun m => match xml_lang_of d2 m with Some v => [v] | None => [] end)).
  - reflexivity.
  - intros m. rewrite (to_xml_lang_of m). reflexivity.
Qed.

Lemma to_sum l z :
  fold_left (fun s x => f64_add s (xp_string_to_number (s_string_value d1 x))) l z =
  fold_left (fun s x => f64_add s (xp_string_to_number (s_string_value d2 x))) l z.
Proof. apply fold_left_ext_to. intros s x. rewrite (to_s_string_value x). reflexivity. Qed.

Lemma to_s_call name args n pos size : s_call d1 name args n pos size = s_call d2 name args n pos size.
Proof.
  unfold s_call.
  destruct (str_eqb name s_fn_last); [reflexivity|].
  destruct (str_eqb name s_fn_position); [reflexivity|].
  destruct (str_eqb name s_fn_count); [reflexivity|].
  destruct (str_eqb name s_fn_sum).
  { destruct args as [|[b|x|s|l] [|a2 t2]]; try reflexivity. rewrite (to_sum l f64_zero). reflexivity. }
  destruct (str_eqb name s_fn_id); [reflexivity|].
  destruct (str_eqb name s_fn_local_name).
  { destruct (first_node_or args n) as [[|x t]|]; try reflexivity. rewrite (to_s_name x). reflexivity. }
  destruct (str_eqb name s_fn_namespace_uri).
  { destruct (first_node_or args n) as [[|x t]|]; try reflexivity. rewrite (to_s_name x). reflexivity. }
  destruct (str_eqb name s_fn_name).
  { destruct (first_node_or args n) as [[|x t]|]; try reflexivity. rewrite (to_s_name x). reflexivity. }
  destruct (str_eqb name s_fn_lang).
  { destruct args as [|a [|a2 t2]]; try reflexivity. rewrite (to_s_string a), (to_s_lang_fn n). reflexivity. }
  rewrite (to_s_string_value n), (map_ext (to_core d1) (to_core d2) to_to_core). reflexivity.
Qed.

Lemma to_pred_truth v pos : pred_truth d1 v pos = pred_truth d2 v pos.
Proof. destruct v as [b|x|s|l]; unfold pred_truth; try reflexivity; apply to_s_boolean. Qed.

(** descendant-or-self of every node of a list, as the paths use it *)
Lemma to_dos l :
  nodeset d1 (flat_map (fun x => x :: s_descendants d1 x) l) =
  nodeset d2 (flat_map (fun x => x :: s_descendants d2 x) l).
Proof.
  rewrite (flat_map_ext (fun x => x :: s_descendants d1 x) (fun x => x :: s_descendants d2 x)).
  - apply to_nodeset.
  - intros x. rewrite (to_s_descendants x). reflexivity.
Qed.

End TreeOnly.

(** ** the 22 mutually recursive functions *)
Section Mutual.
Variables d1 d2 : xdoc.
Hypothesis Hst : same_tree d1 d2.
Variable ns : bindings.

(** agreement of an evaluator of expressions ([A4]: with an accumulator) *)
Definition A3 {X} (ev : xdoc -> bindings -> X -> snode -> N -> N -> option sval) (x : X) : Prop :=
  forall n pos size, ev d1 ns x n pos size = ev d2 ns x n pos size.
Definition A4 {X} (ev : xdoc -> bindings -> X -> sval -> snode -> N -> N -> option sval) (x : X) : Prop :=
  forall acc n pos size, ev d1 ns x acc n pos size = ev d2 ns x acc n pos size.

Theorem spec_tree_only_all :
  (forall e, A3 s_or e) /\ (forall l, A4 s_or_rest l) /\
  (forall e, A3 s_and e) /\ (forall l, A4 s_and_rest l) /\
  (forall e, A3 s_eq e) /\ (forall l, A4 s_eq_ops l) /\
  (forall e, A3 s_rel e) /\ (forall l, A4 s_rel_ops l) /\
  (forall e, A3 s_add e) /\ (forall l, A4 s_add_ops l) /\
  (forall e, A3 s_mul e) /\ (forall l, A4 s_mul_ops l) /\
  (forall e, A3 s_unary e) /\ (forall e, A3 s_union e) /\
  (forall l : path_list,
     (forall acc n pos size, s_union_rest d1 ns l acc n pos size = s_union_rest d2 ns l acc n pos size) /\
     A3 s_union (EUnion l)) /\
  (forall e, A3 s_path e) /\ (forall e, A3 s_filter e) /\ (forall e, A3 s_primary e) /\
  (forall l : expr_list,
     (forall n pos size, s_args d1 ns l n pos size = s_args d2 ns l n pos size) /\
     (forall cands, s_preds d1 ns l cands = s_preds d2 ns l cands)) /\
  (forall e : rel_path, forall start, s_rel_path d1 ns e start = s_rel_path d2 ns e start) /\
  (forall l : stepop_list, forall cur, s_stepops d1 ns l cur = s_stepops d2 ns l cur) /\
  (forall s : step, forall n, s_step d1 ns s n = s_step d2 ns s n).
Proof.
  apply ast_mutind; unfold A3, A4.
  - (* EOr *)
    intros f Hf r Hr n pos size. rewrite !to_eq_or, (Hf n pos size).
    destruct (s_and d2 ns f n pos size) as [v|]; [apply Hr|reflexivity].
  - (* AndNil *) intros acc n pos size. rewrite !to_eq_or_rest_nil. reflexivity.
  - (* AndCons *)
    intros a Ha t Ht acc n pos size. rewrite !to_eq_or_rest_cons.
    rewrite (to_s_boolean d1 d2 Hst acc), (Ha n pos size).
    destruct (s_boolean d2 acc); [reflexivity|].
    destruct (s_and d2 ns a n pos size) as [v|]; [|reflexivity].
    rewrite (to_s_boolean d1 d2 Hst v). apply Ht.
  - (* EAnd *)
    intros f Hf r Hr n pos size. rewrite !to_eq_and, (Hf n pos size).
    destruct (s_eq d2 ns f n pos size) as [v|]; [apply Hr|reflexivity].
  - (* EqNil *) intros acc n pos size. rewrite !to_eq_and_rest_nil. reflexivity.
  - (* EqCons *)
    intros a Ha t Ht acc n pos size. rewrite !to_eq_and_rest_cons.
    rewrite (to_s_boolean d1 d2 Hst acc), (Ha n pos size).
    destruct (negb (s_boolean d2 acc)); [reflexivity|].
    destruct (s_eq d2 ns a n pos size) as [v|]; [|reflexivity].
    rewrite (to_s_boolean d1 d2 Hst v). apply Ht.
  - (* EEq *)
    intros o Ho ops Hops n pos size. rewrite !to_eq_eq, (Ho n pos size).
    destruct (s_rel d2 ns o n pos size) as [v|]; [apply Hops|reflexivity].
  - (* EqopNil *) intros acc n pos size. rewrite !to_eq_eq_ops_nil. reflexivity.
  - (* EqopCons *)
    intros op e He t Ht acc n pos size. rewrite !to_eq_eq_ops_cons, (He n pos size).
    destruct (s_rel d2 ns e n pos size) as [v|]; [|reflexivity].
    rewrite (to_s_compare d1 d2 Hst _ acc v). apply Ht.
  - (* ERel *)
    intros o Ho ops Hops n pos size. rewrite !to_eq_rel, (Ho n pos size).
    destruct (s_add d2 ns o n pos size) as [v|]; [apply Hops|reflexivity].
  - (* RelopNil *) intros acc n pos size. rewrite !to_eq_rel_ops_nil. reflexivity.
  - (* RelopCons *)
    intros op e He t Ht acc n pos size. rewrite !to_eq_rel_ops_cons, (He n pos size).
    destruct (s_add d2 ns e n pos size) as [v|]; [|reflexivity].
    rewrite (to_s_compare d1 d2 Hst _ acc v). apply Ht.
  - (* EAdd *)
    intros o Ho ops Hops n pos size. rewrite !to_eq_add, (Ho n pos size).
    destruct (s_mul d2 ns o n pos size) as [v|]; [apply Hops|reflexivity].
  - (* AddopNil *) intros acc n pos size. rewrite !to_eq_add_ops_nil. reflexivity.
  - (* AddopCons *)
    intros op e He t Ht acc n pos size. rewrite !to_eq_add_ops_cons, (He n pos size).
    destruct (s_mul d2 ns e n pos size) as [v|]; [|reflexivity].
    rewrite (to_s_arith d1 d2 Hst _ acc v).
    destruct (s_arith d2 _ acc v) as [r|]; [apply Ht|reflexivity].
  - (* EMul *)
    intros o Ho ops Hops n pos size. rewrite !to_eq_mul, (Ho n pos size).
    destruct (s_unary d2 ns o n pos size) as [v|]; [apply Hops|reflexivity].
  - (* MulopNil *) intros acc n pos size. rewrite !to_eq_mul_ops_nil. reflexivity.
  - (* MulopCons *)
    intros op e He t Ht acc n pos size. rewrite !to_eq_mul_ops_cons, (He n pos size).
    destruct (s_unary d2 ns e n pos size) as [v|]; [|reflexivity].
    rewrite (to_s_arith d1 d2 Hst _ acc v).
    destruct (s_arith d2 _ acc v) as [r|]; [apply Ht|reflexivity].
  - (* EUnary *)
    intros inv u Hu n pos size. rewrite !to_eq_unary, (Hu n pos size).
    destruct (s_union d2 ns u n pos size) as [v|]; [|reflexivity].
    rewrite (N_iter_ext_to (fun w => SNum (f64_neg (s_number d1 w)))
                           (fun w => SNum (f64_neg (s_number d2 w))) inv v).
    + reflexivity.
    + intros w. rewrite (to_s_number d1 d2 Hst w). reflexivity.
  - (* EUnion *) intros l [_ Hl]. exact Hl.
  - (* PathNil *)
    split.
    + intros acc n pos size. rewrite !to_eq_union_rest_nil, (to_nodeset d1 d2 Hst acc). reflexivity.
    + intros n pos size. rewrite !to_eq_union_nil. reflexivity.
  - (* PathCons *)
    intros p Hp t [Ht _]. split.
    + intros acc n pos size. rewrite !to_eq_union_rest_cons, (Hp n pos size).
      destruct (s_path d2 ns p n pos size) as [[b|x|s|l']|]; try reflexivity. apply Ht.
    + intros n pos size. destruct t as [|q t2].
      * rewrite !to_eq_union_one. apply Hp.
      * rewrite !to_eq_union_many, (Hp n pos size).
        destruct (s_path d2 ns p n pos size) as [[b|x|s|l']|]; try reflexivity. apply Ht.
  - (* PRoot *) intros n pos size. rewrite !to_eq_path_root. reflexivity.
  - (* PFilter *) intros f Hf n pos size. rewrite !to_eq_path_filter. apply Hf.
  - (* PRel *) intros l Hl n pos size. rewrite !to_eq_path_rel, (Hl [n]). reflexivity.
  - (* PAbs *)
    intros op l Hl n pos size. rewrite !to_eq_path_abs.
    rewrite (to_s_descendants d1 d2 Hst (Row doc_root)), Hl. reflexivity.
  - (* PFilterPath *)
    intros f Hf op l Hl n pos size. rewrite !to_eq_path_filterpath, (Hf n pos size).
    destruct (s_filter d2 ns f n pos size) as [[b|x|s|fl]|]; try reflexivity.
    rewrite (to_dos d1 d2 Hst fl), Hl. reflexivity.
  - (* EFilter *)
    intros p Hp preds [_ Hpreds] n pos size. destruct preds as [|e t].
    + rewrite !to_eq_filter_nil. apply Hp.
    + rewrite !to_eq_filter_cons, (Hp n pos size).
      destruct (s_primary d2 ns p n pos size) as [[b|x|s|l]|]; try reflexivity.
      rewrite (Hpreds l). reflexivity.
  - (* PrimVariable *) intros q n pos size. rewrite !to_eq_primary_variable. reflexivity.
  - (* PrimExpr *) intros e He n pos size. rewrite !to_eq_primary_expr. apply He.
  - (* PrimLiteral *) intros s n pos size. rewrite !to_eq_primary_literal. reflexivity.
  - (* PrimNumber *) intros s n pos size. rewrite !to_eq_primary_number. reflexivity.
  - (* PrimFunction *)
    intros name args [Hargs _] n pos size. destruct name as [p l|name].
    + rewrite !to_eq_primary_function_prefixed. reflexivity.
    + rewrite !to_eq_primary_function, (Hargs n pos size).
      destruct (s_args d2 ns args n pos size) as [vs|]; [|reflexivity].
      apply (to_s_call d1 d2 Hst).
  - (* ExprNil *)
    split.
    + intros n pos size. rewrite !to_eq_args_nil. reflexivity.
    + intros cands. rewrite !to_eq_preds_nil. reflexivity.
  - (* ExprCons *)
    intros e He t [Hargs Hpreds]. split.
    + intros n pos size. rewrite !to_eq_args_cons, (He n pos size), (Hargs n pos size). reflexivity.
    + intros cands. rewrite !to_eq_preds_cons.
      rewrite (pred_filter_ext_to
        (fun x ps sz => match s_or d1 ns e x ps sz with
                        | Some v => Some (pred_truth d1 v ps)
                        | None => None end)
        (fun x ps sz => match s_or d2 ns e x ps sz with
                        | Some v => Some (pred_truth d2 v ps)
                        | None => None end)).
      * match goal with |- context [pred_filter ?f ?l ?p ?s] => destruct (pred_filter f l p s) as [r|] end;
          [apply Hpreds|reflexivity].
      * intros x ps sz. rewrite (He x ps sz).
        destruct (s_or d2 ns e x ps sz) as [v|]; [|reflexivity].
        rewrite (to_pred_truth d1 d2 Hst v ps). reflexivity.
  - (* ERelPath *)
    intros s Hs ops Hops start. rewrite !to_eq_rel_path.
    rewrite (opt_flat_map_ext_to (s_step d1 ns s) (s_step d2 ns s) start Hs).
    destruct (opt_flat_map (s_step d2 ns s) start) as [r|]; [|reflexivity].
    rewrite (to_nodeset d1 d2 Hst r). apply Hops.
  - (* StepopNil *) intros cur. rewrite !to_eq_stepops_nil. reflexivity.
  - (* StepopCons *)
    intros op s Hs t Ht cur. rewrite !to_eq_stepops_cons.
    rewrite (to_dos d1 d2 Hst cur).
    rewrite (opt_flat_map_ext_to (s_step d1 ns s) (s_step d2 ns s) _ Hs).
    match goal with |- context [opt_flat_map ?f ?l] => destruct (opt_flat_map f l) as [r|] end;
      [|reflexivity].
    rewrite (to_nodeset d1 d2 Hst r). apply Ht.
  - (* StepTest *)
    intros a t preds [_ Hpreds] n. rewrite !to_eq_step_test.
    rewrite (to_s_axis d1 d2 Hst (axis_of a) n).
    rewrite (opt_filter_ext_to (s_test d1 ns (axis_of a) t) (s_test d2 ns (axis_of a) t) _
               (to_s_test d1 d2 Hst ns (axis_of a) t)).
    destruct (opt_filter (s_test d2 ns (axis_of a) t) (s_axis d2 (axis_of a) n)) as [cands|];
      [apply Hpreds|reflexivity].
  - (* StepCurrent *) intros n. rewrite !to_eq_step_current. reflexivity.
  - (* StepParent *) intros n. rewrite !to_eq_step_parent, (to_s_parent d1 d2 Hst n). reflexivity.
Qed.

Corollary s_or_tree_only (e : or_expr) n pos size :
  s_or d1 ns e n pos size = s_or d2 ns e n pos size.
Proof. destruct spec_tree_only_all as [Hor _]. apply Hor. Qed.

End Mutual.

(** ** the theorem *)
Theorem spec_query_tree_only :
  forall (d1 d2 : xdoc), same_tree d1 d2 ->
  forall (ns : bindings) (pos size : N) (e : expr),
    spec_query d1 ns pos size e = spec_query d2 ns pos size e.
Proof.
  intros d1 d2 Hst ns pos size e. unfold spec_query.
  rewrite (s_or_tree_only d1 d2 Hst ns e (Row doc_root) pos size).
  destruct (s_or d2 ns e (Row doc_root) pos size) as [[b|x|s|l]|]; try reflexivity.
  rewrite (to_nodeset d1 d2 Hst l). reflexivity.
Qed.

(** the specification answers for the erased table what it answers for the table *)
Corollary spec_query_erase_keys (d : xdoc) (ns : bindings) (pos size : N) (e : expr) :
  spec_query d ns pos size e = spec_query (erase_keys d) ns pos size e.
Proof. apply spec_query_tree_only. apply same_tree_erase. Qed.

Print Assumptions spec_query_tree_only.
