(** * C04, the equality half: the relation [doc_eq] of the property is Leibniz equality of the
    infoset model ([document] holds exactly the items, names, attribute value pieces, references,
    declarations and XML-declaration properties, in order), and it implies what the hand-written
    [PartialEq] impls of xml-info answer ([impl_eq], the `==` the harness evaluates). *)
From Coq Require Import List NArith Bool.
From XmlRs Require Import Base.CPred Model.Peg Model.ParseActions Model.Info Proofs.Expansion.
Import ListNotations.

Definition doc_eq (a b : document) : Prop := a = b.

Lemma opt_eqb_refl {A} (f : A -> A -> bool) (o : option A) : (forall a, f a a = true) -> opt_eqb f o o = true.
Proof. intros H. destruct o; cbn; auto. Qed.

Lemma list_eqb_refl {A} (f : A -> A -> bool) (l : list A) : (forall a, In a l -> f a a = true) -> list_eqb f l l = true.
Proof.
  induction l as [|x l IH]; intros H; cbn [list_eqb]; [reflexivity|].
  rewrite H by (left; reflexivity). cbn. apply IH. intros a Ha. apply H. right. exact Ha.
Qed.

Lemma radix_eqb_refl r : radix_eqb r r = true. Proof. destruct r; reflexivity. Qed.

Lemma ent_value_eqb_refl v : ent_value_eqb v v = true.
Proof. destruct v; cbn; rewrite ?str_eqb_refl, ?radix_eqb_refl; reflexivity. Qed.

Lemma entity_eqb_refl e : entity_eqb e e = true.
Proof.
  unfold entity_eqb. rewrite str_eqb_refl, !opt_eqb_refl; auto using str_eqb_refl.
  intros l. apply list_eqb_refl. intros; apply ent_value_eqb_refl.
Qed.

Lemma avalue_eqb_refl v : avalue_eqb v v = true.
Proof. destruct v; cbn; auto using str_eqb_refl, entity_eqb_refl. Qed.

Lemma attr_eqb_refl a : attr_eqb a a = true.
Proof.
  unfold attr_eqb. rewrite str_eqb_refl, opt_eqb_refl by apply str_eqb_refl. cbn.
  apply list_eqb_refl. intros; apply avalue_eqb_refl.
Qed.

Lemma att_type_eqb_refl t : att_type_eqb t t = true.
Proof. destruct t; cbn; auto; apply list_eqb_refl; intros; apply str_eqb_refl. Qed.

Lemma adefault_eqb_refl d : adefault_eqb d d = true.
Proof.
  destruct d; cbn; auto. rewrite opt_eqb_refl by apply str_eqb_refl. cbn.
  apply list_eqb_refl. intros; apply avalue_eqb_refl.
Qed.

Lemma attdef_eqb_refl d : attdef_eqb d d = true.
Proof.
  unfold attdef_eqb. rewrite str_eqb_refl, opt_eqb_refl, att_type_eqb_refl, adefault_eqb_refl by apply str_eqb_refl.
  reflexivity.
Qed.

Lemma ppi_eqb_refl p : ppi_eqb p p = true.
Proof. unfold ppi_eqb. rewrite str_eqb_refl, opt_eqb_refl by apply str_eqb_refl. reflexivity. Qed.

Lemma dtd_item_eqb_refl c : dtd_item_eqb c c = true.
Proof.
  destruct c as [a|e|n|p]; cbn [dtd_item_eqb].
  - rewrite str_eqb_refl, opt_eqb_refl by apply str_eqb_refl. cbn. apply list_eqb_refl. intros; apply attdef_eqb_refl.
  - apply entity_eqb_refl.
  - rewrite str_eqb_refl, !opt_eqb_refl by apply str_eqb_refl. reflexivity.
  - apply ppi_eqb_refl.
Qed.

Lemma doctype_eqb_refl d : doctype_eqb d d = true.
Proof.
  unfold doctype_eqb. rewrite str_eqb_refl, !opt_eqb_refl by apply str_eqb_refl. cbn.
  apply list_eqb_refl. intros; apply dtd_item_eqb_refl.
Qed.

Lemma item_eqb_refl : forall i, item_eqb i i = true.
Proof.
  fix IH 1. intros [local prefix attrs children|s|s|t n r|s|p|e|d]; cbn [item_eqb];
    auto using str_eqb_refl, ppi_eqb_refl, entity_eqb_refl, doctype_eqb_refl.
  rewrite str_eqb_refl, opt_eqb_refl by apply str_eqb_refl. cbn [andb].
  rewrite (list_eqb_refl attr_eqb attrs) by (intros; apply attr_eqb_refl). rewrite andb_true_r.
  induction children as [|c l IHl]; [reflexivity|]. rewrite IH. cbn [andb]. exact IHl.
Qed.

Theorem impl_eq_refl d : impl_eq d d = true.
Proof.
  unfold impl_eq. rewrite str_eqb_refl, !opt_eqb_refl; auto using str_eqb_refl.
  - rewrite list_eqb_refl; [reflexivity|]. intros; apply item_eqb_refl.
  - intros []; reflexivity.
Qed.

(** the relation the property describes implies the answer of the hand-written [==] *)
Theorem doc_eq_impl_eq a b : doc_eq a b -> impl_eq a b = true.
Proof. intros ->. apply impl_eq_refl. Qed.
