(** * C15 for histories that contain [normalize] calls (Model/DomNormalize.v): the calls [normalize] is made of
    carry no string fact ([op_facts_ok] and [op_facts_ok15] are [True] for them) *)
From Coq Require Import List NArith Bool Lia.
From XmlRs Require Import Base.CPred Spec.XmlChars Model.Peg Model.ParseActions Model.Info Model.Display.
From XmlRs Require Import Proofs.DisplayEq Proofs.DisplayFull Proofs.StoreDocLex.
From XmlRs Require Import Model.Store Model.StoreCheck Model.PrintableCheck Model.DomOps Model.StoreDoc Model.StoreDocMerged.
From XmlRs Require Import Proofs.DomBase Proofs.DomTree Proofs.DomOpsInv Proofs.DomCheck Proofs.DomPrintable
  Proofs.DomL1RefineValue Proofs.DomL1RefineInv Proofs.DomL1RefineInvCheck
  Proofs.StoreDocInv Proofs.StoreDocShow Proofs.StoreDocWf Proofs.StoreDocReach Proofs.StoreDocMerged
  Proofs.StoreDocMergedReach Proofs.StoreDocPiFlag.
From XmlRs Require Import Model.DomNormalize Proofs.DomNormalizeHist.
Import ListNotations.
Open Scope N_scope.

Lemma norm_op_facts_ok o : norm_op o -> op_facts_ok o /\ op_facts_ok15 o.
Proof. destruct o; intros H; try contradiction; split; exact I. Qed.

Lemma run_n_plain_facts nops w :
  Forall op_facts_ok (plain_ops nops) -> Forall op_facts_ok15 (plain_ops nops) ->
  exists ops, run_n w nops = run w ops /\ Forall op_facts_ok ops /\ Forall op_facts_ok15 ops.
Proof.
  intros F1 F2.
  destruct (run_n_plain (fun o => op_facts_ok o /\ op_facts_ok15 o) norm_op_facts_ok nops w) as [ops [E F]].
  - rewrite Forall_forall in *. intros o Ho. split; [apply F1 | apply F2]; exact Ho.
  - exists ops. split; [exact E|]. rewrite Forall_forall in F.
    split; apply Forall_forall; intros o Ho; apply (F o Ho).
Qed.

Theorem printable_reachable_with_normalize : forall nops w,
  WPrintable w -> Forall op_facts_ok (plain_ops nops) -> WPrintable (run_n w nops).
Proof.
  intros nops w Hw F.
  destruct (run_n_plain op_facts_ok (fun o H => proj1 (norm_op_facts_ok o H)) nops w F) as [ops [E F']].
  rewrite E. apply printable_reachable; assumption.
Qed.

Theorem printable_normalize : forall merged w r, WPrintable w -> WPrintable (fst (normalize merged w r)).
Proof. intros merged w r H. exact (printable_reachable_with_normalize [Normalize merged r] w H (Forall_nil _)). Qed.

Theorem lex15_reachable_with_normalize : forall nops w,
  WLex15 w -> Forall op_facts_ok (plain_ops nops) -> Forall op_facts_ok15 (plain_ops nops) -> WLex15 (run_n w nops).
Proof.
  intros nops w Hw F1 F2. destruct (run_n_plain_facts nops w F1 F2) as [ops [E [G1 G2]]].
  rewrite E. apply lex15_reachable; assumption.
Qed.

Theorem piflag_reachable_with_normalize : forall nops w, WPiFlag w -> WPiFlag (run_n w nops).
Proof. intros nops w. apply (run_n_invariant WPiFlag). intros ops w'. apply piflag_reachable. Qed.

Theorem edited_roundtrip_reachable_with_normalize : forall init nops k s,
  WInv2 init -> WLex15 init -> Forall op_facts_ok (plain_ops nops) -> Forall op_facts_ok15 (plain_ops nops) ->
  doc_at (run_n init nops) k = Some s -> Known15 s = false ->
  display (doc_of_store s) = show_doc s /\ from_raw (show_doc s) = OOk ([], doc_of_store s).
Proof.
  intros init nops k s I2 L F1 F2 D K. destruct (run_n_plain_facts nops init F1 F2) as [ops [E [G1 G2]]].
  rewrite E in D. exact (edited_roundtrip_reachable init ops k s I2 L G1 G2 D K).
Qed.

Theorem edited_roundtrip_m_reachable_with_normalize : forall init nops k s,
  WInv2 init -> WLex15 init -> Forall op_facts_ok (plain_ops nops) -> Forall op_facts_ok15 (plain_ops nops) ->
  doc_at (run_n init nops) k = Some s -> Known15m s = false ->
  from_raw (show_doc s) = OOk ([], norm_doc (doc_of_store s)).
Proof.
  intros init nops k s I2 L F1 F2 D K. destruct (run_n_plain_facts nops init F1 F2) as [ops [E [G1 G2]]].
  rewrite E in D. exact (edited_roundtrip_m_reachable init ops k s I2 L G1 G2 D K).
Qed.
