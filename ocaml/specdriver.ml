(* ---- domains of the SPEC driver (extracted from Spec/ only: independent of /repo) ---- *)
let chars_domain () =
  List.iter (fun (name, obs) ->
      print_string ("thr " ^ ascii name);
      List.iter (fun (t, v) -> Printf.printf " %d:%d" (int_of_n t) (if v then 1 else 0)) obs;
      print_newline ()) spec_obs

let () =
  let domain = if Array.length Sys.argv > 1 then Sys.argv.(1) else "" in
  match domain with
  | "chars" -> chars_domain ()
  | _ -> (prerr_endline ("unknown domain " ^ domain); exit 2)
