(** * C15: every string stored by a successful call satisfies the lexical invariant of its node kind

    [Printable s]: every item of the store holds strings that can be written in its syntactic
    position -- Text: only characters, no [<], no [&]; Comment: no [--], no trailing [-];
    CDATASection: no "]]>"; PI: a name as target, data without "?>"; element and attribute names:
    NCNames with an optional NCName prefix; entity reference: a Name.

    The character-data part needs no hypothesis: the model checks the strings themselves
    ([valid_str], the validity checks of Model/CharData.v, proved equal to the [storable]
    predicates of XML 1.0 in Proofs/CharDataProofs.v).  Names, PI data and the pieces of attribute
    values reach the model as facts computed by the implementation's parser (Model/DomOps.v,
    header); for those the theorem assumes that the facts are what the grammar says
    ([op_facts_ok]) -- that agreement is the business of C02 / C18 and of the dom tie.

    NOT covered (refuted on the implementation by checks/C15.py, listed findings): invariants that
    depend on the POSITION of a node or on its NEIGHBOURS -- "]]>" inside a Text that was created as
    an attribute value and moved into element content, "]]" and ">" in adjacent Text nodes, both
    quotation marks in one attribute value, a document without element. *)
From Coq Require Import List NArith Bool Lia.
From XmlRs Require Import Base.CPred Spec.XmlChars Model.Store Model.StoreCheck Model.PrintableCheck Model.DomOps Proofs.DomBase Proofs.DomOpsInv Proofs.DomCheck.
From XmlRs Require Model.CharData.
Import ListNotations.
Open Scope N_scope.

(** ** the invariant ([item_ok]: Model/PrintableCheck.v) *)
Definition Printable (s : store) : Prop := forall i it, get s i = Some it -> item_ok it = true.
Definition WPrintable (w : world) : Prop := WP Printable w.

(** ** what the facts of a call must satisfy (see the header) *)
Definition vitem_ok (v : vitem) : bool :=
  match v with
  | VText t => text_lex t
  | VChar _ _ => true
  | VEnt name => is_Name name
  end.

Definition data_facts_ok (d : data_info) : Prop :=
  (forall l, d_attr d = Some l -> forallb vitem_ok l = true)
  /\ (forall c, d_pi d = Some (Some c) -> pi_ok c = true).

Definition name_facts_ok (n : name_info) : Prop :=
  (forall p l, n_elem n = Some (p, l) -> qname_ok p l = true)
  /\ (forall p l, n_attr n = Some (p, l) -> qname_ok p l = true)
  /\ (forall t, n_pi n = Some t -> is_Name t = true)
  /\ (n_ref n = true -> is_Name (n_str n) = true).

Definition op_facts_ok (o : op) : Prop :=
  match o with
  | SetAttribute _ n v => name_facts_ok n /\ data_facts_ok v
  | CreateElement _ n | CreateAttribute _ n | CreateEntityReference _ n => name_facts_ok n
  | CreateProcessingInstruction _ n v => name_facts_ok n /\ data_facts_ok v
  | SetNodeValue _ v | PISetData _ v => data_facts_ok v
  | _ => True
  end.

(** ** frames: editing the tree does not touch kinds, names or data *)
Definition txt_eq (a b : item) : Prop :=
  ikind a = ikind b /\ iprefix a = iprefix b /\ ilocal a = ilocal b /\ idata a = idata b.

Definition tframe (s s' : store) : Prop :=
  forall i it', get s' i = Some it' -> exists it, get s i = Some it /\ txt_eq it' it.

Lemma item_ok_txt a b : txt_eq a b -> item_ok a = item_ok b.
Proof. intros [H1 [H2 [H3 H4]]]. unfold item_ok. rewrite H1, H2, H3, H4. reflexivity. Qed.

Lemma tframe_printable s s' : tframe s s' -> Printable s -> Printable s'.
Proof.
  intros F P i it' H. destruct (F i it' H) as [it [Hg E]]. rewrite (item_ok_txt _ _ E). exact (P i it Hg).
Qed.

Lemma tframe_refl s : tframe s s.
Proof. intros i it H. exists it. split; [exact H | repeat split]. Qed.

Lemma tframe_trans a b c : tframe a b -> tframe b c -> tframe a c.
Proof.
  intros F G i it H. destruct (G i it H) as [it1 [H1 E1]]. destruct (F i it1 H1) as [it0 [H0 E0]].
  exists it0. split; [exact H0|]. destruct E1 as [? [? [? ?]]], E0 as [? [? [? ?]]]. repeat split; congruence.
Qed.

Lemma tframe_upd s i f : (forall it, txt_eq (f it) it) -> tframe s (upd s i f).
Proof.
  intros Hf j it' H. rewrite get_upd in H. destruct (N.eqb_spec j i) as [->|].
  - destruct (get s i) as [it|]; [|discriminate]. cbn in H. inversion H; subst. exists it. split; [reflexivity | apply Hf].
  - exists it'. split; [exact H | repeat split].
Qed.

Lemma tframe_invalidate s : tframe s (invalidate s).
Proof. intros i it H. exists it. split; [exact H | repeat split]. Qed.

Lemma txt_with_parent p it : txt_eq (with_parent p it) it. Proof. repeat split. Qed.
Lemma txt_with_children l it : txt_eq (with_children l it) it. Proof. repeat split. Qed.
Lemma txt_with_attrs l it : txt_eq (with_attrs l it) it. Proof. repeat split. Qed.

Lemma tframe_delete_by_id s p x : tframe s (delete_by_id s p x).
Proof.
  unfold delete_by_id. destruct (mem x (children_of s p)); [|apply tframe_refl].
  eapply tframe_trans; apply tframe_upd; intros it; [apply txt_with_children | apply txt_with_parent].
Qed.

Lemma tframe_unlink s x : tframe s (unlink s x).
Proof.
  unfold unlink. destruct (parent_of s x); [|apply tframe_refl]. destruct (get s i); [|apply tframe_refl].
  destruct (container (ikind i0)); [apply tframe_delete_by_id | apply tframe_refl].
Qed.

Lemma tframe_link s r x ref : tframe s (link s r x ref).
Proof.
  unfold link. eapply tframe_trans; [apply tframe_unlink|].
  eapply tframe_trans; apply tframe_upd; intros it; [apply txt_with_parent | apply txt_with_children].
Qed.

Lemma tframe_info_append s r x : tframe s (fst (info_append s r x)).
Proof.
  unfold info_append. destruct (check_insert s r x); cbn [fst]; [apply tframe_refl|].
  eapply tframe_trans; [apply tframe_link | apply tframe_invalidate].
Qed.

Lemma tframe_info_insert_before s r x f : tframe s (fst (info_insert_before s r x f)).
Proof.
  unfold info_insert_before. destruct (mem f (children_of s r)); [|apply tframe_refl].
  destruct (check_insert s r x); cbn [fst]; [apply tframe_refl|].
  destruct (x =? f); cbn [fst]; [apply tframe_refl|].
  eapply tframe_trans; [apply tframe_link | apply tframe_invalidate].
Qed.

Lemma tframe_info_insert_after s r x f : tframe s (fst (info_insert_after s r x f)).
Proof.
  unfold info_insert_after. destruct (index_of f (children_of s r)); [|apply tframe_refl].
  destruct (nth_error (children_of s r) (S n)); [apply tframe_info_insert_before | apply tframe_info_append].
Qed.

Lemma tframe_info_delete s r x : tframe s (fst (info_delete s r x)).
Proof.
  unfold info_delete. destruct (mem x (children_of s r)); cbn [fst]; [|apply tframe_refl].
  eapply tframe_trans; [apply tframe_delete_by_id | apply tframe_invalidate].
Qed.

Lemma tframe_fold_unparent l : forall s, tframe s (fold_left (fun acc a => upd acc a (with_parent None)) l s).
Proof.
  induction l as [|a t IH]; intros s; cbn [fold_left]; [apply tframe_refl|].
  eapply tframe_trans; [|apply IH]. apply tframe_upd. intros it. apply txt_with_parent.
Qed.

Lemma tframe_remove_attrs s e sel : tframe s (fst (remove_attrs s e sel)).
Proof.
  unfold remove_attrs. cbn [fst]. eapply tframe_trans; [|apply tframe_invalidate].
  eapply tframe_trans; [|apply tframe_fold_unparent]. apply tframe_upd. intros it. apply txt_with_attrs.
Qed.

Lemma tframe_append_attribute s e a : tframe s (append_attribute s e a).
Proof.
  unfold append_attribute. eapply tframe_trans; [|apply tframe_invalidate].
  eapply tframe_trans; apply tframe_upd; intros it; [apply txt_with_parent | apply txt_with_attrs].
Qed.

Lemma tframe_dom_set_attribute_node w k s e a : tframe s (fst (dom_set_attribute_node w k s e a)).
Proof.
  unfold dom_set_attribute_node. destruct (negb (fst a =? k)); [apply tframe_refl|].
  destruct (parent_of s (snd a)); [apply tframe_refl|].
  destruct (get s (snd a)) as [ait|]; [|apply tframe_refl].
  destruct (kind_eqb (ikind ait) KAt && has_kind s KEl e); [|apply tframe_refl].
  pose proof (tframe_remove_attrs s e (qname_is s (iprefix ait) (ilocal ait))) as F.
  fold (remove_attribute_q s e (iprefix ait) (ilocal ait)) in F.
  destruct (remove_attribute_q s e (iprefix ait) (ilocal ait)) as [s1 old]. cbn [fst] in *.
  eapply tframe_trans; [exact F | apply tframe_append_attribute].
Qed.

Lemma tframe_detach_values s a : tframe s (detach_values s a).
Proof.
  unfold detach_values. eapply tframe_trans; [|apply tframe_fold_unparent].
  apply tframe_upd. intros it. apply txt_with_children.
Qed.

(** ** creation *)
Lemma printable_create s it : Printable s -> item_ok it = true -> Printable (snd (create s it)).
Proof.
  intros P Hit i x H. unfold create, alloc in H. cbn in H. unfold get in H. cbn in H.
  destruct (N.eqb_spec i (next s)); [inversion H; subst; exact Hit | exact (P i x H)].
Qed.

Lemma printable_create_link s a it ref :
  Printable s -> item_ok it = true ->
  let '(i, s1) := create s it in Printable (link s1 a i ref).
Proof.
  intros P Hit. pose proof (printable_create s it P Hit) as P1. destruct (create s it) as [i s1]. cbn [snd] in P1.
  eapply tframe_printable; [apply tframe_link | exact P1].
Qed.

Lemma printable_add_values l : forall s a s',
  Printable s -> forallb vitem_ok l = true -> add_values s a l = Some s' -> Printable s'.
Proof.
  induction l as [|v t IH]; intros s a s' P Hl H; cbn [add_values] in H.
  - inversion H; subst. exact P.
  - cbn [forallb] in Hl. apply andb_true_iff in Hl. destruct Hl as [Hv Ht].
    destruct v as [tx|name ch|name].
    + destruct tx as [|c tx]; [eapply IH; eassumption|].
      pose proof (printable_create_link s a (new_item KTx None [] (c :: tx) false None) None P Hv) as P1.
      destruct (create s (new_item KTx None [] (c :: tx) false None)) as [i s1]. eapply IH; eassumption.
    + destruct ch as [ch|]; [|discriminate].
      pose proof (printable_create_link s a (new_item KCr None name ch false None) None P eq_refl) as P1.
      destruct (create s (new_item KCr None name ch false None)) as [i s1]. eapply IH; eassumption.
    + destruct (entity_known s name); [|discriminate].
      pose proof (printable_create_link s a (new_item KEr None name [] false None) None P Hv) as P1.
      destruct (create s (new_item KEr None name [] false None)) as [i s1]. eapply IH; eassumption.
Qed.

Lemma printable_set_values s a d : Printable s -> data_facts_ok d -> Printable (fst (set_values s a d)).
Proof.
  intros P [Hd _]. unfold set_values. destruct (d_attr d) as [l|] eqn:E; [|exact P].
  destruct (add_values (detach_values s a) a l) as [s1|] eqn:A; cbn [fst]; [|exact P].
  eapply tframe_printable; [apply tframe_invalidate|].
  eapply printable_add_values; [|apply Hd; reflexivity | exact A].
  eapply tframe_printable; [apply tframe_detach_values | exact P].
Qed.

(** ** character data *)
Lemma check_text_lex d : CharData.check_text d = true -> text_lex d = true.
Proof. unfold CharData.check_text, text_lex. intros H. apply andb_true_iff in H. tauto. Qed.

Lemma item_ok_with_data it k r :
  ikind it = k -> valid_str k r = true -> item_ok (with_data r (iflag it) it) = true.
Proof.
  intros Hk Hv. unfold item_ok. cbn [ikind idata with_data]. rewrite Hk. unfold valid_str in Hv.
  destruct k; try discriminate; [apply check_text_lex; exact Hv | exact Hv | exact Hv].
Qed.

Lemma printable_upd_item s n f :
  Printable s -> (forall it, get s n = Some it -> item_ok (f it) = true) -> Printable (upd s n f).
Proof.
  intros P Hf i x H. rewrite get_upd in H. destruct (N.eqb_spec i n) as [->|]; [|exact (P i x H)].
  destruct (get s n) as [it|] eqn:E; [|discriminate]. cbn in H. inversion H; subst. apply Hf. reflexivity.
Qed.

Lemma printable_edit_data s n k off cnt x :
  Printable s -> kind_of s n = Some k -> Printable (fst (edit_data s n k off cnt x)).
Proof.
  intros P K. unfold edit_data. destruct (len (data_of s n) <? off); [exact P|].
  destruct (valid_str k _) eqn:V; cbn [fst]; [|exact P].
  unfold set_str. apply printable_upd_item; [exact P|]. intros it Hit.
  apply (item_ok_with_data it k); [|exact V]. unfold kind_of in K. rewrite Hit in K. cbn in K. congruence.
Qed.

Lemma printable_delete_data s n off cnt : Printable s -> Printable (fst (delete_data s n off cnt)).
Proof.
  intros P. unfold delete_data. destruct (kind_of s n) as [k|] eqn:K; [|exact P].
  apply printable_edit_data; assumption.
Qed.

Lemma printable_pi_set s n d :
  Printable s -> data_facts_ok d -> kind_of s n = Some KPi -> Printable (fst (pi_set s n d)).
Proof.
  intros P [_ Hd] K. unfold pi_set. destruct (d_pi d) as [[c|]|] eqn:E; cbn [fst]; try exact P.
  - apply printable_upd_item; [exact P|]. intros it Hit. pose proof (P n it Hit) as Ho.
    unfold kind_of in K. rewrite Hit in K. cbn in K. inversion K as [Hk].
    unfold item_ok in *. cbn [ikind idata ilocal with_data]. rewrite Hk in *.
    apply andb_true_iff in Ho. destruct Ho as [Hn _]. rewrite Hn. cbn. apply Hd. reflexivity.
  - apply printable_upd_item; [exact P|]. intros it Hit. pose proof (P n it Hit) as Ho.
    unfold kind_of in K. rewrite Hit in K. cbn in K. inversion K as [Hk].
    unfold item_ok in *. cbn [ikind idata ilocal with_data]. rewrite Hk in *.
    apply andb_true_iff in Ho. destruct Ho as [Hn _]. rewrite Hn. reflexivity.
Qed.

(** prefixes and suffixes of a storable Text / CDATASection are storable *)
Lemma forallb_firstn {A} (f : A -> bool) n l : forallb f l = true -> forallb f (firstn n l) = true.
Proof.
  revert l. induction n as [|n IH]; intros [|x l] H; cbn; try reflexivity.
  cbn in H. apply andb_true_iff in H. destruct H as [H1 H2]. rewrite H1. apply IH. exact H2.
Qed.

Lemma forallb_skipn {A} (f : A -> bool) n l : forallb f l = true -> forallb f (skipn n l) = true.
Proof.
  revert l. induction n as [|n IH]; intros [|x l] H; cbn; try reflexivity; [exact H|].
  cbn in H. apply andb_true_iff in H. apply IH. tauto.
Qed.

Lemma prefix_of_firstn p : forall n s, CharData.prefix_of p (firstn n s) = true -> CharData.prefix_of p s = true.
Proof.
  induction p as [|a p IH]; intros n s H; [destruct s; reflexivity|].
  destruct n as [|n]; [cbn in H; discriminate|]. destruct s as [|b s]; [cbn in H; discriminate|].
  cbn [firstn CharData.prefix_of] in *. apply andb_true_iff in H. destruct H as [H1 H2].
  rewrite H1. cbn. eapply IH. exact H2.
Qed.

Lemma has_sub_firstn p : forall n s, CharData.has_sub p (firstn n s) = true -> CharData.has_sub p s = true.
Proof.
  intros n s. revert n. induction s as [|b s IH]; intros n H.
  - rewrite firstn_nil in H. exact H.
  - destruct n as [|n].
    + cbn [firstn] in H. cbn [CharData.has_sub] in H. rewrite orb_false_r in H.
      destruct p; [reflexivity | cbn in H; discriminate].
    + cbn [firstn CharData.has_sub] in *. apply orb_true_iff in H. apply orb_true_iff. destruct H as [H|H].
      * left. change (b :: firstn n s) with (firstn (S n) (b :: s)) in H. eapply prefix_of_firstn. exact H.
      * right. eapply IH. exact H.
Qed.

Lemma has_sub_skipn p : forall n s, CharData.has_sub p (skipn n s) = true -> CharData.has_sub p s = true.
Proof.
  induction n as [|n IH]; intros s H; [exact H|]. destruct s as [|b s]; [exact H|].
  cbn [skipn] in H. cbn [CharData.has_sub]. apply orb_true_iff. right. apply IH. exact H.
Qed.

Lemma negb_mono a b : (a = true -> b = true) -> negb b = true -> negb a = true.
Proof. destruct a, b; cbn; intros H E; try reflexivity; try discriminate. specialize (H eq_refl). discriminate. Qed.

Lemma cd_like_firstn (f : N -> bool) n d :
  forallb f d && negb (CharData.has_sub [93; 93; 62] d) = true ->
  forallb f (firstn n d) && negb (CharData.has_sub [93; 93; 62] (firstn n d)) = true.
Proof.
  intros H. apply andb_true_iff in H. destruct H as [H1 H2]. apply andb_true_iff. split.
  - apply forallb_firstn. exact H1.
  - eapply negb_mono; [apply has_sub_firstn | exact H2].
Qed.

Lemma cd_like_skipn (f : N -> bool) n d :
  forallb f d && negb (CharData.has_sub [93; 93; 62] d) = true ->
  forallb f (skipn n d) && negb (CharData.has_sub [93; 93; 62] (skipn n d)) = true.
Proof.
  intros H. apply andb_true_iff in H. destruct H as [H1 H2]. apply andb_true_iff. split.
  - apply forallb_skipn. exact H1.
  - eapply negb_mono; [apply has_sub_skipn | exact H2].
Qed.

Lemma valid_str_firstn k n d : (k = KTx \/ k = KCd) -> valid_str k d = true -> valid_str k (firstn n d) = true.
Proof. intros [->| ->] H; cbn [valid_str] in *; apply cd_like_firstn; exact H. Qed.

Lemma valid_str_skipn k n d : (k = KTx \/ k = KCd) -> valid_str k d = true -> valid_str k (skipn n d) = true.
Proof. intros [->| ->] H; cbn [valid_str] in *; apply cd_like_skipn; exact H. Qed.

(** the weaker invariant of a Text is closed under prefixes and suffixes as well *)
Lemma item_ok_split it k (piece : str) :
  ikind it = k -> (k = KTx \/ k = KCd) -> item_ok it = true ->
  (forall f, forallb f (idata it) = true -> forallb f piece = true) ->
  (CharData.has_sub [93; 93; 62] piece = true -> CharData.has_sub [93; 93; 62] (idata it) = true) ->
  item_ok (with_data piece (iflag it) it) = true /\ item_ok (new_item k None [] piece false None) = true.
Proof.
  intros Hk Hkk Ho Hall Hsub. unfold item_ok in *. cbn [ikind idata with_data new_item]. rewrite Hk in *.
  destruct Hkk as [->| ->].
  - split; apply Hall; exact Ho.
  - unfold CharData.check_cdata, CharData.has_cdend in *. apply andb_true_iff in Ho. destruct Ho as [H1 H2].
    assert (forallb CharData.is_xml_char piece && negb (CharData.has_sub [93; 93; 62] piece) = true) as G.
    { apply andb_true_iff. split; [apply Hall; exact H1 | eapply negb_mono; [exact Hsub | exact H2]]. }
    split; exact G.
Qed.

Lemma printable_split_text k s n kd off :
  Printable s -> kind_of s n = Some kd -> Printable (fst (split_text k s n kd off)).
Proof.
  intros P K. unfold split_text. destruct (len (data_of s n) <? off); [exact P|].
  destruct (parent_of s n) as [p|]; [|exact P].
  destruct (kind_of s p) as [kp|]; [|exact P].
  match goal with |- Printable (fst (if ?c then _ else _)) => destruct c eqn:Hok end; [|exact P].
  assert (Hkd : kd = KTx \/ kd = KCd) by (destruct kd; try discriminate; tauto).
  unfold kind_of in K. destruct (get s n) as [it|] eqn:Hit; [|discriminate]. cbn in K.
  assert (Hk : ikind it = kd) by congruence. clear K.
  set (m := N.to_nat (N.min off (len (data_of s n)))).
  assert (Hd : data_of s n = idata it) by (unfold data_of; rewrite Hit; reflexivity).
  destruct (item_ok_split it kd (firstn m (idata it)) Hk Hkd (P n it Hit)) as [O1 _];
    [intros f; apply forallb_firstn | apply has_sub_firstn|].
  destruct (item_ok_split it kd (skipn m (idata it)) Hk Hkd (P n it Hit)) as [_ O2];
    [intros f; apply forallb_skipn | apply has_sub_skipn|].
  assert (P1 : Printable (set_str s n (firstn m (data_of s n)))).
  { unfold set_str. apply printable_upd_item; [exact P|]. intros it' E. rewrite Hit in E. inversion E; subst it'.
    rewrite Hd. exact O1. }
  rewrite Hd in *. fold m.
  pose proof (printable_create _ (new_item kd None [] (skipn m (idata it)) false None) P1 O2) as P2.
  destruct (create (set_str s n (firstn m (idata it))) (new_item kd None [] (skipn m (idata it)) false None)) as [i s2].
  cbn [snd] in P2.
  pose proof (tframe_printable _ _ (tframe_info_insert_after s2 p i n) P2) as P3.
  destruct (info_insert_after s2 p i n) as [s3 [e|]]; cbn [fst] in P3.
  - destruct e; cbn [fst]; try exact P3.
    pose proof (tframe_printable _ _ (tframe_info_append s3 p i) P3) as P4.
    destruct (info_append s3 p i) as [s4 [e4|]]; exact P4.
  - exact P3.
Qed.

(** ** every call preserves the invariant *)
Lemma printable_factory k s it : Printable s -> item_ok it = true -> Printable (fst (factory k s it)).
Proof.
  intros P H. unfold factory. pose proof (printable_create s it P H) as P1. destruct (create s it). exact P1.
Qed.

Theorem step_printable w o : WPrintable w -> op_facts_ok o -> WPrintable (fst (step w o)).
Proof.
  intros Hw F.
  assert (IB : forall s r x f, Printable s -> Printable (fst (info_insert_before s r x f)))
    by (intros; eapply tframe_printable; [apply tframe_info_insert_before | assumption]).
  assert (AP : forall s r x, Printable s -> Printable (fst (info_append s r x)))
    by (intros; eapply tframe_printable; [apply tframe_info_append | assumption]).
  assert (DL : forall s r x, Printable s -> Printable (fst (info_delete s r x)))
    by (intros; eapply tframe_printable; [apply tframe_info_delete | assumption]).
  assert (SAN : forall w k s e a, Printable s -> Printable (fst (dom_set_attribute_node w k s e a)))
    by (intros; eapply tframe_printable; [apply tframe_dom_set_attribute_node | assumption]).
  assert (RA : forall s e sel, Printable s -> Printable (fst (remove_attrs s e sel)))
    by (intros; eapply tframe_printable; [apply tframe_remove_attrs | assumption]).
  destruct o; cbn [step]; cbn [op_facts_ok] in F.
  - destruct (kind_in w r) as [k|]; [|exact Hw]. destruct (node_mut k); [|exact Hw].
    destruct (exists_in w n); [apply dom_insert_before_P; assumption | exact Hw].
  - destruct (kind_in w r) as [k|]; [|exact Hw]. destruct (node_mut k); [|exact Hw].
    destruct (exists_in w n && exists_in w f); [apply dom_insert_before_P; assumption | exact Hw].
  - destruct (kind_in w r) as [k|]; [|exact Hw]. destruct (node_mut k); [|exact Hw].
    destruct (exists_in w n && exists_in w o); [|exact Hw].
    pose proof (dom_insert_before_P Printable IB AP w r n (Some o) Hw) as H1.
    destruct (dom_insert_before w r n (Some o)) as [w1 oc]. cbn [fst] in H1.
    destruct oc; try exact H1. apply dom_remove_child_P; assumption.
  - destruct (kind_in w r) as [k|]; [|exact Hw]. destruct (node_mut k); [|exact Hw].
    destruct (exists_in w o); [apply dom_remove_child_P; assumption | exact Hw].
  - (* SetAttribute *)
    destruct F as [[_ [Fa _]] Fd].
    apply on_element_P; [exact Hw|]. intros s T _.
    destruct (n_attr name) as [[p l]|] eqn:En; [|exact T].
    pose proof (printable_create s (new_item KAt p l [] false None) T (Fa p l eq_refl)) as T1.
    destruct (create s (new_item KAt p l [] false None)) as [a s1]. cbn [snd] in T1.
    destruct (attribute_q s1 (snd r) p l) as [present|].
    + pose proof (printable_set_values s1 present value T1 Fd) as T2.
      destruct (set_values s1 present value) as [s2 [|]]; exact T2.
    + pose proof (printable_set_values s1 a value T1 Fd) as T2.
      destruct (set_values s1 a value) as [s2 [|]]; cbn [fst] in *; [|exact T2].
      pose proof (SAN w (fst r) s2 (snd r) (fst r, a) T2) as T3.
      destruct (dom_set_attribute_node w (fst r) s2 (snd r) (fst r, a)) as [s3 oc]. cbn [fst] in T3.
      destruct oc; exact T3.
  - destruct (attr_local w a) as [nm|]; [|exact Hw]. apply on_element_P; [exact Hw|]. intros s T _. apply SAN. exact T.
  - apply on_element_P; [exact Hw|]. intros s T _. cbn [fst]. apply RA. exact T.
  - destruct (attr_q w a) as [[p l]|]; [|exact Hw]. apply on_element_P; [exact Hw|]. intros s T _.
    destruct (attribute_q s (snd r) p l) as [f|]; [|exact T].
    destruct ((f =? snd a) && (fst a =? fst r)); cbn [fst]; [apply RA; exact T | exact T].
  - destruct (attr_local w a) as [nm|]; [|exact Hw]. apply on_element_P; [exact Hw|]. intros s T _. apply SAN. exact T.
  - apply on_element_P; [exact Hw|]. intros s T _.
    destruct (get_attribute_node s (snd r) name); cbn [fst]; [apply RA; exact T | exact T].
  - (* CreateElement *)
    destruct F as [Fe _]. apply on_document_P; [exact Hw|]. intros s T.
    destruct (n_elem name) as [[p l]|] eqn:E; [|exact T]. apply printable_factory; [exact T | apply (Fe p l eq_refl)].
  - destruct F as [_ [Fa _]]. apply on_document_P; [exact Hw|]. intros s T.
    destruct (n_attr name) as [[p l]|] eqn:E; [|exact T]. apply printable_factory; [exact T | apply (Fa p l eq_refl)].
  - apply on_document_P; [exact Hw|]. intros s T. destruct (valid_str KTx (d_str data)) eqn:V; [|exact T].
    apply printable_factory; [exact T | apply check_text_lex; exact V].
  - apply on_document_P; [exact Hw|]. intros s T. destruct (valid_str KCm (d_str data)) eqn:V; [|exact T].
    apply printable_factory; [exact T | exact V].
  - apply on_document_P; [exact Hw|]. intros s T. destruct (valid_str KCd (d_str data)) eqn:V; [|exact T].
    apply printable_factory; [exact T | exact V].
  - (* CreateProcessingInstruction *)
    destruct F as [[_ [_ [Fp _]]] [_ Fd]]. apply on_document_P; [exact Hw|]. intros s T.
    destruct (n_pi target) as [t|] eqn:Et; [|exact T]. destruct (d_pi data) as [[c|]|] eqn:Ed; try exact T.
    + apply printable_factory; [exact T|]. unfold item_ok. cbn. rewrite (Fp t eq_refl). cbn. apply Fd. reflexivity.
    + apply printable_factory; [exact T|]. unfold item_ok. cbn. rewrite (Fp t eq_refl). reflexivity.
  - destruct F as [_ [_ [_ Fr]]]. apply on_document_P; [exact Hw|]. intros s T.
    destruct (n_ref name) eqn:Er; [|exact T]. destruct (entity_declared s (n_str name)); [|exact T].
    apply printable_factory; [exact T | apply Fr; reflexivity].
  - apply on_document_P; [exact Hw|]. intros s T. apply printable_factory; [exact T | reflexivity].
  - (* SetNodeValue *)
    apply on_node_P; [exact Hw|]. intros s k T K. destruct k; try exact T.
    + pose proof (printable_set_values s (snd r) v T F) as H. destruct (set_values s (snd r) v) as [s1 [|]]; exact H.
    + apply printable_edit_data; assumption.
    + apply printable_edit_data; assumption.
    + apply printable_pi_set; assumption.
    + apply printable_edit_data; assumption.
  - apply on_node_P; [exact Hw|]. intros s k T K. destruct (chardata k); [apply printable_edit_data; assumption | exact T].
  - apply on_node_P; [exact Hw|]. intros s k T K. destruct (chardata k); [apply printable_edit_data; assumption | exact T].
  - apply on_node_P; [exact Hw|]. intros s k T K. destruct (chardata k); [apply printable_edit_data; assumption | exact T].
  - apply on_node_P; [exact Hw|]. intros s k T K. destruct (chardata k); [apply printable_delete_data; assumption | exact T].
  - apply on_node_P; [exact Hw|]. intros s k T K. destruct (chardata k); [apply printable_edit_data; assumption | exact T].
  - apply on_node_P; [exact Hw|]. intros s k T K. destruct k; try exact T; apply printable_split_text; assumption.
  - apply on_node_P; [exact Hw|]. intros s k T K. destruct k; try exact T. apply printable_pi_set; assumption.
  - exact Hw.
Qed.

(** every history: failed, refused and panicking calls included *)
Theorem printable_reachable : forall ops w,
  WPrintable w -> Forall op_facts_ok ops -> WPrintable (run w ops).
Proof.
  induction ops as [|o t IH]; intros w Hw F; cbn; [exact Hw|].
  inversion F; subst. apply IH; [apply step_printable; assumption | assumption].
Qed.

(** ** what the invariant says about the serialisation of one node: the markup that delimits a
    Comment, a CDATASection or a PI cannot be closed early by its content, and a Text cannot open
    markup *)
Theorem printable_items : forall s i it, Printable s -> get s i = Some it ->
  match ikind it with
  | KTx => forallb (fun c => negb (c =? 60) && negb (c =? 38)) (idata it) = true
  | KCm => CharData.has_double_hyphen (idata it) = false /\ CharData.ends_with_hyphen (idata it) = false
  | KCd => CharData.has_cdend (idata it) = false
  | KPi => CharData.has_sub [63; 62] (idata it) = false
  | _ => True
  end.
Proof.
  intros s i it P H. pose proof (P i it H) as Ho. unfold item_ok in Ho. destruct (ikind it); try exact I.
  - unfold text_lex in Ho. rewrite forallb_forall in *. intros c Hc. specialize (Ho c Hc).
    apply andb_true_iff in Ho. destruct Ho as [Ho H2]. apply andb_true_iff in Ho. destruct Ho as [_ H1].
    rewrite H1, H2. reflexivity.
  - unfold CharData.check_cdata in Ho. apply andb_true_iff in Ho. destruct Ho as [_ Ho].
    apply negb_true_iff in Ho. exact Ho.
  - apply andb_true_iff in Ho. destruct Ho as [_ Ho]. unfold pi_ok in Ho. apply andb_true_iff in Ho.
    destruct Ho as [_ Ho]. apply negb_true_iff in Ho. exact Ho.
  - unfold CharData.check_comment in Ho. apply andb_true_iff in Ho. destruct Ho as [Ho H2].
    apply andb_true_iff in Ho. destruct Ho as [_ H1]. apply negb_true_iff in H1. apply negb_true_iff in H2. tauto.
Qed.

(** ** the executable check is sound: what the model driver evaluates on every initial store *)
Theorem printable_b_sound : forall l nx decl root, printable_b l = true -> Printable (store_of_list l nx decl root).
Proof.
  intros l nx decl root H i it G. unfold store_of_list, get in G. cbn [items] in G.
  destruct (lookup_in l i it G) as [j [_ [Hin _]]]. unfold printable_b in H. rewrite forallb_forall in H.
  exact (H (j, it) Hin).
Qed.
