(** * The converse direction, part 4: the constraints.  For documents without a DOCTYPE, what
    [Spec.XmlWF.check_doc] accepts, XmlDocument::new ([build_document]) accepts; hence every
    namespace-well-formed document without DOCTYPE is accepted by [from_raw]
    ([wf_nodoctype_accepted]): the completeness half of C01 for this class, and -- with
    [accepted_wf_nodoctype] -- the equality of the two languages on it, outside findings D04 and
    WFNS20-23. *)
From Coq Require Import List NArith Arith Lia Bool.
From XmlRs Require Import Base.CPred Spec.XmlChars Model.Peg Gen.XmlcharGen Gen.GrammarXmlGen Model.ParseActions Model.Info Model.Display
     Proofs.XmlcharProofs Proofs.PegTermination Proofs.PegLemmas Proofs.PegInv Proofs.Expansion Proofs.PipelineTotal
     Proofs.DisplayLex Proofs.ActionLemmas Proofs.DisplayElem Proofs.DisplayDoc Proofs.ParseInv Proofs.ParseInvElem Proofs.ParseInvBuild
     Proofs.XmlWFSyntaxLex Proofs.XmlWFSyntaxElem Proofs.XmlWFSyntaxDoc Proofs.XmlWFSyntaxCheck
     Proofs.XmlWFSyntaxConvLex Proofs.XmlWFSyntaxConvElem Proofs.XmlWFSyntaxConvDoc.
From XmlRs Require Spec.XmlWF.
Import ListNotations.
Local Open Scope N_scope.

(** ** character references: a legal character is built *)
Lemma hexval_digit_val r c : eval (match r with Dec => dec_digits | Hex => hex_digits end) c = true -> digit_val r c = Some (W.hexval c).
Proof.
  intros H. unfold digit_val, W.hexval, W.isDigit.
  destruct r; [rewrite digit_class in H; unfold W.isDigit in H; rewrite H; reflexivity|].
  rewrite hex_class in H. unfold W.isHex, W.isDigit in H. destruct ((48 <=? c) && (c <=? 57)) eqn:E1; [reflexivity|].
  cbn [orb] in H. apply orb_prop in H. destruct H as [H|H].
  - apply andb_prop in H. destruct H as [H1 H2]. apply N.leb_le in H1. apply N.leb_le in H2.
    assert ((97 <=? c) && (c <=? 102) = false) as -> by (apply andb_false_intro1; apply N.leb_gt; lia).
    assert ((65 <=? c) && (c <=? 70) = true) as -> by (apply andb_true_intro; split; apply N.leb_le; lia).
    assert ((c <=? 70) = true) as -> by (apply N.leb_le; lia). reflexivity.
  - rewrite H. apply andb_prop in H. destruct H as [H1 H2]. apply N.leb_le in H1.
    assert ((c <=? 70) = false) as -> by (apply N.leb_gt; lia). reflexivity.
Qed.

Lemma digits_val_number r (num : str) : forallb (eval (match r with Dec => dec_digits | Hex => hex_digits end)) num = true ->
  forall acc, digits_val r acc num = Some (fold_left (fun a d => a * radix_n r + W.hexval d) num acc).
Proof.
  induction num as [|c num IH]; intros H acc; [reflexivity|]. cbn [forallb] in H. apply andb_prop in H. destruct H as [Hc Hn].
  cbn [digits_val fold_left]. rewrite (hexval_digit_val r c Hc). apply IH. exact Hn.
Qed.

Lemma isChar_scalar n : W.isChar n = true -> is_scalar n = true /\ (n <=? 4294967295) = true.
Proof.
  unfold W.isChar, spec_Char. cbn [eval existsb]. unfold in_range. cbn [fst snd]. intros H. unfold is_scalar.
  repeat (apply orb_prop in H; destruct H as [H|H]); try discriminate H;
    apply andb_prop in H; destruct H as [H1 H2]; apply N.leb_le in H1; apply N.ltb_lt in H2;
    (split; [|apply N.leb_le; lia]);
    first [apply orb_true_intro; left; apply N.ltb_lt; lia
          |apply orb_true_intro; right; apply andb_true_intro; split; apply N.leb_le; lia].
Qed.

Lemma char_from_complete num r : reference_ok (RefChar num r) -> W.isChar (W.number (radix_n r) num) = true ->
  char_from num r = IOk (W.number (radix_n r) num).
Proof.
  intros Hok Hch. unfold char_from, parse_u32.
  assert (num <> [] /\ forallb (eval (match r with Dec => dec_digits | Hex => hex_digits end)) num = true) as [Hne Hd] by (destruct r; exact Hok).
  destruct num as [|x num]; [contradiction|].
  rewrite skip_plus_id by (intros ->; cbn [forallb] in Hd; apply andb_prop in Hd; destruct Hd as [Hd _]; destruct r; vm_compute in Hd; discriminate).
  pose proof (digits_val_number r (x :: num) Hd 0) as Edv. fold (W.number (radix_n r) (x :: num)) in Edv. unfold str, char in *. rewrite Edv.
  destruct (isChar_scalar _ Hch) as [Hs Hb]. rewrite Hb, Hs. rewrite <- isChar_eval, Hch. reflexivity.
Qed.

(** ** entity references: only the predefined ones *)
Lemma predef_none' m : Info.predefined m = None -> W.assoc m (W.with_predefined []) = None.
Proof.
  intros H. destruct (W.assoc m (W.with_predefined [])) as [x|] eqn:E; [|reflexivity]. exfalso.
  assert (is_predef m) as Hp.
  { unfold is_predef. cbn [W.with_predefined app map W.predefined W.assoc] in E.
    destruct (W.str_eqb m W.s_lt) eqn:E1; [apply Wstr_eqb_eq in E1; left; exact E1|].
    destruct (W.str_eqb m W.s_gt) eqn:E2; [apply Wstr_eqb_eq in E2; right; left; exact E2|].
    destruct (W.str_eqb m W.s_amp) eqn:E3; [apply Wstr_eqb_eq in E3; right; right; left; exact E3|].
    destruct (W.str_eqb m W.s_apos) eqn:E4; [apply Wstr_eqb_eq in E4; right; right; right; left; exact E4|].
    destruct (W.str_eqb m W.s_quot) eqn:E5; [apply Wstr_eqb_eq in E5; right; right; right; right; exact E5|].
    discriminate E. }
  destruct Hp as [->|[->|[->|[->| ->]]]]; discriminate H.
Qed.

Lemma resolve_predef attr nm x : W.assoc nm (W.e_ents en0) = Some x -> exists e, resolve_ref [] false attr nm = IOk e.
Proof.
  intros H. change (W.e_ents en0) with (W.with_predefined []) in H. destruct (Info.predefined nm) as [e|] eqn:P; [|rewrite (predef_none' nm P) in H; discriminate H].
  exists e. unfold resolve_ref, lookup_entity2. cbn [find]. rewrite P. reflexivity.
Qed.

(** ** attribute values *)
Lemma av_ok_cons_inv p ps : W.av_ok 6 en0 [] (p :: ps) = None -> W.av_ok 6 en0 [] [p] = None /\ W.av_ok 6 en0 [] ps = None.
Proof.
  cbn [W.av_ok W.allc fold_right]. unfold W.andc at 1.
  match goal with |- match ?x with _ => _ end = _ -> _ => destruct x eqn:E; [discriminate|] end. intros H. split; [reflexivity|exact H].
Qed.

Lemma av_ok_app_inv a b : W.av_ok 6 en0 [] (a ++ b) = None -> W.av_ok 6 en0 [] a = None /\ W.av_ok 6 en0 [] b = None.
Proof.
  induction a as [|p a IH]; [intros H; split; [reflexivity|exact H]|]. cbn [app]. intros H. apply av_ok_cons_inv in H. destruct H as [Hp Ha].
  destruct (IH Ha) as [Ha' Hb]. split; [|exact Hb]. change (p :: a) with ([p] ++ a). apply av_ok_app; assumption.
Qed.

Lemma av_ok_char_inv n : W.av_ok 6 en0 [] [W.AvChar n] = None -> W.isChar n = true.
Proof.
  destruct (W.isChar n) eqn:E; [reflexivity|]. intros H.
  assert (W.av_ok 6 en0 [] [W.AvChar n] = Some W.RBadCharRef) as H2 by (cbn [W.av_ok W.allc fold_right]; rewrite E; reflexivity). congruence.
Qed.

Lemma av_ok_ent_inv n : W.av_ok 6 en0 [] [W.AvEnt n] = None -> exists x, W.assoc n (W.e_ents en0) = Some x.
Proof.
  destruct (W.assoc n (W.e_ents en0)) as [x|] eqn:E; [eauto|]. intros H.
  assert (W.av_ok 6 en0 [] [W.AvEnt n] = Some W.RUndeclared) as H2 by (cbn [W.av_ok W.allc fold_right W.mem existsb]; rewrite E; reflexivity). congruence.
Qed.

Lemma build_avalues_complete (l : list att_value) : (exists q, av_ok q false l) \/ (exists q, av_ok q true l) ->
  W.av_ok 6 en0 [] (x_av l) = None -> exists vs, build_avalues [] false l = IOk vs.
Proof.
  induction l as [|v l IH]; intros Hok H; [exists []; reflexivity|].
  change (x_av (v :: l)) with (x_avpiece v ++ x_av l) in H. apply av_ok_app_inv in H. destruct H as [Hv Hl].
  assert ((exists q, av_ok q false l) \/ (exists q, av_ok q true l)) as Hok'.
  { destruct Hok as [[q Hq]|[q Hq]]; destruct v as [x|s]; cbn [av_ok] in Hq; [left|right|left|right]; exists q; tauto. }
  destruct (IH Hok' Hl) as [vs Hvs]. cbn [build_avalues].
  assert (exists o, build_avalue [] false v = IOk o) as [o Ho].
  { destruct v as [[num rd|n]|s]; cbn [build_avalue x_avpiece x_ref W.piece_of_ref] in *.
    - assert (reference_ok (RefChar num rd)) as Hrf by (destruct Hok as [[q Hq]|[q Hq]]; cbn [av_ok] in Hq; tauto).
      assert (W.isChar (W.number (radix_n rd) num) = true) as Hch by (destruct rd; apply av_ok_char_inv; exact Hv).
      rewrite (char_from_complete num rd Hrf Hch). cbn [ibind]. eauto.
    - destruct (av_ok_ent_inv n Hv) as [x Hx].
      destruct (resolve_predef true n x Hx) as [e He]. rewrite He. cbn [ibind]. eauto.
    - destruct s; eauto. }
  rewrite Ho. cbn [ibind]. rewrite Hvs. cbn [ibind]. eauto.
Qed.

(** ** generic inversions of the specification's combinators *)
Lemma andc_none (a b : W.chk) : W.andc a b = None -> a = None /\ b = None.
Proof. destruct a; [discriminate|]. intros H. split; [reflexivity|exact H]. Qed.

Lemma guard_none (b : bool) r : W.guard b r = None -> b = true.
Proof. destruct b; [reflexivity|discriminate]. Qed.

Lemma allc_cons_inv {A} (g : A -> W.chk) (x : A) (l : list A) : W.allc g (x :: l) = None -> g x = None /\ W.allc g l = None.
Proof. unfold W.allc. cbn [fold_right]. apply andc_none. Qed.

Lemma allc_app_inv {A} (g : A -> W.chk) (a b : list A) : W.allc g (a ++ b) = None -> W.allc g a = None /\ W.allc g b = None.
Proof.
  induction a as [|x a IH]; [intros H; split; [reflexivity|exact H]|]. cbn [app]. intros H. apply allc_cons_inv in H. destruct H as [Hx Ha].
  destruct (IH Ha) as [Ha' Hb]. split; [|exact Hb]. apply allc_cons; assumption.
Qed.

Lemma mapM_cons_inv {A B} (g : A -> W.reason + B) (x : A) (l : list A) r : W.mapM g (x :: l) = inr r ->
  exists y ys, g x = inr y /\ W.mapM g l = inr ys /\ r = y :: ys.
Proof.
  cbn [W.mapM]. destruct (g x) as [e|y]; [discriminate|]. destruct (W.mapM g l) as [e|ys]; [discriminate|].
  intros H. injection H as <-. eauto.
Qed.

Lemma mapM_app_inv {A B} (g : A -> W.reason + B) (a b : list A) : forall r, W.mapM g (a ++ b) = inr r ->
  exists a' b', W.mapM g a = inr a' /\ W.mapM g b = inr b' /\ r = a' ++ b'.
Proof.
  induction a as [|x a IH]; intros r H; [exists [], r; auto|]. cbn [app] in H. apply mapM_cons_inv in H.
  destruct H as [y [ys [Hy [Hys ->]]]]. destruct (IH ys Hys) as [a' [b' [Ha [Hb ->]]]]. exists (y :: a'), b'.
  cbn [W.mapM]. rewrite Hy, Ha. auto.
Qed.

(** ** attributes: Unique Att Spec *)
Lemma qname_eqb_eq (a b : qname) : qname_eqb a b = true -> a = b.
Proof.
  destruct a, b; cbn [qname_eqb]; intros H; try discriminate H.
  - apply andb_prop in H. destruct H as [H1 H2]. apply str_eqb_eq in H1. apply str_eqb_eq in H2. congruence.
  - apply str_eqb_eq in H. congruence.
Qed.

Lemma att_name_eqb_eq (a b : att_name) : att_name_eqb a b = true -> a = b.
Proof.
  destruct a, b; cbn [att_name_eqb]; intros H; try discriminate H; [reflexivity| |].
  - apply str_eqb_eq in H. congruence.
  - apply qname_eqb_eq in H. congruence.
Qed.

Lemma mem_cons_false (k x : str) (l : list str) : W.mem k (x :: l) = false -> W.str_eqb k x = false /\ W.mem k l = false.
Proof. unfold W.mem. cbn [existsb]. apply orb_false_elim. Qed.

Lemma build_attrs_complete (l : list attribute) : forall before,
  Forall p_attribute_ok' l -> W.nodup_names (map att_nm l) = true ->
  (forall b, In b before -> W.mem (att_nm b) (map att_nm l) = false) ->
  W.allc (fun a : str * list W.avpiece => W.av_ok 6 en0 [] (snd a)) (map x_att l) = None ->
  exists r, build_attrs_from [] false before l = IOk r.
Proof.
  induction l as [|a l IH]; intros before Hl Hnd Hb Hv; [exists []; reflexivity|]. cbn [build_attrs_from].
  cbn [map W.nodup_names] in Hnd. apply andb_prop in Hnd. destruct Hnd as [Hna Hnd]. apply negb_true_iff in Hna.
  cbn [map] in Hv. apply allc_cons_inv in Hv. destruct Hv as [Hva Hvl]. inversion Hl as [|? ? Ha Hl']. subst.
  destruct (existsb (fun v => att_name_eqb (at_name v) (at_name a)) before) eqn:Ex.
  { exfalso. apply existsb_exists in Ex. destruct Ex as [b [Hin Eb]]. apply att_name_eqb_eq in Eb.
    specialize (Hb b Hin). cbn [map] in Hb. apply mem_cons_false in Hb. destruct Hb as [Hb _].
    unfold att_nm in Hb. rewrite Eb, Wstr_eqb_refl in Hb. discriminate Hb. }
  assert (exists x, build_attr [] false a = IOk x) as [x Hx].
  { unfold build_attr. destruct (attribute_name (at_name a)) as [lo pr]. destruct Ha as [[_ [q [_ Hq]]] _].
    cbn [x_att snd] in Hva. destruct (build_avalues_complete (at_value a) (or_introl (ex_intro _ q Hq)) Hva) as [vs Hvs].
    rewrite Hvs. cbn [ibind]. eauto. }
  destruct (IH (before ++ [a]) Hl' Hnd) as [r Hr]; [|exact Hvl|].
  { intros b Hin. apply in_app_or in Hin. destruct Hin as [Hin|[<-|[]]]; [|exact Hna].
    specialize (Hb b Hin). cbn [map] in Hb. apply mem_cons_false in Hb. tauto. }
  rewrite Hx. cbn [ibind]. rewrite Hr. cbn [ibind]. eauto.
Qed.

(** ** content and elements *)
Definition elem_complete (e : element) : Prop :=
  p_element_ok e -> forall x', W.expand 6 en0 [] (x_elem e) = inr x' -> W.tree_ok 6 en0 x' = None ->
  exists el, build_element [] false e = IOk el.

Lemma text_expand (o : option str) r : W.mapM (W.expand 6 en0 []) (x_text o) = inr r -> r = x_text o.
Proof. destruct (text_check o) as [E _]. rewrite E. intros H. injection H as <-. reflexivity. Qed.

Lemma expand_entref n x' : W.expand 6 en0 [] (W.XEntRef n) = inr x' -> exists x, W.assoc n (W.e_ents en0) = Some x.
Proof.
  destruct (W.assoc n (W.e_ents en0)) as [x|] eqn:E; [eauto|]. intros H.
  assert (W.expand 6 en0 [] (W.XEntRef n) = inl W.RUndeclared) as H2 by (cbn [W.expand W.mem existsb]; rewrite E; reflexivity). congruence.
Qed.

Lemma cells_complete (cells : list cell) : cells_all elem_complete cells -> cells_ok p_element_ok cells ->
  forall kids', W.mapM (W.expand 6 en0 []) (x_cells x_elem cells) = inr kids' -> W.allc (W.tree_ok 6 en0) kids' = None ->
  exists ch, build_cells (build_element [] false) [] false cells = IOk ch.
Proof.
  induction 1 as [|[c tl] l Hc _ IH]; intros Hok kids' Hm Ht; [exists []; reflexivity|].
  cbn [cells_ok] in Hok. destruct Hok as [Hc_ok [_ Hl_ok]]. cbn [x_cells] in Hm.
  apply mapM_cons_inv in Hm. destruct Hm as [y [ys [Hy [Hys ->]]]]. apply mapM_app_inv in Hys. destruct Hys as [t' [kl [Ht' [Hkl ->]]]].
  apply allc_cons_inv in Ht. destruct Ht as [Oy Ht]. apply allc_app_inv in Ht. destruct Ht as [_ Okl].
  destruct (IH Hl_ok kl Hkl Okl) as [r Hr]. cbn [build_cells].
  assert (exists it, build_child (build_element [] false) [] false c = IOk it) as [it Hit].
  { cbn [fst] in Hc. destruct c as [e'|[num rd|n]|s|p|s]; cbn [build_child x_contents contents_ok] in *.
    - exact (Hc Hc_ok y Hy Oy).
    - assert (W.isChar (W.number (radix_n rd) num) = true) as Hch.
      { unfold x_refitem in Hy. destruct rd; cbn [x_ref radix_n] in *; cbn [W.expand] in Hy; injection Hy as <-; cbn [W.tree_ok] in Oy;
          apply guard_none in Oy; exact Oy. }
      rewrite (char_from_complete num rd Hc_ok Hch). cbn [ibind]. eauto.
    - unfold x_refitem in Hy. cbn [x_ref] in Hy. destruct (expand_entref n y Hy) as [x Hx].
      destruct (resolve_predef false n x Hx) as [e He]. rewrite He. cbn [ibind]. eauto.
    - eauto.
    - eauto.
    - eauto. }
  rewrite Hit. cbn [ibind]. rewrite Hr. cbn [ibind]. eauto.
Qed.

Lemma tree_ok_elem nm atts et kids : W.tree_ok 6 en0 (W.XElem nm atts et kids) = None ->
  match et with Some e => W.str_eqb e nm | None => true end = true /\ W.nodup_names (map fst atts) = true /\
  W.allc (fun a : str * list W.avpiece => W.av_ok 6 en0 [] (snd a)) atts = None /\ W.allc (W.tree_ok 6 en0) kids = None.
Proof.
  cbn [W.tree_ok]. intros H. apply andc_none in H. destruct H as [H1 H]. apply andc_none in H. destruct H as [H2 H].
  apply andc_none in H. destruct H as [H3 H4]. apply guard_none in H1. apply guard_none in H2. auto.
Qed.

Theorem element_complete : forall e, elem_complete e.
Proof.
  apply element_ind2.
  - intros n a [Hq [Ha _]] x' Hx Ht. cbn [x_elem] in Hx. rewrite expand_elem in Hx. cbn [W.mapM] in Hx. injection Hx as <-.
    apply tree_ok_elem in Ht. destruct Ht as [_ [Hnd [Hav _]]]. rewrite map_map in Hnd. change (map (fun x => fst (x_att x)) a) with (map att_nm a) in Hnd.
    cbn [build_element]. unfold build_attrs. destruct (build_attrs_complete a [] Ha Hnd) as [r Hr]; [intros b []|exact Hav|].
    rewrite Hr. cbn [ibind]. eauto.
  - intros n a h cells Hcells [Hq [Ha [Hh Hcs]]] x' Hx Ht. cbn [x_elem] in Hx. rewrite expand_elem in Hx.
    destruct (W.mapM (W.expand 6 en0 []) (x_text h ++ x_cells x_elem cells)) as [e|kids'] eqn:Ek; [discriminate|]. injection Hx as <-.
    apply mapM_app_inv in Ek. destruct Ek as [t' [kl [_ [Hkl ->]]]].
    apply tree_ok_elem in Ht. destruct Ht as [_ [Hnd [Hav Hk]]]. apply allc_app_inv in Hk. destruct Hk as [_ Okl].
    rewrite map_map in Hnd. change (map (fun x => fst (x_att x)) a) with (map att_nm a) in Hnd.
    cbn [build_element]. unfold build_attrs. destruct (build_attrs_complete a [] Ha Hnd) as [r Hr]; [intros b []|exact Hav|].
    rewrite Hr. cbn [ibind]. destruct (cells_complete cells Hcells Hcs kl Hkl Okl) as [ch Hch]. rewrite Hch. cbn [ibind]. eauto.
Qed.

(** ** what the grammar of the implementation requires beyond productions [1]-[83] follows from
    Element Type Match and from the namespace constraint that names are QNames *)
Lemma xcontent_ind2 (P : W.xcontent -> Prop) :
  (forall x, match x with W.XElem _ _ _ kids => Forall P kids | W.XExp _ items => Forall P items | _ => True end -> P x) ->
  forall x, P x.
Proof.
  intros H. fix IH 1. intros x. apply H. destruct x as [c|s|n|nm|s|tg dt|nm atts et kids|nm items]; try exact I.
  - revert kids. fix IHk 1. intros [|k kids]; constructor; [apply IH|apply IHk].
  - revert items. fix IHk 1. intros [|k items]; constructor; [apply IH|apply IHk].
Qed.

Lemma ns_tree_elem fuel en subset scope nm atts et kids : W.ns_tree fuel en subset scope (W.XElem nm atts et kids) = None ->
  is_QName nm && forallb (fun a : str * list W.avpiece => is_QName (fst a)) (atts ++ W.defaulted_atts subset nm atts) = true /\
  exists scope', W.allc (W.ns_tree fuel en subset scope') kids = None.
Proof.
  cbn [W.ns_tree]. intros H. apply andc_none in H. destruct H as [H1 H]. apply guard_none in H1.
  apply andc_none in H. destruct H as [_ H]. apply andc_none in H. destruct H as [_ H]. apply andc_none in H. destruct H as [_ H].
  split; [exact H1|]. eexists. exact H.
Qed.

Definition xok_derivable (x : W.xcontent) : Prop :=
  forall x' scope, W.expand 6 en0 [] x = inr x' -> W.tree_ok 6 en0 x' = None -> W.ns_tree 6 en0 [] scope x' = None -> xok x = true.

Lemma xok_kids (kids : list W.xcontent) : Forall xok_derivable kids ->
  forall kids' scope, W.mapM (W.expand 6 en0 []) kids = inr kids' -> W.allc (W.tree_ok 6 en0) kids' = None ->
  W.allc (W.ns_tree 6 en0 [] scope) kids' = None -> forallb xok kids = true.
Proof.
  induction 1 as [|k kids Hk _ IH]; intros kids' scope Hm Ht Hn; [reflexivity|].
  apply mapM_cons_inv in Hm. destruct Hm as [y [ys [Hy [Hys ->]]]]. apply allc_cons_inv in Ht. destruct Ht as [Ty Tys].
  apply allc_cons_inv in Hn. destruct Hn as [Ny Nys]. cbn [forallb]. rewrite (Hk y scope Hy Ty Ny). exact (IH ys scope Hys Tys Nys).
Qed.

Theorem xok_of_wf : forall x, xok_derivable x.
Proof.
  apply xcontent_ind2. intros x Hkids. destruct x as [c|s|n|nm|s|tg dt|nm atts et kids|nm items]; try (intros x' scope _ _ _; reflexivity).
  intros x' scope Hx Ht Hn. rewrite expand_elem in Hx. destruct (W.mapM (W.expand 6 en0 []) kids) as [e|kids'] eqn:Ek; [discriminate|]. injection Hx as <-.
  apply tree_ok_elem in Ht. destruct Ht as [Het [_ [_ Hk]]]. apply ns_tree_elem in Hn. destruct Hn as [Hq [scope' Hnk]].
  change (W.defaulted_atts [] nm atts) with (@nil (str * list W.avpiece)) in Hq. rewrite app_nil_r in Hq.
  cbn [xok]. rewrite Hq, Het. cbn [andb]. exact (xok_kids kids Hkids kids' scope' Ek Hk Hnk).
Qed.

(** ** the document *)
(** the specification's parse of [s] has no document type declaration *)
Definition spec_nodoctype (s : str) : bool :=
  match W.parse_document s with
  | Some xd => match W.x_doctype xd with None => true | Some _ => false end
  | None => false
  end.

(** every namespace-well-formed document without DOCTYPE is accepted by from_raw, completely *)
Theorem wf_nodoctype_accepted (s : str) : W.wf s = true -> spec_nodoctype s = true ->
  exists d, from_raw s = OOk ([], d) /\ nodoctype s = true /\ KnownD04_nodoctype s = false.
Proof.
  unfold W.wf, W.verdict_ns, spec_nodoctype. destruct (W.parse_document s) as [xd|] eqn:Ep; [|discriminate].
  destruct (W.unsupported xd); [discriminate|]. destruct (W.check_doc xd) as [r|root] eqn:Ec; [discriminate|].
  destruct (W.ns_doc xd root) as [r|] eqn:En; [discriminate|]. intros _ Hnd.
  destruct (W.x_doctype xd) eqn:Hdt; [discriminate|]. clear Hnd.
  assert (exists x', W.expand 6 en0 [] (W.x_root xd) = inr x' /\ W.tree_ok 6 en0 x' = None /\ W.ns_tree 6 en0 [] [] x' = None) as [x' [Ex [Tx Nx]]].
  { destruct xd as [dcl m1 dt m2 rt m3]. cbn [W.x_doctype W.x_root] in *. subst dt.
    unfold W.check_doc in Ec. unfold W.ns_doc in En. cbv zeta in Ec, En. cbn [W.x_doctype W.x_root W.subset_ok] in Ec, En.
    change (W.doc_env _) with en0 in Ec, En. change (W.ent_fuel _) with 6%nat in Ec, En.
    destruct (W.expand 6 en0 [] rt) as [r|rt'] eqn:Er; [discriminate|]. destruct (W.tree_ok 6 en0 rt') eqn:Et; [discriminate|].
    injection Ec as <-. exists rt'. split; [reflexivity|]. split; [exact Et|].
    apply andc_none in En. destruct En as [_ En]. apply andc_none in En. destruct En as [_ En]. apply andc_none in En. tauto. }
  pose proof (xok_of_wf (W.x_root xd) x' [] Ex Tx Nx) as Hok.
  destruct (conv_document_nodoctype s xd Ep Hdt Hok) as [pd [Hp [Exd [Hnd [Hd04 Hel]]]]].
  assert (x_elem (d_element pd) = W.x_root xd) as Eroot by (rewrite <- Exd; reflexivity).
  rewrite <- Eroot in Ex. destruct (element_complete (d_element pd) Hel x' Ex Tx) as [el Hbe].
  eexists. split; [|split].
  - unfold from_raw, from_raw_gen. rewrite Hp. unfold build_document_gen. rewrite Hnd. cbn [ibind].
    unfold external_subset. cbn [is_some]. rewrite andb_false_r. rewrite Hbe. cbn [ibind]. reflexivity.
  - unfold nodoctype. rewrite Hp, Hnd. reflexivity.
  - unfold KnownD04_nodoctype. rewrite Hp, Hd04. reflexivity.
Qed.

(** the two languages coincide on documents without DOCTYPE, outside findings D04 and WFNS20-23 *)
Theorem nodoctype_language (s : str) :
  (W.wf s = true /\ spec_nodoctype s = true) <->
  ((exists d, from_raw s = OOk ([], d)) /\ nodoctype s = true /\ KnownD04_nodoctype s = false /\ KnownNS s = false).
Proof.
  split.
  - intros [Hwf Hnd]. destruct (wf_nodoctype_accepted s Hwf Hnd) as [d [Hd [Hn Hk]]].
    split; [eauto|]. split; [exact Hn|]. split; [exact Hk|]. unfold KnownNS. rewrite Hwf. apply andb_false_r.
  - intros [[d Hd] [Hn [Hk Hns]]]. split; [exact (accepted_wf_nodoctype s d Hd Hn Hk Hns)|].
    destruct (from_raw_inv _ _ _ Hd) as [pd [Hp Hb]]. unfold nodoctype, KnownD04_nodoctype in Hn, Hk. rewrite Hp in Hn, Hk.
    destruct (pr_declaration_doc (d_prolog pd)) eqn:Hdd; [discriminate|]. apply negb_false_iff in Hk.
    unfold spec_nodoctype. rewrite (parse_document_syntax_nodoctype s pd Hp Hdd Hk). reflexivity.
Qed.
