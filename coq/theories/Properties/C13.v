(** C13 -- DOM mutators: DOM Level 1 effect, specified exceptions, atomic failure.

    "Each DOM Level 1 mutator (append_child, insert_before, replace_child, remove_child, attribute
    set/remove, set_named_item, the create_* factories, value and data setters) applied to any
    nodes either performs exactly the change DOM Level 1 specifies - including moving a node that
    is already in the tree - or fails with the specified exception class (hierarchy request, wrong
    document, not found, in-use attribute, index size, invalid character, no modification
    allowed).  It never panics, and a call that fails leaves the document observably unchanged."

    Spec: Spec/DomL1.v ([dom_step], readings R1-R6 in its header).  Model: Model/Store.v +
    Model/DomOps.v (the repaired code), tied to the crates by the [dom] correspondence; the
    implementation itself is compared with the extracted [dom_step] call by call (checks/C13.py).

    Full statements (DESIGN 5.13):
      step_refines   : forall w op, TreeInv w -> abs (fst (step w op)) = fst (dom_step (abs w) op)
                                              /\ outcome_class (snd (step w op)) = snd (dom_step (abs w) op)
      failure_atomic : forall w op e, snd (step w op) = Failed e -> observe (fst (step w op)) = observe w
      step_no_panic  : forall w op, TreeInv w -> snd (step w op) <> Panicked

    Status of each, see below. *)
From Coq Require Import List NArith Bool.
From XmlRs Require Import Base.CPred Model.Store Model.DomOps Proofs.DomTree Proofs.DomOpsInv
  Proofs.DomL1NoPanic Proofs.DomL1Atomic Proofs.DomL1Abs Proofs.DomL1Refine Proofs.DomL1RefineInsert Proofs.DomL1RefineAttr Proofs.DomPrintable Proofs.DomExample Proofs.DomC12
  Proofs.DomCheck Proofs.DomL1RefineValue Proofs.DomL1Frame Proofs.DomL1RefineSetAttr Proofs.DomL1RefineInv Proofs.DomL1RefineSplit
  Proofs.DomL1RefineDoc Proofs.DomL1RefineNames Proofs.DomL1RefineAll Proofs.DomL1RefineInvCheck
  Model.DomFacts Proofs.DomFactsAgree Proofs.DomFactsRefine.
From XmlRs Require Spec.DomCharData Spec.DomL1 Proofs.NameLanguage Proofs.DomFactsData Proofs.DisplayLex Proofs.XmlWFLexical Proofs.DomFactsC02.
Import ListNotations.
Open Scope N_scope.

(** ** refinement.  FULL STATEMENT (proved as [C13_step_refines] / [C13_step_refines_reachable] in the
    form given there: with [conforms], outside the listed finding classes [Known13], under the
    agreement of the string facts with the grammar [op_facts_agree], and with the pre-state of
    [set_attribute] taken after the node the implementation builds first -- see below):

      step_refines : forall w o ao, WInv w -> abs_op o = Some ao ->
        abs (fst (step w o)) = fst (DomL1.dom_step (abs w) ao)
        /\ outcome_class (snd (step w o)) = snd (DomL1.dom_step (abs w) ao)      (= [refines_on w o ao])

    with, where [dom_step] answers [AUnspecified] (reading R1), [DomL1.conforms] in place of the two
    equations.  [abs : world -> adom] forgets order keys, the dirty flag and the serialisation-only
    fields; [abs_op] forgets the parser facts and keeps the strings; [outcome_class] maps exceptions
    to DOM codes ([InfoErr] -> [Refused]).

    PROVED RUNGS (every receiver, argument, offset, count and string; reachable worlds):
    - rung "child lists":
      [C13_step_refines_partial_append], [C13_step_refines_partial_insert]: append_child and
      insert_before on every receiver with every argument (self, ancestors, descendants, detached
      subtrees, foreign nodes, attributes, the reference child itself) -- the move of a node that is
      already in the tree is "detach, then attach" -- outside the finding class C13-DOC-MOVE
      ([KnownDocMove]: the Document refuses to move its own element / document type);
      [C13_step_refines_partial_replace]: replace_child on every receiver that is not the Document;
      [C13_step_refines_partial_remove]: remove_child, outside the finding class C13-LEAF-RM
      ([KnownLeafRm]: the receiver is a Text / Comment / CDATASection / PI; the code answers
      HIERARCHY_REQUEST_ERR, Level 1 NOT_FOUND_ERR; pinned by test_text_node_mut_remove_child_err2).
      Where Level 1 is silent (insertBefore(x, x), replaceChild(x, x)) the statement is
      [DomL1.conforms]: no panic, and the state is the unchanged one or the one the specification
      offers.
    - rung "attribute nodes" [C13_step_refines_partial_set_attribute_node],
      [C13_step_refines_partial_set_named_item]: set_attribute_node and set_named_item replace the
      attribute with the same nodeName, raise WRONG_DOCUMENT_ERR / INUSE_ATTRIBUTE_ERR as specified
      (an attribute that already belongs to the receiver: Level 1 is silent, [conforms]); under the
      additional hypothesis [WPrintable] (names are NCNames with an optional NCName prefix -- an
      invariant of every reachable world, C15), which makes "same qualified name" and "same
      nodeName" coincide;
      [C13_step_refines_partial_remove_attribute], [C13_step_refines_partial_remove_named_item]:
      by-name removal -- where the name designates at most one attribute in both readings the
      effect is Level 1's, where prefixes make it ambiguous (reading R1) the model does one of the
      two admissible things; remove_named_item outside the finding class C13-NS-HIDDEN
      ([KnownNsHidden]: the name is the local part of a namespace declaration of the element);
    - rung "character data" [C13_step_refines_partial_data]: set_data, append_data, insert_data,
      delete_data, replace_data -- unconditional;
    - rung "text factories" [C13_step_refines_partial_factories]: create_text_node, create_comment,
      create_cdata_section, create_document_fragment, outside D42 ([Known42]).
    - rung "set_attribute" [C13_step_refines_partial_set_attribute]: set_attribute(name, value) on
      every receiver -- INVALID_CHARACTER_ERR for a string that is no QName, the value of the
      attribute that is present is replaced on the same Attr node (the old value nodes lose their
      parent, one node per piece of the literal is created), a new Attr is created and added
      otherwise, a value that is no attribute value literal or that refers to an unknown entity is
      refused.  The implementation calls create_attribute before it looks: when the attribute is
      present or the value is refused, the node it built stays behind -- unattached, referred to by
      nothing, never handed out ([Garbage]).  The theorem therefore gives the outcome for the
      world as it is ([abs w]) and the resulting state as the specification's result from
      [set_attribute_pre] (the world plus that one node; equal to [w] when the new attribute is
      needed and accepted).  [C13_step_refines_partial_set_attribute_strict]: [refines_on] itself
      outside [KnownSetAttrGarbage].  Hypotheses: [WPrintable], [WEnts] (no entity listed both as
      usable and as unusable: an invariant, [C13_inv2_reachable]) and the agreement of the facts
      that travel with the two strings with the grammar of the specification
      ([attr_name_agrees], [value_facts_agree]: the implementation's parser is not modelled here).
    - rung "remove_attribute_node" [C13_step_refines_partial_remove_attribute_node]: removes exactly
      the node passed, NOT_FOUND_ERR when it is not an attribute of the receiver (a node of another
      document, of another element, a detached one); under [WUniq] (qualified names are unique
      within an element: an invariant of every reachable world, [C13_inv2_reachable]);
    - rung "split_text" [C13_step_refines_partial_split_text]: every receiver and offset --
      INDEX_SIZE_ERR beyond the length, the tail becomes a new node of the same type that is the
      next sibling, the receiver keeps the head; atomic on failure; without a parent Level 1 is
      silent ([conforms]: the model refuses and changes nothing).
    - rung "replace_child, every receiver" [C13_step_refines_partial_replace_any]: the Document
      included, outside the finding class C13-DOC-MOVE ([KnownDocMove]: the new child is an Element
      / DocumentType that already is a child of the Document; [KnownDocSwap]: the new child and the
      child to replace are both Element / DocumentType -- the Document refuses, Level 1 replaces);
    - rung "names" [C13_step_refines_partial_create_element], [_create_attribute], [_create_pi],
      [_create_entity_reference], [C13_step_refines_partial_pi_set_data],
      [C13_step_refines_partial_set_node_value]: under the agreement of the parser facts that travel
      with the string with the grammar of the specification ([elem_name_agrees],
      [attr_name_agrees], [pi_target_agrees], [ref_name_agrees], [pi_data_agrees],
      [value_facts_agree]; the listed finding D04 is a case where they do not agree).
    THE WHOLE: [C13_step_refines] -- every operation, by case analysis over [op] dispatching to the
    rungs, with the union of the exclusions [Known13] (D42, C13-DOC-MOVE, C13-LEAF-RM,
    C13-NS-HIDDEN) and [op_facts_agree]; [C13_step_refines_reachable]: in every world reachable from
    an initial world that satisfies the invariants ([WInv2], [WPrintable]; C15's hypothesis
    [op_facts_ok] on the history keeps [WPrintable]); [C13_step_refines_reachable_fact_free]:
    histories and calls that carry no string facts (tree edits, attribute nodes, by-name removal,
    character data, text factories, split_text) need no hypothesis about facts at all.
    THE STRING FACTS (last section of this file; Model/DomFacts.v, Proofs/DomFacts*.v).  The model of
    the DOM takes the string-level facts of a call as parameters because the code computes them by
    calling the parser on markup built around the argument.  [facts_of_name] / [facts_of_data]
    compute them with the MODEL of the parser ([Peg.run] on the grammar regenerated from
    parser/src/lib.rs and nom/src/lib.rs, read through Model/ParseActions.v), following
    harness/src/domains/dom.rs [digest] line by line.  [C13_facts_of_name_agree],
    [C13_facts_of_data_agree]: for EVERY string the computed facts satisfy the agreement hypotheses
    -- QName split of element and attribute names (also through the xmlns alternative of the
    production attribute), PI target, PI data (storable, white space skipped), the pieces of an
    attribute value against [DomL1.parse_attvalue] -- outside one decidable exclusion, D04
    ([NameLanguage.KnownD04], the predicate of C18 / C02): a PI target, an entity reference name, or
    the name of a reference inside an attribute value ([value_D04]) that is empty or starts with a
    name character that cannot start a Name.
    (A second exclusion of the first version of these proofs was a defect they found: D64,
    create_entity_reference only asked whether xml_parser::reference("&name;") succeeded, so "a;b",
    "amp;x", "#65" passed the name test and the call failed with the error of the entity lookup
    instead of INVALID_CHARACTER_ERR.  Repaired in /repo 37c72ae; Model/DomFacts.v follows the
    repaired code, [C13_entref_name_checked].)
    [C13_step_refines_model_facts], [C13_step_refines_reachable_model_facts]: [C13_step_refines] and
    [C13_step_refines_reachable] WITHOUT the hypotheses [op_facts_agree] / [op_facts_ok], for calls
    and histories whose facts are the computed ones ([model_facts]) and that stay outside
    [KnownFacts] (the exclusion above, per operation); [C13_step_refines_strings]: every
    operation, with the facts recomputed from its strings.
    NOT PROVED / ASSUMED: that the implementation's parser computes what its model computes -- the
    [prod] and [parse] correspondences (every production and the typed parse, real crates against
    [Peg.run] and Model/ParseActions.v, on every run) and the [dom] correspondence (the facts the
    harness prints are the arguments of the model driver); and the calls inside the listed finding
    classes.  Every call is also compared with the extracted [dom_step] on the implementation,
    call by call, by checks/C13.py (the matrix of receiver kind x argument kind x position for
    every mutator and random histories). *)
Theorem C13_step_refines_partial_append : forall w r n,
  WInv w -> KnownDocMove w r n = false ->
  DomL1.conforms (abs w) (DomL1.AAppendChild r n) (abs (fst (step w (AppendChild r n)))) (outcome_class (snd (step w (AppendChild r n)))).
Proof. exact step_refines_partial_append. Qed.

Theorem C13_step_refines_partial_insert : forall w r n f,
  WInv w -> KnownDocMove w r n = false ->
  DomL1.conforms (abs w) (DomL1.AInsertBefore r n f) (abs (fst (step w (InsertBefore r n f))))
                 (outcome_class (snd (step w (InsertBefore r n f)))).
Proof. exact step_refines_partial_insert. Qed.

Theorem C13_step_refines_partial_replace : forall w (r n o : nref),
  WInv w -> receiver_is_document w r = false ->
  DomL1.conforms (abs w) (DomL1.AReplaceChild r n o) (abs (fst (step w (ReplaceChild r n o))))
                 (outcome_class (snd (step w (ReplaceChild r n o)))).
Proof. exact step_refines_partial_replace. Qed.

Theorem C13_step_refines_partial_set_attribute_node : forall w (r a : nref),
  WInv w -> WPrintable w ->
  DomL1.conforms (abs w) (DomL1.ASetAttributeNode r a) (abs (fst (step w (SetAttributeNode r a))))
                 (outcome_class (snd (step w (SetAttributeNode r a)))).
Proof. exact step_refines_partial_set_attribute_node. Qed.

Theorem C13_step_refines_partial_set_named_item : forall w (r a : nref),
  WInv w -> WPrintable w ->
  DomL1.conforms (abs w) (DomL1.ASetNamedItem r a) (abs (fst (step w (SetNamedItem r a))))
                 (outcome_class (snd (step w (SetNamedItem r a)))).
Proof. exact step_refines_partial_set_named_item. Qed.

Theorem C13_step_refines_partial_remove_attribute : forall w (r : nref) name,
  WInv w -> WPrintable w ->
  DomL1.conforms (abs w) (DomL1.ARemoveAttribute r name) (abs (fst (step w (RemoveAttribute r name))))
                 (outcome_class (snd (step w (RemoveAttribute r name)))).
Proof. exact step_refines_partial_remove_attribute. Qed.

Theorem C13_step_refines_partial_remove_named_item : forall w (r : nref) name,
  WInv w -> WPrintable w -> KnownNsHidden w r name = false ->
  DomL1.conforms (abs w) (DomL1.ARemoveNamedItem r name) (abs (fst (step w (RemoveNamedItem r name))))
                 (outcome_class (snd (step w (RemoveNamedItem r name)))).
Proof. exact step_refines_partial_remove_named_item. Qed.

Theorem C13_step_refines_partial_data : forall w o ao,
  WInv w -> is_data_op o = true -> abs_op o = Some ao -> refines_on w o ao.
Proof. exact step_refines_partial_data. Qed.

Theorem C13_step_refines_partial_remove : forall w r x,
  WInv w -> KnownLeafRm w (RemoveChild r x) = false -> refines_on w (RemoveChild r x) (DomL1.ARemoveChild r x).
Proof. exact step_refines_partial_remove. Qed.

Theorem C13_step_refines_partial_factories : forall w o ao,
  WInv w -> is_text_factory o = true -> Known42 o = false -> abs_op o = Some ao -> refines_on w o ao.
Proof. exact step_refines_partial_factories. Qed.

Theorem C13_step_refines_partial_set_attribute : forall w (r : nref) name value,
  WInv w -> WPrintable w -> WEnts w -> attr_name_agrees name -> value_facts_agree value ->
  let pre := set_attribute_pre w r name value in
  let o := SetAttribute r name value in
  let ao := DomL1.ASetAttribute r (n_str name) (d_str value) in
  Garbage w pre
  /\ abs (fst (step w o)) = fst (DomL1.dom_step (abs pre) ao)
  /\ outcome_class (snd (step w o)) = snd (DomL1.dom_step (abs pre) ao)
  /\ snd (DomL1.dom_step (abs pre) ao) = snd (DomL1.dom_step (abs w) ao).
Proof. exact set_attribute_refines. Qed.

Theorem C13_step_refines_partial_set_attribute_strict : forall w (r : nref) name value,
  WInv w -> WPrintable w -> WEnts w -> attr_name_agrees name -> value_facts_agree value ->
  KnownSetAttrGarbage w r name value = false ->
  refines_on w (SetAttribute r name value) (DomL1.ASetAttribute r (n_str name) (d_str value)).
Proof. exact step_refines_partial_set_attribute_strict. Qed.

Theorem C13_step_refines_partial_remove_attribute_node : forall w (r a : nref),
  WInv w -> WUniq w -> refines_on w (RemoveAttributeNode r a) (DomL1.ARemoveAttributeNode r a).
Proof. exact step_refines_partial_remove_attribute_node. Qed.

Theorem C13_step_refines_partial_split_text : forall w (r : nref) off,
  WInv w ->
  DomL1.conforms (abs w) (DomL1.ASplitText r off) (abs (fst (step w (SplitText r off)))) (outcome_class (snd (step w (SplitText r off)))).
Proof. exact step_refines_partial_split_text. Qed.

Theorem C13_step_refines_partial_replace_any : forall w (r n o : nref),
  WInv w -> KnownDocMove w r n = false -> KnownDocSwap w r n o = false ->
  DomL1.conforms (abs w) (DomL1.AReplaceChild r n o) (abs (fst (step w (ReplaceChild r n o))))
                 (outcome_class (snd (step w (ReplaceChild r n o)))).
Proof. exact step_refines_partial_replace_any. Qed.

Theorem C13_step_refines_partial_replace_document : forall w (r n o : nref),
  WInv w -> receiver_is_document w r = true -> KnownDocMove w r n = false -> KnownDocSwap w r n o = false ->
  DomL1.conforms (abs w) (DomL1.AReplaceChild r n o) (abs (fst (step w (ReplaceChild r n o))))
                 (outcome_class (snd (step w (ReplaceChild r n o)))).
Proof. intros w r n o Hw _. apply step_refines_partial_replace_any. exact Hw. Qed.

Theorem C13_step_refines_partial_create_element : forall w d name,
  WInv w -> elem_name_agrees name -> refines_on w (CreateElement d name) (DomL1.ACreateElement d (n_str name)).
Proof. exact step_refines_partial_create_element. Qed.

Theorem C13_step_refines_partial_create_attribute : forall w d name,
  WInv w -> attr_name_agrees name -> refines_on w (CreateAttribute d name) (DomL1.ACreateAttribute d (n_str name)).
Proof. exact step_refines_partial_create_attribute. Qed.

Theorem C13_step_refines_partial_create_pi : forall w d target data,
  WInv w -> pi_target_agrees target -> pi_data_agrees data ->
  refines_on w (CreateProcessingInstruction d target data) (DomL1.ACreateProcessingInstruction d (n_str target) (d_str data)).
Proof. exact step_refines_partial_create_pi. Qed.

Theorem C13_step_refines_partial_create_entity_reference : forall w d name,
  WInv w -> ref_name_agrees name ->
  refines_on w (CreateEntityReference d name) (DomL1.ACreateEntityReference d (n_str name)).
Proof. exact step_refines_partial_create_entity_reference. Qed.

Theorem C13_step_refines_partial_pi_set_data : forall w (r : nref) v,
  WInv w -> pi_data_agrees v -> refines_on w (PISetData r v) (DomL1.APISetData r (d_str v)).
Proof. exact step_refines_partial_pi_set_data. Qed.

Theorem C13_step_refines_partial_set_node_value : forall w (r : nref) v,
  WInv w -> WEnts w -> value_facts_agree v -> pi_data_agrees v ->
  refines_on w (SetNodeValue r v) (DomL1.ASetNodeValue r (d_str v)).
Proof. exact step_refines_partial_set_node_value. Qed.

(** ** the whole: every operation.  [conforms_from w o ao] =
      [Garbage w (pre_world w o)]
      /\ [DomL1.conforms (abs (pre_world w o)) ao (abs (fst (step w o))) (outcome_class (snd (step w o)))]
      /\ [snd (dom_step (abs (pre_world w o)) ao) = snd (dom_step (abs w) ao)]
    where [pre_world w o = w] for every operation but [SetAttribute] *)
Theorem C13_step_refines : forall w o ao,
  WInv2 w -> WPrintable w -> op_facts_agree o -> Known13 w o = false -> abs_op o = Some ao -> conforms_from w o ao.
Proof. exact step_refines_all. Qed.

Theorem C13_step_refines_reachable : forall init ops o ao,
  WInv2 init -> WPrintable init -> Forall op_facts_ok ops ->
  op_facts_agree o -> Known13 (run init ops) o = false -> abs_op o = Some ao ->
  conforms_from (run init ops) o ao.
Proof. exact step_refines_reachable. Qed.

Theorem C13_step_refines_reachable_fact_free : forall init ops o ao,
  WInv2 init -> WPrintable init -> forallb fact_free ops = true -> fact_free o = true ->
  Known13 (run init ops) o = false -> abs_op o = Some ao ->
  DomL1.conforms (abs (run init ops)) ao (abs (fst (step (run init ops) o))) (outcome_class (snd (step (run init ops) o))).
Proof. exact step_refines_reachable_fact_free. Qed.

(** the invariants the new rungs assume hold in every reachable world: the tree invariant, unique
    qualified names within an element, consistent entity tables ([WInv2] is their conjunction) *)
Theorem C13_inv2_reachable : forall init ops, WInv2 init -> WInv2 (run init ops).
Proof. intros init ops. apply run_inv2. Qed.

Theorem C13_inv2_parts : forall w, WInv2 w <-> WInv w /\ WUniq w /\ WEnts w.
Proof. intros w. split; [apply winv2_split | intros [H1 [H2 H3]]; apply winv2_join; assumption]. Qed.

(** the hypothesis [WInv2 init] is decidable on the finite tables the model driver builds from the
    implementation's dump of the parsed documents *)
Theorem C13_inv2_checkable : forall l nx decl root,
  StoreCheck.tree_inv_b l nx root = true -> uniq_b l = true -> ents_b l = true -> Inv2 (StoreCheck.store_of_list l nx decl root).
Proof. exact inv2_checkable. Qed.

Example C13_inv2_example : WInv2 ex_world.
Proof. constructor; [|constructor]. apply inv2_checkable; vm_compute; reflexivity. Qed.

(** the rungs along histories *)
Theorem C13_data_refines_reachable : forall init ops o ao,
  WInv init -> is_data_op o = true -> abs_op o = Some ao -> refines_on (run init ops) o ao.
Proof. intros init ops o ao Hi. apply step_refines_partial_data. apply run_inv. exact Hi. Qed.

(** ** no panic.  The full statement is REFUTED by the faithful model (defect D42, a listed
    finding: the three factories whose signature has no [Result] unwrap the validation result);
    the conditional theorem holds for every other call -- every receiver, every argument, every
    string, with or without the tree invariant. *)
Theorem C13_step_no_panic_refuted : exists w o, snd (step w o) = Panicked.
Proof. exact step_no_panic_refuted. Qed.

Theorem C13_step_no_panic : forall w o, Known42 o = false -> snd (step w o) <> Panicked.
Proof. exact step_no_panic_but_D42. Qed.

Theorem C13_run_no_panic : forall ops w, forallb (fun o => negb (Known42 o)) ops = true ->
  forall pre o post, ops = pre ++ o :: post -> snd (step (run w pre) o) <> Panicked.
Proof. exact run_no_panic. Qed.

(** ** failure atomicity.  For every operation except [SetAttribute] the world after a failed call
    IS the world before: whatever is observed (tree, attributes, data, order ranks,
    serialisation ...) is unchanged.  A failed [set_attribute] leaves one unattached node behind
    ([Garbage]: the attribute it had already created) and nothing else. *)
Theorem C13_failure_atomic : forall w o e,
  WInv w -> is_set_attribute o = false -> snd (step w o) = Failed e -> fst (step w o) = w.
Proof. exact failure_atomic_strict. Qed.

Theorem C13_failure_atomic_observe : forall (A : Type) (observe : world -> A) w o e,
  WInv w -> is_set_attribute o = false -> snd (step w o) = Failed e -> observe (fst (step w o)) = observe w.
Proof. exact failure_atomic_observe. Qed.

Theorem C13_failure_atomic_set_attribute : forall w r name value e,
  WInv w -> snd (step w (SetAttribute r name value)) = Failed e -> Garbage w (fst (step w (SetAttribute r name value))).
Proof. exact failure_atomic_set_attribute. Qed.

(** along histories: the hypothesis [WInv] holds in every reachable world (C12) *)
Theorem C13_failure_atomic_reachable : forall init ops o e,
  WInv init -> is_set_attribute o = false -> snd (step (run init ops) o) = Failed e ->
  fst (step (run init ops) o) = run init ops.
Proof. intros init ops o e Hi. apply failure_atomic_strict. apply run_inv. exact Hi. Qed.

(** the hypotheses are satisfiable by a non-trivial world and calls: on <r><a x="1">t</a><b/></r>
    (Proofs/DomExample.v), replace_data(0, 1, "]]>") on the text "t" is refused by both sides and
    leaves the world unchanged; insert_data(1, "u") is done by both; remove_child(a, t) is done *)
Definition dinf (s : str) : data_info := mkData s false false false None None.
Example C13_example :
  WInv ex_world
  /\ snd (step ex_world (ReplaceData (0, 6) 0 1 (dinf [93; 93; 62]))) = Failed InfoErr
  /\ snd (DomL1.dom_step (abs ex_world) (DomL1.AReplaceData (0, 6) 0 1 [93; 93; 62])) = DomL1.ARaised DomL1.Refused
  /\ fst (step ex_world (ReplaceData (0, 6) 0 1 (dinf [93; 93; 62]))) = ex_world
  /\ snd (step ex_world (InsertData (0, 6) 1 (dinf [117]))) = Ok RUnit
  /\ option_map (fun s => data_of s 6) (doc_at (fst (step ex_world (InsertData (0, 6) 1 (dinf [117])))) 0) = Some [116; 117]
  /\ KnownDocMove ex_world (0, 7) (0, 3) = false
  /\ snd (DomL1.dom_step (abs ex_world) (DomL1.AAppendChild (0, 7) (0, 3))) = DomL1.ADone (DomL1.ANode (0, 3))
  /\ snd (DomL1.dom_step (abs ex_world) (DomL1.AAppendChild (0, 3) (0, 2))) = DomL1.ARaised (DomL1.Dom DomCharData.HierarchyRequestErr)
  /\ KnownLeafRm ex_world (RemoveChild (0, 3) (0, 6)) = false
  /\ snd (DomL1.dom_step (abs ex_world) (DomL1.ARemoveChild (0, 3) (0, 6))) = DomL1.ADone (DomL1.ANode (0, 6)).
Proof.
  split; [exact ex_world_inv|]. split; [vm_compute; reflexivity|]. split; [vm_compute; reflexivity|].
  split; [apply (failure_atomic_strict ex_world (ReplaceData (0, 6) 0 1 (dinf [93; 93; 62])) InfoErr ex_world_inv eq_refl); vm_compute; reflexivity|].
  repeat split; vm_compute; reflexivity.
Qed.

(** the hypotheses of the rungs set_attribute, remove_attribute_node and split_text are satisfiable by a
    non-trivial world and calls: on <r><a x="1">t</a><b/></r>, set_attribute(a, "x", "2&lt;")
    changes the value of the attribute that is present (the node built first stays behind:
    [KnownSetAttrGarbage]), set_attribute(a, "y", "v") adds a new attribute (strict refinement),
    remove_attribute_node(a, x) removes it, remove_attribute_node(r, x) raises NOT_FOUND_ERR,
    split_text(t, 1) is done and split_text(t, 2) raises INDEX_SIZE_ERR *)
Lemma ex_table_prop (Q : item -> Prop) : (forall j x, In (j, x) ex_items -> Q x) ->
  forall i x, get ex_store i = Some x -> Q x.
Proof.
  intros H i x G. unfold ex_store, StoreCheck.store_of_list, get in G. cbn [items] in G.
  destruct (lookup_in ex_items i x G) as [j [_ [Hin _]]]. exact (H j x Hin).
Qed.

Definition nm (s : str) : name_info := mkName s (Some (None, s)) (Some (None, s)) (Some s) true.
Definition val_2lt : data_info := mkData [50; 38; 108; 116; 59] false false false None (Some [VText [50]; VEnt [108; 116]]).
Definition val_v : data_info := mkData [118] true true true None (Some [VText [118]]).

Example C13_example_attr :
  WInv2 ex_world /\ WPrintable ex_world
  /\ attr_name_agrees (nm [120]) /\ attr_name_agrees (nm [121]) /\ value_facts_agree val_2lt /\ value_facts_agree val_v
  /\ snd (step ex_world (SetAttribute (0, 3) (nm [120]) val_2lt)) = Ok RUnit
  /\ KnownSetAttrGarbage ex_world (0, 3) (nm [120]) val_2lt = true
  /\ snd (step ex_world (SetAttribute (0, 3) (nm [121]) val_v)) = Ok RUnit
  /\ KnownSetAttrGarbage ex_world (0, 3) (nm [121]) val_v = false
  /\ snd (DomL1.dom_step (abs ex_world) (DomL1.ASetAttribute (0, 3) [58] [118])) = DomL1.ARaised (DomL1.Dom DomCharData.InvalidCharacterErr)
  /\ snd (DomL1.dom_step (abs ex_world) (DomL1.ASetAttribute (0, 3) [121] [38])) = DomL1.ARaised DomL1.Refused
  /\ snd (step ex_world (RemoveAttributeNode (0, 3) (0, 4))) = Ok (RNode (0, 4))
  /\ snd (step ex_world (RemoveAttributeNode (0, 2) (0, 4))) = Failed NotFoundErr
  /\ snd (step ex_world (SplitText (0, 6) 1)) = Ok (RNode (0, 8))
  /\ snd (step ex_world (SplitText (0, 6) 2)) = Failed IndexSizeErr.
Proof.
  split.
  { constructor; [|constructor]. split; [exact ex_store_inv|]. split.
    - intros e eit a b ait bit He Ha Hb _ _ _ _.
      assert (Q : forall a b, In a (iattrs eit) -> In b (iattrs eit) -> a = b).
      { apply (ex_table_prop (fun x => forall a b, In a (iattrs x) -> In b (iattrs x) -> a = b)) with (i := e); [|exact He].
        intros j x Hin. cbn in Hin.
        repeat (destruct Hin as [Hin|Hin]; [inversion Hin; subst; cbn; intros; intuition congruence|]). destruct Hin. }
      exact (Q a b Ha Hb).
    - intros i x G. assert (Q : ients x = []).
      { apply (ex_table_prop (fun x => ients x = [])) with (i := i); [|exact G]. intros j y Hin. cbn in Hin.
        repeat (destruct Hin as [Hin|Hin]; [inversion Hin; subst; reflexivity|]). destruct Hin. }
      rewrite Q. intros n []. }
  split.
  { constructor; [|constructor]. intros i x G.
    apply (ex_table_prop (fun x => PrintableCheck.item_ok x = true)) with (i := i); [|exact G]. intros j y Hin. cbn in Hin.
    repeat (destruct Hin as [Hin|Hin]; [inversion Hin; subst; vm_compute; reflexivity|]). destruct Hin. }
  split; [split; [reflexivity | vm_compute; reflexivity]|].
  split; [split; [reflexivity | vm_compute; reflexivity]|].
  split.
  { unfold value_facts_agree. assert (E : DomL1.parse_attvalue (d_str val_2lt) = Some [DomL1.PText [50]; DomL1.PEnt [108; 116]]) by (vm_compute; reflexivity).
    rewrite E. eexists. split; [reflexivity|]. repeat constructor. }
  split.
  { unfold value_facts_agree. assert (E : DomL1.parse_attvalue (d_str val_v) = Some [DomL1.PText [118]]) by (vm_compute; reflexivity).
    rewrite E. eexists. split; [reflexivity|]. repeat constructor. }
  repeat split; vm_compute; reflexivity.
Qed.

(** the exclusions and the form of the set_attribute statement are not vacuous: on the same document,
    after e = create_element("e"), replace_child(document, e, r) is refused by the model
    (HIERARCHY_REQUEST_ERR) and done by the specification (class C13-DOC-MOVE, [KnownDocSwap]); and
    set_attribute(a, "x", "2&lt;") on the attribute that is present ends in a state that is NOT the
    specification's state computed from [abs ex_world] itself (one table entry more: the node
    built first), while the outcomes agree *)
Definition ex_world_e : world := fst (step ex_world (CreateElement (0, 1) no_name)).

Example C13_doc_swap_refuted :
  WInv ex_world_e /\ KnownDocSwap ex_world_e (0, 1) (0, 8) (0, 2) = true
  /\ snd (step ex_world_e (ReplaceChild (0, 1) (0, 8) (0, 2))) = Failed HierarchyRequestErr
  /\ snd (DomL1.dom_step (abs ex_world_e) (DomL1.AReplaceChild (0, 1) (0, 8) (0, 2))) = DomL1.ADone (DomL1.ANode (0, 2))
  /\ ~ DomL1.conforms (abs ex_world_e) (DomL1.AReplaceChild (0, 1) (0, 8) (0, 2))
                      (abs (fst (step ex_world_e (ReplaceChild (0, 1) (0, 8) (0, 2)))))
                      (outcome_class (snd (step ex_world_e (ReplaceChild (0, 1) (0, 8) (0, 2))))).
Proof.
  split; [apply step_inv; exact ex_world_inv|]. split; [vm_compute; reflexivity|].
  split; [vm_compute; reflexivity|]. split; [vm_compute; reflexivity|].
  unfold DomL1.conforms.
  assert (E : snd (DomL1.dom_step (abs ex_world_e) (DomL1.AReplaceChild (0, 1) (0, 8) (0, 2))) = DomL1.ADone (DomL1.ANode (0, 2)))
    by (vm_compute; reflexivity).
  rewrite E. intros [_ H].
  assert (E2 : outcome_class (snd (step ex_world_e (ReplaceChild (0, 1) (0, 8) (0, 2)))) = DomL1.ARaised (DomL1.Dom DomCharData.HierarchyRequestErr))
    by (vm_compute; reflexivity).
  rewrite E2 in H. discriminate.
Qed.

(** two instances of the whole theorem on the example document: set_attribute that adds a new
    attribute ([pre_world] is the world itself) and set_attribute on the attribute that is present
    ([pre_world] holds the node built first) *)
Example C13_step_refines_instance :
  conforms_from ex_world (SetAttribute (0, 3) (nm [121]) val_v) (DomL1.ASetAttribute (0, 3) [121] [118])
  /\ conforms_from ex_world (SetAttribute (0, 3) (nm [120]) val_2lt) (DomL1.ASetAttribute (0, 3) [120] (d_str val_2lt)).
Proof.
  destruct C13_example_attr as [H2 [Hp [N1 [N2 [V1 [V2 _]]]]]].
  split; apply C13_step_refines; try assumption; try (split; assumption); try reflexivity.
Qed.

Example C13_set_attribute_strict_refuted :
  KnownSetAttrGarbage ex_world (0, 3) (nm [120]) val_2lt = true
  /\ outcome_class (snd (step ex_world (SetAttribute (0, 3) (nm [120]) val_2lt)))
     = snd (DomL1.dom_step (abs ex_world) (DomL1.ASetAttribute (0, 3) [120] (d_str val_2lt)))
  /\ abs (fst (step ex_world (SetAttribute (0, 3) (nm [120]) val_2lt)))
     <> fst (DomL1.dom_step (abs ex_world) (DomL1.ASetAttribute (0, 3) [120] (d_str val_2lt))).
Proof.
  split; [vm_compute; reflexivity|]. split; [vm_compute; reflexivity|].
  intros H.
  assert (L : forall a b : DomL1.adom, a = b -> map (fun d => length (DomL1.d_nodes d)) a = map (fun d => length (DomL1.d_nodes d)) b)
    by (intros a b ->; reflexivity).
  apply L in H. vm_compute in H. discriminate.
Qed.

Print Assumptions C13_step_refines_partial_append.
Print Assumptions C13_step_refines_partial_insert.
Print Assumptions C13_step_refines_partial_replace.
Print Assumptions C13_step_refines_partial_set_attribute_node.
Print Assumptions C13_step_refines_partial_set_named_item.
Print Assumptions C13_step_refines_partial_remove_attribute.
Print Assumptions C13_step_refines_partial_remove_named_item.
Print Assumptions C13_step_refines_partial_data.
Print Assumptions C13_step_refines_partial_remove.
Print Assumptions C13_step_refines_partial_factories.
Print Assumptions C13_data_refines_reachable.
Print Assumptions C13_step_no_panic_refuted.
Print Assumptions C13_step_no_panic.
Print Assumptions C13_run_no_panic.
Print Assumptions C13_failure_atomic.
Print Assumptions C13_failure_atomic_observe.
Print Assumptions C13_failure_atomic_set_attribute.
Print Assumptions C13_failure_atomic_reachable.
Print Assumptions C13_step_refines_partial_set_attribute.
Print Assumptions C13_step_refines_partial_set_attribute_strict.
Print Assumptions C13_step_refines_partial_remove_attribute_node.
Print Assumptions C13_step_refines_partial_split_text.
Print Assumptions C13_inv2_reachable.
Print Assumptions C13_inv2_parts.
Print Assumptions C13_step_refines_partial_replace_any.
Print Assumptions C13_step_refines_partial_create_element.
Print Assumptions C13_step_refines_partial_create_attribute.
Print Assumptions C13_step_refines_partial_create_pi.
Print Assumptions C13_step_refines_partial_create_entity_reference.
Print Assumptions C13_step_refines_partial_pi_set_data.
Print Assumptions C13_step_refines_partial_set_node_value.
Print Assumptions C13_step_refines.
Print Assumptions C13_step_refines_reachable.
Print Assumptions C13_step_refines_reachable_fact_free.
Print Assumptions C13_inv2_checkable.
Print Assumptions C13_step_refines_partial_replace_document.

(** ** the string facts computed by the model of the parser (see the header)

    [facts_of_name s]: is "<s />" an element and s one QName (prefix, local part); is "s=''" an
    attribute (prefix, local part, through the xmlns alternative too); is "<?s?>" a processing
    instruction whose target is s; does reference("&s;") succeed.  [facts_of_data s]: the content
    of "<?t s?>"; the value items of "a=" followed by s between quotation marks.  For ALL strings: *)
Theorem C13_facts_of_name_agree : forall s,
  elem_name_agrees (facts_of_name s) /\ attr_name_agrees (facts_of_name s)
  /\ (NameLanguage.KnownD04 s = false -> pi_target_agrees (facts_of_name s))
  /\ (NameLanguage.KnownD04 s = false -> ref_name_agrees (facts_of_name s)).
Proof. exact facts_of_name_agree. Qed.

Theorem C13_facts_of_data_agree : forall s,
  pi_data_agrees (facts_of_data s) /\ (DomFactsData.value_D04 s = false -> value_facts_agree (facts_of_data s)).
Proof. exact facts_of_data_agree. Qed.

(** [facts_of_data] writes the target t and the attribute name a in front of the argument, as the
    harness does; XmlProcessingInstruction::set_content and XmlAttribute::set_values write the
    target / the local name of the node they change.  The computed fact is the same for every stored
    target (a run of name characters that is not xml) and every stored local name (an NCName): *)
Theorem C13_pi_data_any_target : forall tg s,
  forallb NameLanguage.NC tg = true -> XmlChars.is_xml_ci tg = false -> DomFactsData.pi_data_of tg s = pi_data_fact s.
Proof. exact pi_data_any_target. Qed.

Theorem C13_value_any_attribute_name : forall n s,
  XmlChars.is_NCName n = true -> DomFactsData.value_of_name n s = value_fact s.
Proof. exact value_any_attribute_name. Qed.

(** the predicate of C02 on attribute values (the side condition of [att_value_language_except_D04]) is
    coarser than [value_D04]: it also excludes an ampersand that starts no reference *)
Theorem C13_value_D04_c02 : forall s, XmlWFLexical.no_D04 s = true -> DomFactsData.value_D04 s = false.
Proof. exact DomFactsC02.no_D04_value. Qed.

(** the exclusion is needed.  D04: create_processing_instruction("1", ..) -- the model parser
    returns the target 1, no PITarget.  A reference with a D04 name in an attribute value: "&1;". *)
Theorem C13_name_D04_refuted : exists s, NameLanguage.KnownD04 s = true /\ ~ pi_target_agrees (facts_of_name s).
Proof. exact name_D04_refuted. Qed.

Theorem C13_value_D04_refuted : exists s, DomFactsData.value_D04 s = true /\ ~ value_facts_agree (facts_of_data s).
Proof. exact value_D04_refuted. Qed.

(** D64 (repaired in 37c72ae): create_entity_reference("a;b"), ("#65"), ("amp;x"), ("#x41;zz") do not pass
    the name test; the model answers INVALID_CHARACTER_ERR as DOM Level 1 specifies, ("amp") passes *)
Example C13_entref_name_checked :
  map (fun s => n_ref (facts_of_name s)) [[97; 59; 98]; [35; 54; 53]; [97; 109; 112; 59; 120]; [35; 120; 52; 49; 59; 122; 122]; [97; 109; 112]]
  = [false; false; false; false; true]
  /\ snd (step ex_world (with_model_facts (CreateEntityReference (0, 1) (sname [97; 59; 98])))) = Failed InvalidCharacterErr
  /\ snd (DomL1.dom_step (abs ex_world) (DomL1.ACreateEntityReference (0, 1) [97; 59; 98])) = DomL1.ARaised (DomL1.Dom DomCharData.InvalidCharacterErr).
Proof. split; [exact entref_name_checked|]. split; vm_compute; reflexivity. Qed.

(** [model_facts o]: the facts of [o] are the computed ones ([with_model_facts o = o]);
    [KnownFacts o]: the D04 exclusion for the strings of [o] that matter:
    the target of create_processing_instruction, the name of create_entity_reference, the value
    of set_attribute / set_node_value *)
Theorem C13_model_facts_agree : forall o, model_facts o -> KnownFacts o = false -> op_facts_agree o.
Proof. exact model_facts_agree. Qed.

Theorem C13_step_refines_model_facts : forall w o ao,
  WInv2 w -> WPrintable w -> model_facts o -> KnownFacts o = false -> Known13 w o = false -> abs_op o = Some ao ->
  conforms_from w o ao.
Proof. exact step_refines_model_facts. Qed.

Theorem C13_step_refines_reachable_model_facts : forall init ops o ao,
  WInv2 init -> WPrintable init -> Forall model_facts ops -> forallb (fun x => negb (KnownFacts x)) ops = true ->
  model_facts o -> KnownFacts o = false -> Known13 (run init ops) o = false -> abs_op o = Some ao ->
  conforms_from (run init ops) o ao.
Proof. exact step_refines_reachable_model_facts. Qed.

Theorem C13_step_refines_strings : forall w o ao,
  WInv2 w -> WPrintable w -> KnownFacts o = false -> Known13 w (with_model_facts o) = false -> abs_op o = Some ao ->
  conforms_from w (with_model_facts o) ao.
Proof. exact step_refines_strings. Qed.

(** the same for a history and a call given by their strings: no hypothesis about facts at all *)
Theorem C13_step_refines_reachable_strings : forall init ops o ao,
  WInv2 init -> WPrintable init -> forallb (fun x => negb (KnownFacts x)) ops = true -> KnownFacts o = false ->
  Known13 (run init (map with_model_facts ops)) (with_model_facts o) = false -> abs_op o = Some ao ->
  conforms_from (run init (map with_model_facts ops)) (with_model_facts o) ao.
Proof. exact step_refines_reachable_strings. Qed.

(** a history given by strings only, on <r><a x="1">t</a><b/></r>: create_element("p:e"),
    set_attribute(e, "xmlns:p", "u&amp;v"), create_processing_instruction("t", "  d?"),
    create_entity_reference("amp"), set_node_value(x, "a&#65;b'c"), append_child(b, e), then five
    refused calls: create_element("1a"), create_processing_instruction("xMl", "d"),
    create_processing_instruction("t", "?>"), set_attribute(a, "y", "&nope;"),
    set_attribute(a, "y", "a<"); then set_attribute(a, "y", "1&lt;2") conforms to DOM Level 1.
    The document then prints <r><a x="a&#65;b'c" y="1&lt;2">t</a><b><p:e xmlns:p="u&amp;v" /></b></r> *)
Definition mf_ops : list op := map with_model_facts
  [ CreateElement (0, 1) (sname [112; 58; 101]);
    SetAttribute (0, 8) (sname [120; 109; 108; 110; 115; 58; 112]) (sdata [117; 38; 97; 109; 112; 59; 118]);
    CreateProcessingInstruction (0, 1) (sname [116]) (sdata [32; 32; 100; 63]);
    CreateEntityReference (0, 1) (sname [97; 109; 112]);
    SetNodeValue (0, 4) (sdata [97; 38; 35; 54; 53; 59; 98; 39; 99]);
    AppendChild (0, 7) (0, 8);
    CreateElement (0, 1) (sname [49; 97]);
    CreateProcessingInstruction (0, 1) (sname [120; 77; 108]) (sdata [100]);
    CreateProcessingInstruction (0, 1) (sname [116]) (sdata [63; 62]);
    SetAttribute (0, 3) (sname [121]) (sdata [38; 110; 111; 112; 101; 59]);
    SetAttribute (0, 3) (sname [121]) (sdata [97; 60]) ].
Definition mf_last : op := with_model_facts (SetAttribute (0, 3) (sname [121]) (sdata [49; 38; 108; 116; 59; 50])).

Example C13_model_facts_example :
  Forall model_facts mf_ops /\ forallb (fun o => negb (KnownFacts o)) mf_ops = true
  /\ map (fun k => snd (step (run ex_world (firstn k mf_ops)) (nth k mf_ops (Query (0, 0))))) (seq 0 11)
     = [Ok (RNode (0, 8)); Ok RUnit; Ok (RNode (0, 13)); Ok (RNode (0, 14)); Ok RUnit; Ok (RNode (0, 8));
        Failed InvalidCharacterErr; Failed InvalidCharacterErr; Failed InvalidCharacterErr; Failed InfoErr; Failed InfoErr]
  /\ conforms_from (run ex_world mf_ops) mf_last (DomL1.ASetAttribute (0, 3) [121] [49; 38; 108; 116; 59; 50])
  /\ snd (step (run ex_world mf_ops) mf_last) = Ok RUnit.
Proof.
  destruct C13_example_attr as [H2 [Hp _]].
  assert (M : Forall model_facts mf_ops) by apply map_model_facts.
  assert (K : forallb (fun o => negb (KnownFacts o)) mf_ops = true) by (vm_compute; reflexivity).
  split; [exact M|]. split; [exact K|]. split; [vm_compute; reflexivity|]. split; [|vm_compute; reflexivity].
  apply C13_step_refines_reachable_model_facts; try assumption.
  - apply with_model_facts_model.
  - vm_compute. reflexivity.
  - vm_compute. reflexivity.
  - reflexivity.
Qed.

Print Assumptions C13_facts_of_name_agree.
Print Assumptions C13_facts_of_data_agree.
Print Assumptions C13_value_D04_c02.
Print Assumptions C13_pi_data_any_target.
Print Assumptions C13_value_any_attribute_name.
Print Assumptions C13_name_D04_refuted.
Print Assumptions C13_value_D04_refuted.
Print Assumptions C13_model_facts_agree.
Print Assumptions C13_step_refines_model_facts.
Print Assumptions C13_step_refines_reachable_model_facts.
Print Assumptions C13_step_refines_strings.
Print Assumptions C13_step_refines_reachable_strings.

(** ** [Element::normalize] (D66: it was [todo!()], every call panicked; repaired by 371cd5b)

    Model: Model/DomNormalize.v -- a derived program over [step] ([append_data] on the Text node in front,
    [remove_child] on the element, recursion into child elements), tied to the code by the op [NZ] of the dom
    correspondence (both views).  DOM Level 1: "Puts all Text nodes in the full depth of the sub-tree underneath
    this Element into a normal form where only markup separates Text nodes, i.e., there are no adjacent Text nodes."

    Proved here: no panic (the call itself and every call it is made of, any world), no failure, atomicity of failed
    calls in histories with [normalize] calls, [Inv2] along such histories, and the frame
    [C13_normalize_frame_partial] (part (i) of the functional specification).

    FULL functional specification (all proved; see the section "functional specification of [normalize]" at the
    end of this file, builder-normalize2):
      (i)   non-Text nodes of the subtree and everything outside the subtree are unchanged (kinds, names, order,
            attributes)  -- [C13_normalize_frame_partial] ([NF] for EVERY node of every document) together with
            [C13_normalize_local] (nothing outside the subtree underneath the receiver, [cdesc], changes; no other
            document changes).
      (ii)  for every node the concatenation of the data of each maximal run of adjacent Text children is unchanged
            -- [C13_normalize_runs_unchanged] ([blocks]); serialisation: [C15_normalize_show_unchanged].
      (iii) afterwards two Text children of an element of the subtree are adjacent only if their concatenation is
            not storable ([valid_str KTx] fails)  -- [C13_normalize_normal_form] (raw view).
      (iv)  idempotence  -- [C13_normalize_idempotent].
      fuel: [C13_normalize_fuel_adequate]; merged-text view: [C13_normalize_merged_view];
      refinement of [dom_normalize] of Spec/DomL1.v (reading R7): [C13_normalize_refines]. *)
From XmlRs Require Import Model.DomNormalize Proofs.DomNormalizeHist Proofs.DomNormalizeC12 Proofs.DomNormalizeC13
  Proofs.DomNormalizeFrame.

Theorem C13_normalize_no_panic : forall merged w r,
  snd (normalize merged w r) <> Panicked
  /\ exists ops, fst (normalize merged w r) = run w ops
       /\ forall pre o post, ops = pre ++ o :: post -> snd (step (run w pre) o) <> Panicked.
Proof. exact normalize_no_panic. Qed.

Theorem C13_normalize_never_fails : forall merged w r e, snd (normalize merged w r) <> Failed e.
Proof. exact normalize_never_fails. Qed.

Theorem C13_normalize_applicable : forall merged w r,
  snd (normalize merged w r) = DomOps.Ok RUnit <-> kind_in w r = Some KEl.
Proof. exact normalize_applicable. Qed.

Theorem C13_run_n_no_panic : forall nops w, forallb (fun o => negb (Known42 o)) (plain_ops nops) = true ->
  forall pre o post, nops = pre ++ o :: post -> snd (step_n (run_n w pre) o) <> Panicked.
Proof. exact run_n_no_panic. Qed.

Theorem C13_failure_atomic_reachable_with_normalize : forall init nops o e,
  WInv init -> match o with Op p => is_set_attribute p = false | Normalize _ _ => True end ->
  snd (step_n (run_n init nops) o) = Failed e -> fst (step_n (run_n init nops) o) = run_n init nops.
Proof. exact failure_atomic_reachable_with_normalize. Qed.

Theorem C13_normalize_refused_append_atomic : forall w p d e,
  WInv w -> snd (step w (AppendData p d)) = Failed e -> fst (step w (AppendData p d)) = w.
Proof. exact normalize_refused_append_atomic. Qed.

Theorem C13_inv2_reachable_with_normalize : forall init nops, WInv2 init -> WInv2 (run_n init nops).
Proof. exact inv2_reachable_with_normalize. Qed.

(** part (i) of the functional specification (see the header of this section for what is missing) *)
Theorem C13_normalize_frame_partial : forall merged w r k s, doc_at w k = Some s ->
  exists s', doc_at (fst (normalize merged w r)) k = Some s' /\ NF s s'.
Proof. exact normalize_frame. Qed.

(** what [NF] says, field by field *)
Theorem C13_normalize_frame_items : forall s s', NF s s' ->
  next s' = next s /\ sroot s' = sroot s /\ sdecl s' = sdecl s
  /\ (forall i, get s i = None -> get s' i = None)
  /\ (forall i a, get s i = Some a -> exists b, get s' i = Some b
        /\ ikind b = ikind a /\ iprefix b = iprefix a /\ ilocal b = ilocal a /\ iflag b = iflag a
        /\ iattrs b = iattrs a /\ ients b = ients a
        /\ (ikind a <> KTx -> idata b = idata a /\ iparent b = iparent a)
        /\ (ikind a = KTx -> iparent b = iparent a \/ iparent b = None)
        /\ (ikind a <> KEl -> ichildren b = ichildren a)
        /\ filter (nontext s) (ichildren b) = filter (nontext s) (ichildren a)
        /\ incl (ichildren b) (ichildren a)).
Proof. exact NF_items. Qed.

(** the example of [C12_normalize_example] is a non-trivial instance: two Text nodes are merged away, one pair stays apart *)
Example C13_normalize_example :
  snd (step_n nz_before (Normalize false (0, 2))) = DomOps.Ok RUnit
  /\ snd (step_n nz_before (Normalize false (0, 6))) = NotApplicable
  /\ valid_str KTx (data_of (store0 nz_final) 6 ++ data_of (store0 nz_final) 10) = false.
Proof. exact nz_example13. Qed.

Print Assumptions C13_normalize_no_panic.
Print Assumptions C13_normalize_never_fails.
Print Assumptions C13_normalize_applicable.
Print Assumptions C13_run_n_no_panic.
Print Assumptions C13_failure_atomic_reachable_with_normalize.
Print Assumptions C13_normalize_refused_append_atomic.
Print Assumptions C13_inv2_reachable_with_normalize.
Print Assumptions C13_normalize_frame_partial.
Print Assumptions C13_normalize_frame_items.
Print Assumptions C13_normalize_example.

(** ** functional specification of [normalize] (builder-normalize2)

    Proofs: Proofs/DomNormalizeStore.v (the model is the loop [ns] on the store of the receiver's document; in the
    merged-text view nothing happens), DomNormalizeSteps.v (sequences [MS] of merges of ADJACENT Text children whose
    concatenation is accepted: what every such sequence keeps), DomNormalizeLoop.v (the loop under the tree
    invariant: [ns_spec]), DomNormalizeSpec.v (the statements below), DomNormalizeRefine.v (refinement).

    Vocabulary.  [cdesc s r x]: [x] is [r] or is reached from [r] through child lists of elements -- the subtree
    underneath [r] (attribute nodes and their values are not part of it).  [blocks s l]: the child list [l] with every
    maximal run of adjacent Text nodes replaced by the concatenation of their data.  [quiet s None l]: no two adjacent
    Text nodes of [l] have a concatenation that [valid_str KTx] accepts (the normal form of reading R7).
    [MS D s s']: [s'] is reached from [s] by steps [merge _ e p c] -- [e] an element in [D], [p] and [c] Text children
    of [e], [c] directly behind [p], the concatenation accepted: [p] takes the data of [c], [c] leaves the list. *)
From XmlRs Require Import Proofs.DomNormalizeStore Proofs.DomNormalizeSteps Proofs.DomNormalizeLoop
  Proofs.DomNormalizeSpec Proofs.DomNormalizeRefine.

(** fuel: [next] of the document suffices, more fuel changes nothing (the fuel never runs out) *)
Theorem C13_normalize_fuel_adequate : forall merged w r f, WInv w ->
  (normalize_fuel w r <= f)%nat -> normalize_run merged f w r = normalize_run merged (normalize_fuel w r) w r.
Proof. exact normalize_fuel_adequate. Qed.

(** the merged-text view shows no Text node: the world is unchanged (any world) *)
Theorem C13_normalize_merged_view : forall w r, fst (normalize true w r) = w.
Proof. exact normalize_merged_view. Qed.

(** what [normalize] is: a sequence of merges of adjacent Text children of elements of the subtree, each accepted *)
Theorem C13_normalize_merge_sequence : forall merged w r s s', WInv w -> doc_at w (fst r) = Some s ->
  doc_at (fst (normalize merged w r)) (fst r) = Some s' ->
  MS (cdesc s (snd r)) s s'
  /\ (merged = false -> kind_of s (snd r) = Some KEl -> forall e, cdesc s (snd r) e -> kind_of s e = Some KEl ->
        quiet s' None (children_of s' e) = true).
Proof. exact normalize_doc. Qed.

(** (i) locality *)
Theorem C13_normalize_local : forall merged w r s, WInv w -> doc_at w (fst r) = Some s ->
  (forall k, k <> fst r -> doc_at (fst (normalize merged w r)) k = doc_at w k)
  /\ exists s', doc_at (fst (normalize merged w r)) (fst r) = Some s'
       /\ forall i, ~ cdesc s (snd r) i -> get s' i = get s i.
Proof. exact normalize_local. Qed.

(** (ii) the runs of adjacent Text children of EVERY node say what they said *)
Theorem C13_normalize_runs_unchanged : forall merged w r s s', WInv w -> doc_at w (fst r) = Some s ->
  doc_at (fst (normalize merged w r)) (fst r) = Some s' ->
  forall e, blocks s' (children_of s' e) = blocks s (children_of s e).
Proof. exact normalize_blocks. Qed.

(** (iii) the normal form, for every element of the subtree (raw view) *)
Theorem C13_normalize_normal_form : forall w r s s', WInv w -> doc_at w (fst r) = Some s ->
  kind_of s (snd r) = Some KEl -> doc_at (fst (normalize false w r)) (fst r) = Some s' ->
  forall e, cdesc s (snd r) e -> kind_of s e = Some KEl ->
    quiet s' None (children_of s' e) = true
    /\ forall pre x y post, children_of s' e = pre ++ x :: y :: post ->
         has_kind s' KTx x = true -> has_kind s' KTx y = true ->
         valid_str KTx (data_of s' x ++ data_of s' y) = false.
Proof. exact normalize_normal_form. Qed.

(** (iv) idempotence: the second call changes nothing and answers the same *)
Theorem C13_normalize_idempotent : forall merged w r, WInv w ->
  normalize merged (fst (normalize merged w r)) r = (fst (normalize merged w r), snd (normalize merged w r)).
Proof. exact normalize_idempotent. Qed.

(** a subtree in normal form is left alone, whatever the fuel (no invariant needed) *)
Theorem C13_normalize_normal_form_noop : forall f s r,
  (forall e, cdesc s r e -> kind_of s e = Some KEl -> quiet s None (children_of s e) = true) -> ns f s r = s.
Proof. exact ns_quiet_noop. Qed.

(** the model on worlds is [ns] on the store of the receiver's document (any world) *)
Theorem C13_normalize_run_store : forall f w k r s,
  doc_at w k = Some s -> normalize_run false f w (k, r) = set_doc w k (ns f s r).
Proof. exact normalize_run_store. Qed.

(** refinement rung (raw view): [normalize] refines [dom_normalize] of Spec/DomL1.v (reading R7), state and outcome *)
Theorem C13_normalize_refines : forall w r, WInv w ->
  abs (fst (normalize false w r)) = fst (DomL1.dom_normalize (abs w) r)
  /\ outcome_class (snd (normalize false w r)) = snd (DomL1.dom_normalize (abs w) r).
Proof. exact normalize_refines. Qed.

(** the rung is for the raw view.  In the merged-text view [normalize] changes nothing although the raw tree underneath
    may hold adjacent Text nodes (that view shows every run as ONE node: what its caller sees is in normal form);
    seen through [abs] -- the raw tree -- such a call does not refine [dom_normalize].  Witness: *)
Example C13_normalize_merged_view_not_raw :
  WInv nz_before /\ fst (normalize true nz_before (0, 2)) = nz_before
  /\ abs (fst (normalize true nz_before (0, 2))) <> fst (DomL1.dom_normalize (abs nz_before) (0, 2)).
Proof. exact nz_merged_view_not_raw. Qed.

(** the hypotheses are satisfiable by a non-trivial value: an element with a nested element that is not in normal
    form; after the call the nested element has the refused pair ("t]]" in front of ">") left *)
Example C13_normalize_spec_example :
  WInv nz_before /\ doc_at nz_before 0 = Some (store0 nz_before)
  /\ kind_of (store0 nz_before) 2 = Some KEl
  /\ cdesc (store0 nz_before) 2 3 /\ kind_of (store0 nz_before) 3 = Some KEl
  /\ quiet (store0 nz_before) None (children_of (store0 nz_before) 3) = false
  /\ children_of (store0 (fst (normalize false nz_before (0, 2)))) 3 = [6; 10]
  /\ valid_str KTx (data_of (store0 (fst (normalize false nz_before (0, 2)))) 6
                    ++ data_of (store0 (fst (normalize false nz_before (0, 2)))) 10) = false.
Proof. exact nz_spec_example. Qed.

Print Assumptions C13_normalize_fuel_adequate.
Print Assumptions C13_normalize_merged_view.
Print Assumptions C13_normalize_merge_sequence.
Print Assumptions C13_normalize_local.
Print Assumptions C13_normalize_runs_unchanged.
Print Assumptions C13_normalize_normal_form.
Print Assumptions C13_normalize_idempotent.
Print Assumptions C13_normalize_normal_form_noop.
Print Assumptions C13_normalize_run_store.
Print Assumptions C13_normalize_refines.
Print Assumptions C13_normalize_merged_view_not_raw.
Print Assumptions C13_normalize_spec_example.

(** ** the read-only maps of a document type: the exception class "no modification allowed"

    The only mutators of crate [dom] that answer [NoModificationAllowedErr] are [set_named_item] / [remove_named_item]
    of the maps [DocumentType::entities()] / [notations()].  They are modelled outside [op] (Model/DomReadOnly.v:
    [ro_op], [step_ro], outcomes [xoutcome] = the outcomes of [step] + the one class [step] never answers) and
    specified by Spec/DomL1ReadOnly.v ([dom_step_ro], reading R8: both maps are readonly, the readonly test comes
    first -- for [removeNamedItem] of a name that is NOT in the map the letter of Level 1 would be NOT_FOUND_ERR,
    Level 2 lists both codes).  Histories [xop] mix them with the 27 operations and [normalize].

    - effect / exception: [C13_readonly_refines] -- on every world with the tree invariant (so on every reachable
      one, [C13_readonly_refines_reachable]) and for every such call, the abstraction commutes and the outcome class
      is the answer of [dom_step_ro]; [C13_readonly_outcome]: that answer is NO_MODIFICATION_ALLOWED_ERR exactly
      when the call can be written ([ro_applicable]: the receiver gives a document type and the argument exists),
      [ANotOffered] otherwise; it depends neither on the name nor on the argument nor on the map.
    - failure atomicity: [C13_readonly_world_unchanged] (no hypothesis) and, along the extended histories,
      [C13_failure_atomic_reachable_with_readonly] (side condition on the OTHER calls as in
      [C13_failure_atomic_reachable_with_normalize]).
    - no panic: [C13_readonly_no_panic], [C13_run_x_no_panic] (outside D42, as [C13_run_n_no_panic]). *)
From XmlRs Require Import Model.DomReadOnly Proofs.DomReadOnly Proofs.DomReadOnlyC13.
From XmlRs Require Spec.DomL1ReadOnly.

Theorem C13_readonly_world_unchanged : forall w o, fst (step_ro w o) = w.
Proof. exact step_ro_world. Qed.

Theorem C13_readonly_outcome : forall w o,
  snd (step_ro w o) = if ro_applicable w o then XFailed XNoModificationAllowedErr else XNotApplicable.
Proof. exact step_ro_outcome. Qed.

Theorem C13_readonly_refines : forall w o, WInv w ->
  abs (fst (step_ro w o)) = fst (DomL1ReadOnly.dom_step_ro (abs w) (abs_ro_op o))
  /\ xoutcome_class (snd (step_ro w o)) = snd (DomL1ReadOnly.dom_step_ro (abs w) (abs_ro_op o)).
Proof. exact step_ro_refines. Qed.

Theorem C13_readonly_refines_reachable : forall init xs o, WInv init ->
  abs (fst (step_ro (run_x init xs) o)) = fst (DomL1ReadOnly.dom_step_ro (abs (run_x init xs)) (abs_ro_op o))
  /\ xoutcome_class (snd (step_ro (run_x init xs) o)) = snd (DomL1ReadOnly.dom_step_ro (abs (run_x init xs)) (abs_ro_op o)).
Proof. exact step_ro_refines_reachable. Qed.

Theorem C13_readonly_spec_answer : forall w o, WInv w ->
  DomL1ReadOnly.dom_step_ro (abs w) (abs_ro_op o) =
  (abs w, if ro_applicable w o then DomL1.ARaised (DomL1.Dom DomCharData.NoModificationAllowedErr) else DomL1.ANotOffered).
Proof. exact spec_ro_answer. Qed.

Theorem C13_readonly_spec_state_unchanged : forall a o, fst (DomL1ReadOnly.dom_step_ro a o) = a.
Proof. exact dom_step_ro_state. Qed.

Theorem C13_readonly_no_panic : forall w o, snd (step_ro w o) <> XPanicked.
Proof. exact step_ro_no_panic. Qed.

Theorem C13_run_x_no_panic : forall xs w, forallb (fun o => negb (Known42 o)) (plain_ops (nops_of xs)) = true ->
  forall pre o post, xs = pre ++ o :: post -> snd (step_x (run_x w pre) o) <> XPanicked.
Proof. exact run_x_no_panic. Qed.

Theorem C13_failure_atomic_reachable_with_readonly : forall init xs o e,
  WInv init -> atomic_side o ->
  snd (step_x (run_x init xs) o) = XFailed e -> fst (step_x (run_x init xs) o) = run_x init xs.
Proof. exact failure_atomic_reachable_with_readonly. Qed.

Theorem C13_inv2_reachable_with_readonly : forall init xs, WInv2 init -> WInv2 (run_x init xs).
Proof. exact inv2_reachable_with_readonly. Qed.

(** non-trivial instance (world and history of Proofs/DomReadOnly.v): the ten outcomes, and the specification's
    answers on the abstraction of the world *)
Example C13_readonly_example :
  WInv ro_world
  /\ outcomes_x ro_world ro_ops =
     [ XFailed XNoModificationAllowedErr; XFailed XNoModificationAllowedErr; XNotApplicable;
       XFailed XNoModificationAllowedErr; XFailed XNoModificationAllowedErr; XNotApplicable; XNotApplicable;
       XOk (RNode (0, 2)); XNotApplicable; XFailed XNoModificationAllowedErr ]
  /\ snd (DomL1ReadOnly.dom_step_ro (abs ro_world) (abs_ro_op (MapRemoveNamedItem MEntities (0, 1) [122])))
     = DomL1.ARaised (DomL1.Dom DomCharData.NoModificationAllowedErr)
  /\ snd (DomL1ReadOnly.dom_step_ro (abs ro_world) (abs_ro_op (MapSetNamedItem MEntities (0, 1) (1, 1) (ByName [117]) false)))
     = DomL1.ANotOffered.
Proof.
  split; [exact ro_world_inv|]. split; [exact ro_example_outcomes|].
  destruct ro_example13 as [_ [A [_ B]]]. split; [exact A | exact B].
Qed.

Print Assumptions C13_readonly_world_unchanged.
Print Assumptions C13_readonly_outcome.
Print Assumptions C13_readonly_refines.
Print Assumptions C13_readonly_refines_reachable.
Print Assumptions C13_readonly_spec_answer.
Print Assumptions C13_readonly_spec_state_unchanged.
Print Assumptions C13_readonly_no_panic.
Print Assumptions C13_run_x_no_panic.
Print Assumptions C13_failure_atomic_reachable_with_readonly.
Print Assumptions C13_inv2_reachable_with_readonly.
Print Assumptions C13_readonly_example.

(** ** what a user of XPath observes of [Element::normalize]: string-values (builder-normalize3)

    XPath 1.0, 5.2 / 5.1: the string-value of an element (of the root node) is the concatenation of the string-values of
    its text node descendants in document order.  [text_value s n] (Proofs/DomNormalizeStringValue.v) is that value on
    a store in the raw view: the concatenation, in document order, of the data of the Text and CDATASection descendants
    of [n] reached through child elements (what [string_value_fuel] of Model/XDoc.v computes for an element row;
    comments, processing instructions, references contribute nothing).  It is a function of the [blocks] of the child
    lists, so by [C13_normalize_runs_unchanged] and the frame:

    [normalize] changes the string-value of NO node of the receiver's document -- for every fuel and for the fuel of
    Model/Store.v -- in every world with the tree invariant, both views; the other documents of the world are
    untouched ([C13_normalize_local]).  (The value of a node without children is empty: the statement is about
    elements, the document node, attributes.)
    Not stated: the same through the table of the XPath evaluator ([xdoc_of_store] of Model/StoreView.v, either view). *)
From XmlRs Require Import Proofs.DomNormalizeStringValue.

Theorem C13_normalize_string_value_unchanged : forall merged w r s s', WInv w -> doc_at w (fst r) = Some s ->
  doc_at (fst (normalize merged w r)) (fst r) = Some s' ->
  forall n, (forall f, text_value_fuel f s' n = text_value_fuel f s n) /\ text_value s' n = text_value s n.
Proof. exact normalize_string_value. Qed.

(** the hypotheses are satisfiable by a non-trivial value: element 2 of [nz_before] holds element 3, whose Text children
    "", "t", "]]", ">" become "t]]", ">"; the string-value "t]]>" of both elements is what it was, the child list of
    element 3 is not *)
Example C13_normalize_string_value_example :
  WInv nz_before /\ doc_at nz_before 0 = Some (store0 nz_before)
  /\ kind_of (store0 nz_before) 2 = Some KEl
  /\ text_value (store0 nz_before) 3 = [116; 93; 93; 62]
  /\ text_value (store0 (fst (normalize false nz_before (0, 2)))) 3 = [116; 93; 93; 62]
  /\ text_value (store0 (fst (normalize false nz_before (0, 2)))) 2 = text_value (store0 nz_before) 2
  /\ text_value (store0 nz_before) 2 = [116; 93; 93; 62]
  /\ children_of (store0 (fst (normalize false nz_before (0, 2)))) 3 <> children_of (store0 nz_before) 3.
Proof. exact nz_string_value_example. Qed.

Print Assumptions C13_normalize_string_value_unchanged.
Print Assumptions C13_normalize_string_value_example.

(** ** A merged text node of the text-expanded view as the new child of an insertion (Model/DomMergedArg.v; defect
    D68, repaired by /repo aa36908: the conversion of the argument panicked in [unimplemented!("multi text node.")])

    [step_mx] is the code's behaviour on [append_child] / [insert_before] / [replace_child] whose [new_child] is the
    node [child_nodes()] hands out for a run of Text / CDATA / reference children ([merged_entry]); the extracted
    [step_mx] is run against the real crates on every generated call (ops ACX / IBX / IBXX / RCX / RCXX of the dom
    domain, checks/dom13.py [mergedarg_campaign]).  DOM Level 1 has no such node: there is no specification answer to
    compare with; what C13 asks of these calls is
    - failure atomicity: [C13_merged_argument_world_unchanged] (no hypothesis, every world, every call) and along the
      extended histories [C13_merged_argument_atomic_reachable];
    - no panic: [C13_merged_argument_no_panic], [C13_merged_argument_no_panic_reachable];
    - the exception class: [C13_merged_argument_outcome] (by receiver kind and document identity, in the order of the
      checks of the code), [C13_merged_argument_cases], [C13_merged_argument_never_ok] (the node is never inserted),
      [C13_merged_argument_not_supported] (NOT_SUPPORTED_ERR exactly for a receiver that can have children and
      arguments of its own document);
    - the histories of the earlier sections extended by such calls reach the same worlds
      ([C13_merged_argument_erase]), so the tree invariant holds along them ([C13_merged_argument_tree_inv]). *)
From XmlRs Require Import Model.DomMergedArg Proofs.DomMergedArg.

Theorem C13_merged_argument_world_unchanged : forall w o, fst (step_mx w o) = w.
Proof. exact step_mx_world. Qed.

Theorem C13_merged_argument_no_panic : forall w o, snd (step_mx w o) <> MPanicked.
Proof. exact step_mx_no_panic. Qed.

Theorem C13_merged_argument_never_ok : forall w o r, snd (step_mx w o) <> MOk r.
Proof. exact step_mx_never_ok. Qed.

Theorem C13_merged_argument_cases : forall w o,
  snd (step_mx w o) = MNotApplicable
  \/ snd (step_mx w o) = MFailed (MExc (XExc HierarchyRequestErr))
  \/ snd (step_mx w o) = MFailed (MExc (XExc WrongDocumentErr))
  \/ snd (step_mx w o) = MFailed MNotSupportErr.
Proof. exact step_mx_cases. Qed.

Theorem C13_merged_argument_outcome : forall w call r c k ref,
  snd (step_mx w (MxOp call r c k ref)) =
  if mx_applicable w (MxOp call r c k ref) then
    match kind_in w r with
    | Some kd =>
      if container kd then
        if negb (fst c =? fst r)%N then MFailed (MExc (XExc WrongDocumentErr))
        else match mx_ref_wrong w r ref with
             | Some true => MFailed (MExc (XExc WrongDocumentErr))
             | _ => MFailed MNotSupportErr
             end
      else MFailed (MExc (XExc HierarchyRequestErr))
    | None => MNotApplicable
    end
  else MNotApplicable.
Proof. exact step_mx_outcome. Qed.

Theorem C13_merged_argument_applicable_refused : forall w o,
  mx_applicable w o = true -> exists e, snd (step_mx w o) = MFailed e.
Proof. exact step_mx_applicable_refused. Qed.

Theorem C13_merged_argument_not_supported : forall w call r c k ref,
  snd (step_mx w (MxOp call r c k ref)) = MFailed MNotSupportErr <->
  mx_applicable w (MxOp call r c k ref) = true
  /\ (exists kd, kind_in w r = Some kd /\ container kd = true)
  /\ fst c = fst r
  /\ mx_ref_wrong w r ref = Some false.
Proof. exact step_mx_not_supported. Qed.

Theorem C13_merged_argument_erase : forall ops w, run_y w ops = run_x w (xops_of ops).
Proof. exact run_y_erase. Qed.

Theorem C13_merged_argument_atomic_reachable : forall init ys o,
  fst (step_y (run_y init ys) (YMx o)) = run_y init ys.
Proof. exact merged_argument_atomic_reachable. Qed.

Theorem C13_merged_argument_no_panic_reachable : forall init ys o,
  snd (step_y (run_y init ys) (YMx o)) <> MPanicked.
Proof. exact merged_argument_no_panic_reachable. Qed.

Theorem C13_merged_argument_tree_inv : forall init ys, WInv init -> WInv (run_y init ys).
Proof. exact tree_inv_reachable_with_merged_argument. Qed.

(** non-trivial instance (world and history of Proofs/DomMergedArg.v: two documents with runs of text, CDATA and an
    attribute; fourteen calls, one of them a real edit): the outcomes, the world reached, its invariant *)
Example C13_merged_argument_example :
  WInv mx_world
  /\ outcomes_y mx_world mx_ops =
     [ MFailed MNotSupportErr; MFailed MNotSupportErr; MFailed MNotSupportErr; MFailed MNotSupportErr;
       MFailed (MExc (XExc HierarchyRequestErr)); MFailed (MExc (XExc WrongDocumentErr));
       MFailed (MExc (XExc WrongDocumentErr)); MFailed (MExc (XExc WrongDocumentErr));
       MFailed MNotSupportErr; MFailed MNotSupportErr; MNotApplicable; MNotApplicable;
       MOk (RNode (0%N, 9%N)); MFailed MNotSupportErr ]
  /\ run_y mx_world mx_ops = fst (step mx_world (RemoveChild (0%N, 2%N) (0%N, 9%N)))
  /\ WInv (run_y mx_world mx_ops).
Proof.
  split; [exact mx_world_inv|]. split; [exact mx_example_outcomes|].
  destruct mx_example_world as [A [B _]]. split; [exact A | exact B].
Qed.

Print Assumptions C13_merged_argument_world_unchanged.
Print Assumptions C13_merged_argument_no_panic.
Print Assumptions C13_merged_argument_never_ok.
Print Assumptions C13_merged_argument_cases.
Print Assumptions C13_merged_argument_outcome.
Print Assumptions C13_merged_argument_applicable_refused.
Print Assumptions C13_merged_argument_not_supported.
Print Assumptions C13_merged_argument_erase.
Print Assumptions C13_merged_argument_atomic_reachable.
Print Assumptions C13_merged_argument_no_panic_reachable.
Print Assumptions C13_merged_argument_tree_inv.
Print Assumptions C13_merged_argument_example.
