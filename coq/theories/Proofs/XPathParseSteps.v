(** * Steps, node tests, predicates and location paths of the XPath grammar (C08, rung 2).

    The token-level productions [axis_name], [node_type], [name_test], [node_test],
    [axis_specifier], then [predicate], [step], [relative_location_path], on the spellings of
    Spec/XPathSyntax.v.  A recurring difficulty of the PEG: an abbreviated step whose name test
    merely STARTS like an axis name or a node type ([children], [self], [textbook], [text]) makes
    the earlier alternatives of [axis_specifier] / [node_test] succeed on a prefix; they must then
    fail on what follows ([::] resp. [(]), which is what [F_tags_then] establishes. *)
From Coq Require Import List NArith Arith Lia Bool.
From XmlRs Require Import Base.CPred Spec.XmlChars Spec.XPathSyntax Model.Peg Model.XPathAst
  Model.ParseActionsXPath Model.XPathAstAbs Gen.GrammarXPathGen
  Proofs.XPathParseBase Proofs.XPathParseProds Proofs.XPathParseLex Proofs.XPathParseAct
  Proofs.XPathParseFollow Proofs.XPathParseChains Proofs.XPathParseExpr.
Import ListNotations.
Local Open Scope N_scope.

(** ** alternatives of tags *)
Fixpoint alt_tags (l : list str) : pexpr :=
  match l with
  | [] => dummy
  | [a] => Tag a
  | a :: l' => Alt (Tag a) (alt_tags l')
  end.

Lemma prefix_some_app (a s r : str) : prefix a s = Some r -> s = a ++ r.
Proof.
  revert s; induction a as [|x a IH]; intros s H.
  - rewrite prefix_nil_l in H. injection H as ->. reflexivity.
  - destruct s as [|y s]; [discriminate|]. cbn [prefix] in H. destruct (N.eqb_spec x y) as [->|]; [|discriminate].
    cbn [app]. f_equal. apply IH, H.
Qed.

(** the first tag that matches wins; if none matches the alternative fails *)
Lemma alt_tags_spec l (s : str) : l <> [] ->
  (F (alt_tags l) s /\ Forall (fun t => prefix t s = None) l) \/
  (exists t r, In t l /\ prefix t s = Some r /\ P (alt_tags l) s (TStr t) r).
Proof.
  induction l as [|a l IH]; [contradiction|]. intros _. destruct l as [|b l].
  - cbn [alt_tags]. destruct (prefix a s) as [r|] eqn:E.
    + right. exists a, r. split; [left; reflexivity|]. split; [exact E|]. apply parses_tag, E.
    + left. split; [apply fails_tag, E|]. constructor; [exact E|constructor].
  - change (alt_tags (a :: b :: l)) with (Alt (Tag a) (alt_tags (b :: l))).
    destruct (prefix a s) as [r|] eqn:E.
    + right. exists a, r. split; [left; reflexivity|]. split; [exact E|]. apply parses_alt_l, parses_tag, E.
    + destruct (IH ltac:(discriminate)) as [[HF Hall]|(t & r & Hin & Hp & HP)].
      * left. split; [apply fails_alt; [apply fails_tag, E|exact HF]|]. constructor; assumption.
      * right. exists t, r. split; [right; exact Hin|]. split; [exact Hp|].
        apply parses_alt_r; [apply fails_tag, E|exact HP].
Qed.

(** a run of NCName characters at the start of [n ++ rest] (with [rest] not continuing it) is a
    prefix of [n] *)
Lemma ncname_prefix_split (t r n rest : str) :
  forallb ncname_char t = true -> forallb ncname_char n = true -> stops ncname_char rest ->
  t ++ r = n ++ rest -> exists n', n = t ++ n' /\ r = n' ++ rest.
Proof.
  revert n; induction t as [|c t IH]; intros n Ht Hn Hrest E.
  - exists n. split; [reflexivity|exact E].
  - cbn [forallb] in Ht. apply andb_true_iff in Ht. destruct Ht as [Hc Ht].
    destruct n as [|d n].
    + cbn [app] in E. destruct rest as [|x rest]; [discriminate|]. injection E as <- _.
      cbn [stops] in Hrest. congruence.
    + cbn [app] in E. injection E as <- E. cbn [forallb] in Hn. apply andb_true_iff in Hn.
      destruct (IH n Ht (proj2 Hn) Hrest E) as (n' & -> & ->). exists n'. auto.
Qed.

(** after a tag made of NCName characters has matched a prefix of a name, [ws* y] does not
    follow unless it follows the whole name *)
Lemma F_tags_then (l : list str) (A : pexpr) (y : str) (Z : pexpr) (n rest : str) :
  l <> [] -> Forall (fun t => t <> [] /\ forallb ncname_char t = true) l ->
  (forall s, F (alt_tags l) s -> F A s) ->
  (forall s t r, P (alt_tags l) s (TStr t) r -> exists t', P A s t' r) ->
  forallb ncname_char n = true -> stops ncname_char rest ->
  y <> [] -> stops is_ws y -> stops ncname_char y ->
  prefix y (drop_ws rest) = None ->
  F (SeqL A (Seq WS (Seq (Tag y) Z))) (n ++ rest) /\ F (SeqL A (Seq WS (Tag y))) (n ++ rest)
  /\ F (Seq A (Seq WS (Seq (Tag y) Z))) (n ++ rest).
Proof.
  intros Hne Hall HF HP Hn Hrest Hy Hyws Hync Hpre.
  destruct (alt_tags_spec l (n ++ rest) Hne) as [[Hf _]|(t & r & Hin & Hp & Hpar)].
  - repeat split; apply fails_seq_1, HF, Hf.
  - rewrite Forall_forall in Hall. destruct (Hall t Hin) as (Htne & Htnc).
    apply prefix_some_app in Hp. symmetry in Hp.
    destruct (ncname_prefix_split t r n rest Htnc Hn Hrest Hp) as (n' & -> & ->).
    destruct (HP _ _ _ Hpar) as (t' & HPA).
    assert (Hfail : prefix y (drop_ws (n' ++ rest)) = None).
    { destruct n' as [|c n']; [exact Hpre|].
      rewrite forallb_app in Hn. apply andb_true_iff in Hn. destruct Hn as [_ Hn].
      cbn [forallb] in Hn. apply andb_true_iff in Hn. destruct Hn as [Hc _].
      assert (Hcw : is_ws c = false).
      { destruct (is_ws c) eqn:E; [|reflexivity]. apply ws_not_namechar in E. unfold ncname_char in Hc. rewrite E in Hc. discriminate. }
      rewrite drop_ws_stop by (cbn [app stops]; exact Hcw).
      destruct y as [|y0 y']; [contradiction|]. cbn [app prefix]. cbn [stops] in Hync.
      destruct (N.eqb_spec y0 c) as [->|]; [congruence|reflexivity]. }
    repeat split; (eapply fails_seq_2; [exact HPA|]); (eapply fails_seq_2; [apply P_ws_any|]).
    + apply fails_seq_1, fails_tag, Hfail.
    + apply fails_tag, Hfail.
    + apply fails_seq_1, fails_tag, Hfail.
Qed.

(** ** axis names *)
Definition axis_tags : list str :=
  [t_ancestor_or_self; t_ancestor; t_attribute; t_child; t_descendant_or_self; t_descendant;
   t_following_sibling; t_following; t_namespace; t_parent; t_preceding_sibling; t_preceding; t_self].

Lemma axis_name_body : body G_xpath nt_axis_name = Map L_model_AxisName_from (alt_tags axis_tags).
Proof. reflexivity. Qed.

Lemma axis_tags_nc : Forall (fun t : str => t <> [] /\ forallb ncname_char t = true) axis_tags.
Proof. repeat constructor; try discriminate; vm_compute; reflexivity. Qed.

Definition m_axis (x : axis) : axis_name :=
  match x with
  | XAncestor => AxAncestor | XAncestorOrSelf => AxAncestorOrSelf | XAttribute => AxAttribute
  | XChild => AxChild | XDescendant => AxDescendant | XDescendantOrSelf => AxDescendantOrSelf
  | XFollowing => AxFollowing | XFollowingSibling => AxFollowingSibling | XNamespace => AxNamespace
  | XParent => AxParent | XPreceding => AxPreceding | XPrecedingSibling => AxPrecedingSibling
  | XSelf => AxCurrent
  end.

Lemma abs_m_axis x : abs_axis_name (m_axis x) = x.
Proof. destruct x; reflexivity. Qed.

Lemma prefix_app_l (a b r : str) : prefix (a ++ b) (a ++ r) = prefix b r.
Proof. induction a as [|x a IH]; cbn [app prefix]; [reflexivity|]. now rewrite N.eqb_refl. Qed.

Ltac tags_tac :=
  repeat first [ apply parses_tag_app
               | apply parses_alt_l; apply parses_tag_app
               | apply parses_alt_r; [apply fails_tag; reflexivity|] ].

Lemma P_axis_name (x : axis) (r : str) : prefix [45] r = None ->
  P (NT nt_axis_name) (axis_text x ++ r) (TMap L_model_AxisName_from (TStr (axis_text x))) r.
Proof.
  intros H45. apply parses_nt. rewrite prod_axis_name. apply parses_map.
  assert (Hor : forall (a : str), prefix (a ++ [45;111;114;45;115;101;108;102]) (a ++ r) = None).
  { intros a. rewrite prefix_app_l. apply prefix_cons_none, H45. }
  assert (Hsib : forall (a : str), prefix (a ++ [45;115;105;98;108;105;110;103]) (a ++ r) = None).
  { intros a. rewrite prefix_app_l. apply prefix_cons_none, H45. }
  destruct x; cbn [axis_text].
  - (* ancestor *) apply parses_alt_r; [apply fails_tag, (Hor t_ancestor)|]. tags_tac.
  - tags_tac.
  - tags_tac.
  - tags_tac.
  - (* descendant *) do 4 (apply parses_alt_r; [apply fails_tag; reflexivity|]).
    apply parses_alt_r; [apply fails_tag, (Hor t_descendant)|]. tags_tac.
  - tags_tac.
  - (* following *) do 6 (apply parses_alt_r; [apply fails_tag; reflexivity|]).
    apply parses_alt_r; [apply fails_tag, (Hsib t_following)|]. tags_tac.
  - tags_tac.
  - tags_tac.
  - tags_tac.
  - (* preceding *) do 10 (apply parses_alt_r; [apply fails_tag; reflexivity|]).
    apply parses_alt_r; [apply fails_tag, (Hsib t_preceding)|]. tags_tac.
  - tags_tac.
  - tags_tac.
Qed.

Lemma act_axis_name x : act (TMap L_model_AxisName_from (TStr (axis_text x))) = VAxisName (m_axis x).
Proof. destruct x; reflexivity. Qed.

(** [axis_name ws* ::] fails on a name test (and on a node type) that is not followed by [::] *)
Lemma F_axis_on_name (n rest : str) :
  forallb ncname_char n = true -> stops ncname_char rest ->
  prefix [58;58] (drop_ws rest) = None ->
  F (SeqL (NT nt_axis_name) (Seq WS (Tag [58;58]))) (n ++ rest).
Proof.
  intros Hn Hrest Hp.
  refine (proj1 (proj2 (F_tags_then axis_tags (NT nt_axis_name) [58;58] (Tag []) n rest _ axis_tags_nc _ _ Hn Hrest _ _ _ Hp)));
  try discriminate; try reflexivity.
  - intros s Hf. apply fails_nt. rewrite axis_name_body. apply fails_map, Hf.
  - intros s t r HP. eexists. apply parses_nt. rewrite axis_name_body. apply parses_map, HP.
Qed.

(** ** node types *)
Definition ntype_tags : list str := [t_comment; t_text; t_processing_instruction; t_node].

Lemma node_type_body : body G_xpath nt_node_type = Map L_model_NodeType_from (alt_tags ntype_tags).
Proof. reflexivity. Qed.

Lemma ntype_tags_nc : Forall (fun t : str => t <> [] /\ forallb ncname_char t = true) ntype_tags.
Proof. repeat constructor; try discriminate; vm_compute; reflexivity. Qed.

Definition m_ntype (k : ntype) : node_type :=
  match k with KComment => NtComment | KText => NtText | KPi => NtPI | KNode => NtNode end.

Lemma P_node_type (k : ntype) (r : str) :
  P (NT nt_node_type) (ntype_text k ++ r) (TMap L_model_NodeType_from (TStr (ntype_text k))) r.
Proof. apply parses_nt. rewrite prod_node_type. apply parses_map. destruct k; cbn [ntype_text]; tags_tac. Qed.

Lemma act_node_type k : act (TMap L_model_NodeType_from (TStr (ntype_text k))) = VNodeType (m_ntype k).
Proof. destruct k; reflexivity. Qed.

Lemma F_ntype_on_name (n rest : str) (Z : pexpr) :
  forallb ncname_char n = true -> stops ncname_char rest ->
  prefix [40] (drop_ws rest) = None ->
  F (SeqL (NT nt_node_type) (Seq WS (Seq (Tag [40]) Z))) (n ++ rest).
Proof.
  intros Hn Hrest Hp.
  refine (proj1 (F_tags_then ntype_tags (NT nt_node_type) [40] Z n rest _ ntype_tags_nc _ _ Hn Hrest _ _ _ Hp));
  try discriminate; try reflexivity.
  - intros s Hf. apply fails_nt. rewrite node_type_body. apply fails_map, Hf.
  - intros s t r HP. eexists. apply parses_nt. rewrite node_type_body. apply parses_map, HP.
Qed.

Lemma F_pi_on_name (n rest : str) (Z : pexpr) :
  forallb ncname_char n = true -> stops ncname_char rest ->
  prefix [40] (drop_ws rest) = None ->
  F (Seq (Tag t_processing_instruction) (Seq WS (Seq (Tag [40]) Z))) (n ++ rest).
Proof.
  intros Hn Hrest Hp.
  assert (Hall : Forall (fun t : str => t <> [] /\ forallb ncname_char t = true) [t_processing_instruction]).
  { constructor; [split; [discriminate|vm_compute; reflexivity]|constructor]. }
  refine (proj2 (proj2 (F_tags_then [t_processing_instruction] (Tag t_processing_instruction) [40] Z n rest _ Hall _ _ Hn Hrest _ _ _ Hp)));
  try discriminate; try reflexivity.
  - intros s Hf. exact Hf.
  - intros s t r HP. eexists. exact HP.
Qed.

(** ** name tests and node tests *)
Definition m_ntest (t : ntest) : node_test :=
  match t with
  | TAny => TestName NameAll
  | TNs p => TestName (NameNamespace p)
  | TName q => TestName (NameQName (mq q))
  | TType k => TestType (m_ntype k)
  | TPi l => TestPI l
  end.

Lemma abs_m_ntest t : abs_test (m_ntest t) = t.
Proof. destruct t as [|p|q|k|l]; cbn; try reflexivity; [now rewrite abs_mq|destruct k; reflexivity]. Qed.

Lemma p1_ne c x : P1 c = true -> eval spec_NameChar x = false -> c <> x.
Proof.
  intros Hc Hx ->. apply P1_nc in Hc. unfold ncname_char in Hc. rewrite Hx in Hc. discriminate.
Qed.

Lemma ncname_hd (n : str) : is_NCName n = true -> exists c r, n = c :: r /\ P1 c = true.
Proof. intros H. destruct (ncname_split n H) as (x & t & -> & Hx & _). eauto. Qed.

Lemma P_name_test_any (K : str) :
  P (NT nt_name_test) ([42] ++ K) (TMap L_closure_f9ed0828 (TStr [42])) K.
Proof. apply parses_nt. rewrite prod_name_test. apply parses_alt_l, parses_map, parses_tag_app. Qed.

Lemma P_name_test_ns (p K : str) : is_NCName p = true ->
  P (NT nt_name_test) ((p ++ [58;42]) ++ K) (TMap L_model_NameTest_from (TStr p)) K.
Proof.
  intros Hp. destruct (ncname_hd p Hp) as (c & r & E & Hc).
  apply parses_nt. rewrite prod_name_test. rewrite <- app_assoc.
  apply parses_alt_r.
  - apply fails_map, fails_tag. rewrite E. cbn [app prefix].
    destruct (N.eqb_spec 42 c) as [<-|]; [vm_compute in Hc; discriminate|reflexivity].
  - apply parses_alt_l, parses_map. eapply parses_seql; [|apply (parses_tag_app G_xpath [58;42])].
    apply P_ncname; [exact Hp|reflexivity].
Qed.

Lemma P_name_test_q (q : xqname) (K : str) : wf_qname q = true -> name_stop K ->
  P (NT nt_name_test) (qname_text q ++ K) (TMap L_model_NameTest_from (qname_tree q)) K.
Proof.
  intros Hq HK. destruct (qname_hd q Hq) as (c & r & E & Hc).
  apply parses_nt. rewrite prod_name_test.
  apply parses_alt_r.
  - apply fails_map, fails_tag. rewrite E. cbn [app prefix].
    destruct (N.eqb_spec 42 c) as [<-|]; [vm_compute in Hc; discriminate|reflexivity].
  - apply parses_alt_r; [|apply parses_map, P_qname; assumption].
    apply fails_map. destruct q as [[p|] l]; cbn [wf_qname qname_text] in *.
    + apply andb_true_iff in Hq. destruct Hq as [Hp Hl]. rewrite <- !app_assoc.
      eapply fails_seq_2; [apply P_ncname; [exact Hp|reflexivity]|].
      apply fails_tag. destruct (ncname_hd l Hl) as (d & r' & -> & Hd). cbn [app prefix].
      destruct (N.eqb_spec 42 d) as [<-|]; [vm_compute in Hd; discriminate|reflexivity].
    + eapply fails_seq_2; [apply P_ncname; [exact Hq|apply name_stop_nc, HK]|].
      apply fails_tag, prefix_cons_none, name_stop_colon, HK.
Qed.

Definition is_name_ntest (t : ntest) : bool :=
  match t with TAny | TNs _ | TName _ => true | _ => false end.

(** what must not follow a name test that is a QName: a name character, [(] or [::] *)
Definition tok_follow (K : str) : Prop :=
  name_stop K /\ prefix [40] (drop_ws K) = None /\ prefix [58] (drop_ws K) = None.

Lemma ws_or_not_nc (g rest : str) c : forallb is_ws g = true -> ncname_char c = false ->
  stops ncname_char (g ++ c :: rest).
Proof.
  intros Hg Hc. destruct g as [|x g]; [exact Hc|]. cbn [forallb] in Hg. apply andb_true_iff in Hg.
  destruct Hg as [Hx _]. cbn [app stops]. unfold ncname_char. now rewrite (ws_not_namechar _ Hx).
Qed.

Lemma P_node_test (t : ntest) (w : wtree) (K : str) :
  wf_ntest t = true -> ws_ok w = true ->
  (forall q, t = TName q -> tok_follow K) ->
  exists tr, P (NT nt_node_test) (spell_ntest t w ++ K) tr K /\ act tr = VNodeTest (m_ntest t).
Proof.
  intros Hwf Hw HK.
  assert (Hg4 : forallb is_ws (gap w 4) = true) by (apply ws_ok_gap, Hw).
  assert (Hg5 : forallb is_ws (gap w 5) = true) by (apply ws_ok_gap, Hw).
  assert (Hg6 : forallb is_ws (gap w 6) = true) by (apply ws_ok_gap, Hw).
  destruct t as [|p|q|k|l]; cbn [spell_ntest wf_ntest m_ntest] in *.
  - (* star *)
    exists (TMap L_model_NodeTest_from (TMap L_closure_f9ed0828 (TStr [42]))). split; [|reflexivity].
    apply parses_nt. rewrite prod_node_test.
    apply parses_alt_r; [apply fails_map, fails_seq_1, fails_seq_1, fails_tag; reflexivity|].
    apply parses_alt_r; [apply fails_map, fails_seq_1, F_node_type; reflexivity|].
    apply parses_map, P_name_test_any.
  - (* p:star *)
    pose proof (ncname_all p Hwf) as Hall.
    exists (TMap L_model_NodeTest_from (TMap L_model_NameTest_from (TStr p))). split; [|reflexivity].
    apply parses_nt. rewrite prod_node_test.
    apply parses_alt_r.
    { apply fails_map, fails_seq_1. rewrite <- !app_assoc. apply F_pi_on_name; [exact Hall|reflexivity|reflexivity]. }
    apply parses_alt_r.
    { apply fails_map. rewrite <- !app_assoc. apply F_ntype_on_name; [exact Hall|reflexivity|reflexivity]. }
    apply parses_map, P_name_test_ns, Hwf.
  - (* QName *)
    destruct (HK q eq_refl) as (Hns & H40 & H58).
    exists (TMap L_model_NodeTest_from (TMap L_model_NameTest_from (qname_tree q))).
    split; [|cbn [act]; rewrite act_qname_tree; reflexivity].
    apply parses_nt. rewrite prod_node_test.
    assert (Hsplit : exists (n rest : str), qname_text q ++ K = n ++ rest /\ forallb ncname_char n = true /\
                       stops ncname_char rest /\ prefix [40] (drop_ws rest) = None).
    { destruct q as [[p|] l]; cbn [wf_qname qname_text] in *.
      - apply andb_true_iff in Hwf. destruct Hwf as [Hp Hl]. exists p, ([58] ++ l ++ K).
        rewrite <- !app_assoc. split; [reflexivity|]. split; [apply ncname_all, Hp|]. split; reflexivity.
      - exists l, K. split; [reflexivity|]. split; [apply ncname_all, Hwf|]. split; [apply name_stop_nc, Hns|exact H40]. }
    destruct Hsplit as (n & rest & E & Hn & Hrest & Hp40).
    apply parses_alt_r; [apply fails_map, fails_seq_1; rewrite E; apply F_pi_on_name; assumption|].
    apply parses_alt_r; [apply fails_map; rewrite E; apply F_ntype_on_name; assumption|].
    apply parses_map, P_name_test_q; assumption.
  - (* node type *)
    exists (TMap L_model_NodeTest_from (TMap L_model_NodeType_from (TStr (ntype_text k)))).
    split; [|cbn [act]; change (act (TMap L_model_NodeType_from (TStr (ntype_text k)))) with (act (TMap L_model_NodeType_from (TStr (ntype_text k)))); destruct k; reflexivity].
    apply parses_nt. rewrite prod_node_test. rewrite <- !app_assoc.
    apply parses_alt_r.
    { apply fails_map. destruct k; cbn [ntype_text]; try (apply fails_seq_1, fails_seq_1, fails_tag; reflexivity).
      (* processing-instruction ( ) : the literal is missing *)
      eapply fails_seq_2.
      - eapply parses_seq; [apply (parses_tag_app G_xpath t_processing_instruction)|].
        eapply parses_seq; [apply P_ws; [exact Hg4|reflexivity]|].
        eapply parses_seq; [apply (parses_tag_app G_xpath [40])|]. apply P_ws; [exact Hg5|reflexivity].
      - apply fails_seq_1, F_literal; reflexivity. }
    apply parses_alt_l, parses_map.
    eapply parses_seql; [apply P_node_type|].
    eapply parses_seq; [apply P_ws; [exact Hg4|reflexivity]|].
    eapply parses_seq; [apply (parses_tag_app G_xpath [40])|].
    eapply parses_seq; [apply P_ws; [exact Hg5|reflexivity]|]. apply (parses_tag_app G_xpath [41]).
  - (* processing-instruction(lit) *)
    exists (TMap L_model_NodeTest_from (TStr l)). split; [|reflexivity].
    apply parses_nt. rewrite prod_node_test. rewrite <- !app_assoc.
    apply parses_alt_l, parses_map.
    eapply parses_seqr.
    + eapply parses_seq; [apply (parses_tag_app G_xpath t_processing_instruction)|].
      eapply parses_seq; [apply P_ws; [exact Hg4|reflexivity]|].
      eapply parses_seq; [apply (parses_tag_app G_xpath [40])|]. apply P_ws; [exact Hg5|].
      unfold spell_lit. destruct (quote_of_cases (wflag w) l Hwf) as [[-> | ->] _]; reflexivity.
    + eapply parses_seql; [apply P_literal, Hwf|].
      eapply parses_seq; [apply P_ws; [exact Hg6|reflexivity]|]. apply (parses_tag_app G_xpath [41]).
Qed.

(** ** predicates: many0(preceded(multispace0, predicate)) *)
Definition pred_item : pexpr := SeqR WS (NT nt_predicate).

Definition SubOK (x : xexpr) : Prop := Top0 x /\ (forall w, first_ok x (spell_surface x w)).

Lemma P_preds (preds : list xexpr) :
  (forall x, In x preds -> SubOK x) ->
  forall ws (K : str), forallb ws_ok ws = true ->
  exists items es,
    steps G_xpath pred_item (spell_preds_with spell_surface preds ws ++ K) items K /\
    act (TList items) = VList (map VOr es) /\ map abs_or es = preds.
Proof.
  induction preds as [|x preds IH]; intros Hall ws K Hws.
  - exists [], []. cbn [spell_preds_with app]. repeat split. constructor.
  - cbn [spell_preds_with]. set (wp := hd wdef ws).
    assert (Hwp : ws_ok wp = true) by (apply ws_ok_hd, Hws).
    destruct (Hall x (or_introl eq_refl)) as (HTx & Hfx).
    destruct (IH (fun y Hy => Hall y (or_intror Hy)) (tl ws) K (ws_ok_tl _ Hws)) as (items & es & Hst & Hact & Hmap).
    set (rest := spell_preds_with spell_surface preds (tl ws) ++ K) in *.
    assert (Hg0 : forallb is_ws (gap wp 0) = true) by (apply ws_ok_gap, Hwp).
    assert (Hg1 : forallb is_ws (gap wp 1) = true) by (apply ws_ok_gap, Hwp).
    assert (Hg2 : forallb is_ws (gap wp 2) = true) by (apply ws_ok_gap, Hwp).
    destruct (HTx (kid wp 0) (gap wp 2 ++ [93] ++ rest)) as (t & e & HP & Ha & Hab).
    { apply ws_ok_kid, Hwp. }
    { apply follow_closer; [exact Hg2|cbn; tauto]. }
    { apply lex_follow_closer; [exact Hg2|cbn; tauto]. }
    exists (t :: items), (e :: es). rewrite <- !app_assoc. fold rest. split; [|split].
    + econstructor; [| |exact Hst].
      * eapply parses_seqr; [apply P_ws; [exact Hg0|reflexivity]|].
        apply parses_nt. rewrite prod_predicate.
        eapply parses_seqr.
        -- eapply parses_seq; [apply (parses_tag_app G_xpath [91])|]. apply P_ws; [exact Hg1|].
           eapply first_ok_stops_ws, Hfx.
        -- eapply parses_seql.
           ++ apply parses_nt. rewrite prod_predicate_expr. apply parses_nt. rewrite prod_expr. exact HP.
           ++ eapply parses_seq; [apply P_ws; [exact Hg2|reflexivity]|]. apply (parses_tag_app G_xpath [93]).
      * unfold rest. rewrite !app_length. cbn [length]. unfold str, char in *. lia.
    + cbn [map]. apply act_list_cons; [exact Ha|reflexivity|exact Hact].
    + cbn [map]. now rewrite Hab, Hmap.
Qed.

Lemma F_pred_item (K : str) : prefix [91] (drop_ws K) = None -> F pred_item K.
Proof.
  intros H. eapply fails_seq_2; [apply P_ws_any|]. apply fails_nt. rewrite prod_predicate.
  apply fails_seq_1, fails_seq_1, fails_tag, H.
Qed.

(** the continuation in front of a predicate, a path separator or a closing token *)
Lemma tok_follow_punct (g : str) c (rest : str) : forallb is_ws g = true -> In c [91; 47; 41; 93; 44] ->
  tok_follow (g ++ c :: rest).
Proof.
  intros Hg Hc.
  assert (Hs : stops is_ws (c :: rest)).
  { cbn [In] in Hc. cbn [stops]. destruct Hc as [<-|[<-|[<-|[<-|[<-|[]]]]]]; reflexivity. }
  assert (Hp : punct_hd (g ++ c :: rest)).
  { destruct g as [|x g]; [|apply ws_hd_punct; [discriminate|exact Hg]]. cbn [app punct_hd In] in *. tauto. }
  unfold tok_follow. rewrite (drop_ws_app _ _ Hg), (drop_ws_stop _ Hs). split; [apply punct_name_stop, Hp|].
  cbn [In] in Hc. destruct Hc as [<-|[<-|[<-|[<-|[<-|[]]]]]]; split; reflexivity.
Qed.

Lemma drop_ws_punct (g : str) c (rest : str) : forallb is_ws g = true -> is_ws c = false ->
  drop_ws (g ++ c :: rest) = c :: rest.
Proof. intros Hg Hc. rewrite (drop_ws_app _ _ Hg). apply drop_ws_stop. exact Hc. Qed.

(** ** steps *)
Definition m_axis_spec (a : XPathSyntax.axis_spec) : XPathAst.axis_spec :=
  match a with AFull x => AxisName (m_axis x) | AAt => AxisAbbreviated [64] | AOmit => AxisAbbreviated [] end.

Lemma abs_m_axis_spec a : abs_axis (m_axis_spec a) = a.
Proof. destruct a as [x| |]; cbn; [now rewrite abs_m_axis|reflexivity|reflexivity]. Qed.

(** how a node test starts *)
Lemma ntest_first t w : wf_ntest t = true ->
  exists c r, spell_ntest t w = c :: r /\ (P1 c = true \/ c = 42).
Proof.
  destruct t as [|p|q|k|l]; cbn [spell_ntest wf_ntest]; intros H.
  - exists 42, []. auto.
  - destruct (ncname_hd p H) as (c & r & -> & Hc). exists c, (r ++ [58;42]). auto.
  - destruct (qname_hd q H) as (c & r & -> & Hc). exists c, r. auto.
  - destruct k; cbn [ntype_text]; eexists _, _; (split; [reflexivity|left; reflexivity]).
  - eexists _, _. split; [reflexivity|left; reflexivity].
Qed.

Lemma first_p1_or_star_facts c : P1 c = true \/ c = 42 ->
  is_ws c = false /\ c <> 46 /\ c <> 64 /\ c <> 47 /\ c <> 45 /\ c <> 61.
Proof.
  intros [H| ->]; [|repeat split; discriminate].
  destruct (p1_facts c H) as (Hw & H61 & H45 & _ & _ & _ & _ & H46 & _).
  repeat split; try assumption; apply (p1_ne c _ H); reflexivity.
Qed.

Lemma ntype_text_nc k : forallb ncname_char (ntype_text k) = true.
Proof. destruct k; vm_compute; reflexivity. Qed.

(** with an omitted axis, [axis_name ws* ::] fails on the node test that follows *)
Lemma F_axis_on_ntest t w (K : str) : wf_ntest t = true -> ws_ok w = true ->
  (forall q, t = TName q -> tok_follow K) ->
  F (SeqL (NT nt_axis_name) (Seq WS (Tag [58;58]))) (spell_ntest t w ++ K).
Proof.
  intros Hwf Hw HK.
  assert (Hg4 : forallb is_ws (gap w 4) = true) by (apply ws_ok_gap, Hw).
  destruct t as [|p|q|k|l]; cbn [spell_ntest wf_ntest] in *.
  - apply fails_seq_1, F_axis_name. reflexivity.
  - rewrite <- !app_assoc. apply F_axis_on_name; [apply ncname_all, Hwf|reflexivity|reflexivity].
  - destruct (HK q eq_refl) as (Hns & H40 & H58). destruct q as [[p|] l]; cbn [wf_qname qname_text] in *.
    + apply andb_true_iff in Hwf. destruct Hwf as [Hp Hl]. rewrite <- !app_assoc.
      apply F_axis_on_name; [apply ncname_all, Hp|reflexivity|].
      destruct (ncname_hd l Hl) as (d & r' & -> & Hd). cbn [app]. rewrite drop_ws_stop by reflexivity.
      cbn [prefix]. rewrite N.eqb_refl. cbn [prefix]. destruct (N.eqb_spec 58 d) as [<-|]; [vm_compute in Hd; discriminate|reflexivity].
    + apply F_axis_on_name; [apply ncname_all, Hwf|apply name_stop_nc, Hns|apply prefix_cons_none, H58].
  - rewrite <- !app_assoc. apply F_axis_on_name; [apply ntype_text_nc| |].
    + apply ws_or_not_nc; [exact Hg4|reflexivity].
    + rewrite (drop_ws_app _ _ Hg4). reflexivity.
  - rewrite <- !app_assoc. apply F_axis_on_name; [vm_compute; reflexivity| |].
    + apply ws_or_not_nc; [exact Hg4|reflexivity].
    + rewrite (drop_ws_app _ _ Hg4). reflexivity.
Qed.

Lemma P_step_test ax t preds w (K : str) :
  wf_ntest t = true -> (forall x, In x preds -> SubOK x) -> ws_ok w = true ->
  prefix [91] (drop_ws K) = None ->
  (preds = [] -> forall q, t = TName q -> tok_follow K) ->
  exists tr st, P (NT nt_step) (spell_step_with spell_surface (XStep ax t preds) w ++ K) tr K /\
                act tr = VStep st /\ abs_step st = XStep ax t preds.
Proof.
  intros Hwf Hsub Hw H91 Htok. cbn [spell_step_with].
  assert (Hg2 : forallb is_ws (gap w 2) = true) by (apply ws_ok_gap, Hw).
  assert (Hg3 : forallb is_ws (gap w 3) = true) by (apply ws_ok_gap, Hw).
  assert (Hws : forallb ws_ok (kids_from w 0) = true) by (apply ws_ok_kids_from, Hw).
  destruct (P_preds preds Hsub (kids_from w 0) K Hws) as (items & es & Hst & Hact & Hmap).
  set (SP := spell_preds_with spell_surface preds (kids_from w 0)) in *.
  (* what follows the node test *)
  assert (HtokT : forall q, t = TName q -> tok_follow (SP ++ K)).
  { intros q Hq. destruct preds as [|x preds'].
    - unfold SP. cbn [spell_preds_with app]. apply (Htok eq_refl q Hq).
    - unfold SP. cbn [spell_preds_with]. rewrite <- !app_assoc.
      apply tok_follow_punct; [apply ws_ok_gap, ws_ok_hd, Hws|cbn; tauto]. }
  destruct (P_node_test t w (SP ++ K) Hwf Hw HtokT) as (tnt & HPnt & Hant).
  destruct (ntest_first t w Hwf) as (c & r & Ent & Hc).
  destruct (first_p1_or_star_facts c Hc) as (Hcw & Hc46 & Hc64 & _).
  assert (Hnt_ws : stops is_ws (spell_ntest t w ++ SP ++ K)) by (rewrite Ent; exact Hcw).
  (* the axis specifier *)
  assert (Haxis : exists tax, P (NT nt_axis_specifier)
            ((match ax with AFull x => axis_text x ++ gap w 2 ++ [58;58] ++ gap w 3 | AAt => [64] ++ gap w 3 | AOmit => [] end)
             ++ spell_ntest t w ++ SP ++ K) tax
            ((match ax with AFull _ | AAt => gap w 3 | AOmit => [] end) ++ spell_ntest t w ++ SP ++ K)
          /\ act tax = VAxisSpec (m_axis_spec ax)).
  { apply (fun H => H). destruct ax as [x| |].
    - exists (TMap L_model_AxisSpecifier_from (TMap L_model_AxisName_from (TStr (axis_text x)))).
      split; [|cbn [act]; change (act (TMap L_model_AxisName_from (TStr (axis_text x)))) with (act (TMap L_model_AxisName_from (TStr (axis_text x)))); destruct x; reflexivity].
      apply parses_nt. rewrite prod_axis_specifier. apply parses_alt_l, parses_map. rewrite <- !app_assoc.
      eapply parses_seql.
      + apply P_axis_name. destruct (gap w 2) as [|y g]; [reflexivity|].
        cbn [forallb] in Hg2. apply andb_true_iff in Hg2. destruct Hg2 as [Hy _]. cbn [app prefix].
        destruct (N.eqb_spec 45 y) as [<-|]; [vm_compute in Hy; discriminate|reflexivity].
      + eapply parses_seq; [apply P_ws; [exact Hg2|reflexivity]|]. apply (parses_tag_app G_xpath [58;58]).
    - exists (TMap L_closure_15b815f9 (TSome (TStr [64]))). split; [|reflexivity].
      apply parses_nt. rewrite prod_axis_specifier. apply parses_alt_r.
      + apply fails_map, fails_seq_1, F_axis_name. reflexivity.
      + apply parses_map, parses_opt_some. rewrite <- !app_assoc. apply (parses_tag_app G_xpath [64]).
    - exists (TMap L_closure_15b815f9 TNone). split; [|reflexivity].
      apply parses_nt. rewrite prod_axis_specifier. cbn [app]. apply parses_alt_r.
      + apply fails_map. apply F_axis_on_ntest; assumption.
      + apply parses_map, parses_opt_none, fails_tag. rewrite Ent. cbn [app prefix].
        destruct (N.eqb_spec 64 c) as [<-|]; [contradiction|reflexivity]. }
  destruct Haxis as (tax & HPax & Haax).
  exists (TMap L_model_Step_from (TPair tax (TPair tnt (TList items)))),
         (StepTest (m_axis_spec ax) (m_ntest t) (exprs_of es)).
  split; [|split].
  - apply parses_nt. rewrite prod_step.
    assert (Hfirst : prefix [46] ((match ax with AFull x => axis_text x ++ gap w 2 ++ [58;58] ++ gap w 3 | AAt => [64] ++ gap w 3 | AOmit => [] end)
             ++ spell_ntest t w ++ SP ++ K) = None).
    { destruct ax as [x| |].
      - destruct x; reflexivity.
      - reflexivity.
      - cbn [app]. rewrite Ent. cbn [app prefix]. destruct (N.eqb_spec 46 c) as [<-|]; [contradiction|reflexivity]. }
    rewrite <- !app_assoc.
    apply parses_alt_r; [apply fails_map, fails_tag, prefix_cons_none; rewrite !app_assoc in *; rewrite <- !app_assoc in *; exact Hfirst|].
    apply parses_alt_r; [apply fails_map, fails_tag; exact Hfirst|].
    apply parses_map. eapply parses_seq; [exact HPax|].
    eapply parses_seq; [|apply parses_many0; [exact Hst|apply F_pred_item, H91]].
    destruct ax; cbn [app]; (eapply parses_seqr; [|exact HPnt]);
      [apply P_ws; assumption|apply P_ws; assumption|apply P_ws_nil; exact Hnt_ws].
  - change (act (TMap L_model_Step_from (TPair tax (TPair tnt (TList items)))))
      with (apply_label L_model_Step_from (act (TPair tax (TPair tnt (TList items))))).
    rewrite (act_pair _ _ _ _ Haax eq_refl (act_pair _ _ _ _ Hant eq_refl Hact eq_refl) eq_refl).
    cbn -[to_exprs map exprs_of]. rewrite to_exprs_map. reflexivity.
  - cbn [abs_step]. now rewrite abs_m_axis_spec, abs_m_ntest, abs_exprs_of, Hmap.
Qed.

(** ** any step *)
Definition step_wf (s : xstep) : Prop :=
  match s with XStep _ t preds => wf_ntest t = true /\ (forall x, In x preds -> SubOK x) | _ => True end.

Definition step_follow (s : xstep) (K : str) : Prop :=
  prefix [91] (drop_ws K) = None /\
  match s with
  | XStep _ t preds => preds = [] -> forall q, t = TName q -> tok_follow K
  | XDot => prefix [46] K = None
  | XDotDot => True
  end.

Lemma P_step (s : xstep) (w : wtree) (K : str) :
  step_wf s -> ws_ok w = true -> step_follow s K ->
  exists tr st, P (NT nt_step) (spell_step_with spell_surface s w ++ K) tr K /\
                act tr = VStep st /\ abs_step st = s.
Proof.
  intros Hwf Hw [H91 Hf]. destruct s as [ax t preds| |].
  - destruct Hwf as [Ht Hp]. apply P_step_test; assumption.
  - exists (TMap L_closure_f049d213 (TStr [46])), StepCurrent. split; [|split; reflexivity].
    cbn [spell_step_with]. apply parses_nt. rewrite prod_step.
    apply parses_alt_r; [apply fails_map, fails_tag; cbn [app prefix]; rewrite N.eqb_refl; exact Hf|].
    apply parses_alt_l, parses_map, parses_tag_app.
  - exists (TMap L_closure_999d9613 (TStr [46;46])), StepParent. split; [|split; reflexivity].
    cbn [spell_step_with]. apply parses_nt. rewrite prod_step. apply parses_alt_l, parses_map, parses_tag_app.
Qed.

(** how a step starts *)
Lemma step_first (s : xstep) (w : wtree) : step_wf s ->
  exists c r, spell_step_with spell_surface s w = c :: r /\ (P1 c = true \/ c = 42 \/ c = 64 \/ c = 46).
Proof.
  intros Hwf. destruct s as [ax t preds| |]; cbn [spell_step_with].
  - destruct Hwf as [Ht _]. destruct ax as [x| |].
    + destruct x; cbn [axis_text]; eexists _, _; (split; [reflexivity|left; reflexivity]).
    + eexists _, _. split; [reflexivity|auto].
    + destruct (ntest_first t w Ht) as (c & r & -> & [Hc|Hc]); cbn [app]; eexists _, _; (split; [reflexivity|auto]).
  - eexists _, _. split; [reflexivity|auto].
  - eexists _, _. split; [reflexivity|auto].
Qed.

Lemma step_first_facts c : P1 c = true \/ c = 42 \/ c = 64 \/ c = 46 -> is_ws c = false /\ c <> 47.
Proof.
  intros [H|[ -> |[ -> | -> ]]]; try (split; [reflexivity|discriminate]).
  destruct (p1_facts c H) as (Hw & _). split; [exact Hw|]. apply (p1_ne c _ H). reflexivity.
Qed.

(** ** relative location paths: step (ws (/|//) ws step)* *)
Definition lp_alts : pexpr := Alt (Tag [47;47]) (Tag [47]).
Definition step_item : pexpr := itemA L_model_LocationPathOperator_from lp_alts nt_step.

Definition m_sep (s : sep) : lp_op := match s with SSlash => LpCurrent | SDSlash => LpDescendantOrSelfNode end.

Lemma step_follow_sep (s : xstep) (g : str) (sp : sep) (rest : str) :
  forallb is_ws g = true -> step_follow s (g ++ sep_text sp ++ rest).
Proof.
  intros Hg.
  assert (E : g ++ sep_text sp ++ rest = g ++ 47 :: (match sp with SSlash => [] | SDSlash => [47] end) ++ rest)
    by (destruct sp; reflexivity).
  rewrite E. split.
  - rewrite (drop_ws_app _ _ Hg). reflexivity.
  - destruct s as [ax t preds| |]; [|destruct g as [|x g']|exact I].
    + intros _ q _. apply tok_follow_punct; [exact Hg|cbn; tauto].
    + reflexivity.
    + cbn [forallb] in Hg. apply andb_true_iff in Hg. destruct Hg as [Hx _]. cbn [app prefix].
      destruct (N.eqb_spec 46 x) as [<-|]; [vm_compute in Hx; discriminate|reflexivity].
Qed.

Lemma P_steps_tail (rest : list (sep * xstep)) :
  (forall x, In x rest -> step_wf (snd x)) ->
  forall (prev : xstep) ws (K : str), forallb ws_ok ws = true ->
  step_follow (last_step prev rest) K ->
  exists items ops vs,
    steps G_xpath step_item (spell_steps_with spell_surface rest ws ++ K) items K /\
    act (TList items) = VList vs /\ to_stepops vs = Some ops /\ abs_stepops ops = rest /\
    (rest <> [] -> exists g sp r, spell_steps_with spell_surface rest ws ++ K = g ++ sep_text sp ++ r /\ forallb is_ws g = true).
Proof.
  induction rest as [|[sp x] rest IH]; intros Hall prev ws K Hws Hlast.
  - exists [], StepopNil, []. cbn [spell_steps_with app]. repeat split; try constructor. intros H; contradiction.
  - cbn [spell_steps_with]. set (wx := hd wdef ws).
    assert (Hwx : ws_ok wx = true) by (apply ws_ok_hd, Hws).
    assert (Hg0 : forallb is_ws (gap wx 0) = true) by (apply ws_ok_gap, Hwx).
    assert (Hg1 : forallb is_ws (gap wx 1) = true) by (apply ws_ok_gap, Hwx).
    pose proof (Hall (sp, x) (or_introl eq_refl)) as Hx. cbn [snd] in Hx.
    cbn [last_step] in Hlast.
    destruct (IH (fun y Hy => Hall y (or_intror Hy)) x (tl ws) K (ws_ok_tl _ Hws) Hlast) as (items & ops & vs & Hst & Hact & Hto & Hab & Hshape).
    set (tail := spell_steps_with spell_surface rest (tl ws) ++ K) in *.
    assert (Hfx : step_follow x tail).
    { destruct rest as [|y rest'].
      - unfold tail. cbn [spell_steps_with app]. exact Hlast.
      - destruct (Hshape ltac:(discriminate)) as (g & sp' & r & E & Hg). rewrite E. apply step_follow_sep, Hg. }
    destruct (P_step x wx tail Hx Hwx Hfx) as (tr & st & HP & Ha & Habs).
    destruct (step_first x wx Hx) as (c & r0 & Ec & Hc). destruct (step_first_facts c Hc) as (Hcw & Hc47).
    exists (TPair (TMap L_model_LocationPathOperator_from (TStr (sep_text sp))) tr :: items),
           (StepopCons (m_sep sp) st ops), (VPair (VLpOp (m_sep sp)) (VStep st) :: vs).
    rewrite <- !app_assoc. fold tail. split; [|split; [|split; [|split]]].
    + econstructor; [| |exact Hst].
      * apply P_itemA; try assumption.
        -- destruct sp; reflexivity.
        -- rewrite Ec. exact Hcw.
        -- unfold lp_alts. destruct sp; cbn [sep_text].
           ++ apply parses_alt_r; [|apply parses_tag_app]. apply fails_tag.
              change ([47] ++ gap wx 1 ++ spell_step_with spell_surface x wx ++ tail) with (47 :: (gap wx 1 ++ spell_step_with spell_surface x wx ++ tail)).
              cbn [prefix]. rewrite N.eqb_refl.
              destruct (gap wx 1) as [|y g']; cbn [app].
              ** rewrite Ec. cbn [app prefix]. destruct (N.eqb_spec 47 c) as [<-|]; [contradiction|reflexivity].
              ** cbn [forallb] in Hg1. apply andb_true_iff in Hg1. destruct Hg1 as [Hy _]. cbn [prefix].
                 destruct (N.eqb_spec 47 y) as [<-|]; [vm_compute in Hy; discriminate|reflexivity].
           ++ apply parses_alt_l, parses_tag_app.
      * unfold tail. rewrite !app_length. destruct sp; cbn [sep_text length]; unfold str, char in *; lia.
    + apply act_list_cons; [|reflexivity|exact Hact].
      apply act_pair; [destruct sp; reflexivity|reflexivity|exact Ha|reflexivity].
    + cbn [to_stepops]. now rewrite Hto.
    + cbn [abs_stepops]. rewrite Hab, Habs. destruct sp; reflexivity.
    + intros _. exists (gap wx 0), sp, (gap wx 1 ++ spell_step_with spell_surface x wx ++ tail). split; [reflexivity|exact Hg0].
Qed.

Lemma F_step_item (K : str) : prefix [47] (drop_ws K) = None -> F step_item K.
Proof.
  intros H. apply F_itemA. unfold lp_alts. apply fails_alt; apply fails_tag; [apply prefix_cons_none|]; exact H.
Qed.

Lemma P_relpath (first : xstep) (rest : list (sep * xstep)) (w1 : wtree) ws (K : str) :
  step_wf first -> (forall x, In x rest -> step_wf (snd x)) ->
  ws_ok w1 = true -> forallb ws_ok ws = true ->
  step_follow (last_step first rest) K -> prefix [47] (drop_ws K) = None ->
  exists tr s0 ops,
    P (NT nt_relative_location_path)
      (spell_step_with spell_surface first w1 ++ spell_steps_with spell_surface rest ws ++ K) tr K /\
    act tr = VRelPath (ERelPath s0 ops) /\ abs_step s0 = first /\ abs_stepops ops = rest.
Proof.
  intros Hf Hr Hw1 Hws Hlast H47.
  destruct (P_steps_tail rest Hr first ws K Hws Hlast) as (items & ops & vs & Hst & Hact & Hto & Hab & Hshape).
  set (tail := spell_steps_with spell_surface rest ws ++ K) in *.
  assert (Hff : step_follow first tail).
  { destruct rest as [|y rest'].
    - unfold tail. cbn [spell_steps_with app]. exact Hlast.
    - destruct (Hshape ltac:(discriminate)) as (g & sp' & r & E & Hg). rewrite E. apply step_follow_sep, Hg. }
  destruct (P_step first w1 tail Hf Hw1 Hff) as (t0 & s0 & HP & Ha & Habs).
  exists (TMap L_model_RelativeLocationPath_from (TPair t0 (TList items))), s0, ops.
  split; [|split; [|split]]; try assumption.
  - apply parses_nt. rewrite prod_relative_location_path. apply parses_map.
    eapply parses_seq; [exact HP|]. apply parses_many0; [exact Hst|apply F_step_item, H47].
  - change (act (TMap L_model_RelativeLocationPath_from (TPair t0 (TList items))))
      with (apply_label L_model_RelativeLocationPath_from (act (TPair t0 (TList items)))).
    rewrite (act_pair _ _ _ _ Ha eq_refl Hact eq_refl). cbn -[to_stepops]. now rewrite Hto.
Qed.

(** ** a location path is not mistaken for a filter expression *)

(** [function_name ws* (] fails on a name that is not followed by [(] *)
Lemma F_fcall_ncname (n rest : str) :
  is_NCName n = true -> stops ncname_char rest ->
  (prefix [58] rest = None \/ exists r', rest = 58 :: r' /\ stops P1 r') ->
  (prefix [40] (drop_ws rest) = None \/ fname_case_ok (QN None n) = false) ->
  F (NT nt_function_call) (n ++ rest).
Proof.
  intros Hn Hrest Hcolon Hparen.
  apply fails_nt. rewrite prod_function_call. apply fails_map.
  pose proof (P_ncname n rest Hn Hrest) as H0.
  assert (Halt1 : F (Map L_QName_from (Map L_PrefixedName_from (Seq (NT nt_ncname) (SeqR (Tag [58]) (NT nt_ncname))))) (n ++ rest)).
  { apply fails_map, fails_map. eapply fails_seq_2; [exact H0|].
    destruct Hcolon as [Hc|(r' & -> & Hr')].
    - apply fails_seq_1, fails_tag, Hc.
    - eapply fails_seq_2; [apply (parses_tag_app G_xpath [58])|apply F_ncname, Hr']. }
  destruct (ci_reject t_comment n) eqn:C1.
  { apply fails_seq_1, fails_nt. rewrite prod_function_name. apply fails_alt; [exact Halt1|].
    apply fails_map. do 3 apply fails_take_except.
    eapply fails_take_except_reject; [exact H0|]. rewrite consumed_app. exact C1. }
  pose proof (parses_take_except G_xpath _ t_comment _ _ _ H0) as H1. rewrite consumed_app in H1. specialize (H1 C1).
  destruct (ci_reject t_text n) eqn:C2.
  { apply fails_seq_1, fails_nt. rewrite prod_function_name. apply fails_alt; [exact Halt1|].
    apply fails_map. do 2 apply fails_take_except.
    eapply fails_take_except_reject; [exact H1|]. rewrite consumed_app. exact C2. }
  pose proof (parses_take_except G_xpath _ t_text _ _ _ H1) as H2. rewrite consumed_app in H2. specialize (H2 C2).
  destruct (ci_reject t_processing_instruction n) eqn:C3.
  { apply fails_seq_1, fails_nt. rewrite prod_function_name. apply fails_alt; [exact Halt1|].
    apply fails_map. apply fails_take_except.
    eapply fails_take_except_reject; [exact H2|]. rewrite consumed_app. exact C3. }
  pose proof (parses_take_except G_xpath _ t_processing_instruction _ _ _ H2) as H3. rewrite consumed_app in H3. specialize (H3 C3).
  destruct (ci_reject t_node n) eqn:C4.
  { apply fails_seq_1, fails_nt. rewrite prod_function_name. apply fails_alt; [exact Halt1|].
    apply fails_map. eapply fails_take_except_reject; [exact H3|]. rewrite consumed_app. exact C4. }
  pose proof (parses_take_except G_xpath _ t_node _ _ _ H3) as H4. rewrite consumed_app in H4. specialize (H4 C4).
  destruct Hparen as [Hp|Hc]; [|cbn [fname_case_ok] in Hc; rewrite C1, C2, C3, C4 in Hc; discriminate].
  eapply fails_seq_2.
  - apply parses_nt. rewrite prod_function_name. apply parses_alt_r; [exact Halt1|]. apply parses_map. exact H4.
  - apply fails_seq_1. eapply fails_seq_2; [apply P_ws_any|]. apply fails_seq_1, fails_tag, Hp.
Qed.

Lemma F_fcall_prefixed (p l K : str) :
  is_NCName p = true -> is_NCName l = true -> name_stop K -> prefix [40] (drop_ws K) = None ->
  F (NT nt_function_call) (p ++ [58] ++ l ++ K).
Proof.
  intros Hp Hl HK H40. apply fails_nt. rewrite prod_function_call. apply fails_map.
  eapply fails_seq_2.
  - apply parses_nt. rewrite prod_function_name. apply parses_alt_l, parses_map, parses_map.
    eapply parses_seq; [apply P_ncname; [exact Hp|reflexivity]|].
    eapply parses_seqr; [apply (parses_tag_app G_xpath [58])|]. apply P_ncname; [exact Hl|apply name_stop_nc, HK].
  - apply fails_seq_1. eapply fails_seq_2; [apply P_ws_any|]. apply fails_seq_1, fails_tag, H40.
Qed.

Lemma axis_text_ncname x : is_NCName (axis_text x) = true.
Proof. destruct x; vm_compute; reflexivity. Qed.

Lemma ntype_text_ncname k : is_NCName (ntype_text k) = true /\ fname_case_ok (QN None (ntype_text k)) = false.
Proof. destruct k; vm_compute; auto. Qed.

(** no primary expression starts where a step starts *)
Lemma F_primary_on_step (s : xstep) (w : wtree) (K : str) :
  step_wf s -> ws_ok w = true -> step_follow s K ->
  (s = XDot -> stops XPathSyntax.is_digit K) ->
  F (NT nt_primary_expr) (spell_step_with spell_surface s w ++ K).
Proof.
  intros Hwf Hw [H91 Hf] Hdot.
  destruct (step_first s w Hwf) as (c & r & Ec & Hc).
  assert (Hcf : c <> 36 /\ c <> 40 /\ c <> 34 /\ c <> 39 /\ XPathSyntax.is_digit c = false).
  { destruct Hc as [H|[ -> |[ -> | -> ]]]; try (repeat split; try discriminate; reflexivity).
    destruct (p1_facts c H) as (_ & _ & _ & ? & ? & ? & ? & _ & ?). auto. }
  destruct Hcf as (H36 & H40 & H34 & H39 & Hdig).
  assert (Hp : forall x, c <> x -> prefix [x] (spell_step_with spell_surface s w ++ K) = None).
  { intros x Hx. rewrite Ec. cbn [app prefix]. destruct (N.eqb_spec x c) as [->|]; [contradiction|reflexivity]. }
  apply fails_nt. rewrite prod_primary_expr.
  apply fails_alt; [apply fails_map, F_variable, Hp, H36|].
  apply fails_alt; [apply fails_map, fails_seq_1, fails_seq_1, fails_tag, Hp, H40|].
  apply fails_alt; [apply fails_map, F_literal; apply Hp; assumption|].
  apply fails_alt.
  { apply fails_map, F_number.
    - rewrite Ec. exact Hdig.
    - intros r' E. destruct s as [ax t preds| |]; cbn [spell_step_with] in *.
      + exfalso. destruct Hwf as [Ht _]. destruct ax as [x| |].
        * destruct x; discriminate.
        * discriminate.
        * destruct (ntest_first t w Ht) as (d & r1 & E1 & Hd). rewrite E1 in E. cbn [app] in E. injection E as Ed _. subst d.
          destruct (first_p1_or_star_facts 46 Hd) as (_ & H & _). contradiction.
      + cbn [app] in E. injection E as <-. apply Hdot. reflexivity.
      + cbn [app] in E. injection E as <-. reflexivity. }
  apply fails_map.
  destruct s as [ax t preds| |]; cbn [spell_step_with] in *.
  - destruct Hwf as [Ht Hsub].
    assert (Hg2 : forallb is_ws (gap w 2) = true) by (apply ws_ok_gap, Hw).
    assert (Hg4 : forallb is_ws (gap w 4) = true) by (apply ws_ok_gap, Hw).
    set (SP := spell_preds_with spell_surface preds (kids_from w 0)) in *.
    assert (HtokT : forall q, t = TName q -> tok_follow (SP ++ K)).
    { intros q Hq. destruct preds as [|x preds'].
      - unfold SP. cbn [spell_preds_with app]. apply (Hf eq_refl q Hq).
      - unfold SP. cbn [spell_preds_with]. rewrite <- !app_assoc.
        apply tok_follow_punct; [apply ws_ok_gap, ws_ok_hd, ws_ok_kids_from, Hw|cbn; tauto]. }
    destruct ax as [x| |].
    + (* axis name, then ws* :: *)
      rewrite <- !app_assoc. apply F_fcall_ncname; [apply axis_text_ncname| | |].
      * apply ws_or_not_nc; [exact Hg2|reflexivity].
      * destruct (gap w 2) as [|y g]; [right; eexists; split; [reflexivity|reflexivity]|left].
        cbn [forallb] in Hg2. apply andb_true_iff in Hg2. destruct Hg2 as [Hy _]. cbn [app prefix].
        destruct (N.eqb_spec 58 y) as [<-|]; [vm_compute in Hy; discriminate|reflexivity].
      * left. rewrite (drop_ws_app _ _ Hg2). reflexivity.
    + (* @ *)
      apply fails_nt. rewrite prod_function_call. apply fails_map, fails_seq_1, F_function_name. reflexivity.
    + cbn [app]. rewrite <- !app_assoc. destruct t as [|p|q|k|l]; cbn [spell_ntest wf_ntest] in *.
      * apply fails_nt. rewrite prod_function_call. apply fails_map, fails_seq_1, F_function_name. reflexivity.
      * rewrite <- !app_assoc. apply F_fcall_ncname; [exact Ht|reflexivity| |].
        -- right. eexists. split; reflexivity.
        -- left. reflexivity.
      * destruct (HtokT q eq_refl) as (Hns & Hq40 & Hq58). destruct q as [[p|] l]; cbn [wf_qname qname_text] in *.
        -- apply andb_true_iff in Ht. destruct Ht as [Hp' Hl']. rewrite <- !app_assoc.
           apply F_fcall_prefixed; assumption.
        -- apply F_fcall_ncname; [exact Ht|apply name_stop_nc, Hns|left; apply name_stop_colon, Hns|left; exact Hq40].
      * rewrite <- !app_assoc. destruct (ntype_text_ncname k) as [Hk1 Hk2].
        apply F_fcall_ncname; [exact Hk1| | |right; exact Hk2].
        -- apply ws_or_not_nc; [exact Hg4|reflexivity].
        -- left. destruct (gap w 4) as [|y g]; [reflexivity|].
           cbn [forallb] in Hg4. apply andb_true_iff in Hg4. destruct Hg4 as [Hy _]. cbn [app prefix].
           destruct (N.eqb_spec 58 y) as [<-|]; [vm_compute in Hy; discriminate|reflexivity].
      * rewrite <- !app_assoc.
        apply F_fcall_ncname; [vm_compute; reflexivity| | |right; vm_compute; reflexivity].
        -- apply ws_or_not_nc; [exact Hg4|reflexivity].
        -- left. destruct (gap w 4) as [|y g]; [reflexivity|].
           cbn [forallb] in Hg4. apply andb_true_iff in Hg4. destruct Hg4 as [Hy _]. cbn [app prefix].
           destruct (N.eqb_spec 58 y) as [<-|]; [vm_compute in Hy; discriminate|reflexivity].
  - apply fails_nt. rewrite prod_function_call. apply fails_map, fails_seq_1, F_function_name. reflexivity.
  - apply fails_nt. rewrite prod_function_call. apply fails_map, fails_seq_1, F_function_name. reflexivity.
Qed.

(** ** filter expressions *)
Definition FilterOK (f : xexpr) : Prop :=
  forall w (K : str), ws_ok w = true -> prefix [91] (drop_ws K) = None -> lex_follow f K ->
  exists tf fe, P (NT nt_filter_expr) (spell_surface f w ++ K) tf K /\ act tf = VFilter fe /\ abs_filter fe = f.

Lemma filter_of_primary p : PrimOK p -> FilterOK p.
Proof.
  intros HP w K Hw H91 Hlex. destruct (HP w K Hw Hlex) as (tp & pe & HPp & Ha & Hab).
  exists (TMap L_model_FilterExpr_from (TPair tp (TList []))), (EFilter pe ExprNil). split; [|split].
  - apply parses_nt. rewrite prod_filter_expr. apply parses_map. eapply parses_seq; [exact HPp|].
    apply parses_many0; [constructor|]. apply F_pred_item, H91.
  - cbn [act]. rewrite Ha. reflexivity.
  - exact Hab.
Qed.

Lemma filter_with_preds p preds :
  PrimOK p -> preds <> [] -> (forall x, In x preds -> SubOK x) -> FilterOK (XFilter p preds).
Proof.
  intros HP Hne Hsub w K Hw H91 Hlex. cbn [spell_surface]. rewrite <- app_assoc.
  assert (Hws : forallb ws_ok (kids_from w 1) = true) by (apply ws_ok_kids_from, Hw).
  destruct (P_preds preds Hsub (kids_from w 1) K Hws) as (items & es & Hst & Hact & Hmap).
  set (SP := spell_preds_with spell_surface preds (kids_from w 1)) in *.
  assert (Hlexp : lex_follow p (SP ++ K)).
  { destruct preds as [|x preds']; [contradiction|]. unfold SP. cbn [spell_preds_with]. rewrite <- !app_assoc.
    apply lex_follow_closer; [apply ws_ok_gap, ws_ok_hd, Hws|cbn; tauto]. }
  destruct (HP (kid w 0) (SP ++ K) (ws_ok_kid _ _ Hw) Hlexp) as (tp & pe & HPp & Ha & Hab).
  exists (TMap L_model_FilterExpr_from (TPair tp (TList items))), (EFilter pe (exprs_of es)). split; [|split].
  - apply parses_nt. rewrite prod_filter_expr. apply parses_map. eapply parses_seq; [exact HPp|].
    apply parses_many0; [exact Hst|apply F_pred_item, H91].
  - change (act (TMap L_model_FilterExpr_from (TPair tp (TList items))))
      with (apply_label L_model_FilterExpr_from (act (TPair tp (TList items)))).
    rewrite (act_pair _ _ _ _ Ha eq_refl Hact eq_refl). cbn -[to_exprs map exprs_of]. now rewrite to_exprs_map.
  - destruct es as [|e es']; [destruct preds; [contradiction|discriminate]|].
    cbn [exprs_of abs_filter]. rewrite Hab. f_equal. rewrite <- Hmap. cbn [map abs_exprs]. f_equal. apply abs_exprs_of.
Qed.

Lemma opt_path_none (K : str) : prefix [47] (drop_ws K) = None ->
  F (Seq (SeqR WS (SeqL (Map L_model_LocationPathOperator_from (Alt (Tag [47;47]) (Tag [47]))) WS)) (NT nt_relative_location_path)) K.
Proof.
  intros H47. apply fails_seq_1. eapply fails_seq_2; [apply P_ws_any|].
  apply fails_seq_1, fails_map, fails_alt; apply fails_tag; [apply prefix_cons_none|]; exact H47.
Qed.

Lemma top8_of_filter f : FilterOK f -> Top8 f.
Proof.
  intros HF w k Hw Hk Hlex. destruct Hk as [_ [H47 H91]].
  destruct (HF w k Hw H91 Hlex) as (tf & fe & HP & Ha & Hab).
  exists (TMap L_closure_dae0d720 (TPair tf TNone)), (PFilter fe). split; [|split].
  - apply parses_nt. rewrite prod_path_expr. apply parses_alt_l, parses_map. eapply parses_seq; [exact HP|].
    apply parses_opt_none, opt_path_none, H47.
  - cbn [act]. rewrite Ha. reflexivity.
  - exact Hab.
Qed.

(** ** the root *)
Lemma F_step_k (k : str) : stops is_ws k -> stops step_start k -> F (NT nt_step) k.
Proof.
  intros Hws Hss.
  assert (Hn : stops P1 k /\ prefix [46] k = None /\ prefix [64] k = None /\ prefix [42] k = None).
  { destruct k as [|c k]; [repeat split|]. cbn [stops] in Hss. unfold step_start in Hss.
    rewrite !orb_false_iff in Hss. destruct Hss as [[[H1 H2] H3] H4]. cbn [stops prefix].
    rewrite (N.eqb_sym 46 c), (N.eqb_sym 64 c), (N.eqb_sym 42 c), H2, H3, H4. auto. }
  destruct Hn as (Hn & H46 & H64 & H42).
  apply fails_nt. rewrite prod_step.
  apply fails_alt; [apply fails_map, fails_tag, prefix_cons_none, H46|].
  apply fails_alt; [apply fails_map, fails_tag, H46|].
  apply fails_map. eapply fails_seq_2.
  - apply parses_nt. rewrite prod_axis_specifier. apply parses_alt_r.
    + apply fails_map, fails_seq_1, F_axis_name, Hn.
    + apply parses_map, parses_opt_none, fails_tag, H64.
  - apply fails_seq_1. eapply fails_seq_2; [apply P_ws_nil, Hws|].
    apply fails_nt. rewrite prod_node_test. repeat apply fails_alt.
    + apply fails_map, fails_seq_1, fails_seq_1, fails_tag.
      destruct k as [|c k]; [reflexivity|]. cbn [stops] in Hn. cbn [prefix].
      destruct (N.eqb_spec 112 c) as [<-|]; [discriminate|reflexivity].
    + apply fails_map, fails_seq_1, F_node_type, Hn.
    + apply fails_map, fails_nt. rewrite prod_name_test. repeat apply fails_alt.
      * apply fails_map, fails_tag, H42.
      * apply fails_map, fails_seq_1, F_ncname, Hn.
      * apply fails_map, F_qname, Hn.
Qed.

Lemma F_relpath_k (k : str) : stops is_ws k -> stops step_start k -> F (NT nt_relative_location_path) k.
Proof.
  intros H1 H2. apply fails_nt. rewrite prod_relative_location_path. apply fails_map, fails_seq_1, F_step_k; assumption.
Qed.

Lemma prefix_drop_ws c (k : str) : is_ws c = false -> prefix [c] (drop_ws k) = None -> prefix [c] k = None.
Proof.
  intros Hc H. destruct k as [|x k]; [reflexivity|]. destruct (is_ws x) eqn:E.
  - cbn [prefix]. destruct (N.eqb_spec c x) as [->|]; [congruence|reflexivity].
  - rewrite drop_ws_stop in H by exact E. exact H.
Qed.

Lemma F_filter_on_slash (k : str) : F (NT nt_filter_expr) (47 :: k).
Proof.
  apply fails_nt. rewrite prod_filter_expr. apply fails_map, fails_seq_1.
  apply F_primary_no_start; try reflexivity. intros r E. discriminate.
Qed.

Lemma top8_root : Top8 XRoot.
Proof.
  intros w k Hw [_ [H47 H91]] Hlex. cbn [spell_surface].
  destruct Hlex as (_ & _ & _ & Hroot). specialize (Hroot eq_refl).
  exists (TMap L_closure_be3a7f28 (TStr [47])), PRoot. split; [|split; reflexivity].
  apply parses_nt. rewrite prod_path_expr.
  apply parses_alt_r; [apply fails_map, fails_seq_1, F_filter_on_slash|].
  apply parses_alt_r.
  { apply fails_map. eapply fails_seq_2.
    - eapply parses_seql; [|apply P_ws_any]. apply parses_map, parses_alt_r; [|apply (parses_tag_app G_xpath [47])].
      apply fails_tag. cbn [app prefix]. rewrite N.eqb_refl. apply (prefix_drop_ws 47); [reflexivity|exact H47].
    - apply F_relpath_k; [apply drop_ws_stops|exact Hroot]. }
  apply parses_alt_r.
  { apply fails_map, F_relpath_k; reflexivity. }
  apply parses_map, parses_tag_app.
Qed.

(** ** location paths *)
Definition start_ok (st : xstart) : Prop :=
  match st with SFrom f _ => FilterOK f | _ => True end.

Lemma lex_step_follow (st : xstart) first rest (k : str) :
  follow 8 k -> lex_follow (XPath st first rest) k -> step_follow (last_step first rest) k.
Proof.
  intros [_ [H47 H91]] (Hn & _ & Hd & _). split; [exact H91|].
  cbn [ends_name ends_dot] in *. destruct (last_step first rest) as [ax t preds| |]; [|cbn in Hd|exact I].
  - intros -> q ->. apply (Hn eq_refl).
  - specialize (Hd eq_refl). destruct k as [|c k]; [reflexivity|]. cbn [stops prefix] in *.
    apply orb_false_iff in Hd. destruct Hd as [_ Hd]. now rewrite N.eqb_sym, Hd.
Qed.

Lemma top8_path (st : xstart) first rest :
  start_ok st -> step_wf first -> (forall x, In x rest -> step_wf (snd x)) ->
  Top8 (XPath st first rest).
Proof.
  intros Hst Hf Hr w k Hw Hk Hlex.
  pose proof (lex_step_follow st first rest k Hk Hlex) as Hlast.
  destruct Hk as [Hop [H47 H91]].
  assert (Hw1 : ws_ok (kid w 1) = true) by (apply ws_ok_kid, Hw).
  assert (Hws : forallb ws_ok (kids_from w 2) = true) by (apply ws_ok_kids_from, Hw).
  destruct (P_relpath first rest (kid w 1) (kids_from w 2) k Hf Hr Hw1 Hws Hlast H47) as (tr & s0 & ops & HPr & Har & Hab0 & Habs).
  set (REL := spell_step_with spell_surface first (kid w 1) ++ spell_steps_with spell_surface rest (kids_from w 2) ++ k) in *.
  destruct (step_first first (kid w 1) Hf) as (c & r0 & Ec & Hc). destruct (step_first_facts c Hc) as (Hcw & Hc47).
  assert (HREL : exists r1, REL = c :: r1) by (unfold REL; rewrite Ec; eexists; reflexivity).
  destruct HREL as (r1 & EREL).
  cbn [spell_surface]. rewrite <- !app_assoc. fold REL.
  destruct st as [|sp|f sp].
  - (* relative *)
    cbn [app].
    exists (TMap L_model_PathExpr_from tr), (PRel (ERelPath s0 ops)). split; [|split].
    + apply parses_nt. rewrite prod_path_expr.
      apply parses_alt_r.
      { apply fails_map, fails_seq_1, fails_nt. rewrite prod_filter_expr. apply fails_map, fails_seq_1.
        unfold REL. destruct rest as [|[sp' y] rest'].
        - cbn [spell_steps_with app]. apply F_primary_on_step; [exact Hf|exact Hw1|exact Hlast|].
          intros ->. destruct Hlex as (_ & _ & Hd & _). specialize (Hd eq_refl).
          destruct k as [|x k']; [exact I|]. cbn [stops] in *. apply orb_false_iff in Hd. apply Hd.
        - cbn [spell_steps_with]. rewrite <- !app_assoc.
          assert (Hg : forallb is_ws (gap (hd wdef (kids_from w 2)) 0) = true) by (apply ws_ok_gap, ws_ok_hd, Hws).
          apply F_primary_on_step; [exact Hf|exact Hw1|apply step_follow_sep, Hg|].
          intros _. destruct (gap (hd wdef (kids_from w 2)) 0) as [|x g]; [destruct sp'; reflexivity|].
          cbn [forallb] in Hg. apply andb_true_iff in Hg. destruct Hg as [Hx _]. cbn [app stops].
          destruct (XPathSyntax.is_digit x) eqn:E; [|reflexivity]. destruct (digit_facts x E) as (Hxw & _). congruence. }
      apply parses_alt_r.
      { apply fails_map, fails_seq_1, fails_seq_1, fails_map. rewrite EREL.
        apply fails_alt; apply fails_tag; cbn [prefix]; destruct (N.eqb_spec 47 c) as [<-|]; try contradiction; reflexivity. }
      apply parses_alt_l, parses_map. exact HPr.
    + cbn [act]. rewrite Har. reflexivity.
    + cbn [abs_path]. now rewrite Hab0, Habs.
  - (* absolute *)
    rewrite <- !app_assoc.
    assert (Hg0 : forallb is_ws (gap w 0) = true) by (apply ws_ok_gap, Hw).
    exists (TMap L_closure_1402352e (TPair (TMap L_model_LocationPathOperator_from (TStr (sep_text sp))) tr)),
           (PAbs (m_sep sp) (ERelPath s0 ops)). split; [|split].
    + apply parses_nt. rewrite prod_path_expr.
      apply parses_alt_r; [apply fails_map, fails_seq_1; destruct sp; apply F_filter_on_slash|].
      apply parses_alt_l, parses_map. eapply parses_seq; [|exact HPr].
      eapply parses_seql; [|apply P_ws; [exact Hg0|rewrite EREL; exact Hcw]].
      apply parses_map. destruct sp; cbn [sep_text].
      * apply parses_alt_r; [|apply parses_tag_app]. apply fails_tag.
        change ([47] ++ gap w 0 ++ REL) with (47 :: (gap w 0 ++ REL)). cbn [prefix]. rewrite N.eqb_refl.
        destruct (gap w 0) as [|y g]; cbn [app].
        -- rewrite EREL. cbn [prefix]. destruct (N.eqb_spec 47 c) as [<-|]; [contradiction|reflexivity].
        -- cbn [forallb] in Hg0. apply andb_true_iff in Hg0. destruct Hg0 as [Hy _]. cbn [prefix].
           destruct (N.eqb_spec 47 y) as [<-|]; [vm_compute in Hy; discriminate|reflexivity].
      * apply parses_alt_l, parses_tag_app.
    + change (act (TMap L_closure_1402352e (TPair (TMap L_model_LocationPathOperator_from (TStr (sep_text sp))) tr)))
        with (apply_label L_closure_1402352e (act (TPair (TMap L_model_LocationPathOperator_from (TStr (sep_text sp))) tr))).
      assert (Hsep : act (TMap L_model_LocationPathOperator_from (TStr (sep_text sp))) = VLpOp (m_sep sp)) by (destruct sp; reflexivity).
      rewrite (act_pair _ _ _ _ Hsep eq_refl Har eq_refl). reflexivity.
    + cbn [abs_path]. rewrite Hab0, Habs. destruct sp; reflexivity.
  - (* filter expression, then a path *)
    rewrite <- !app_assoc.
    assert (Hg0 : forallb is_ws (gap w 0) = true) by (apply ws_ok_gap, Hw).
    assert (Hg1 : forallb is_ws (gap w 1) = true) by (apply ws_ok_gap, Hw).
    cbn [start_ok] in Hst.
    assert (EK : gap w 0 ++ sep_text sp ++ gap w 1 ++ REL = gap w 0 ++ 47 :: ((match sp with SSlash => [] | SDSlash => [47] end) ++ gap w 1 ++ REL))
      by (destruct sp; reflexivity).
    destruct (Hst (kid w 0) (gap w 0 ++ sep_text sp ++ gap w 1 ++ REL)) as (tf & fe & HPf & Haf & Habf).
    { apply ws_ok_kid, Hw. }
    { rewrite EK, (drop_ws_app _ _ Hg0). reflexivity. }
    { rewrite EK. apply lex_follow_closer; [exact Hg0|cbn; tauto]. }
    exists (TMap L_closure_dae0d720 (TPair tf (TSome (TPair (TMap L_model_LocationPathOperator_from (TStr (sep_text sp))) tr)))),
           (PFilterPath fe (m_sep sp) (ERelPath s0 ops)). split; [|split].
    + apply parses_nt. rewrite prod_path_expr. apply parses_alt_l, parses_map.
      eapply parses_seq; [exact HPf|]. apply parses_opt_some.
      change (Seq (SeqR WS (SeqL (Map L_model_LocationPathOperator_from (Alt (Tag [47; 47]) (Tag [47]))) WS)) (NT nt_relative_location_path))
        with (itemA L_model_LocationPathOperator_from lp_alts nt_relative_location_path).
      apply P_itemA; try assumption.
      * destruct sp; reflexivity.
      * rewrite EREL. exact Hcw.
      * unfold lp_alts. destruct sp; cbn [sep_text].
        -- apply parses_alt_r; [|apply parses_tag_app]. apply fails_tag.
           change ([47] ++ gap w 1 ++ REL) with (47 :: (gap w 1 ++ REL)). cbn [prefix]. rewrite N.eqb_refl.
           destruct (gap w 1) as [|y g]; cbn [app].
           ++ rewrite EREL. cbn [prefix]. destruct (N.eqb_spec 47 c) as [<-|]; [contradiction|reflexivity].
           ++ cbn [forallb] in Hg1. apply andb_true_iff in Hg1. destruct Hg1 as [Hy _]. cbn [prefix].
              destruct (N.eqb_spec 47 y) as [<-|]; [vm_compute in Hy; discriminate|reflexivity].
        -- apply parses_alt_l, parses_tag_app.
    + assert (Hsep : act (TMap L_model_LocationPathOperator_from (TStr (sep_text sp))) = VLpOp (m_sep sp)) by (destruct sp; reflexivity).
      change (act (TMap L_closure_dae0d720 (TPair tf (TSome (TPair (TMap L_model_LocationPathOperator_from (TStr (sep_text sp))) tr)))))
        with (apply_label L_closure_dae0d720 (act (TPair tf (TSome (TPair (TMap L_model_LocationPathOperator_from (TStr (sep_text sp))) tr))))).
      assert (Hsome : act (TSome (TPair (TMap L_model_LocationPathOperator_from (TStr (sep_text sp))) tr)) = VSome (VPair (VLpOp (m_sep sp)) (VRelPath (ERelPath s0 ops)))).
      { pose proof (act_pair _ _ _ _ Hsep eq_refl Har eq_refl) as Hp.
        change (act (TSome (TPair (TMap L_model_LocationPathOperator_from (TStr (sep_text sp))) tr)))
          with (let x := act (TPair (TMap L_model_LocationPathOperator_from (TStr (sep_text sp))) tr) in
                match poisoned x with Some p => p | None => VSome x end).
        rewrite Hp. reflexivity. }
      rewrite (act_pair _ _ _ _ Haf eq_refl Hsome eq_refl). reflexivity.
    + cbn [abs_path]. rewrite Hab0, Habs, Habf. destruct sp; reflexivity.
Qed.
