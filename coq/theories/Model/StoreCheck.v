(** * Stores given as finite tables, and an executable check of the tree invariant

    [store_of_list l ...] is the store whose items are the bindings of the association list [l]
    (first binding wins).  [tree_inv_b l nx root] decides, by computation, a sufficient condition
    for [TreeInv] of that store (soundness: Proofs/DomCheck.v).  The model driver runs it on the
    initial stores it builds from the implementation's dump, so the hypothesis of the history
    theorems is checked for every case of the correspondence runs. *)
From Coq Require Import List NArith Bool.
From XmlRs Require Import Base.CPred Model.Store.
Import ListNotations.
Open Scope N_scope.

Fixpoint lookup (l : list (id * item)) (i : id) : option item :=
  match l with
  | [] => None
  | (j, it) :: t => if i =? j then Some it else lookup t i
  end.

Definition store_of_list (l : list (id * item)) (nx : id) (decl : str) (root : id) : store :=
  mkStore (lookup l) nx decl root [] true.

Fixpoint nodupb (l : list id) : bool :=
  match l with
  | [] => true
  | x :: t => negb (mem x t) && nodupb t
  end.

Definition child_okb (pk ck : kind) : bool :=
  match pk with
  | KDoc => match ck with KCm | KPi | KDt | KEl => true | _ => false end
  | KEl => match ck with KCd | KCr | KCm | KEl | KPi | KTx | KEr => true | _ => false end
  | KAt => match ck with KCr | KTx | KEr => true | _ => false end
  | _ => false
  end.

Definition opt_eqb (a : option id) (b : id) : bool :=
  match a with Some x => x =? b | None => false end.

(** the upward walk from [i] reaches a node without parent within [fuel] steps *)
Fixpoint terminates (fuel : nat) (s : store) (i : id) : bool :=
  match fuel with
  | O => false
  | S f => match get s i with
           | Some it => match iparent it with
                        | None => true
                        | Some p => terminates f s p
                        end
           | None => true
           end
  end.

Definition check_item (s : store) (nx root : id) (fuel : nat) (b : id * item) : bool :=
  let '(i, it0) := b in
  match get s i with
  | None => false
  | Some it =>
    (i <? nx)
    && forallb (fun c => match get s c with
                         | Some cit => opt_eqb (iparent cit) i && child_okb (ikind it) (ikind cit)
                         | None => false
                         end) (ichildren it)
    && forallb (fun a => match get s a with
                         | Some ait => opt_eqb (iparent ait) i && kind_eqb (ikind it) KEl && kind_eqb (ikind ait) KAt
                         | None => false
                         end) (iattrs it)
    && match iparent it with
       | None => true
       | Some p => match get s p with
                   | Some pit => mem i (ichildren pit) || mem i (iattrs pit)
                   | None => false
                   end
       end
    && nodupb (ichildren it) && nodupb (iattrs it)
    && terminates fuel s i
    && (negb (kind_eqb (ikind it) KDoc) || (i =? root))
  end.

Definition one_kind (s : store) (k : kind) (l : list id) : bool :=
  forallb (fun x => forallb (fun y => negb (has_kind s k x && has_kind s k y) || (x =? y)) l) l.

Definition tree_inv_b (l : list (id * item)) (nx root : id) : bool :=
  let s := store_of_list l nx [] root in
  forallb (check_item s nx root (S (length l))) l
  && match get s root with
     | Some rit => kind_eqb (ikind rit) KDoc && one_kind s KEl (ichildren rit) && one_kind s KDt (ichildren rit)
     | None => false
     end.
