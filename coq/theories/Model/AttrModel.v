(** * Model of the attribute machinery of xml-info / xml-dom (property C11).

    What /repo does on branch agent-nsattr2 = main (builder-wf's well-formedness checks, builder-pipeline's
    recursion detection) + the fixes D37, D38, D54, D55, function by function.  Functions are named after
    the Rust ones (info/src/lib.rs unless stated).

    Entities.  [XmlEntity.values] is the entity literal as parsed: [XmlEntityValue::Text],
    [::Character(num, radix)] and [::Entity(name)] -- the same three shapes as [Spec.AttrNorm.piece],
    which is reused.  ([::Parameter] is refused with [Error::InvalidData]; not generated.)

    Recursion.  [expand_entity] keeps the stack [parents] of the entities being expanded and answers
    [Error::InvalidData] when a name comes back (WFC No Recursion); [check_entity_ref], run on every
    entity reference of an attribute value when the node is built, does the same with its [seen] map, so
    a document with a reachable cycle is refused before any value is asked for.  (Before commit ed2c470
    the expansion overflowed the native stack: defect D09 of property C03.)  Coq needs a structural
    argument, so both functions also carry fuel; [S (length table)] is enough because [parents] holds
    distinct declared names (on well-formed tables this follows from the refinement theorem and
    [fuel_suffices]); running out of fuel is reported as [Recursion] and never observed.

    Errors.  [Error::NotFoundReference] is [Undeclared], [Error::InvalidData] is [IllFormed].
    [char_from_char10/16] also fail for numbers that are not legal characters (WFC Legal Character);
    character references here carry a legal [char] already. *)
From Coq Require Import List NArith Bool.
From XmlRs Require Import Base.CPred Spec.AttrNorm.
Import ListNotations.
Open Scope N_scope.

(** [fn normalize_ws]: four [str::replace] calls (0x20, 0x0D, 0x0A, 0x09 -> " "); the replacement
    is a fixed point of all four, so together they are one pointwise map *)
Definition normalize_ws (s : str) : str :=
  map (fun c => if (c =? 32) || (c =? 13) || (c =? 10) || (c =? 9) then 32 else c) s.

(** [Context::entity]: first declaration in the document type declaration, else the five built-in
    names with a one-[Text] value *)
Definition m_predefined (n : name) : option (list piece) :=
  if str_eqb n n_lt then Some [Text [60]]
  else if str_eqb n n_gt then Some [Text [62]]
  else if str_eqb n n_amp then Some [Text [38]]
  else if str_eqb n n_apos then Some [Text [39]]
  else if str_eqb n n_quot then Some [Text [34]]
  else None.

Fixpoint m_find_entity (dtd : table) (n : name) : option (list piece) :=
  match dtd with
  | [] => None
  | (m, lit) :: r => if str_eqb m n then Some lit else m_find_entity r n
  end.

Definition context_entity (dtd : table) (n : name) : ares (list piece) :=
  match m_find_entity dtd n with
  | Some v => Ok v
  | None => match m_predefined n with Some v => Ok v | None => Undeclared end
  end.

(** the [for value in entity.values()] loop of [expand_entity(_, _, _, in_attribute = true)]:
    [parsed] is the accumulator, [?] returns the first error *)
Fixpoint entity_loop (rec : name -> ares str) (parsed : str) (vals : list piece) : ares str :=
  match vals with
  | [] => Ok parsed
  | CharRef c :: r => entity_loop rec (parsed ++ normalize_ws [c]) r          (* fix D37 *)
  | EntRef n :: r => bind (rec n) (fun v => entity_loop rec (parsed ++ v) r)
  | Text s :: r => entity_loop rec (parsed ++ normalize_ws s) r
  end.

(** [expand_entity(name, context, parents, in_attribute = true)] *)
Fixpoint m_expand_entity (fuel : nat) (dtd : table) (parents : list name) (n : name) : ares str :=
  match fuel with
  | O => Recursion
  | S f =>
      if existsb (str_eqb n) parents then IllFormed                  (* WFC: No Recursion *)
      else bind (context_entity dtd n) (entity_loop (m_expand_entity f dtd (parents ++ [n])) [])
  end.

(** [attr_value_from_name(name, context) = expand_entity(name, context, &mut vec![], true)] *)
Definition attr_value_from_name (fuel : nat) (dtd : table) (n : name) : ares str := m_expand_entity fuel dtd [] n.

(** the loop of [Attribute::normalized_value] over [XmlAttributeValue::{Char, Entity, Text}] *)
Fixpoint value_loop (rec : name -> ares str) (normalized : str) (vals : list piece) : ares str :=
  match vals with
  | [] => Ok normalized
  | CharRef c :: r => value_loop rec (normalized ++ [c]) r
  | EntRef n :: r => bind (rec n) (fun v => value_loop rec (normalized ++ v) r)
  | Text s :: r => value_loop rec (normalized ++ normalize_ws s) r
  end.

(** [normalized.split(' ').filter(|v| !v.is_empty()).collect::<Vec<&str>>().join(" ")] *)
Fixpoint split_sp (s : str) : list str :=
  match s with
  | [] => [[]]
  | c :: r => if c =? 32 then [] :: split_sp r
              else match split_sp r with w :: ws => (c :: w) :: ws | [] => [[c]] end
  end.
Definition nonempty (w : str) : bool := match w with [] => false | _ => true end.
Fixpoint join_sp (ws : list str) : str :=
  match ws with
  | [] => []
  | [w] => w
  | w :: r => w ++ 32 :: join_sp r
  end.
Definition split_filter_join (s : str) : str := join_sp (filter nonempty (split_sp s)).

Definition m_not_cdata (ty : option atttype) : bool :=
  match ty with Some TCdata => false | Some _ => true | None => false end.

Definition normalized_value_f (fuel : nat) (dtd : table) (ty : option atttype) (vals : list piece) : ares str :=
  bind (value_loop (attr_value_from_name fuel dtd) [] vals)
       (fun v => Ok (if m_not_cdata ty then split_filter_join v else v)).

(** the Rust has no fuel; any amount above the number of declarations behaves like it on well-formed
    tables (Proofs/AttrNormProofs.v, [fuel_irrelevant_proof]) *)
Definition model_value_f := normalized_value_f.
Definition model_value (dtd : table) (ty : option atttype) (vals : list piece) : ares str :=
  normalized_value_f (S (length dtd)) dtd ty vals.

(** ** attribute-list declarations *)

(** [XmlElement::declaration_att_defs] (fix D38): every [XmlDeclarationAttList] whose name equals the
    element's, definitions appended unless one with an equal qualified name is already there.
    [equal_qname] compares (prefix, local part) pairs, i.e. the qualified names as strings. *)
Fixpoint m_push_defs (defs : list attdef) (atts : list attdef) : list attdef :=
  match atts with
  | [] => defs
  | d :: r => if existsb (fun v => str_eqb (ad_name v) (ad_name d)) defs then m_push_defs defs r
              else m_push_defs (defs ++ [d]) r
  end.
Fixpoint declaration_att_defs (defs : list attdef) (d : dtd_doc) (el : name) : list attdef :=
  match d with
  | [] => defs
  | DAttlist e atts :: r =>
      if str_eqb e el then declaration_att_defs (m_push_defs defs atts) r el
      else declaration_att_defs defs r el
  | DEntity _ _ :: r => declaration_att_defs defs r el
  end.

(** [XmlAttribute::declaration_def] / [declaration_type] *)
Definition declaration_type (defs : list attdef) (a : name) : option atttype :=
  option_map ad_type (find (fun v => str_eqb (ad_name v) a) defs).

(** [XmlAttribute::namespace]: prefix [xmlns] or local name [xmlns] *)
Definition m_namespace (a : name) : bool :=
  str_eqb (firstn 5 a) n_xmlns && match skipn 5 a with [] => true | c :: _ => c =? 58 end.

(** one reported attribute: [info specified], [dom specified] (xml-dom [Attr::specified], which after
    fix D54 reads the same flag) *)
Record m_attr := { ma_name : name; ma_value : ares str; ma_ispec : bool; ma_dspec : bool; ma_type : option atttype }.

(** an attribute node: name, value items, from_dtd *)
Record m_node := { mn_name : name; mn_vals : list piece; mn_from_dtd : bool }.

(** [Element::attributes]: [attributes_specified()] then, for each merged definition whose default
    is not [Implied], whose name is no namespace declaration ([is_namespace_declaration]: it is supplied
    through [namespace_attributes] instead, /repo commit bf629dc, D67) and is not among [items] (which
    grows), [new_from_declaration]:
    the values of a [Value(_, values)] default, no values otherwise (so [Required] is materialised
    with an empty value: defect D36, pinned by info::tests::test_attribute_specified_required). *)
Fixpoint m_defaults (items : list m_node) (defs : list attdef) : list m_node :=
  match defs with
  | [] => items
  | d :: r =>
      let present := existsb (fun v => str_eqb (mn_name v) (ad_name d)) items in
      if m_namespace (ad_name d) then m_defaults items r else
      match ad_default d with
      | Implied => m_defaults items r
      | Required =>
          if present then m_defaults items r
          else m_defaults (items ++ [{| mn_name := ad_name d; mn_vals := []; mn_from_dtd := true |}]) r
      | Default _ lit =>
          if present then m_defaults items r
          else m_defaults (items ++ [{| mn_name := ad_name d; mn_vals := lit; mn_from_dtd := true |}]) r
      end
  end.

Definition m_attributes_nodes (d : dtd_doc) (el : name) (written : list (name * list piece)) : list m_node :=
  let specified := map (fun nl => {| mn_name := fst nl; mn_vals := snd nl; mn_from_dtd := false |})
                       (filter (fun nl => negb (m_namespace (fst nl))) written) in
  m_defaults specified (declaration_att_defs [] d el).

Definition m_observe (d : dtd_doc) (el : name) (n : m_node) : m_attr :=
  let defs := declaration_att_defs [] d el in
  let ty := declaration_type defs (mn_name n) in
  {| ma_name := mn_name n; ma_value := model_value (entities_of d) ty (mn_vals n);
     ma_ispec := negb (mn_from_dtd n); ma_dspec := negb (mn_from_dtd n); ma_type := ty |}.

(** [check_entity_ref(entity, attribute = true, context, seen)] for the entity named [n] (looked up by
    the caller with [context.entity]): a predefined entity passes; a declared one must not be in
    progress ([seen[n] = false], here [visiting]: WFC No Recursion), its literal must not produce '<'
    (WFC No < in Attribute Values) and the entities it refers to must be declared and pass in turn.
    Entities whose check is complete are skipped by the code; re-checking them gives the same answer. *)
Fixpoint check_loop (rec : name -> ares unit) (vals : list piece) : ares unit :=
  match vals with
  | [] => Ok tt
  | CharRef c :: r => if c =? 60 then IllFormed else check_loop rec r
  | EntRef v :: r => bind (rec v) (fun _ => check_loop rec r)
  | Text s :: r => if existsb (fun c => c =? 60) s then IllFormed else check_loop rec r
  end.

Fixpoint check_entity_ref (fuel : nat) (ents : table) (visiting : list name) (n : name) : ares unit :=
  match fuel with
  | O => Recursion
  | S f =>
      match m_find_entity ents n with
      | None => match m_predefined n with Some _ => Ok tt | None => Undeclared end
      | Some vals =>
          if existsb (str_eqb n) visiting then IllFormed
          else check_loop (check_entity_ref f ents (visiting ++ [n])) vals
      end
  end.

(** [XmlAttributeValue::new] on every piece of a literal: [context.entity(v)?] then
    [check_entity_ref(&entity, true, context, &mut HashMap::new())?] -- for default values while the
    document type declaration is being read (fix D55: the entities declared so far are visible), for
    start-tag attributes afterwards *)
Definition m_refs_found (ents : table) (vals : list piece) : bool :=
  forallb (fun p => match p with
                    | EntRef n => match check_entity_ref (S (length ents)) ents [] n with Ok _ => true | _ => false end
                    | _ => true end) vals.

Fixpoint m_doctype_ok (seen : table) (d : dtd_doc) : bool :=
  match d with
  | [] => true
  | DEntity n lit :: r => m_doctype_ok (seen ++ [(n, lit)]) r
  | DAttlist _ defs :: r =>
      forallb (fun x => match ad_default x with Default _ lit => m_refs_found seen lit | _ => true end) defs
      && m_doctype_ok seen r
  end.

Definition model_attrs (d : dtd_doc) (el : name) (written : list (name * list piece)) : ares (list m_attr) :=
  if m_doctype_ok [] d && forallb (fun nl => m_refs_found (entities_of d) (snd nl)) written
  then Ok (map (m_observe d el) (m_attributes_nodes d el written))
  else IllFormed.
