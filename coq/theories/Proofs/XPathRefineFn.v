(** * C05, round 2: function calls.

    [call_agrees]: for an unprefixed function name in a context without default namespace
    binding, the name and arity resolution of the model ([resolve_fn], through the table
    generated from the Rust source) fails exactly when the specification's [s_call] answers
    [None] for an unknown name or a wrong number of arguments, and when it succeeds the model's
    [exec_fn] and the specification's [s_call] agree ([rrel (vrel doc)]) on related argument
    values.  Left out by assumption of the theorem: the function [id], and a negative-zero NUMBER in a
    string-typed argument position (finding D34b), [fn_str_param]. *)
From Coq Require Import List NArith ZArith Bool Lia Sorting.Sorted Sorting.Permutation.
From Coq Require Import Floats.SpecFloat.
From XmlRs Require Import Base.CPred Base.NList Base.Float64.
From XmlRs Require Import Spec.XPathCore Model.XPathFuncs.
From XmlRs Require Import Model.XPathAst Model.XDoc Model.XPathScalar Model.XPathEval.
From XmlRs Require Import Spec.XPath10.
From XmlRs Require Import Proofs.XPathNav Proofs.XPathSort Proofs.XPathCanon
  Proofs.XPathRefine Proofs.XPathRefinePaths Proofs.XPathRefineTree Proofs.XPathRefineAxes
  Proofs.XPathFuncsNum Proofs.XPathRefineFloat Proofs.XPathRefineVal.
From XmlRs Require Import Proofs.XPathFuncsTable Proofs.XPathFuncsStr Proofs.XPathFuncsRound Proofs.XPathFuncs.
Import ListNotations.
Open Scope N_scope.

(** ** name and arity resolution *)
Lemma resolve_unprefixed ns name k : ns_lookup ns None = None ->
  resolve_fn ns (QUnprefixed name) k =
  match lookup_arity name arity_table with
  | Some (mn, mx) => if arity_in k mn mx then Ok name else Err (XErrInvalidArgumentCount name)
  | None => Err (XErrNotFoundFunction name)
  end.
Proof.
  intros _. unfold resolve_fn, fn_key. rewrite bind_ok. unfold find_func, func_table.
  rewrite table_arity_lookup. destruct (lookup_arity name arity_table) as [[mn mx]|]; [|reflexivity].
  rewrite arity_test. destruct (arity_in k mn mx); reflexivity.
Qed.

Lemma F2_length {A B} {R : A -> B -> Prop} {l1 l2} : Forall2 R l1 l2 -> length l1 = length l2.
Proof. intros H. induction H as [|a b ta tb _ _ IH]; [reflexivity|]. cbn [length]. rewrite IH. reflexivity. Qed.

Lemma arity_some k mn m : arity_in k mn (Some m) = true <-> mn <= k /\ k <= m.
Proof. unfold arity_in. rewrite andb_true_iff, !N.leb_le. reflexivity. Qed.

Lemma arity_none k mn : arity_in k mn None = true <-> mn <= k.
Proof. unfold arity_in. rewrite andb_true_iff, !N.leb_le. split; [intros [H _]; exact H|intros H; split; [exact H|reflexivity]]. Qed.

Lemma arity_some_false k mn m : arity_in k mn (Some m) = false -> mn <= k /\ k <= m -> False.
Proof. intros H1 H2. apply arity_some in H2. rewrite H1 in H2. discriminate H2. Qed.

(** the functions that do not look at the document *)
Definition is_scalar_id (id : fname) : bool :=
  match id with
  | Flast | Fposition | Fcount | Fid | Flocal_name | Fnamespace_uri | Fname | Flang | Fsum => false
  | _ => true
  end.

Definition need_id (id : fname) : bool := match id with Fboolean | Fnot => false | _ => true end.

Definition uses4 (id : fname) : bool :=
  match id with Fstring | Fstring_length | Fnormalize_space | Fnumber => true | _ => false end.

Lemma need_name id : is_scalar_id id = true ->
  negb (str_eqb (name_of id) fn_boolean || str_eqb (name_of id) fn_not) = need_id id.
Proof. destruct id; intros H; try discriminate H; reflexivity. Qed.

Lemma uses_ctx_name id : uses_ctx_sv (name_of id) = uses4 id.
Proof. destruct id; reflexivity. Qed.

Lemma scalar_fn_model_call id cs args : is_scalar_id id = true ->
  scalar_fn cs (name_of id) args = model_call id cs args.
Proof. destruct id; intros H; try discriminate H; reflexivity. Qed.

(** [call_refines] of Proofs/XPathFuncs.v without the restriction to scalar arguments (the
    functions that look at the shape of a node-set argument are not among these) *)
Lemma call_refines_scalar cs id args mn mx : is_scalar_id id = true ->
  lookup_arity (name_of id) arity_table = Some (mn, mx) ->
  arity_in (N.of_nat (List.length args)) mn mx = true ->
  valid_numbers args -> negzero_at id 0 args = false ->
  model_call id cs args = spec_call cs id args.
Proof.
  intros Hsc Hl Ha Hv Hk. apply length_cases in Ha.
  destruct id; try discriminate Hsc; vm_compute in Hl; injection Hl as <- <-; destruct Ha as [Ha1 Ha2];
    cbn [model_call];
    try (destruct args as [|a0 [|a1 [|a2 [|a3 args']]]]; cbn [List.length] in Ha1, Ha2; try lia);
    try reflexivity.
  all: try (now apply string_refines).
  all: try (now apply starts_with_refines).
  all: try (now apply contains_refines).
  all: try (now apply substring_before_refines).
  all: try (now apply substring_after_refines).
  all: try (now apply substring2_refines).
  all: try (now apply substring3_refines).
  all: try (now apply string_length_refines).
  all: try (now apply normalize_space_fn_refines).
  all: try (now apply translate_fn_refines).
  all: try (now apply boolean_refines).
  all: try (now apply not_refines).
  all: try (now apply number_fn_refines).
  all: try (now apply floor_refines).
  all: try (now apply ceiling_refines).
  all: try (now apply round_fn_refines).
  all: try (now apply concat_refines).
Qed.

(** what a scalar function sees of an argument: its three conversions *)
Definition srel (need : bool) (a b : value) : Prop :=
  xp_boolean a = xp_boolean b /\
  (need = true -> xp_string a = xp_string b /\ xp_number a = xp_number b).

Lemma srel_strings : forall l1 l2, Forall2 (srel true) l1 l2 -> map xp_string l1 = map xp_string l2.
Proof.
  intros l1 l2 H. induction H as [|a b ta tb Hab H IH]; [reflexivity|].
  cbn [map]. destruct Hab as [_ Hn]. destruct (Hn eq_refl) as [Hs _]. rewrite Hs, IH. reflexivity.
Qed.

Ltac use_srel H :=
  let Hb := fresh "Hb" in let Hn := fresh "Hn" in let Hs := fresh "Hs" in let Hm := fresh "Hm" in
  destruct H as [Hb Hn]; try (destruct (Hn eq_refl) as [Hs Hm]).

Lemma spec_call_ext cs cs' id margs sargs : is_scalar_id id = true ->
  Forall2 (srel (need_id id)) margs sargs ->
  (margs = [] -> uses4 id = true -> cs = cs') ->
  spec_call cs id margs = spec_call cs' id sargs.
Proof.
  intros Hsc HF Hcs.
  destruct id; try discriminate Hsc; cbn [need_id] in HF.
  (* concat first *)
  2: { cbn [spec_call]. rewrite (srel_strings _ _ HF). reflexivity. }
  all: destruct HF as [|a0 b0 ta tb H0 HF];
    [try (rewrite (Hcs eq_refl eq_refl)); reflexivity|].
  all: use_srel H0.
  all: destruct HF as [|a1 b1 ta tb H1 HF]; [cbn [spec_call arg_or_context]; congruence|].
  all: use_srel H1.
  all: destruct HF as [|a2 b2 ta tb H2 HF]; [cbn [spec_call arg_or_context]; congruence|].
  all: use_srel H2.
  all: destruct HF as [|a3 b3 ta tb H3 HF]; cbn [spec_call arg_or_context]; congruence.
Qed.

Lemma spec_call_num_valid cs id args x : is_scalar_id id = true -> valid_numbers args ->
  spec_call cs id args = ROk (VNum x) -> fvalid x.
Proof.
  intros Hsc Hv E.
  assert (H0 : forall a t, args = a :: t -> fvalid (xp_number a)).
  { intros a t ->. inversion Hv; assumption. }
  destruct id; try discriminate Hsc;
    destruct args as [|a0 [|a1 [|a2 [|a3 t]]]]; cbn [spec_call arg_or_context] in E; try discriminate E;
    injection E as <-;
    try (apply valid_f64_of_N);
    try (apply valid_xp_string_to_number);
    try (apply (H0 _ _ eq_refl));
    try (apply valid_f64_floor; apply (H0 _ _ eq_refl));
    try (apply valid_f64_ceil; apply (H0 _ _ eq_refl));
    try (apply valid_f64_xround; apply (H0 _ _ eq_refl)).
Qed.

Section Fn.
Variable doc : xdoc.
Hypothesis Hinv : DocInv doc.
Hypothesis Hshape : SpecShape doc.
Hypothesis Hnames : NamesOk doc.
Hypothesis Hparents : ParentsOk doc.
Let Hwf := inv_wf doc Hinv.
Let TV := T_valid doc Hinv Hshape.
Notation T := (T doc).

Definition fn_str_param (name : str) (i : nat) : bool :=
  match fname_of name library with
  | Some Flang => true
  | Some id => str_param id i
  | None => false
  end.

(** the statement for one function name whose arity is known *)
Definition call_ok (name : str) (vs : list xvalue) (svs : list sval) (n : node) (c : ctx)
  (mn : N) (mx : option N) : Prop :=
  if arity_in (len vs) mn mx
  then rrel (vrel doc) c (exec_fn doc name vs n c) (s_call doc name svs (Row n) (get_position c) (get_size c))
  else s_call doc name svs (Row n) (get_position c) (get_size c) = None.

(** ** (a) last, position *)
Lemma exec_last vs n c : exec_fn doc fn_last vs n c = (Ok (XNum (f64_of_N (get_size c))), c).
Proof. reflexivity. Qed.
Lemma s_call_last args n p s : s_call doc fn_last args n p s =
  match args with [] => Some (SNum (f64_of_N s)) | _ => None end.
Proof. reflexivity. Qed.
Lemma exec_position vs n c : exec_fn doc fn_position vs n c = (Ok (XNum (f64_of_N (get_position c))), c).
Proof. reflexivity. Qed.
Lemma s_call_position args n p s : s_call doc fn_position args n p s =
  match args with [] => Some (SNum (f64_of_N p)) | _ => None end.
Proof. reflexivity. Qed.

Lemma call_last vs svs n c : Forall2 (vrel doc) vs svs -> call_ok fn_last vs svs n c 0 (Some 0).
Proof.
  intros HF. unfold call_ok. rewrite exec_last, s_call_last. destruct (arity_in (len vs) 0 (Some 0)) eqn:Ea.
  - apply arity_some in Ea. destruct HF as [|v sv vs svs _ _]; [|cbn [len] in Ea; lia].
    cbn [rrel]. split; [reflexivity|]. eexists. split; [reflexivity|]. cbn [vrel]. split; [reflexivity|apply valid_f64_of_N].
  - destruct HF as [|v sv vs svs _ _]; [|reflexivity]. exfalso. apply (arity_some_false _ _ _ Ea). cbn [len]. lia.
Qed.

Lemma call_position vs svs n c : Forall2 (vrel doc) vs svs -> call_ok fn_position vs svs n c 0 (Some 0).
Proof.
  intros HF. unfold call_ok. rewrite exec_position, s_call_position. destruct (arity_in (len vs) 0 (Some 0)) eqn:Ea.
  - apply arity_some in Ea. destruct HF as [|v sv vs svs _ _]; [|cbn [len] in Ea; lia].
    cbn [rrel]. split; [reflexivity|]. eexists. split; [reflexivity|]. cbn [vrel]. split; [reflexivity|apply valid_f64_of_N].
  - destruct HF as [|v sv vs svs _ _]; [|reflexivity]. exfalso. apply (arity_some_false _ _ _ Ea). cbn [len]. lia.
Qed.

(** exactly one argument *)
Lemma one_arg (vs : list xvalue) svs : Forall2 (vrel doc) vs svs ->
  if arity_in (len vs) 1 (Some 1) then exists v sv, vs = [v] /\ svs = [sv] /\ vrel doc v sv
  else match svs with [_] => False | _ => True end.
Proof.
  intros HF. destruct (arity_in (len vs) 1 (Some 1)) eqn:Ea.
  - apply arity_some in Ea. destruct HF as [|v sv vs svs Hv HF]; [cbn [len] in Ea; lia|].
    destruct HF as [|v' sv' vs svs _ _]; [|cbn [len] in Ea; lia]. exists v, sv. split; [reflexivity|]. split; [reflexivity|exact Hv].
  - destruct HF as [|v sv vs svs Hv HF]; [exact I|]. destruct HF as [|v' sv' vs svs _ _]; [|exact I].
    apply (arity_some_false _ _ _ Ea). cbn [len]. lia.
Qed.

(** ** (b) count, sum *)
Lemma exec_count vs n c : exec_fn doc fn_count vs n c =
  (match vs with
   | XNodes l :: _ => Ok (XNum (f64_of_N (len l)))
   | _ :: _ => Err XErrInvalidType
   | [] => Panic end, c).
Proof. reflexivity. Qed.

Lemma s_call_count args n p s : s_call doc fn_count args n p s =
  match args with [SNodes l] => Some (SNum (f64_of_N (N.of_nat (length l)))) | _ => None end.
Proof. reflexivity. Qed.

Lemma call_count vs svs n c : Forall2 (vrel doc) vs svs -> call_ok fn_count vs svs n c 1 (Some 1).
Proof.
  intros HF. unfold call_ok. pose proof (one_arg vs svs HF) as H1. rewrite exec_count, s_call_count.
  destruct (arity_in (len vs) 1 (Some 1)).
  - destruct H1 as [v [sv [-> [-> Hv]]]].
    destruct v as [b|l|x|s], sv as [b'|x'|s'|l']; cbn [vrel] in Hv; try contradiction; try reflexivity.
    destruct Hv as [-> _]. cbn [rrel]. split; [reflexivity|]. eexists. split; [reflexivity|].
    cbn [vrel]. rewrite map_length, len_length. split; [reflexivity|apply valid_f64_of_N].
  - destruct svs as [|sv [|sv' t]]; [reflexivity|destruct H1|destruct sv; reflexivity].
Qed.

Definition sum_rows (l : list snode) (acc : f64) : f64 :=
  fold_left (fun s x => f64_add s (xp_string_to_number (s_string_value doc x))) l acc.

Lemma sum_nodes_spec l : Forall T l -> forall acc, sum_nodes doc acc l = Ok (sum_rows (map Row l) acc).
Proof.
  intros Hl. induction Hl as [|x t Tx Ht IH]; intros acc; [reflexivity|].
  cbn [sum_nodes map]. rewrite (sv_agrees doc Hinv Hshape x Tx), bind_ok, str_to_number_spec.
  rewrite IH. reflexivity.
Qed.

Lemma valid_sum_rows l : forall acc, fvalid acc -> fvalid (sum_rows l acc).
Proof.
  induction l as [|x t IH]; intros acc Hacc; [exact Hacc|]. unfold sum_rows. cbn [fold_left]. apply IH.
  apply valid_f64_add; [exact Hacc|apply valid_xp_string_to_number].
Qed.

Lemma exec_sum vs n c : exec_fn doc fn_sum vs n c =
  (match vs with
   | XNodes l :: _ => bind (sum_nodes doc f64_zero l) (fun s => Ok (XNum s))
   | _ :: _ => Err XErrInvalidType
   | [] => Panic end, c).
Proof. reflexivity. Qed.

Lemma s_call_sum args n p s : s_call doc fn_sum args n p s =
  match args with [SNodes l] => Some (SNum (sum_rows l f64_zero)) | _ => None end.
Proof. reflexivity. Qed.

Lemma call_sum vs svs n c : Forall2 (vrel doc) vs svs -> call_ok fn_sum vs svs n c 1 (Some 1).
Proof.
  intros HF. unfold call_ok. pose proof (one_arg vs svs HF) as H1. rewrite exec_sum, s_call_sum.
  destruct (arity_in (len vs) 1 (Some 1)).
  - destruct H1 as [v [sv [-> [-> Hv]]]].
    destruct v as [b|l|x|s], sv as [b'|x'|s'|l']; cbn [vrel] in Hv; try contradiction; try reflexivity.
    destruct Hv as [-> [_ Ht]]. rewrite (sum_nodes_spec l Ht), bind_ok. cbn [rrel]. split; [reflexivity|].
    eexists. split; [reflexivity|]. cbn [vrel]. split; [reflexivity|]. apply valid_sum_rows. apply valid_f64_zero.
  - destruct svs as [|sv [|sv' t]]; [reflexivity|destruct H1|destruct sv; reflexivity].
Qed.

(** ** (c) local-name, namespace-uri, name *)
Lemma name_of_T x : T x ->
  match XDoc.name_of doc x with
  | XNameErr => False
  | XNameNone => s_name doc (Row x) = None
  | XName l p u => s_name doc (Row x) = Some (l, norm_prefix p, u)
  end.
Proof.
  intros Tx. pose proof (TV x Tx) as Vx. destruct (Hnames x Vx) as [N1 [N2 N3]].
  assert (Hnone : kind doc x <> KElement -> kind doc x <> KAttribute -> kind doc x <> KPI -> kind doc x <> KNamespace ->
                  match XDoc.name_of doc x with
                  | XNameErr => False
                  | XNameNone => s_name doc (Row x) = None
                  | XName l p u => s_name doc (Row x) = Some (l, norm_prefix p, u)
                  end).
  { intros K1 K2 K3 K4. rewrite (N3 K1 K2 K3 K4). cbn [s_name].
    destruct (kind doc x); try reflexivity; contradiction. }
  destruct (T_kind doc Hinv Hshape x Tx) as [[_ Kr]|[[Ka _]|[Ka [Kd [Hnav _]]]]].
  - apply Hnone; rewrite Kr; discriminate.
  - specialize (N1 (or_intror Ka)). destruct (XDoc.name_of doc x); [destruct N1|destruct N1|exact N1].
  - destruct (kind doc x) eqn:Ek; try discriminate Hnav; try (apply Hnone; discriminate).
    + specialize (N1 (or_introl eq_refl)). destruct (XDoc.name_of doc x); [destruct N1|destruct N1|exact N1].
    + specialize (N2 eq_refl). cbn [s_name]. rewrite Ek. unfold row_name. unfold XDoc.name_of in *.
      destruct (n_name (getd doc x)) as [| |l p u]; [destruct N2|destruct N2|].
      destruct N2 as [-> ->]. reflexivity.
Qed.

Definition spec_name_str (which : N) (o : option (str * option str * option str)) : str :=
  if which =? 0 then match o with Some (l, _, _) => l | None => [] end
  else if which =? 1 then match o with Some (_, _, Some u) => u | _ => [] end
  else match o with
       | Some (l, Some p, _) => p ++ 58 :: l
       | Some (l, None, _) => l
       | None => [] end.

Lemma fn_names_node which x : T x ->
  match XDoc.name_of doc x with
  | XNameErr => Err XErrDom
  | XNameNone => Ok (XText [])
  | XName local prefix uri =>
      if which =? 0 then Ok (XText local)
      else if which =? 1 then Ok (XText (match uri with Some u => u | None => [] end))
      else match prefix with
           | Some p => if str_eqb p XPathEval.s_xmlns then Ok (XText local)
                       else Ok (XText (p ++ 58 :: local))
           | None => Ok (XText local)
           end
  end = Ok (XText (spec_name_str which (s_name doc (Row x)))).
Proof.
  intros Tx. pose proof (name_of_T x Tx) as H. unfold spec_name_str.
  destruct (XDoc.name_of doc x) as [| |l p u]; [rewrite H|destruct H|rewrite H].
  - destruct (which =? 0); [reflexivity|]. destruct (which =? 1); reflexivity.
  - destruct (which =? 0); [reflexivity|]. destruct (which =? 1); [destruct u; reflexivity|].
    destruct p as [p|]; [|reflexivity]. cbn [norm_prefix]. change XPathEval.s_xmlns with XPath10.s_xmlns.
    destruct (str_eqb p XPath10.s_xmlns); reflexivity.
Qed.

Lemma fn_names_agree which vs svs n : T n -> Forall2 (vrel doc) vs svs -> len vs <= 1 ->
  match fn_names doc which vs n with
  | Ok v => exists l, first_node_or svs (Row n) = Some l /\
                      v = XText (match l with x :: _ => spec_name_str which (s_name doc x) | [] => [] end)
  | _ => first_node_or svs (Row n) = None
  end.
Proof.
  intros Tn HF Hlen. unfold fn_names.
  assert (Hlist : forall l, Forall T l ->
    match (match l with
           | [] => Ok (XText [])
           | x :: _ =>
             match XDoc.name_of doc x with
             | XNameErr => Err XErrDom
             | XNameNone => Ok (XText [])
             | XName local prefix uri =>
                 if which =? 0 then Ok (XText local)
                 else if which =? 1 then Ok (XText (match uri with Some u => u | None => [] end))
                 else match prefix with
                      | Some p => if str_eqb p XPathEval.s_xmlns then Ok (XText local)
                                  else Ok (XText (p ++ 58 :: local))
                      | None => Ok (XText local)
                      end
             end
           end) with
    | Ok v => exists l', Some (map Row l) = Some l' /\
                         v = XText (match l' with x :: _ => spec_name_str which (s_name doc x) | [] => [] end)
    | _ => Some (map Row l) = None
    end).
  { intros l Hl. destruct Hl as [|x t Tx _]; [exists []; split; reflexivity|].
    rewrite (fn_names_node which x Tx). exists (Row x :: map Row t). split; reflexivity. }
  destruct HF as [|v sv vs svs Hv HF].
  - cbn [name_arg]. rewrite bind_ok. apply (Hlist [n]). constructor; [exact Tn|constructor].
  - destruct HF as [|v' sv' vs svs _ _]; [|cbn [len] in Hlen; lia].
    destruct v as [b|l|x|s], sv as [b'|x'|s'|l']; cbn [vrel] in Hv; try contradiction; try reflexivity.
    destruct Hv as [-> [_ Ht]]. cbn [name_arg first_node_or]. rewrite bind_ok. apply (Hlist l Ht).
Qed.

Lemma zero_one_args (vs : list xvalue) svs : Forall2 (vrel doc) vs svs ->
  if arity_in (len vs) 0 (Some 1) then len vs <= 1
  else first_node_or svs = fun _ => None.
Proof.
  intros HF. destruct (arity_in (len vs) 0 (Some 1)) eqn:Ea.
  - apply arity_some in Ea. lia.
  - destruct HF as [|v sv vs svs Hv HF]; [exfalso; apply (arity_some_false _ _ _ Ea); cbn [len]; lia|].
    destruct HF as [|v' sv' vs svs _ _]; [exfalso; apply (arity_some_false _ _ _ Ea); cbn [len]; lia|].
    cbn [first_node_or]. destruct sv; reflexivity.
Qed.

Lemma exec_local_name vs n c : exec_fn doc fn_local_name vs n c = (fn_names doc 0 vs n, c).
Proof. reflexivity. Qed.
Lemma exec_namespace_uri vs n c : exec_fn doc fn_namespace_uri vs n c = (fn_names doc 1 vs n, c).
Proof. reflexivity. Qed.
Lemma exec_name vs n c : exec_fn doc fn_name vs n c = (fn_names doc 2 vs n, c).
Proof. reflexivity. Qed.

Lemma s_call_local_name args n p s : s_call doc fn_local_name args n p s =
  match first_node_or args n with
  | Some (x :: _) => Some (SStr (spec_name_str 0 (s_name doc x)))
  | Some [] => Some (SStr [])
  | None => None end.
Proof. reflexivity. Qed.
Lemma s_call_namespace_uri args n p s : s_call doc fn_namespace_uri args n p s =
  match first_node_or args n with
  | Some (x :: _) => Some (SStr (spec_name_str 1 (s_name doc x)))
  | Some [] => Some (SStr [])
  | None => None end.
Proof. reflexivity. Qed.
Lemma s_call_name args n p s : s_call doc fn_name args n p s =
  match first_node_or args n with
  | Some (x :: _) => Some (SStr (spec_name_str 2 (s_name doc x)))
  | Some [] => Some (SStr [])
  | None => None end.
Proof. reflexivity. Qed.

Lemma names_finish which vs svs n c : T n -> Forall2 (vrel doc) vs svs ->
  if arity_in (len vs) 0 (Some 1)
  then rrel (vrel doc) c (fn_names doc which vs n, c)
         (match first_node_or svs (Row n) with
          | Some (x :: _) => Some (SStr (spec_name_str which (s_name doc x)))
          | Some [] => Some (SStr [])
          | None => None end)
  else match first_node_or svs (Row n) with
       | Some (x :: _) => Some (SStr (spec_name_str which (s_name doc x)))
       | Some [] => Some (SStr [])
       | None => None end = None.
Proof.
  intros Tn HF. pose proof (zero_one_args vs svs HF) as H01.
  destruct (arity_in (len vs) 0 (Some 1)).
  - pose proof (fn_names_agree which vs svs n Tn HF H01) as H.
    destruct (fn_names doc which vs n) as [v|e| |]; cbn [rrel]; try (rewrite H; reflexivity).
    destruct H as [l [-> ->]]. split; [reflexivity|]. destruct l as [|x t]; eexists; (split; [reflexivity|reflexivity]).
  - rewrite H01. reflexivity.
Qed.

Lemma call_local_name vs svs n c : T n -> Forall2 (vrel doc) vs svs -> call_ok fn_local_name vs svs n c 0 (Some 1).
Proof. intros Tn HF. unfold call_ok. rewrite exec_local_name, s_call_local_name. apply names_finish; assumption. Qed.
Lemma call_namespace_uri vs svs n c : T n -> Forall2 (vrel doc) vs svs -> call_ok fn_namespace_uri vs svs n c 0 (Some 1).
Proof. intros Tn HF. unfold call_ok. rewrite exec_namespace_uri, s_call_namespace_uri. apply names_finish; assumption. Qed.
Lemma call_name vs svs n c : T n -> Forall2 (vrel doc) vs svs -> call_ok fn_name vs svs n c 0 (Some 1).
Proof. intros Tn HF. unfold call_ok. rewrite exec_name, s_call_name. apply names_finish; assumption. Qed.

(** ** (d) lang *)
Definition lang_pred (a : node) : bool :=
  match row_name doc a with
  | Some (l, Some p) => str_eqb l s_lang && str_eqb p XPath10.s_xml
  | _ => false
  end.

Lemma find_xml_lang_spec l : Forall (valid doc) l -> find_xml_lang doc l = Ok (find lang_pred l).
Proof.
  intros Hl. induction Hl as [|a t Va Ht IH]; [reflexivity|].
  cbn [find_xml_lang find]. unfold lang_pred at 1. unfold row_name, XDoc.name_of.
  pose proof (wf_name doc Hwf a Va) as Hn.
  destruct (n_name (getd doc a)) as [| |local prefix uri]; [exact IH|contradiction|].
  destruct prefix as [p|]; [|exact IH].
  change fn_lang with s_lang. change XPathEval.s_xml with XPath10.s_xml.
  destruct (str_eqb p XPath10.s_xmlns) eqn:Ex.
  - apply str_eqb_true in Ex. subst p.
    replace (str_eqb local s_lang && str_eqb XPath10.s_xmlns XPath10.s_xml) with false
      by (rewrite andb_comm; reflexivity).
    exact IH.
  - destruct (str_eqb local s_lang && str_eqb p XPath10.s_xml); [reflexivity|exact IH].
Qed.

Lemma xml_lang_of_spec i : valid doc i ->
  xml_lang_of doc (Row i) = option_map (row_data doc) (find lang_pred (attributes doc i)).
Proof.
  intros Vi. unfold xml_lang_of. destruct (nkind_eqb (kind doc i) KElement) eqn:Ek.
  - reflexivity.
  - apply nkind_eqb_false in Ek. rewrite (sh_attrs doc Hshape i Vi Ek). reflexivity.
Qed.

Lemma str_prefix_prefixb : forall p s, str_prefix p s = prefixb p s.
Proof. reflexivity. Qed.

Definition lang_first (l : list snode) : list str :=
  flat_map (fun m => match xml_lang_of doc m with Some v => [v] | None => [] end) l.

Lemma lang_step name arg fuel (i : node) : valid doc i -> name = map ascii_lower arg ->
  lang_fuel doc (S fuel) name (Some i) =
  match xml_lang_of doc (Row i) with
  | Some v => Ok (lang_matches v arg)
  | None => lang_fuel doc fuel name (xp_parent doc i)
  end.
Proof.
  intros Vi ->. cbn [lang_fuel].
  assert (Hattrs : Forall (valid doc) (attributes doc i)).
  { apply Forall_forall. intros a Ha. apply (wf_attrs doc Hwf i a Vi Ha). }
  rewrite (find_xml_lang_spec _ Hattrs), bind_ok, (xml_lang_of_spec i Vi).
  destruct (find lang_pred (attributes doc i)) as [a|] eqn:Ef; cbn [option_map]; [|reflexivity].
  apply find_some in Ef. destruct Ef as [Ha _]. rewrite Forall_forall in Hattrs.
  pose proof (wf_data doc Hwf a (Hattrs a Ha)) as Hd. unfold row_data.
  unfold lang_matches. change lower with ascii_lower.
  destruct (n_data (getd doc a)) as [| |s]; [contradiction| |]; cbn [data_res]; rewrite bind_ok, str_prefix_prefixb; reflexivity.
Qed.

Lemma lang_chain name arg : name = map ascii_lower arg ->
  forall i al, chain doc i al -> T i -> forall fuel, (N.to_nat i < fuel)%nat ->
  lang_fuel doc fuel name (Some i) =
  Ok (match lang_first (map Row (i :: al)) with v :: _ => lang_matches v arg | [] => false end).
Proof.
  intros Hname i al Hc. induction Hc as [i E|i p al E Hc IH]; intros Ti fuel Hlt.
  - destruct fuel as [|f]; [lia|]. rewrite (lang_step name arg f i (TV i Ti) Hname).
    unfold lang_first. cbn [map flat_map]. unfold xp_parent. rewrite E.
    destruct (xml_lang_of doc (Row i)) as [v|]; [reflexivity|]. destruct f; reflexivity.
  - destruct fuel as [|f]; [lia|]. rewrite (lang_step name arg f i (TV i Ti) Hname).
    destruct (T_parent_T doc Hinv Hshape i p Ti E) as [Tp _].
    destruct (wf_parent doc Hwf i p (TV i Ti) E) as [_ Hpi].
    unfold lang_first. cbn [map flat_map]. unfold xp_parent. rewrite E.
    destruct (xml_lang_of doc (Row i)) as [v|]; [reflexivity|]. cbn [app].
    apply IH; [exact Tp|lia].
Qed.

Lemma lang_agrees n arg : T n ->
  lang_fuel doc (nav_fuel doc) (map ascii_lower arg) (Some n) = Ok (s_lang_fn doc (Row n) arg).
Proof.
  intros Tn. destruct (ancestor_ok_chain doc Hinv Hshape n Tn) as [al [Ea Hc]].
  unfold s_lang_fn. rewrite (spec_ancestors doc Hinv Hshape n al Tn Ea).
  apply (lang_chain _ arg eq_refl n al Hc Tn). pose proof (TV n Tn) as V. unfold valid in V. unfold nav_fuel. lia.
Qed.

Lemma exec_lang vs n c : exec_fn doc fn_lang vs n c =
  (match vs with
   | a :: _ => bind (val_to_string doc a) (fun s =>
               bind (lang_fuel doc (nav_fuel doc) (map ascii_lower s) (Some n)) (fun b => Ok (XBool b)))
   | [] => Panic end, c).
Proof. reflexivity. Qed.

Lemma s_call_lang args n p s : s_call doc fn_lang args n p s =
  match args with [a] => Some (SBool (s_lang_fn doc n (s_string doc a))) | _ => None end.
Proof. reflexivity. Qed.

Lemma call_lang vs svs n c : T n -> Forall2 (vrel doc) vs svs ->
  (forall v, nth_error vs 0 = Some v -> not_negzero v) ->
  call_ok fn_lang vs svs n c 1 (Some 1).
Proof.
  intros Tn HF Hnz. unfold call_ok. pose proof (one_arg vs svs HF) as H1. rewrite exec_lang, s_call_lang.
  destruct (arity_in (len vs) 1 (Some 1)).
  - destruct H1 as [v [sv [-> [-> Hv]]]].
    rewrite (val_to_string_agrees doc Hinv Hshape v sv Hv (Hnz v eq_refl)), bind_ok.
    rewrite (lang_agrees n _ Tn), bind_ok. cbn [rrel]. split; [reflexivity|].
    eexists. split; [reflexivity|]. reflexivity.
  - destruct svs as [|sv [|sv' t]]; [reflexivity|destruct H1|reflexivity].
Qed.

(** ** (e) the functions that do not look at the document *)
Definition scalar_part (local : str) (args : list xvalue) (n : node) : res xvalue :=
  let need := negb (str_eqb local fn_boolean || str_eqb local fn_not) in
  bind (to_scalars doc need args) (fun sargs =>
  bind (match args with
        | [] => if uses_ctx_sv local then string_value doc n else Ok []
        | _ => Ok [] end) (fun ctx_sv =>
  match scalar_fn ctx_sv local sargs with
  | ROk v => Ok (of_scalar v)
  | RErr EInvalidType => Err XErrInvalidType
  | RErr EInvalidArgumentCount => Err (XErrInvalidArgumentCount local)
  | RErr ENotFoundFunction => Err (XErrNotFoundFunction local)
  | RPanic => Panic
  | RNeedsNode => Panic
  end)).

Lemma exec_fn_scalar id vs n c : is_scalar_id id = true ->
  exec_fn doc (name_of id) vs n c = (scalar_part (name_of id) vs n, c).
Proof. destruct id; intros H; try discriminate H; reflexivity. Qed.

Lemma s_call_scalar id svs n p s : is_scalar_id id = true ->
  s_call doc (name_of id) svs n p s =
  match spec_fn (s_string_value doc n) (name_of id) (map (to_core doc) svs) with
  | ROk v => Some (of_core v)
  | _ => None
  end.
Proof. destruct id; intros H; try discriminate H; reflexivity. Qed.

Lemma to_scalar_ok need v sv : vrel doc v sv ->
  exists a, to_scalar doc need v = Ok a /\ srel need a (to_core doc sv) /\ fvalid (xp_number a) /\
            (not_negzero v -> is_negzero a = false).
Proof.
  destruct v as [b|l|x|s], sv as [b'|x'|s'|l']; cbn [vrel]; try contradiction.
  - intros ->. exists (VBool b'). split; [reflexivity|]. split; [split; [reflexivity|intros _; split; reflexivity]|].
    split; [destruct b'; reflexivity|reflexivity].
  - intros [-> [_ Ht]]. rewrite to_core_nodes. destruct l as [|i t].
    + exists (VNodes []). split; [reflexivity|]. split; [split; [reflexivity|intros _; split; reflexivity]|].
      split; [apply valid_xp_string_to_number|reflexivity].
    + inversion Ht as [|i' t' Ti _]; subst. cbn [to_scalar]. destruct need.
      * rewrite (sv_agrees doc Hinv Hshape i Ti), bind_ok. eexists. split; [reflexivity|].
        split; [split; [reflexivity|intros _; split; reflexivity]|].
        split; [apply valid_xp_string_to_number|reflexivity].
      * eexists. split; [reflexivity|]. split; [split; [reflexivity|discriminate]|].
        split; [apply valid_xp_string_to_number|reflexivity].
  - intros [-> Hx]. exists (VNum x'). split; [reflexivity|]. split; [split; [reflexivity|intros _; split; reflexivity]|].
    split; [exact Hx|]. cbn [not_negzero is_negzero]. destruct x' as [[|]| | |]; try reflexivity. intros [].
  - intros ->. exists (VStr s'). split; [reflexivity|]. split; [split; [reflexivity|intros _; split; reflexivity]|].
    split; [apply valid_xp_string_to_number|reflexivity].
Qed.

Lemma to_scalars_ok need : forall vs svs, Forall2 (vrel doc) vs svs ->
  exists margs, to_scalars doc need vs = Ok margs /\
    Forall2 (srel need) margs (map (to_core doc) svs) /\ valid_numbers margs /\
    forall id k, (forall i v, nth_error vs i = Some v -> str_param id (k + i) = true -> not_negzero v) ->
                 negzero_at id k margs = false.
Proof.
  intros vs svs HF. induction HF as [|v sv vs svs Hv HF IH].
  - exists []. split; [reflexivity|]. split; [constructor|]. split; [constructor|]. reflexivity.
  - destruct (to_scalar_ok need v sv Hv) as [a [Ea [Hrel [Hval Hnz]]]].
    destruct IH as [margs [Em [Hrels [Hvals Hnzs]]]].
    exists (a :: margs). cbn [to_scalars]. rewrite Ea, bind_ok, Em, bind_ok.
    split; [reflexivity|]. split; [cbn [map]; constructor; assumption|]. split; [constructor; assumption|].
    intros id k H. cbn [negzero_at]. apply orb_false_iff. split.
    + destruct (str_param id k) eqn:Ep; [|reflexivity]. cbn [andb]. apply Hnz.
      apply (H O v eq_refl). rewrite Nat.add_0_r. exact Ep.
    + apply Hnzs. intros i w Hi Hp. apply (H (S i) w Hi). rewrite Nat.add_succ_r. exact Hp.
Qed.

Lemma vrel_of_scalar cs id args v : is_scalar_id id = true -> valid_numbers args ->
  spec_call cs id args = ROk v -> vrel doc (of_scalar v) (of_core v).
Proof.
  intros Hsc Hv E. destruct v as [b|x|s|l]; cbn [of_scalar of_core vrel]; try reflexivity.
  - split; [reflexivity|]. apply (spec_call_num_valid cs id args x Hsc Hv E).
  - split; [reflexivity|]. split; constructor.
Qed.

Lemma call_scalar id vs svs n c mn mx : is_scalar_id id = true -> T n -> Forall2 (vrel doc) vs svs ->
  lookup_arity (name_of id) arity_table = Some (mn, mx) ->
  (forall i v, nth_error vs i = Some v -> str_param id i = true -> not_negzero v) ->
  call_ok (name_of id) vs svs n c mn mx.
Proof.
  intros Hsc Tn HF El Hnz. unfold call_ok. rewrite (exec_fn_scalar id vs n c Hsc), (s_call_scalar id svs _ _ _ Hsc).
  unfold spec_fn. rewrite fname_of_name_of, El.
  assert (Elen : N.of_nat (length (map (to_core doc) svs)) = len vs).
  { rewrite map_length, <- (F2_length HF), len_length. reflexivity. }
  rewrite Elen. destruct (arity_in (len vs) mn mx) eqn:Ea; [|reflexivity].
  unfold scalar_part. rewrite (need_name id Hsc), uses_ctx_name.
  destruct (to_scalars_ok (need_id id) vs svs HF) as [margs [Em [Hrels [Hvals Hnzs]]]].
  rewrite Em, bind_ok.
  assert (Hlm : length margs = length vs).
  { rewrite (F2_length Hrels), map_length. symmetry. apply (F2_length HF). }
  assert (Hcs : exists cs, match vs with
                           | [] => if uses4 id then string_value doc n else Ok []
                           | _ => Ok [] end = Ok cs /\
                           (margs = [] -> uses4 id = true -> cs = s_string_value doc (Row n))).
  { destruct vs as [|v vs'].
    - destruct (uses4 id).
      + exists (s_string_value doc (Row n)). split; [apply (sv_agrees doc Hinv Hshape n Tn)|reflexivity].
      + exists []. split; [reflexivity|discriminate].
    - exists []. split; [reflexivity|]. intros ->. discriminate Hlm. }
  destruct Hcs as [cs [Ecs Hcs]]. rewrite Ecs, bind_ok.
  rewrite (scalar_fn_model_call id cs margs Hsc).
  assert (Ea' : arity_in (N.of_nat (length margs)) mn mx = true) by (rewrite Hlm, <- len_length; exact Ea).
  assert (Hneg : negzero_at id 0 margs = false) by (apply Hnzs; exact Hnz).
  rewrite (call_refines_scalar cs id margs mn mx Hsc El Ea' Hvals Hneg).
  rewrite <- (spec_call_ext cs (s_string_value doc (Row n)) id margs (map (to_core doc) svs) Hsc Hrels Hcs).
  destruct (spec_call cs id margs) as [v|e| |] eqn:Er; cbn [rrel].
  - split; [reflexivity|]. exists (of_core v). split; [reflexivity|].
    apply (vrel_of_scalar cs id margs v Hsc Hvals Er).
  - destruct e; reflexivity.
  - reflexivity.
  - reflexivity.
Qed.

(** ** (f) names that are not in the table *)
Lemma s_call_unknown name svs n p s : lookup_arity name arity_table = None -> s_call doc name svs n p s = None.
Proof.
  intros H. unfold s_call.
  destruct (str_eqb name s_fn_last) eqn:E1; [apply str_eqb_true in E1; subst name; vm_compute in H; discriminate H|].
  destruct (str_eqb name s_fn_position) eqn:E2; [apply str_eqb_true in E2; subst name; vm_compute in H; discriminate H|].
  destruct (str_eqb name s_fn_count) eqn:E3; [apply str_eqb_true in E3; subst name; vm_compute in H; discriminate H|].
  destruct (str_eqb name s_fn_sum) eqn:E4; [apply str_eqb_true in E4; subst name; vm_compute in H; discriminate H|].
  destruct (str_eqb name s_fn_id) eqn:E5; [reflexivity|].
  destruct (str_eqb name s_fn_local_name) eqn:E6; [apply str_eqb_true in E6; subst name; vm_compute in H; discriminate H|].
  destruct (str_eqb name s_fn_namespace_uri) eqn:E7; [apply str_eqb_true in E7; subst name; vm_compute in H; discriminate H|].
  destruct (str_eqb name s_fn_name) eqn:E8; [apply str_eqb_true in E8; subst name; vm_compute in H; discriminate H|].
  destruct (str_eqb name s_fn_lang) eqn:E9; [apply str_eqb_true in E9; subst name; vm_compute in H; discriminate H|].
  unfold spec_fn. rewrite H. destruct (fname_of name library); reflexivity.
Qed.

(** ** the theorem *)
Theorem call_agrees : forall (ns : list (option str * str)) (name : str) (vs : list xvalue) (svs : list sval) (n : node) (c : ctx),
  ns_lookup ns None = None -> c_ns c = ns -> T n -> Forall2 (vrel doc) vs svs ->
  str_eqb name fn_id = false ->
  (forall i v, nth_error vs i = Some v -> fn_str_param name i = true -> not_negzero v) ->
  match resolve_fn ns (QUnprefixed name) (len vs) with
  | Ok local => local = name /\
      rrel (vrel doc) c (exec_fn doc local vs n c) (s_call doc name svs (Row n) (get_position c) (get_size c))
  | _ => s_call doc name svs (Row n) (get_position c) (get_size c) = None
  end.
Proof.
  intros ns name vs svs n c Hns _ Tn HF Hid Hnz. rewrite (resolve_unprefixed ns name (len vs) Hns).
  destruct (lookup_arity name arity_table) as [[mn mx]|] eqn:El; [|apply s_call_unknown; exact El].
  destruct (lookup_arity_fname name library (mn, mx) El) as [id Hfn].
  pose proof (fname_of_is_name name id Hfn) as ->.
  assert (Hok : call_ok (name_of id) vs svs n c mn mx).
  { unfold fn_str_param in Hnz. rewrite Hfn in Hnz.
    destruct (is_scalar_id id) eqn:Hsc.
    - apply (call_scalar id vs svs n c mn mx Hsc Tn HF El). intros i v Hi Hp. apply (Hnz i v Hi).
      destruct id; try discriminate Hsc; exact Hp.
    - destruct id; try discriminate Hsc; vm_compute in El; injection El as <- <-.
      + apply call_last; exact HF.
      + apply call_position; exact HF.
      + apply call_count; exact HF.
      + discriminate Hid.
      + apply call_local_name; assumption.
      + apply call_namespace_uri; assumption.
      + apply call_name; assumption.
      + apply call_lang; [exact Tn|exact HF|]. intros v Hv. apply (Hnz O v Hv). reflexivity.
      + apply call_sum; exact HF. }
  unfold call_ok in Hok. destruct (arity_in (len vs) mn mx); [split; [reflexivity|exact Hok]|exact Hok].
Qed.

End Fn.

Print Assumptions call_agrees.
