"""Shared by C12 / C14 (and usable by C13 / C15): the `dom` correspondence domain seen from python.

* case construction and parsing of the one-line output of harness/src/domains/dom.rs and
  ocaml/domains/dom/dom.ml (same format, compared as strings record by record);
* the PROPERTY ORACLES evaluated directly on the implementation's dump:
  `c12_violations(rec)` (navigation agreement, tree shape) and `c14_violations(rec)` (order keys
  against an independent pre-order walk of the dumped tree);
* history generators: single-call matrix, exhaustive short histories, seeded random histories
  grown in lock-step with the implementation so that handle choices can be aimed at
  self / ancestor / sibling / detached / foreign nodes;
* delta-debugging shrinker and known-finding classifiers.
"""
import hashlib, json, os, time
from . import lib

enc, dec = lib.enc, lib.dec

# ------------------------------------------------------------------ cases
def mkop(op):
    """('AC', 1, 2) / ('CE', 0, 'name') -> 'AC:1:2' / 'CE:0:110,97,109,101' (ints stay, strings are encoded)"""
    out = [op[0]]
    for x in op[1:]:
        out.append(str(x) if isinstance(x, int) else ('max' if x is None else enc(x)))
    return ':'.join(out)

def mkcase(docs, ops, view='r'):
    return ' '.join([view, str(len(docs))] + [enc(d) for d in docs] + [mkop(o) for o in ops])

def show_op(op):
    return '%s(%s)' % (op[0], ', '.join(repr(x) for x in op[1:]))

class Node:
    __slots__ = ('h', 'kind', 'name', 'data', 'p', 'c', 'f', 'l', 'pv', 'nx', 'k', 'a', 'n', 'ow', 'm', 'mf')
    def __repr__(self):
        return 'Node(%s %s %r p=%s c=%s k=%s)' % (self.h, self.kind, self.name, self.p, self.c, self.k)

def _h(s):
    """handle field: '~' -> None, '12' -> 12, '*12' -> ('x', 12), '?' -> '?'"""
    if s == '~': return None
    if s == '?' or s == '*?': return '?'
    if s.startswith('*'): return ('x', int(s[1:]))
    return int(s)

def _hl(s):
    return [] if s == '-' else [_h(x) for x in s.split('.')]

class Rec:
    """one record: result of an op + dump"""
    def __init__(self, text):
        head, _, d = text.partition(' # ')
        self.text = text
        self.head = head
        self.result = head.split(' ')[0]
        self.dump = d
        self.nodes = {}
        self.serial = {}
        self.bad = None
        self.skipped = (d == '-')
        if self.skipped:
            return
        if d in ('', 'dump-panic'):
            self.bad = d or 'no-dump'
            return
        self.cycle = None
        for w in d.split(' '):
            if w[0] == 'S':
                k, _, v = w.partition('=')
                self.serial[int(k[1:])] = v
                continue
            if w.startswith('cycle='):
                # degraded dump of a state in which node <h> is beneath itself (harness find_cycle)
                self.cycle = int(w[6:])
                continue
            f = w.split('/')
            n = Node()
            h, _, kind = f[0].partition('=')
            n.h, n.kind, n.name, n.data = int(h), kind, f[1], f[2]
            n.a = n.n = n.m = None; n.ow = None; n.mf = None
            for x in f[3:]:
                key, _, v = x.partition('=')
                if key == 'p': n.p = _h(v)
                elif key == 'c': n.c = _hl(v)
                elif key == 'f': n.f = _h(v)
                elif key == 'l': n.l = _h(v)
                elif key == 'pv': n.pv = _h(v)
                elif key == 'nx': n.nx = _h(v)
                elif key == 'k': n.k = int(v)
                elif key == 'a': n.a = _hl(v)
                elif key == 'n': n.n = _hl(v)
                elif key == 'ow': n.ow = _h(v)
                elif key == 'm':
                    n.m = [] if v == '-' else [tuple(_h(y) for y in it.split(':')) for it in v.split(';')]
                elif key == 'mf':
                    n.mf = tuple(_h(y) for y in v.split(':'))
            self.nodes[n.h] = n

def parse_line(line):
    """one output line -> list of Rec (record 0 = init), or None when the case was not run"""
    if ' # ' not in line:
        return None
    return [Rec(r) for r in line.split(' | ')]

def init_desc(line):
    """the description of the parsed documents (fed to the model driver)"""
    head = line.split(' | ')[0].partition(' # ')[0]
    return head[len('init '):]

def table_facts(line):
    """`F<i>:<facts>` per X op (record i + 1 of the implementation's line): the string facts of
    Model/StoreView.v (normalised attribute values, replacement texts of entity references, by handle)
    that the model driver needs to print the table of the same state"""
    out = []
    if ' | x:' not in line:
        return out
    for i, r in enumerate(line.split(' | ')[1:]):
        if r.startswith('x:'):
            f = r.partition(' ')[0].split(':')
            if len(f) >= 4:
                out.append('F%d:%s' % (i, f[2]))
    return out

def model_case(case, init, impl_line=None):
    """model driver input: the case + the implementation's description of the parsed documents
    (+ the string facts of the X ops, see table_facts)"""
    w = case.split(' ')
    nd = int(w[1])
    desc = init.replace(' ', ';')
    if impl_line is not None:
        tf = table_facts(impl_line)
        if tf:
            desc += ';' + ';'.join(tf)
    return ' '.join(w[:2] + ['@' + desc] + w[2 + nd:])

# ------------------------------------------------------------------ C12 oracle
TEXTISH = ('tx', 'cd', 'cr', 'er')

def owner_doc(rec, h):
    """document handle (kind doc) at the top of the parent chain read off the CHILD LISTS"""
    return None

def child_owner(rec):
    """child handle -> list of owners (from every c-list, every a-list, every n-list)"""
    own = {}
    for n in rec.nodes.values():
        for x in n.c:
            own.setdefault(x, []).append(('c', n.h))
        for x in (n.a or []):
            own.setdefault(x, []).append(('a', n.h))
        for x in (n.n or []):
            own.setdefault(x, []).append(('n', n.h))
    return own

def c12_violations(rec):
    """navigation-agreement clauses of C12 on one dump -> list of (clause, detail)"""
    v = []
    if rec.skipped:
        return []
    if rec.bad:
        return [('dump', rec.bad)]
    N = rec.nodes
    own = child_owner(rec)
    if getattr(rec, 'cycle', None) is not None:
        v.append(('cycle', 'node %d is beneath itself (reported by the harness; degraded dump)' % rec.cycle))
    for n in N.values():
        # unknown nodes reachable through navigation
        for fld in ('p', 'f', 'l', 'pv', 'nx'):
            if getattr(n, fld) == '?':
                v.append(('unknown-node', '%d.%s is a node that is in no handle/child list' % (n.h, fld)))
        if '?' in n.c:
            v.append(('unknown-node', 'child list of %d' % n.h))
        c = n.c
        # every listed child reports this parent
        for i, x in enumerate(c):
            if x == '?' or x not in N: continue
            cn = N[x]
            if cn.p != n.h:
                v.append(('child-parent', 'node %d is in child_nodes of %d but parent_node = %s' % (x, n.h, cn.p)))
            want_pv = c[i - 1] if i > 0 else None
            want_nx = c[i + 1] if i + 1 < len(c) else None
            if cn.pv != want_pv:
                v.append(('previous-sibling', 'node %d: previous_sibling = %s, child list of %d says %s' % (x, cn.pv, n.h, want_pv)))
            if cn.nx != want_nx:
                v.append(('next-sibling', 'node %d: next_sibling = %s, child list of %d says %s' % (x, cn.nx, n.h, want_nx)))
        if n.f != (c[0] if c else None):
            v.append(('first-child', 'node %d: first_child = %s, child list %s' % (n.h, n.f, c)))
        if n.l != (c[-1] if c else None):
            v.append(('last-child', 'node %d: last_child = %s, child list %s' % (n.h, n.l, c)))
        if len(set(c)) != len(c):
            v.append(('twice', 'child list of %d lists a node twice: %s' % (n.h, c)))
        # a node that reports a parent is listed by that parent (a removed node has no parent)
        if n.p is not None and n.p != '?':
            if n.p not in N or n.h not in N[n.p].c:
                v.append(('parent-child', 'node %d reports parent %s which does not list it' % (n.h, n.p)))
        elif n.p is None and n.kind not in ('at',):
            if n.pv is not None or n.nx is not None:
                v.append(('orphan-sibling', 'node %d has no parent but previous/next sibling %s/%s' % (n.h, n.pv, n.nx)))
        if n.kind == 'at' and (n.p is not None or n.pv is not None or n.nx is not None):
            v.append(('attr-nav', 'attribute %d reports parent/sibling %s/%s/%s' % (n.h, n.p, n.pv, n.nx)))
        if n.kind == 'at':
            listed_by = [o for (w, o) in own.get(n.h, []) if w in ('a', 'n')]
            if n.ow is not None and n.ow not in listed_by:
                v.append(('attr-owner', 'attribute %d has owner element %s which does not list it' % (n.h, n.ow)))
            if n.ow is None and listed_by:
                v.append(('attr-owner', 'attribute %d is listed by element %s but has no owner element' % (n.h, listed_by)))
        # the document: at most one element, one doctype
        if n.kind == 'doc':
            ne = sum(1 for x in c if x in N and N[x].kind == 'el')
            nt = sum(1 for x in c if x in N and N[x].kind == 'dt')
            if ne > 1: v.append(('two-elements', 'document %d has %d element children' % (n.h, ne)))
            if nt > 1: v.append(('two-doctypes', 'document %d has %d doctype children' % (n.h, nt)))
        # merged view agrees with the raw list
        if n.kind == 'el' and n.m is not None:
            want = []
            run = False
            for x in c:
                if x in N and N[x].kind in TEXTISH:
                    if not run:
                        want.append(('x', x)); run = True
                else:
                    want.append(x); run = False
            got = [it[0] for it in n.m]
            if got != want:
                v.append(('merged-list', 'element %d: merged child list %s, raw list gives %s' % (n.h, got, want)))
            if n.mf is not None and (n.mf[0] != (got[0] if got else None) or n.mf[1] != (got[-1] if got else None)):
                v.append(('merged-first-last', 'element %d: first_child / last_child in the merged-text view = %s / %s, merged child list %s' % (n.h, n.mf[0], n.mf[1], got)))
            else:
                for i, it in enumerate(n.m):
                    wp = n.h
                    wpv = got[i - 1] if i > 0 else None
                    wnx = got[i + 1] if i + 1 < len(got) else None
                    if it[1] != wp or it[2] != wpv or it[3] != wnx:
                        v.append(('merged-nav', 'element %d merged child %s: parent/prev/next = %s/%s/%s, list says %s/%s/%s'
                                  % (n.h, it[0], it[1], it[2], it[3], wp, wpv, wnx)))
    # no node in two lists (children, attribute lists)
    for x, owners in own.items():
        if len(owners) > 1 and x != '?':
            v.append(('two-owners', 'node %s is listed by %s' % (x, owners)))
    # no node beneath itself
    state = {}
    def dfs(h, path):
        if state.get(h) == 2: return
        if state.get(h) == 1:
            v.append(('cycle', 'node %d is beneath itself (%s)' % (h, path))); return
        state[h] = 1
        n = N.get(h)
        if n:
            for x in list(n.c) + list(n.a or []) + list(n.n or []):
                if x != '?' and x in N:
                    dfs(x, path + [x])
        state[h] = 2
    for h in sorted(N):
        dfs(h, [h])
    return v

# ------------------------------------------------------------------ C14 oracle
def preorder(rec, root):
    """element, namespace attributes, other attributes (each followed by its value items), children"""
    out, seen = [], set()
    def go(h):
        if h in seen or h not in rec.nodes: return
        seen.add(h); out.append(h)
        n = rec.nodes[h]
        for a in (n.n or []) + (n.a or []):
            go(a)
        for x in n.c:
            if x != '?': go(x)
    go(root)
    return out

def c14_violations(rec):
    """keys of attached nodes: non-zero, distinct, strictly increasing along the pre-order walk; detached: 0"""
    if rec.skipped:
        return []
    if rec.bad:
        return [('dump', rec.bad)]
    v = []
    N = rec.nodes
    attached = set()
    for n in N.values():
        if n.kind == 'doc':
            walk = preorder(rec, n.h)
            attached.update(walk)
            last = 0
            for h in walk:
                k = N[h].k
                if k == 0:
                    v.append(('zero-key', 'node %d (%s) is attached to document %d and has order key 0' % (h, N[h].kind, n.h)))
                elif k <= last:
                    v.append(('not-increasing', 'node %d (%s): key rank %d after rank %d along the pre-order walk of document %d' % (h, N[h].kind, k, last, n.h)))
                last = max(last, k)
    for n in N.values():
        if n.h not in attached and n.kind != 'fr' and n.k != 0:
            v.append(('detached-key', 'node %d (%s) is not attached to a document but has order key rank %d' % (n.h, n.kind, n.k)))
    return v

def query_violation(rec):
    """`Q` op: node-set on the edited document vs on the re-parse of its serialisation, as pre-order ranks"""
    if not rec.result.startswith('q:'):
        return None
    parts = rec.result[2:].split(';')
    a, _, b = parts[0].partition('/')
    a2, _, b2 = (parts[1] if len(parts) > 1 else parts[0]).partition('/')
    has_empty = len(parts) > 2 and parts[2] == 'e1'
    shared = next((x[1:] for x in parts[3:] if x.startswith('s')), None)
    if shared is not None and shared != a:
        return ('query-shared-context', 'with the evaluation context the earlier queries of this history used the edited document selects ranks %s, with a fresh context %s' % (shared, a))
    raw = next((x[1:] for x in parts[3:] if x.startswith('r')), None)
    for label, v in (('merged-text', a), ('raw', raw)):
        if v and v != '-' and v not in ('scalar', 'err', 'panic') and '?' not in v:
            rk = [int(x) for x in v.split('.')]
            if any(y <= x for x, y in zip(rk, rk[1:])):
                return ('query-order', 'node-set on the edited document (%s view) is not in document order / has duplicates: ranks %s' % (label, v))
    if b == 'noparse':
        return None
    if a == b:
        return None
    if has_empty:
        return ('query-empty-text', 'edited document (which holds a text node without characters) selects ranks %s, re-parsed serialisation selects %s%s'
                % (a, b, '; equal once such nodes are ignored' if a2 == b2 else ''))
    return ('query', 'edited document selects ranks %s, re-parsed serialisation selects %s' % (a, b))

# ------------------------------------------------------------------ the table tie (X ops, Model/StoreView.v)
TABLE_FIELDS = ('kind', 'id', 'key', 'parent', 'children', 'attrs', 'nss', 'name', 'data')

def parse_table(word):
    """`<n>+<row>+...` -> list of rows (9 fields each) | None (builder panicked / malformed)"""
    f = word.split('+')
    if not f[0].isdigit():
        return None
    rows = [r.split(';') for r in f[1:]]
    if len(rows) != int(f[0]) or any(len(r) != 9 for r in rows):
        return None
    return rows

def show_row(r):
    if r is None:
        return '<no such row>'
    def txt(x):
        return x if x in ('-', '~', '!', 'E') else repr(dec(x))
    nm = r[7] if r[7] in ('!', 'E') else '/'.join(txt(x) for x in r[7].split('/'))
    return '%s id=%s key=%s parent=%s children=%s attrs=%s nss=%s name=%s data=%s' % (r[0], r[1], r[2], r[3], r[4], r[5], r[6], nm, txt(r[8]))

def table_limit(facts, rows):
    """the known limits of the view of Model/StoreView.v, decided on the IMPLEMENTATION's table: reason | None"""
    if any(r[0] == 'At' and r[1] == '~' for r in rows):
        return 'dtd-default-attribute'          # materialised default (id 0): outside the store model
    if any(r[6] == 'E' or r[7] == 'E' or r[8] == 'E' for r in rows):
        # DataErr / XNameErr / n_nss = None in the table itself.  A failing FACT alone (`r<h>=E`: the reference is not
        # part of a merged text of this table, e.g. raw view) is no reason to skip: the model does not use it then
        return 'failing-string-observation'
    return None

def table_tie(impl_line, model_line):
    """the X ops of one history: [(record index, view, status, detail)], status =
    'equal' | 'equal-no-document-element' | 'skip:<limit>' | 'skip:history-diverged' | 'diff';
    detail = (rows compared) for equal, a dict describing the first differing row for diff"""
    out = []
    a, b = impl_line.split(' | '), model_line.split(' | ')
    if not any(r.startswith('x:') for r in a):
        return out
    mm = first_mismatch(impl_line, model_line)
    for i, x in enumerate(a):
        if not x.startswith('x:'):
            continue
        fx = x.partition(' ')[0].split(':')
        view = fx[1] if len(fx) > 1 else '?'
        if mm is not None and mm < i:
            out.append((i, view, 'skip:history-diverged', None)); continue
        y = b[i] if i < len(b) else '<missing>'
        fy = y.partition(' ')[0].split(':')
        ti = parse_table(fx[3]) if len(fx) == 4 else None
        tm = parse_table(fy[2]) if len(fy) == 3 and fy[0] == 'x' and fy[1] == view else None
        if ti is None or tm is None:
            out.append((i, view, 'diff', {'row': None, 'field': 'table', 'impl': (fx[3] if len(fx) == 4 else x)[:200], 'model': y.partition(' ')[0][:200]}))
            continue
        lim = table_limit(fx[2], ti)
        if lim:
            out.append((i, view, 'skip:' + lim, len(ti))); continue
        d = None
        for k in range(max(len(ti), len(tm))):
            ri = ti[k] if k < len(ti) else None
            rm = tm[k] if k < len(tm) else None
            if ri != rm:
                fld = 'row-count' if ri is None or rm is None else next(TABLE_FIELDS[j] for j in range(9) if ri[j] != rm[j])
                d = {'row': k, 'field': fld, 'impl': show_row(ri), 'model': show_row(rm), 'rows_impl': len(ti), 'rows_model': len(tm)}
                break
        if d is not None:
            out.append((i, view, 'diff', d)); continue
        has_root = any(r[0] == 'El' and r[3] == '0' for r in ti)
        out.append((i, view, 'equal' if has_root else 'equal-no-document-element', len(ti)))
    return out

def with_tables(ops, every=4, docs=1):
    """X ops (both views, every document) after every `every`-th op and at the end of the history"""
    xs = [('X', d, v) for d in range(docs) for v in (0, 1)]
    out = []
    for i, o in enumerate(ops):
        out.append(o)
        if (i + 1) % every == 0 and i + 1 < len(ops):
            out += xs
    return out + xs

def analyse_tables(cases, impl_lines, model_lines, T, tag):
    """cases: (docs, ops, view) whose ops hold X ops; T: the 'tables' summary"""
    H = T['hist']
    seen = T.setdefault('_seen', set())
    for (docs, ops, view), il, ml in zip(cases, impl_lines, model_lines):
        if ' # ' not in il or ' # ' not in ml:
            H['no-output'] = H.get('no-output', 0) + 1
            continue
        for i, v, status, det in table_tie(il, ml):
            H[status] = H.get(status, 0) + 1
            H['view:' + v] = H.get('view:' + v, 0) + 1
            if status.startswith('equal'):
                T['compared'] += 1; T['rows'] += det
                T['max_rows'] = max(T['max_rows'], det)
                word = il.split(' | ')[i].partition(' ')[0].split(':')[3]
                k = hash((v, word))
                if k not in seen:
                    seen.add(k); T['distinct_tables'] += 1
                    if 'Ns;' in word.replace('Ns;~;', ''): T['distinct_tables_with_declared_namespaces'] += 1
                    if '+Xt;' in word: T['distinct_tables_with_merged_text'] += 1
            elif status == 'diff':
                T['compared'] += 1
                if len(T['diffs']) < 40:
                    T['diffs'].append(dict(det, docs=docs, ops=[list(o) for o in ops[:i]], view=view, table_view=v, tag=tag))
            else:
                T['skipped'] += 1

# ------------------------------------------------------------------ running
def run_cases(binary, cases, shards=None, timeout=900):
    shards = shards or min(lib.NPROC, 16)
    rc, lines = lib.run_bin(binary, ['dom'], cases, timeout=timeout, shards=shards)
    return lines

def run_impl(cases, shards=None):
    return run_cases(lib.rust_bin(), cases, shards)

def run_model(cases, impl_lines, shards=None):
    mc = [model_case(c, init_desc(l), l) if ' # ' in l else 'skip' for c, l in zip(cases, impl_lines)]
    return run_cases(lib.model_bin('dom'), mc, shards)

def strip_init(line):
    """record 0 of the implementation carries the description for the model; drop it for comparison"""
    recs = line.split(' | ')
    if recs and recs[0].startswith('init '):
        recs[0] = 'init # ' + recs[0].partition(' # ')[2]
    return recs

def init_bits(model_line, field='ti='):
    """`ti=` (`pr=`) field of the model's record 0: one bit per document, result of the extracted tree_inv_b (printable_b)"""
    head = model_line.split(' | ')[0].partition(' # ')[0]
    for w in head.split(' '):
        if w.startswith(field):
            return w[3:]
    return None

def first_mismatch(impl_line, model_line):
    """index of the first record on which the two sides differ (Q results are implementation-only)"""
    a, b = strip_init(impl_line), strip_init(model_line)
    for i in range(max(len(a), len(b))):
        x = a[i] if i < len(a) else '<missing>'
        y = b[i] if i < len(b) else '<missing>'
        if (x.startswith('q:') and y.startswith('q')) or (x.startswith('x:') and y.startswith('x:')):
            # Q results are implementation-only; the tables of the X ops are compared by table_tie
            x = x.partition(' # ')[2]; y = y.partition(' # ')[2]
        if y.startswith('diverged'):
            return None       # the model stops where a listed finding makes the state unknowable
        if x != y:
            return i
    return None

# ------------------------------------------------------------------ documents and op alphabet
DOCS = [
    '<r><a x="1"><b/>t</a><c/><?p q?></r>',
    '<!--h--><r k="v" xmlns:n="u"><a>s<![CDATA[d]]>&amp;<b y="2">u</b></a><!--m--><c><d/><e/></c>w<?pi z?></r><!--f-->',
    '<!DOCTYPE r [<!ENTITY e "v">]><r><a>&e;x&#65;</a><b i="1&#66;2" j="3"/></r>',
    '<r/>',
    '<r>t</r>',
    '<r xmlns:p="u1"><a xmlns:p="u2"><w><p:x p:k="1"/>t</w></a><b><p:y/>s<z i="1" j="2"/></b><c xmlns="d"><e/></c></r>',
]
SMALL = '<r><a x="1">t</a><b/></r>'
# a DTD-defaulted attribute (materialised with id 0): outside the store model; used only by the table tie, where its
# tables are skipped EXPLICITLY (skip:dtd-default-attribute)
DEFAULTED = '<!DOCTYPE r [<!ATTLIST a d CDATA "v">]><r><a x="1"/><b/></r>'

NAMES = ['e', 'f', 'x', 'k', 'n:m', 'xmlns:q', 'xmlns']
BADNAMES = ['1a', '', 'a b']
TEXTS = ['t', '', 'ab', 'a&amp;b', 'x y']
BADTEXTS = ['a<b', ']]>', '--']

def kinds_of(rec):
    return {h: n.kind for h, n in rec.nodes.items()}

def ancestors(rec, h):
    out = []
    seen = set()
    n = rec.nodes.get(h)
    while n is not None and n.p is not None and n.p != '?' and n.p not in seen:
        out.append(n.p); seen.add(n.p)
        n = rec.nodes.get(n.p)
    return out

def root_of(rec, h):
    a = ancestors(rec, h)
    return a[-1] if a else h

class Chooser:
    """weighted choice of handles relative to a receiver, from the implementation's last dump"""
    def __init__(self, rec, rng, docmap):
        self.rec, self.rng, self.docmap = rec, rng, docmap     # docmap: handle -> document index
        self.hs = sorted(rec.nodes)
        self.by_kind = {}
        for h in self.hs:
            self.by_kind.setdefault(rec.nodes[h].kind, []).append(h)
    def any(self, kinds=None):
        pool = [h for h in self.hs if kinds is None or self.rec.nodes[h].kind in kinds]
        return self.rng.choice(pool) if pool else self.rng.choice(self.hs)
    def receiver(self):
        r = self.rng.random()
        if r < 0.55: return self.any(('el',))
        if r < 0.70: return self.any(('doc',))
        if r < 0.82: return self.any(('at',))
        return self.any()
    def argument(self, recv, run):
        """(handle, class) -- class in self/ancestor/child/sibling/detached/foreign/descendant/other"""
        N = self.rec.nodes
        r = self.rng.random()
        n = N[recv]
        cands = []
        if r < 0.07:
            cands, cls = [recv], 'self'
        elif r < 0.17:
            cands, cls = ancestors(self.rec, recv), 'ancestor'
        elif r < 0.32:
            cands, cls = [x for x in n.c if x != '?'], 'child'
        elif r < 0.44:
            p = n.p
            cands, cls = ([x for x in N[p].c if x != recv and x != '?'] if p in N else []), 'sibling'
        elif r < 0.66:
            cands = [h for h in self.hs if N[h].p is None and N[h].kind not in ('doc', 'at', 'fr') and self.docmap.get(h) == self.docmap.get(recv)]
            cls = 'detached'
        elif r < 0.74:
            cands, cls = [h for h in self.hs if self.docmap.get(h) != self.docmap.get(recv)], 'foreign'
        elif r < 0.80:
            cands, cls = [h for h in self.hs if N[h].kind == 'at'], 'attribute'
        if not cands:
            cands, cls = self.hs, 'other'
        h = self.rng.choice(cands)
        run.count('arg:' + cls)
        return h

OPS_W = [('AC', 16), ('IB', 14), ('RC', 9), ('RM', 10), ('SA', 5), ('SAN', 4), ('RA', 3), ('RAN', 2), ('NS', 2), ('NR', 2),
         ('CE', 6), ('CA', 3), ('CT', 4), ('CC', 2), ('CD', 2), ('CP', 2), ('CR', 1), ('CF', 1),
         ('SV', 3), ('SD', 2), ('AD', 1), ('ID', 1), ('DD', 1), ('RD', 1), ('ST', 3), ('PD', 1)]

def gen_op(ch, rng, run, ndocs):
    """one op aimed at the state shown by the chooser's dump"""
    tot = sum(w for _, w in OPS_W)
    x = rng.randrange(tot)
    for k, w in OPS_W:
        if x < w: break
        x -= w
    N = ch.rec.nodes
    def name():
        return rng.choice(BADNAMES) if rng.random() < 0.06 else rng.choice(NAMES)
    def text():
        return rng.choice(BADTEXTS) if rng.random() < 0.04 else rng.choice(TEXTS)
    def off():
        return rng.choice([0, 0, 1, 1, 2, 3, 7, None])
    if k in ('AC', 'IB', 'RC', 'RM'):
        r = ch.receiver()
        a = ch.argument(r, run)
        if k == 'AC' or k == 'RM':
            if k == 'RM' and rng.random() < 0.6 and N[r].c:
                a = rng.choice([x for x in N[r].c if x != '?'] or [a])
            return (k, r, a)
        ref = rng.choice([x for x in N[r].c if x != '?']) if N[r].c and rng.random() < 0.75 else ch.argument(r, run)
        return (k, r, a, ref)
    if k in ('SA', 'RA', 'NR'):
        r = ch.any(('el',))
        nm = name()
        if rng.random() < 0.5 and N[r].a:
            nm = dec(N[rng.choice(N[r].a)].name) if N[rng.choice(N[r].a)].name != '-' else nm
        return (k, r, nm, text()) if k == 'SA' else (k, r, nm)
    if k in ('SAN', 'RAN', 'NS'):
        r = ch.any(('el',))
        ats = ch.by_kind.get('at', [])
        if not ats:
            return ('CA', ch.any(('doc',)), name())
        if rng.random() < 0.4 and N[r].a:
            a = rng.choice(N[r].a)
        else:
            a = rng.choice(ats)
        return (k, r, a)
    if k in ('CE', 'CA', 'CR'):
        nm = name() if k != 'CR' else rng.choice(['amp', 'lt', 'e', 'nope', '1', 'a;b', '#65', 'amp;x', '#x41;zz', '', 'e '])
        return (k, ch.any(('doc',)), nm)
    if k in ('CT', 'CC', 'CD'):
        return (k, ch.any(('doc',)), text())
    if k == 'CP':
        return (k, ch.any(('doc',)), rng.choice(['t', 'xml', 'p', '1']), rng.choice(['d', '', '?>']))
    if k == 'CF':
        return (k, ch.any(('doc',)))
    if k == 'SV':
        return (k, ch.any(('at', 'tx', 'cm', 'cd', 'pi', 'el')), text())
    if k in ('SD', 'AD'):
        return (k, ch.any(('tx', 'cm', 'cd')), text())
    if k == 'ID':
        return (k, ch.any(('tx', 'cm', 'cd')), off(), text())
    if k == 'DD':
        return (k, ch.any(('tx', 'cm', 'cd')), off(), off())
    if k == 'RD':
        return (k, ch.any(('tx', 'cm', 'cd')), off(), off(), text())
    if k == 'ST':
        return (k, ch.any(('tx', 'cd')), off())
    return ('PD', ch.any(('pi',)), rng.choice(['d', '', '?>', 'a b']))

def doc_map(line):
    """handle -> document index, from the init description and the growth of the table"""
    m = {}
    for w in init_desc(line).split(' '):
        if w.startswith('I'):
            f = w.split(':')
            m[int(f[0][1:])] = int(f[1])
    return m

def grow_docmap(m, rec, ndocs_counter):
    """new handles inherit the document of the node that lists them or of their parent; fragments get a new one"""
    for h in sorted(rec.nodes):
        if h in m: continue
        n = rec.nodes[h]
        if n.kind == 'fr':
            ndocs_counter[0] += 1
            m[h] = ndocs_counter[0]
        elif n.p in m:
            m[h] = m[n.p]
    own = child_owner(rec)
    for h in sorted(rec.nodes):
        if h not in m and h in own and own[h][0][1] in m:
            m[h] = m[own[h][0][1]]
    return m

def random_histories(run, rng, count, maxlen, chunk=6, view_mix=True):
    """seeded histories of 1..maxlen ops, grown `chunk` ops at a time against the implementation"""
    hist = []
    for i in range(count):
        nd = 2 if rng.random() < 0.45 else 1
        docs = [rng.choice(DOCS)]
        if nd == 2:
            docs.append(docs[0] if rng.random() < 0.4 else rng.choice(DOCS))
        hist.append({'docs': docs, 'ops': [], 'len': rng.randint(1, maxlen), 'view': 'm' if (view_mix and rng.random() < 0.3) else 'r',
                     'created_doc': {}})
    rounds = (maxlen + chunk - 1) // chunk
    for rnd in range(rounds + 1):
        live = [h for h in hist if len(h['ops']) < h['len']]
        if not live: break
        lines = run_impl([mkcase(h['docs'], h['ops'], h['view']) for h in live])
        for h, line in zip(live, lines):
            recs = parse_line(line)
            if not recs or recs[-1].bad:
                h['len'] = len(h['ops']); continue
            rec = recs[-1]
            dm = doc_map(line)
            cnt = [len(h['docs']) - 1]
            # handles created by factory ops belong to the document they were created on
            for op, r in zip(h['ops'], recs[1:]):
                if op[0][0] == 'C' and r.result.startswith('ok:') and op[0] != 'CF':
                    nh = int(r.result[3:])
                    if op[1] in dm: dm[nh] = dm[op[1]]
                dm = grow_docmap(dm, r, cnt)
            ch = Chooser(rec, rng, dm)
            k = min(chunk, h['len'] - len(h['ops']))
            for _ in range(k):
                h['ops'].append(gen_op(ch, rng, run, len(h['docs'])))
    return [(h['docs'], h['ops'], h['view']) for h in hist]

# ------------------------------------------------------------------ histories with Element::normalize (op NZ)
# Own generator and own random stream (the streams of random_histories / histories15 are untouched): the histories first
# produce adjacent Text nodes -- split_text, fresh Text nodes appended / inserted next to a Text node, a Text node moved
# next to another, removal of the node between two Text nodes, "]]" in front of ">", Text nodes without characters,
# nested and detached elements -- and call normalize in between, in both views.
NZ_DOCS = ['<r>a<b>c</b>d</r>',
           '<r>ab<x/>cd<y i="1"><z>e<!--k-->f</z>g</y>h<![CDATA[i]]>j&amp;k</r>',
           '<r><a>s<b>t<c>u</c>v</b>w</a></r>',
           '<!DOCTYPE r [<!ENTITY e "v">]><r k="v">x]]<!--m-->&gt;&e;y<?p q?>z</r>',
           '<r/>']
NZ_TEXTS = ['a', '', ']]', '>', ']', ']>', 'x]]', '>y', 'b c', '', ']]', '>']

def gen_op_nz(ch, rng, run):
    """one op of a normalize history, aimed at the state of the chooser's dump"""
    N = ch.rec.nodes
    els = [h for h in ch.hs if N[h].kind == 'el']
    txs = [h for h in ch.hs if N[h].kind == 'tx' and N[h].p in N and N[N[h].p].kind == 'el']
    det = [h for h in ch.hs if N[h].p is None and N[h].kind in ('tx', 'el', 'cm', 'cd', 'pi', 'er')]
    det_tx = [h for h in det if N[h].kind == 'tx']
    doc = ch.any(('doc',))
    x = rng.random()
    if x < 0.20 and els:
        if rng.random() < 0.08:
            run.count('nz:any-receiver'); return ('NZ', ch.any())
        # mostly an element that has adjacent Text children, or one of its ancestors
        adj = [e for e in els if any(a in N and b in N and N[a].kind == 'tx' and N[b].kind == 'tx' for a, b in zip(N[e].c, N[e].c[1:]))]
        if adj and rng.random() < 0.7:
            e = rng.choice(adj)
            up = [a for a in ancestors(ch.rec, e) if a in N and N[a].kind == 'el']
            return ('NZ', rng.choice(up) if up and rng.random() < 0.4 else e)
        return ('NZ', rng.choice(els))
    if x < 0.36 and txs:
        t = rng.choice(txs)
        n = len(dec(N[t].data)) if N[t].data not in ('~', '!') else 0
        return ('ST', t, rng.choice([0, 1, n, max(0, n - 1), 2]))
    if x < 0.50:
        return ('CT', doc, rng.choice(NZ_TEXTS))
    if x < 0.56:
        k = rng.choice(['CE', 'CC', 'CD'])
        return (k, doc, 'e' if k == 'CE' else 'c')
    if x < 0.80 and det and els:
        a = rng.choice(det_tx) if det_tx and rng.random() < 0.7 else rng.choice(det)
        r = rng.choice(els)
        kids = [y for y in N[r].c if y != '?']
        tk = [y for y in kids if y in N and N[y].kind == 'tx']
        if kids and rng.random() < 0.5:
            return ('IB', r, a, rng.choice(tk) if tk and rng.random() < 0.7 else rng.choice(kids))
        return ('AC', r, a)
    if x < 0.86 and len(txs) > 1:
        t, o = rng.sample(txs, 2)
        run.count('nz:move-text')
        return ('IB', N[o].p, t, o)
    if x < 0.93 and els:
        # the node between two Text nodes, if there is one
        cands = []
        for e in els:
            c = [y for y in N[e].c if y in N]
            for i in range(1, len(c) - 1):
                if N[c[i - 1]].kind == 'tx' and N[c[i + 1]].kind == 'tx' and N[c[i]].kind != 'tx':
                    cands.append((e, c[i]))
        if cands:
            run.count('nz:remove-between')
            e, y = rng.choice(cands)
            return ('RM', e, y)
        e = rng.choice(els)
        if N[e].c:
            return ('RM', e, rng.choice([y for y in N[e].c if y != '?'] or [e]))
    if txs or det_tx:
        return (rng.choice(['AD', 'SD']), rng.choice(txs + det_tx), rng.choice(NZ_TEXTS))
    return ('CT', doc, rng.choice(NZ_TEXTS))

NZ_FIXED = [
    # "]]" in front of ">" stays apart; the refused node becomes the new `previous`
    (['<r>a<b>c</b>d</r>'], [('ST', 2, 0), ('CT', 0, ']]'), ('CT', 0, '>'), ('AC', 3, 7), ('AC', 3, 8), ('CT', 0, 'zz'), ('AC', 3, 9), ('ST', 5, 1),
                             ('NZ', 1), ('NZ', 1), ('NZ', 2), ('NZ', 0), ('NZ', 3)]),
    # three-way split, normalize of the inner element only, then of the outer one
    (['<r>abc<x>def</x>ghi</r>'], [('ST', 2, 1), ('ST', 6, 1), ('ST', 4, 2), ('NZ', 3), ('NZ', 1), ('NZ', 1)]),
    # a detached subtree; Text nodes without characters; comment / CDATA / reference between Text nodes
    (['<r/>'], [('CE', 0, 'd'), ('CT', 0, ''), ('CT', 0, ''), ('CT', 0, 'x'), ('AC', 2, 3), ('AC', 2, 4), ('AC', 2, 5), ('NZ', 2), ('NZ', 1),
                ('AC', 1, 2), ('NZ', 1)]),
    (['<r>a<!--c-->b<![CDATA[d]]>e&amp;f</r>'], [('NZ', 1), ('RM', 1, 3), ('NZ', 1), ('RM', 1, 5), ('NZ', 1), ('RM', 1, 7), ('NZ', 1)]),
    # "]" "]" ">" : the first two merge, the third is refused
    (['<r/>'], [('CT', 0, ']'), ('CT', 0, ']'), ('CT', 0, '>'), ('CT', 0, 'x'), ('AC', 1, 2), ('AC', 1, 3), ('AC', 1, 4), ('AC', 1, 5), ('NZ', 1), ('NZ', 1)]),
    # a Text node that already holds "]]>" (made in an attribute value, moved into content): nothing can be appended to it
    (['<r a="x">t</r>'], [('SV', 2, ']]>'), ('CT', 0, 'y'), ('AC', 1, 5), ('AC', 1, 6), ('NZ', 1)]),
]

def normalize_histories(rng, count, maxlen, chunk=5):
    """-> (list of (docs, ops, view), histogram): the fixed histories in both views + `count` seeded histories grown in
    lock-step with the implementation"""
    st = Stats()
    out = [(d, o, v) for d, o in NZ_FIXED for v in ('r', 'm')]
    hist = [{'docs': [rng.choice(NZ_DOCS)], 'ops': [], 'len': rng.randint(3, maxlen), 'view': 'm' if rng.random() < 0.25 else 'r'} for _ in range(count)]
    for rnd in range((maxlen + chunk - 1) // chunk + 1):
        live = [h for h in hist if len(h['ops']) < h['len']]
        if not live: break
        lines = run_impl([mkcase(h['docs'], h['ops'], '%s!%d' % (h['view'], len(h['ops']))) for h in live])
        for h, line in zip(live, lines):
            recs = parse_line(line)
            if not recs or recs[-1].bad or recs[-1].skipped:
                h['len'] = len(h['ops']); continue
            ch = Chooser(recs[-1], rng, {x: 0 for x in recs[-1].nodes})
            for _ in range(min(chunk, h['len'] - len(h['ops']))):
                h['ops'].append(gen_op_nz(ch, rng, st))
    return out + [(h['docs'], h['ops'], h['view']) for h in hist], st.hist

def normalize_stats(cases, impl_lines, H):
    """evidence: how many normalize calls ran, how many of them merged something, how many left a Text pair apart"""
    for (docs, ops, view), il in zip(cases, impl_lines):
        recs = il.split(' | ')
        for i in range(1, len(recs)):
            if i - 1 < len(ops) and ops[i - 1][0] == 'NZ':
                head, _, dump = recs[i].partition(' # ')
                before = recs[i - 1].partition(' # ')[2]
                res = head.split(' ')[0]
                H['normalize:calls'] = H.get('normalize:calls', 0) + 1
                H['normalize:view-' + view[0]] = H.get('normalize:view-' + view[0], 0) + 1
                if res != 'ok':
                    H['normalize:' + res] = H.get('normalize:' + res, 0) + 1
                    continue
                if dump == '-' or before == '-':
                    continue
                if dump != before:
                    H['normalize:merged-something'] = H.get('normalize:merged-something', 0) + 1
                else:
                    H['normalize:nothing-to-merge'] = H.get('normalize:nothing-to-merge', 0) + 1
                r = Rec(recs[i])
                apart = 0
                for n in r.nodes.values():
                    if n.kind == 'el':
                        c = [y for y in n.c if y in r.nodes]
                        apart += sum(1 for a, b in zip(c, c[1:]) if r.nodes[a].kind == 'tx' and r.nodes[b].kind == 'tx')
                if apart:
                    H['normalize:adjacent-text-left-in-document'] = H.get('normalize:adjacent-text-left-in-document', 0) + 1

# ------------------------------------------------------------------ the read-only maps of a document type (ops ES ESI ER TS TSI TR)
# Model/DomReadOnly.v (step_ro), property C13 "no modification allowed".  Own generator and own random stream.  Documents
# WITH a DTD that declares entities (internal, external unparsed) and notations, with a document type that declares none,
# and WITHOUT a document type; several documents per history so that the argument of set_named_item can come from the
# map of ANOTHER document; receivers: the Document (doc_type()) and the DocumentType node itself (also after remove_child
# took it out of its document); names that are / are not in the map; item(i) inside / outside the map.
RO_DOCS = ['<!DOCTYPE r [<!ENTITY e "v"><!ENTITY f "w&e;"><!NOTATION n SYSTEM "s"><!ENTITY u SYSTEM "x" NDATA n>]><r k="v">a&e;<b/>c</r>',
           '<!DOCTYPE q [<!ENTITY g "z"><!ENTITY e "other"><!NOTATION m PUBLIC "p"><!NOTATION n PUBLIC "p2" "s2">]><!--h--><q>&g;</q>',
           '<!DOCTYPE r [<!ELEMENT r ANY>]><r/>',
           '<!DOCTYPE r><r>t</r>',
           '<r><a/>t</r>',
           '<q/>']
RO_NAMES = ['e', 'f', 'g', 'u', 'n', 'm', 'zz', '', 'r', 'amp', 'E']
RO_OPS = ('ES', 'ESI', 'ER', 'TS', 'TSI', 'TR')

def ro_maps(line):
    """document type handle -> (names in entities(), names in notations()), from the description in record 0"""
    m = {}
    for w in init_desc(line).split(' '):
        f = w.split(':')
        if w.startswith('I') and f[2] == 'dt':
            m.setdefault(int(f[0][1:]), [[], []])[0] = [] if f[9] == '~' else [dec(e).lstrip('\0') for e in f[9].split('.')]
        elif w.startswith('T'):
            m.setdefault(int(f[0][1:]), [[], []])[1] = [] if f[1] == '~' else [dec(e) for e in f[1].split('.')]
    return m

def gen_op_ro(ch, rng, run, ndocs):
    """one op of a read-only-map history, aimed at the state of the chooser's dump (`ch.ro_maps`: see ro_maps)"""
    N = ch.rec.nodes
    maps = getattr(ch, 'ro_maps', {})
    def names_of(h, which):
        """names in the map of the document type that handle h gives access to"""
        if h in N and N[h].kind == 'doc':
            h = next((c for c in N[h].c if c in N and N[c].kind == 'dt'), None)
        return maps.get(h, [[], []])[which] if h in N and N[h].kind == 'dt' else []
    docs = [h for h in ch.hs if N[h].kind == 'doc']
    dts = [h for h in ch.hs if N[h].kind == 'dt']
    def recv():
        y = rng.random()
        if y < 0.45 and docs: return rng.choice(docs)
        if y < 0.88 and dts: return rng.choice(dts)
        return ch.any()
    x = rng.random()
    if x < 0.62:
        k = rng.choice(['ES', 'ES', 'ESI', 'ER', 'ER', 'TS', 'TSI', 'TR'])
        r = recv()
        if k in ('ER', 'TR'):
            return (k, r, rng.choice(RO_NAMES))
        src = r if rng.random() < 0.35 else recv()
        run.count('ro:argument-from-' + ('the-same-document' if ch.docmap.get(src) == ch.docmap.get(r) else 'another-document'))
        have = names_of(src, 0 if k[0] == 'E' else 1)
        if k in ('ES', 'TS'):
            return (k, r, src, rng.choice(have) if have and rng.random() < 0.7 else rng.choice(RO_NAMES))
        return (k, r, src, rng.randrange(len(have)) if have and rng.random() < 0.7 else rng.choice([0, 0, 1, 2, 3, 9]))
    if x < 0.74 and dts:
        d = rng.choice(dts)
        pa = N[d].p
        if pa is not None and pa in N:
            run.count('ro:remove-doctype'); return ('RM', pa, d)
        run.count('ro:append-removed-doctype'); return ('AC', rng.choice(docs), d)
    return gen_op(ch, rng, run, ndocs)

RO_FIXED = [
    # every op on the document and on the document type node; by name / by index; present / absent; both maps; the argument
    # from the other document; then the document type is removed: the document has no maps, the node keeps them
    ([RO_DOCS[0], RO_DOCS[1], RO_DOCS[4]],
     [('ES', 0, 0, 'e'), ('ES', 0, 1, 'u'), ('ES', 0, 7, 'g'), ('ES', 0, 7, 'f'), ('ES', 7, 0, 'e'), ('ESI', 0, 0, 2), ('ESI', 0, 0, 3), ('ESI', 1, 8, 1),
      ('ER', 0, 'e'), ('ER', 0, 'zz'), ('ER', 1, ''), ('TS', 0, 0, 'n'), ('TS', 0, 7, 'm'), ('TS', 0, 7, 'e'), ('TSI', 8, 0, 0), ('TSI', 0, 7, 2),
      ('TR', 0, 'n'), ('TR', 8, 'zz'), ('ES', 12, 0, 'e'), ('ER', 12, 'e'), ('TR', 13, 'n'), ('ES', 0, 12, 'e'), ('ER', 2, 'e'), ('TS', 3, 0, 'n'),
      ('RM', 0, 1), ('ER', 0, 'e'), ('TR', 0, 'n'), ('ES', 0, 1, 'e'), ('ER', 1, 'e'), ('ES', 1, 1, 'f'), ('TS', 1, 7, 'm'), ('TSI', 7, 1, 0)]),
    # document types that declare nothing
    ([RO_DOCS[2], RO_DOCS[3]],
     [('ER', 0, 'e'), ('TR', 0, 'n'), ('ES', 0, 0, 'e'), ('ESI', 0, 0, 0), ('TS', 1, 1, 'n'), ('TSI', 1, 4, 0), ('ER', 3, 'r'), ('TR', 4, '')]),
]

def readonly_histories(rng, count, maxlen, chunk=5):
    """-> (list of (docs, ops, view), histogram): the fixed histories in both views + `count` seeded histories grown in
    lock-step with the implementation"""
    st = Stats()
    out = [(d, o, v) for d, o in RO_FIXED for v in ('r', 'm')]
    hist = []
    for _ in range(count):
        nd = rng.choice([1, 2, 2, 3])
        docs = [rng.choice(RO_DOCS[:2]) if rng.random() < 0.6 else rng.choice(RO_DOCS)]
        while len(docs) < nd:
            docs.append(docs[0] if rng.random() < 0.25 else rng.choice(RO_DOCS))
        hist.append({'docs': docs, 'ops': [], 'len': rng.randint(2, maxlen), 'view': 'm' if rng.random() < 0.25 else 'r'})
    for rnd in range((maxlen + chunk - 1) // chunk + 1):
        live = [h for h in hist if len(h['ops']) < h['len']]
        if not live: break
        lines = run_impl([mkcase(h['docs'], h['ops'], h['view']) for h in live])
        for h, line in zip(live, lines):
            recs = parse_line(line)
            if not recs or recs[-1].bad or recs[-1].skipped:
                h['len'] = len(h['ops']); continue
            dm = doc_map(line)
            cnt = [len(h['docs']) - 1]
            for op, r in zip(h['ops'], recs[1:]):
                if op[0][0] == 'C' and r.result.startswith('ok:') and op[0] != 'CF':
                    nh = int(r.result[3:])
                    if op[1] in dm: dm[nh] = dm[op[1]]
                dm = grow_docmap(dm, r, cnt)
            ch = Chooser(recs[-1], rng, dm)
            ch.ro_maps = ro_maps(line)
            for _ in range(min(chunk, h['len'] - len(h['ops']))):
                h['ops'].append(gen_op_ro(ch, rng, st, len(h['docs'])))
    return out + [(h['docs'], h['ops'], h['view']) for h in hist], st.hist

def readonly_stats(cases, impl_lines, H):
    """evidence: calls on the read-only maps by result class, receiver kind and map; how many left the dump unchanged"""
    def cnt(k, n=1): H[k] = H.get(k, 0) + n
    for (docs, ops, view), il in zip(cases, impl_lines):
        recs = il.split(' | ')
        for i in range(1, len(recs)):
            if i - 1 < len(ops) and ops[i - 1][0] in RO_OPS:
                op = ops[i - 1]
                head, _, dump = recs[i].partition(' # ')
                before = recs[i - 1].partition(' # ')[2]
                res = head.split(' ')[0]
                cnt('readonly:calls'); cnt('readonly:' + op[0] + ':' + res)
                if dump != '-' and before != '-':
                    cnt('readonly:dump-unchanged' if dump == before else 'readonly:DUMP-CHANGED')

# ------------------------------------------------------------------ matrix and exhaustive short histories
RICH = '<!DOCTYPE r [<!ENTITY e "v">]><!--h--><r k="v"><a x="1"><b>t<i/></b>s</a><!--m--><c/>w<![CDATA[d]]><?pi z?>&e;&#65;</r><!--f-->'
RICH2 = '<q><z/>y</q>'

def rich_prefix():
    """factory calls that put one detached node of every kind (and a small detached subtree) in the table"""
    return [('CE', 0, 'de'), ('CT', 0, 'dt'), ('CC', 0, 'dc'), ('CD', 0, 'dd'), ('CP', 0, 'dp', 'v'), ('CR', 0, 'amp'),
            ('CA', 0, 'da'), ('CF', 0), ('CE', 0, 'ds'), ('CE', 0, 'dk')]

def matrix_cases():
    """(receiver x argument x reference position) for every child-list mutator + attribute / data ops on every receiver,
    each as one single call from the same rich two-document state"""
    pre = rich_prefix()
    docs = [RICH, RICH2]
    line = run_impl([mkcase(docs, pre)])[0]
    recs = parse_line(line)
    rec = recs[-1]
    # ds gets a child so that a detached subtree exists: done as part of the prefix
    ds = int(recs[9].result[3:]); dk = int(recs[10].result[3:])
    pre = pre + [('AC', ds, dk)]
    line = run_impl([mkcase(docs, pre)])[0]
    rec = parse_line(line)[-1]
    hs = sorted(rec.nodes)
    N = rec.nodes
    cases = []
    for r in hs:
        refs = [None] + ([N[r].c[0]] if N[r].c else []) + ([N[r].c[len(N[r].c) // 2]] if len(N[r].c) > 2 else []) + ([N[r].c[-1]] if len(N[r].c) > 1 else [])
        for a in hs:
            cases.append(('AC', r, a))
            cases.append(('RM', r, a))
            for ref in refs:
                if ref is not None:
                    cases.append(('IB', r, a, ref)); cases.append(('RC', r, a, ref))
            # absent reference: a node that is not a child of r
            absent = [h for h in hs if h not in N[r].c][:1]
            for ref in absent:
                cases.append(('IB', r, a, ref)); cases.append(('RC', r, a, ref))
    ats = [h for h in hs if N[h].kind == 'at']
    for r in hs:
        for a in ats:
            cases += [('SAN', r, a), ('RAN', r, a), ('NS', r, a)]
        for nm in ('k', 'x', 'new', 'xmlns:p', '1bad'):
            cases += [('SA', r, nm, 'v'), ('RA', r, nm), ('NR', r, nm)]
        cases += [('SV', r, 'nv'), ('SV', r, 'a<b'), ('SD', r, 'nd'), ('AD', r, 'z'), ('ID', r, 1, 'i'), ('ID', r, 9, 'i'),
                  ('DD', r, 0, 1), ('DD', r, 1, None), ('RD', r, 0, 1, 'r'), ('ST', r, 0), ('ST', r, 1), ('ST', r, 9), ('PD', r, 'pd'),
                  ('CE', r, 'n'), ('CT', r, 't'), ('CF', r)]
    return docs, pre, cases

def short_alphabet(rec, docs):
    """op instances over the handles of a small state (used for the exhaustive short histories);
    handles >= len(rec.nodes) refer to nodes created earlier in the same history"""
    hs = sorted(rec.nodes)
    N = rec.nodes
    extra = [len(hs), len(hs) + 1]
    allh = hs + extra
    recv = [h for h in hs if N[h].kind in ('doc', 'el', 'at')] + extra[:1]
    ops = []
    for r in recv:
        for a in allh:
            ops.append(('AC', r, a)); ops.append(('RM', r, a))
            for ref in [x for x in N[r].c][:2] if r in N else []:
                ops.append(('IB', r, a, ref)); ops.append(('RC', r, a, ref))
    for r in [h for h in hs if N[h].kind == 'el'] + extra[:1]:
        ops += [('SA', r, 'x', 'v'), ('SA', r, 'n', ''), ('RA', r, 'x')]
        for a in [h for h in hs if N[h].kind == 'at'] + extra[:1]:
            ops += [('SAN', r, a), ('RAN', r, a)]
    ops += [('CE', 0, 'e'), ('CT', 0, 'u'), ('CA', 0, 'x'), ('CC', 0, 'c')]
    for r in [h for h in hs if N[h].kind in ('tx',)]:
        ops += [('ST', r, 1), ('SD', r, 'z')]
    for r in [h for h in hs if N[h].kind in ('at',)]:
        ops += [('SV', r, 'w')]
    return ops

# ------------------------------------------------------------------ shrinking and classification
def ddmin(ops, fails):
    """delta debugging over the op list; `fails(ops) -> bool`"""
    ops = list(ops)
    n = 2
    while len(ops) >= 2:
        chunk = max(1, len(ops) // n)
        reduced = False
        for i in range(0, len(ops), chunk):
            cand = ops[:i] + ops[i + chunk:]
            if cand and fails(cand):
                ops = cand; n = max(n - 1, 2); reduced = True
                break
        if not reduced:
            if chunk == 1: break
            n = min(len(ops), n * 2)
    return ops

HANDLE_FIELDS = {'AC': (1, 2), 'IB': (1, 2, 3), 'RC': (1, 2, 3), 'RM': (1, 2), 'SAN': (1, 2), 'RAN': (1, 2), 'NS': (1, 2)}

HANDLE_FIELDS.update({'ES': (1, 2), 'ESI': (1, 2), 'TS': (1, 2), 'TSI': (1, 2), 'ER': (1,), 'TR': (1,)})

def drop_op(docs, ops, view, k):
    """history without op k, handle indices of the later ops renumbered when op k had put new
    handles into the table; None when a later op refers to one of those handles"""
    line = run_impl([mkcase(docs, ops, view)], shards=1)
    recs = parse_line(line[0]) if line else None
    if not recs or any(r.bad or r.skipped for r in recs):
        return None
    before, after = len(recs[k].nodes), len(recs[k + 1].nodes)
    g = after - before
    out = list(ops[:k])
    for o in ops[k + 1:]:
        o = list(o)
        for f in HANDLE_FIELDS.get(o[0], (1,)):
            if f < len(o) and isinstance(o[f], int):
                if before <= o[f] < after and g > 0:
                    return None
                if o[f] >= after:
                    o[f] -= g
        out.append(tuple(o))
    return out

def refine(docs, ops, view, fails):
    """one-at-a-time removal with handle renumbering, after ddmin"""
    ops = list(ops)
    k = len(ops) - 1
    while k >= 0 and len(ops) > 1:
        cand = drop_op(docs, ops, view, k)
        if cand is not None and cand and fails(cand):
            ops = cand
        k -= 1
    return ops

def first_violation(docs, ops, view, oracle):
    """(index of the first op after which `oracle` reports something, violations) on the implementation"""
    line = run_impl([mkcase(docs, ops, view)], shards=1)[0]
    recs = parse_line(line)
    if not recs:
        return None, [('crash', line[:200])], line
    for i, r in enumerate(recs):
        vs = oracle(r)
        if vs:
            return i, vs, line
    return None, [], line

def cache_path(run, name):
    return os.path.join(lib.WORK, 'dom_%s_%s_%s_%s.json' % (name, run.tier, run.seed, lib.repo_tree_hash()))

# ------------------------------------------------------------------ the shared campaign of C12 / C14
QUERIES = ['//node()', '//*', '//@*', '//text()', '/*/*[last()]', '/*/*[1]/following-sibling::node()', '//*/preceding-sibling::node()',
           '//*[@*]', '//comment()|//processing-instruction()', '/*/descendant-or-self::node()', '//*/..', '//*/@*/..',
           '//text()/ancestor::*', '/*/*[2]/preceding::*', '/*/*[1]/following::*', '//*[last()]', '/*//*[position()=1]',
           '//*/*|//@*', '//node()[1]', '(//*)[last()]/ancestor-or-self::*',
           # namespace-sensitive (no caller bindings needed): scopes must follow a moved subtree
           '//*[namespace-uri()="u1"]', '//*[namespace-uri()="u2"]|//@*[namespace-uri()="u2"]', '//*[namespace-uri()=""]',
           '//*[name()="p:x"]|//*[local-name()="e"]', '//@*|//text()|//comment()', '//*/@*|//*/node()',
           # NAME TESTS (the query contexts bind n1 -> u1, n2 -> u2, nd -> d): the expanded name of an element or
           # attribute is whatever the tree says NOW, also for a context that has seen the node before the edit
           '//n1:*', '//n2:*|//n2:*/@n2:*', '//nd:*', '//e|//x|//y|//w', '//n1:x|//n2:x|//n1:y|//n2:y', '//*/z|//nd:e|//e']

def source_hash():
    h = hashlib.sha256()
    for f in ('checks/domlib.py', 'harness/src/domains/dom.rs', 'ocaml/domains/dom/dom.ml', 'coq/theories/Model/Store.v',
              'coq/theories/Model/DomOps.v', 'coq/theories/Model/StoreCheck.v', 'coq/theories/Model/StoreView.v',
              'coq/theories/Model/XDoc.v', 'harness/src/domains/xpath.rs', 'coq/theories/Model/DomNormalize.v', 'coq/theories/Model/DomReadOnly.v'):
        try: h.update(open(os.path.join(lib.VERIF, f), 'rb').read())
        except OSError: pass
    return h.hexdigest()[:12]

class Stats:
    """duck-typed stand-in for lib.Run while generating (only .count is used)"""
    def __init__(self): self.hist = {}
    def count(self, k, n=1): self.hist[k] = self.hist.get(k, 0) + n

def analyse(cases, impl_lines, model_lines, summary, memo, tag):
    """cases: list of (docs, ops, view); fills summary (mismatches, violations per property, histogram)"""
    H = summary['hist']
    def cnt(k, n=1): H[k] = H.get(k, 0) + n
    for (docs, ops, view), il, ml in zip(cases, impl_lines, model_lines or [None] * len(cases)):
        summary['cases'] += 1
        cnt('cases:' + tag)
        recs_txt = il.split(' | ')
        if ' # ' not in il:
            summary['crashes'].append({'docs': docs, 'ops': [list(o) for o in ops], 'view': view, 'line': il[:200]})
            continue
        if ml is not None:
            bits = init_bits(ml)
            if bits is None or '0' in bits:
                summary['ti_fail'] += 1
            bits = init_bits(ml, 'pr=')
            if bits is None or '0' in bits:
                summary['pr_fail'] = summary.get('pr_fail', 0) + 1
            i = first_mismatch(il, ml)
            if i is not None:
                summary['mismatches'].append({'docs': docs, 'ops': [list(o) for o in ops[:i]], 'view': view, 'record': i, 'tag': tag})
        prev = None
        found = set()
        for i, txt in enumerate(recs_txt):
            head, _, dump = txt.partition(' # ')
            if i > 0:
                summary['ops'] += 1
                res = head.split(' ')[0]
                cls = res.split(':')[0] + (':' + res.split(':')[1] if res.startswith('err') else '')
                cnt('op:' + ops[i - 1][0]); cnt('result:' + cls)
                if cls != 'na':
                    summary['nontrivial'].add(hash((prev, mkop(ops[i - 1]))))
                if res.startswith('q:'):
                    qv = query_violation(Rec(head + ' # -'))
                    cnt('query:' + ('equal' if qv is None else qv[0]))
                    if qv is not None and ('c14', qv[0]) not in found:
                        found.add(('c14', qv[0]))
                        summary['c14'].append({'docs': docs, 'ops': [list(o) for o in ops[:i]], 'view': view, 'clause': qv[0], 'detail': qv[1], 'tag': tag})
            if dump == '-' or dump == prev:
                prev = dump if dump != '-' else prev
                continue
            prev = dump
            if dump in memo:
                v12, v14 = memo[dump]
            else:
                r = Rec(txt)
                v12, v14 = c12_violations(r), c14_violations(r)
                memo[dump] = (v12, v14)
                summary['states'] += 1
            for prop, vs in (('c12', v12), ('c14', v14)):
                for clause, detail in vs[:2]:
                    if (prop, clause) in found: continue
                    found.add((prop, clause))
                    summary[prop].append({'docs': docs, 'ops': [list(o) for o in ops[:i]], 'view': view, 'clause': clause, 'detail': detail, 'tag': tag})

def with_queries(ops, rng, every=5, batch=4, dense=False):
    """query batches between the edits.  `dense`: a warm-up batch before the first edit (so that anything
    the library computes lazily or caches has been computed from the unedited document) and a batch
    directly after an edit with probability 1/2 -- an edit followed at once by a query, with no other
    call in between, is what exposes stale keys or caches"""
    out = []
    if dense:
        out += [('Q', 0, q) for q in rng.sample(QUERIES, batch)]
    for i, o in enumerate(ops):
        out.append(o)
        if (dense and rng.random() < 0.5) or (not dense and (i + 1) % every == 0):
            out += [('Q', 0, q) for q in rng.sample(QUERIES, 3 if dense else batch)]
    out += [('Q', 0, q) for q in rng.sample(QUERIES, batch)]
    return out

def campaign(run, log=lib.log):
    """matrix + exhaustive short histories + random histories, model-vs-implementation and both oracles.
    The result is cached (work/dom_campaign_*.json) so that C12 and C14 share one run."""
    path = os.path.join(lib.WORK, 'dom_campaign_%s_%s_%s_%s.json' % (run.tier, run.seed, lib.repo_tree_hash(), source_hash()))
    if os.path.exists(path) and time.time() - os.path.getmtime(path) < 6 * 3600 and not os.environ.get('VERIF_DOM_NOCACHE'):
        s = json.load(open(path))
        s['cached'] = True
        return s
    import random
    rng = random.Random(run.seed)
    thorough = run.tier == 'thorough'
    summary = {'cases': 0, 'ops': 0, 'states': 0, 'mismatches': [], 'c12': [], 'c14': [], 'crashes': [], 'ti_fail': 0,
               'hist': {}, 'nontrivial': set(), 'samples': [], 'times': {}}
    memo = {}
    t0 = time.time()
    # (a) the single-call matrix from one rich state
    docs, pre, calls = matrix_cases()
    mdocs, mpre, mcalls = docs, pre, calls
    cases = [(docs, pre + [c], 'r!%d' % len(pre)) for c in calls]
    lines = [mkcase(*c) for c in cases]
    il = run_impl(lines); ml = run_model(lines, il)
    analyse(cases, il, ml, summary, memo, 'matrix')
    summary['samples'].append({'kind': 'matrix', 'documents': docs, 'prefix': [show_op(o) for o in pre], 'calls': len(calls),
                               'first': [show_op(o) for o in calls[:3]]})
    summary['times']['matrix'] = round(time.time() - t0, 1); t0 = time.time()
    # (b) exhaustive short histories over a small document
    sdocs = [SMALL]
    rec0 = parse_line(run_impl([mkcase(sdocs, [])], shards=1)[0])[0]
    alpha = short_alphabet(rec0, sdocs)
    if thorough:
        a2 = alpha
        a3 = alpha[::max(1, len(alpha) // 60)]
    else:
        a2 = alpha[::max(1, len(alpha) // 110)]
        a3 = []
    cases = [(sdocs, [a], 'r') for a in alpha] + [(sdocs, [a, b], 'r') for a in a2 for b in a2]
    cases += [(sdocs, [a, b, c], 'r') for a in a3 for b in a3 for c in a3]
    for k in range(0, len(cases), 40000):
        chunk = cases[k:k + 40000]
        lines = [mkcase(*c) for c in chunk]
        il = run_impl(lines); ml = run_model(lines, il)
        analyse(chunk, il, ml, summary, memo, 'short')
    summary['samples'].append({'kind': 'exhaustive short histories', 'document': SMALL, 'alphabet': len(alpha),
                               'length<=2 over': len(a2), 'length 3 over': len(a3), 'histories': len(cases)})
    summary['times']['short'] = round(time.time() - t0, 1); t0 = time.time()
    # (c) seeded random histories, grown against the implementation
    st = Stats()
    n = 6000 if thorough else 500
    H = random_histories(st, rng, n, 40)
    for k, v in st.hist.items(): summary['hist'][k] = summary['hist'].get(k, 0) + v
    lines = [mkcase(*c) for c in H]
    il = run_impl(lines); ml = run_model(lines, il)
    analyse(H, il, ml, summary, memo, 'random')
    for d, o, v in H[:3]:
        summary['samples'].append({'kind': 'random history', 'documents': d, 'view': v, 'ops': [show_op(x) for x in o]})
    for d, o, v in H:
        summary['hist']['len:%d' % (10 * (len(o) // 10))] = summary['hist'].get('len:%d' % (10 * (len(o) // 10)), 0) + 1
    summary['times']['random'] = round(time.time() - t0, 1); t0 = time.time()
    # (c') histories with Element::normalize (own random stream)
    NH, nhist = normalize_histories(random.Random('normalize-%d' % run.seed), 1500 if thorough else 250, 24)
    for k, v in nhist.items(): summary['hist'][k] = summary['hist'].get(k, 0) + v
    lines = [mkcase(*c) for c in NH]
    il = run_impl(lines); ml = run_model(lines, il)
    analyse(NH, il, ml, summary, memo, 'normalize')
    normalize_stats(NH, il, summary['hist'])
    for d, o, v in NH[:1] + NH[len(NZ_FIXED) * 2:len(NZ_FIXED) * 2 + 2]:
        summary['samples'].append({'kind': 'normalize history', 'documents': d, 'view': v, 'ops': [show_op(x) for x in o]})
    summary['times']['normalize'] = round(time.time() - t0, 1); t0 = time.time()
    # (c'') histories with calls on the read-only maps of a document type (own random stream): model (step_ro) vs implementation,
    # record by record -- result class and the FULL dump after the call (the model returns the world unchanged)
    RH, rhist = readonly_histories(random.Random('readonly-%d' % run.seed), 1200 if thorough else 220, 24)
    for k, v in rhist.items(): summary['hist'][k] = summary['hist'].get(k, 0) + v
    lines = [mkcase(*c) for c in RH]
    il = run_impl(lines); ml = run_model(lines, il)
    analyse(RH, il, ml, summary, memo, 'readonly')
    readonly_stats(RH, il, summary['hist'])
    for d, o, v in RH[:1] + RH[len(RO_FIXED) * 2:len(RO_FIXED) * 2 + 2]:
        summary['samples'].append({'kind': 'history with calls on the read-only maps of a document type', 'documents': d, 'view': v, 'ops': [show_op(x) for x in o]})
    summary['times']['readonly'] = round(time.time() - t0, 1); t0 = time.time()
    # (d) the same histories with XPath query batches, implementation only, merged view, no dumps
    QH = [(d, with_queries(o, rng), 'm!9999') for d, o, v in H[:(len(H) if thorough else 300)]]
    QH += [(d, with_queries(o[:12], rng, dense=True), 'm!9999') for d, o, v in H[:(len(H) if thorough else 400)]]
    # (e) every single edit of a small alphabet, preceded by a warm-up batch and followed AT ONCE by queries
    for qdoc in ('<r>ab<x/>cd<y i="1" j="2"><z/></y>ef</r>', DOCS[-1]):
        rec0q = parse_line(run_impl([mkcase([qdoc], [])], shards=1)[0])[0]
        alpha_q = short_alphabet(rec0q, [qdoc])
        if not thorough:
            alpha_q = [o for o in alpha_q if o[0] in ('ST', 'SD', 'SV', 'SA', 'RA')] + rng.sample(alpha_q, min(120, len(alpha_q)))
        for o in alpha_q:
            qs = rng.sample(QUERIES, 6) + ['//node()', '//text()|//*', '//@*|//*']
            QH.append(([qdoc], [('Q', 0, q) for q in qs[:3]] + [o] + [('Q', 0, q) for q in qs], 'm!9999'))
    lines = [mkcase(*c) for c in QH]
    il = run_impl(lines)
    analyse(QH, il, None, summary, memo, 'queries')
    summary['times']['queries'] = round(time.time() - t0, 1); t0 = time.time()
    # (f) the tie of Model/StoreView.v (the C14 bridge): the evaluator's document table of the EDITED documents, built by
    # the table builder of the xpath domain on the implementation (op X) and by the extracted xdoc_of_store on the model's
    # store after the same ops, both views, compared row by row and field by field (no dumps: the histories themselves
    # are compared in (a)-(c)).  Histories: the random ones (tables after every 4th op and at the end, every document),
    # the single-call matrix from the rich state (tables of both documents after the call), and every single edit / sampled
    # pairs of edits of the small alphabet on the namespace-heavy, the entity and the mixed-content documents (and single
    # edits of a document with a DTD-defaulted attribute, whose tables are outside the view: skipped and counted).
    T = {'hist': {}, 'compared': 0, 'rows': 0, 'max_rows': 0, 'distinct_tables': 0, 'distinct_tables_with_declared_namespaces': 0,
         'distinct_tables_with_merged_text': 0, 'diffs': [], 'skipped': 0, 'histories': 0}
    TH = [(d, with_tables(o, every=(2 if thorough else 4), docs=len(d)), v.split('!')[0] + '!9999') for d, o, v in H]
    TH += [(mdocs, with_tables(mpre + [c], every=len(mpre) + 2, docs=2), 'r!9999') for c in mcalls[::(1 if thorough else 3)]]
    for tdoc in (DOCS[5], DOCS[2], DOCS[1], DEFAULTED):
        rec0t = parse_line(run_impl([mkcase([tdoc], [])], shards=1)[0])[0]
        alpha_t = short_alphabet(rec0t, [tdoc])
        TH += [([tdoc], with_tables([o], every=9), 'r!9999') for o in alpha_t]
        if tdoc == DEFAULTED:
            continue      # outside the store model: only there to exercise (and count) the explicit skip
        pairs = [(a, b) for a in alpha_t[::7] for b in alpha_t[::7]]
        for a, b in rng.sample(pairs, min(8000 if thorough else 400, len(pairs))):
            TH.append(([tdoc], with_tables([a, b], every=1), 'm!9999'))
    T['histories'] = len(TH)
    for k in range(0, len(TH), 20000):
        chunk = TH[k:k + 20000]
        lines = [mkcase(*c) for c in chunk]
        il = run_impl(lines); ml = run_model(lines, il)
        analyse_tables(chunk, il, ml, T, 'tables')
    T.pop('_seen', None)
    summary['tables'] = T
    for d, o, v in TH[:1]:
        summary['samples'].append({'kind': 'history with table dumps (X ops)', 'documents': d, 'view': v, 'ops': [show_op(x) for x in o]})
    summary['times']['tables'] = round(time.time() - t0, 1)
    summary['nontrivial'] = len(summary['nontrivial'])
    os.makedirs(lib.WORK, exist_ok=True)
    tmp = '%s.%d.tmp' % (path, os.getpid())       # atomic: another check may read the cache while it is written
    with open(tmp, 'w') as f:
        json.dump(summary, f)
    os.replace(tmp, path)
    summary['cached'] = False
    return summary

def shrink_failure(f, prop):
    """delta debugging over the ops of a failing history; the failure class (oracle clause) is kept"""
    docs, view = f['docs'], f['view'].split('!')[0]
    ops = [tuple(o) for o in f['ops']]
    clause = f['clause']
    def fails(cand):
        line = run_impl([mkcase(docs, cand, view)], shards=1)
        if not line: return False
        recs = parse_line(line[0])
        if not recs: return False
        for r in recs:
            if clause.startswith('query'):
                qv = query_violation(r)
                if qv and qv[0] == clause: return True
            else:
                vs = c12_violations(r) if prop == 'c12' else c14_violations(r)
                if any(c == clause for c, _ in vs): return True
        return False
    if not fails(ops):
        return f
    small = refine(docs, ddmin(ops, fails), view, fails)
    g = dict(f); g['ops'] = [list(o) for o in small]; g['shrunk_from'] = len(ops)
    return g

def shrink_mismatch(m):
    docs, view = m['docs'], m['view'].split('!')[0]
    ops = [tuple(o) for o in m['ops']]
    def fails(cand):
        c = mkcase(docs, cand, view)
        il = run_impl([c], shards=1); 
        if not il: return False
        ml = run_model([c], il, shards=1)
        return bool(ml) and first_mismatch(il[0], ml[0]) is not None
    if not fails(ops):
        return m
    small = refine(docs, ddmin(ops, fails), view, fails)
    g = dict(m); g['ops'] = [list(o) for o in small]; g['shrunk_from'] = len(ops)
    return g

def table_diffs_of(docs, ops, view):
    """the differing tables of a history (X ops appended at the end when it has none)"""
    ops = list(ops)
    if not any(o[0] == 'X' for o in ops):
        ops = with_tables(ops, every=10 ** 9, docs=len(docs))
    c = mkcase(docs, ops, view.split('!')[0] + '!9999')
    il = run_impl([c], shards=1)
    if not il or ' # ' not in il[0]: return ops, []
    ml = run_model([c], il, shards=1)
    if not ml or ' # ' not in ml[0]: return ops, []
    return ops, [(i, v, det) for i, v, st, det in table_tie(il[0], ml[0]) if st == 'diff']

def shrink_table_diff(m):
    """smallest history (edits only, tables dumped at the end) after which the two tables still differ"""
    docs, view = m['docs'], m['view'].split('!')[0]
    edits = [tuple(o) for o in m['ops'] if o[0] != 'X']
    def fails(cand):
        return bool(table_diffs_of(docs, cand, view)[1])
    if not fails(edits):
        return m
    small = [] if fails([]) else (refine(docs, ddmin(edits, fails), view, fails) if len(edits) > 1 else edits)
    ops, ds = table_diffs_of(docs, small, view)
    if not ds:
        return m
    i, v, det = ds[0]
    return dict(m, **dict(det, ops=[list(o) for o in ops[:i]], table_view=v, shrunk_from=len(edits)))

def describe_table_diff(d):
    where = 'the tables differ as a whole' if d.get('row') is None else 'first differing row %s, field %s' % (d['row'], d['field'])
    return ('view %s: %s: implementation [%s] model [%s] after %s on %s'
            % ({'0': 'raw', '1': 'merged'}.get(str(d.get('table_view')), d.get('table_view')), where, d.get('impl'), d.get('model'),
               ' ; '.join(show_op(tuple(o)) for o in d['ops']) or '(no op)', d['docs']))

def describe_failure(f):
    return '%s after %s on %s' % (f.get('detail', f.get('clause', 'mismatch')), ' ; '.join(show_op(tuple(o)) for o in f['ops']) or '(no op)', f['docs'])

def replay_file(path, prop):
    d = json.load(open(path))
    print(json.dumps({k: v for k, v in d.items() if k not in ('docs', 'ops')}, indent=1))
    if 'docs' not in d:
        return 0
    docs, ops, view = d['docs'], [tuple(o) for o in d['ops']], d.get('view', 'r').split('!')[0]
    case = mkcase(docs, ops, view)
    il = run_impl([case], shards=1)
    print('documents:', docs)
    if not il:
        print('implementation: no output'); return 1
    ml = run_model([case], il, shards=1)
    for i, r in enumerate(parse_line(il[0]) or []):
        op = show_op(ops[i - 1]) if i > 0 else 'init'
        print('%2d %-40s -> %s' % (i, op, r.result if len(r.result) < 100 else r.result[:60] + '...'))
        for c, det in (c12_violations(r) + c14_violations(r)):
            print('      %s: %s' % (c, det))
        qv = query_violation(r)
        if qv: print('      %s: %s' % qv)
    if ml:
        print('model vs implementation: first differing record =', first_mismatch(il[0], ml[0]))
        for i, v, status, det in table_tie(il[0], ml[0]):
            print('table of record %d (%s view; xdoc_of_store of the model vs Table::build on the implementation): %s'
                  % (i, {'0': 'raw', '1': 'merged'}.get(v, v), status))
            if status == 'diff':
                print('      first differing row %s, field %s' % (det.get('row'), det.get('field')))
                print('      implementation: %s' % det.get('impl'))
                print('      model:          %s' % det.get('model'))
    print('implementation line:'); print(il[0][:2000])
    if ml: print('model line:'); print(ml[0][:2000])
    return 0


NS_QUERIES = [q for q in QUERIES if 'namespace-uri' in q or 'name()' in q]

def query_findings(run, clauses, only_queries=None):
    """failures of the Q ops of the shared campaign with one of the given clauses (shrunk), for the
    checks of other properties that are also about queries on edited documents (C07, C10, C19)"""
    lib.build_binaries(run, model_areas=['dom'])
    s = campaign(run)
    out, seen = [], set()
    for f in s['c14']:
        if f['clause'] not in clauses or f['clause'] in seen:
            continue
        ops = f['ops']
        q = ops[-1][2] if ops and ops[-1][0] == 'Q' else None
        if only_queries is not None and q not in only_queries:
            continue
        seen.add(f['clause'])
        g = shrink_failure(f, 'c14')
        out.append(dict(g, what=describe_failure(g), query=q))
    return out
