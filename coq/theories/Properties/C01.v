(** * C01 -- well-formed documents are accepted and yield the infoset they denote.

    Full statements (DESIGN 5.1) over the model of the implementation:

      parse_render : forall d c, valid d = true -> ok_choices d c = true ->
                       merged (from_raw_model (render d c)) = Ok ([], denote d)
      render_wf    : forall d c, valid d = true -> ok_choices d c = true -> wf (render d c) = true

    [denote] does not take the choice oracle: independence of the denoted infoset from the
    surface choices holds by construction; every oracle is admissible ([all_choices_ok]).

    Proved here (closed, for every oracle, every string / continuation): the LEXICAL RUNG (a)-(c), the
    grammar of elements (d), and -- round 2 -- the whole of [render_wf] plus acceptance by the model for
    documents WITHOUT a document type declaration (e), (f).
    (a) the renderings of comments, PIs and character references of Spec/Infoset.v are read back by
        the recognisers of Spec/XmlWF.v ([render_*_wf], [char_ref_roundtrip]); attribute-value literals
        are read back by [p_AttValue] and their normalized value is independent of the oracle; character
        data (literal / references / CDATA sections in any mixture) is read back by [p_content] with the
        characters of the abstract text;
    (b) what the specification recognises, the REGENERATED grammar of the real parser accepts with the
        same rest ([*_complete]);
    (c) hence the real productions accept every rendering ([parser_accepts_rendered_*]).
    (d) the element / content rung at the grammar level: [render_node_is_content].
    (e) round 2 -- ACCEPTANCE OF EVERY WELL-FORMED DOCUMENT WITHOUT A DOCUMENT TYPE DECLARATION
        ([wellformed_nodoctype_is_accepted_partial]): for EVERY string s (not only renderings) with
        wf s = true whose parse by the specification has no DOCTYPE, the model of from_raw accepts s
        completely (empty rest).  Hence acceptance of a rendering follows from [render_wf] alone on
        this class.  Its grammar half ([spec_grammar_is_accepted_nodoctype_partial]): what
        [Spec.XmlWF.parse_document] reads -- XML declaration, Misc, element, attributes, content to any
        depth -- the production `document` of the REGENERATED grammar reads, with the typed document
        that translates back to the specification's tree, provided names are QNames and end tags match
        (both follow from wf).  Proofs/XmlWFSyntaxConv*.v; with C02 (4) the two languages coincide on
        this class outside findings D04 and WFNS20-23 (Properties/C02.v (8)).
    (f) round 2 -- [render_wf] AND ACCEPTANCE FOR EVERY VALID ABSTRACT DOCUMENT WITHOUT A DOCUMENT TYPE
        DECLARATION, every oracle ([render_wf_nodoctype_partial], [rendered_nodoctype_is_accepted_partial]):
          forall d c, valid d = true -> a_doctype d = None -> wf (render d c) = true
          forall d c, valid d = true -> a_doctype d = None -> exists doc, from_raw (render d c) = OOk ([], doc)
        All rungs: XML declaration (version, encoding, standalone in any quoting / spacing), Misc before and
        after the root, the element tree to any depth with the tree that is read back known explicitly
        ([render_node_reads]: attributes in the oracle's order with the oracle's pieces, character data as the
        oracle's mixture of characters / references / CDATA sections, empty-element tags) and with the fuel
        of the specification bounded by the length of the rendering; the CONSTRAINTS on the tree read back
        (Unique Att Spec under the permutation, Legal Character, Entity Declared, No < in Attribute Values,
        Element Type Match) and the NAMESPACE constraints (declared prefixes, reserved names, duplicate
        expanded names: invariant under the permutation of attributes and the choice of value pieces, because
        the normalized attribute values do not depend on the oracle) follow from those of the canonical
        tree, which [valid] demands.  Proofs/XmlWFSyntaxRender{Node,Check,Doc}.v.  Acceptance then follows
        from (e).
    (g) round 2 -- THE FULL STATEMENTS [render_wf] AND [parse_render] ARE REFUTED AS WRITTEN, by a document with a
        DOCTYPE ([render_wf_refuted], [denote_refuted]): [valid] admits an internal subset that declares an entity
        with the NAME of a predefined one and another replacement text (<!ENTITY lt "x">: [decl_ok] only asks
        for an NCName), while [render] may write the predefined reference &lt; for the character `<`
        (oracle 2 at that position); the specification then expands the DECLARED entity (first declaration
        binds), so the attribute value read back is "x" instead of "<".  Witness [ex_redeclared]:
          <!DOCTYPE a [<!ENTITY lt "x">]><a xmlns:q="x" xmlns:p="&lt;" q:k="2" p:k="1"/>
        is not namespace-well-formed (duplicate expanded name) although its abstract document is valid, and
        its infoset differs from [denote].  This is a gap in the DEFINITION of the profile (Spec/Infoset.v
        [valid]), not a defect of the implementation: the real crates and the model agree with the
        specification on this text (value "x"; accepted as finding WFNS23 says).  A statement for documents
        with a DOCTYPE needs the extra hypothesis that no declared entity is named lt, gt, amp, apos or quot
        (or that [valid] demands it); the generator of checks/C01.py never produces such a declaration.
    (h) round 2 -- "WELL-FORMED IMPLIES ACCEPTED" IS REFUTED FOR DOCUMENTS WITH A DOCTYPE, by the model of the
        real code ([wellformed_is_accepted_refuted]; the real crates answer the same):
          <!DOCTYPE a [<!ENTITY e "<!-- &u; -->">]><a>&e;</a>
        is namespace-well-formed (the replacement text of e is a comment; inside a comment `&u;` is no
        reference; expat agrees) and is REJECTED: XmlDocument::new looks for references in the entity
        LITERAL and demands that u be declared.  The same with `&u;` inside a CDATA section or a PI of the
        replacement text, and with `&e;` there (reported as recursion).  A finding of this round
        (notes/wf_STATUS.md), outside the profile of [valid] ([ent_items_ok] allows no markup in entity
        values), so (f) is not affected; (e) cannot be extended to all documents with a DOCTYPE.
        A second witness ([wellformed_is_accepted_refuted_external]): <!DOCTYPE a SYSTEM "x.dtd"><a>&u;</a>
        is well-formed (with an external subset and without standalone="yes", Entity Declared is a
        validity constraint; expat reports a skipped entity) and is REJECTED: the tolerance for
        undeclared names is applied to references nested in entity values only, not to a reference
        written in content or in an attribute value.
    (i) round 2 -- towards (e) with a DOCTYPE, per production (Proofs/XmlWFSyntaxConvDtd.v, ..ConvDtdAtt.v): what
        the specification reads as a general entity declaration (literal, SYSTEM / PUBLIC, NDATA), a notation
        declaration or an attribute-list declaration (every attribute type, enumerations, defaults), the
        regenerated grammar reads with the corresponding typed value
        ([spec_ge_decl_is_accepted_partial], [spec_notation_decl_is_accepted_partial],
        [spec_attlist_decl_is_accepted_partial]).  Element type declarations are NOT converse-provable against
        Spec/XmlWF.v as it stands: the specification does not keep the content model, so its namespace level
        accepts <!ELEMENT a (b:c:d)> although Namespaces in XML 1.0 [17]-[19] demand QNames there; the
        implementation rejects it (correctly).  A gap of the specification, harmless for C02 (the model is the
        stricter side).
    (j) round 2 -- ACCEPTANCE OF WELL-FORMED DOCUMENTS WITH A DOCTYPE, outside the findings
        ([wellformed_is_accepted_partial], Proofs/XmlWFSyntaxConvDtd*.v):
          forall s, wf s = true -> strict_cm s = true -> conv_hyps s = true -> exists d, from_raw s = OOk ([], d)
        for EVERY string s, with or without a document type declaration (it subsumes (e)), where the two
        decidable hypotheses keep clear of the differences found:
          [strict_cm s]  -- the names inside content models of ELEMENT declarations are QNames (the gap of the
                            specification, see (i); defined through the strict variant of the specification's
                            grammar, which refines it: [strict_grammar_refines_spec]);
          [conv_hyps s]  -- no external subset or standalone="yes" (finding: undeclared entity referenced directly),
                            no parameter-entity declaration (refused by XmlDocument::new, D07), and every declared
                            general entity SIMPLE on the specification's side (no `<`, no `&` from a character
                            reference, no `]]>` in the replacement text: keeps clear of the finding about references
                            inside comments / CDATA sections / PIs of replacement text, and of WF13).
        Grammar: [spec_grammar_is_accepted_partial] -- what the strict grammar reads, the production `document`
        of the REGENERATED grammar reads (internal subset with ELEMENT incl. nested content models -- `seq` must
        FAIL on a choice group --, ATTLIST, ENTITY, NOTATION, PI, comment; external identifiers), with the typed
        document that translates back.  Constraints: the depth-first recursion check of XmlDocument::new answers Ok
        on every entity that the specification expands / re-reads without error ([cer_complete]: completeness
        of the check incl. its fuel, by induction on the height of the entity; its `seen` map is sound AND
        complete), defaults against the entities declared before, Unique Att Spec, Legal Character.
        The valid abstract documents of Spec/Infoset.v satisfy [conv_hyps] when they have no external subset (their
        entity values are character data and references, [ent_items_ok]), so what is left for (f) with a DOCTYPE
        is the DTD rung of [render_wf] alone: (k), (l).
    (k) round 2 -- THE SYNTAX RUNG OF [render_wf] FOR DOCUMENTS WITH A DOCUMENT TYPE DECLARATION
        ([rendered_doctype_is_read_partial], Proofs/XmlWFSyntaxRenderDtd{,Elem,Doc}.v): for every abstract
        document that satisfies [shape_ok] (the lexical half of [valid]) and has a DOCTYPE, every oracle,
          strict_cm (render d c) = true   and   parse_document (render d c) = Some xd
        where xd is known explicitly: the XML declaration and the three Misc lists of the canonical tree
        [to_xdoc d], the DOCTYPE with the same name and external identifier and one declaration read back
        for each abstract declaration ([decl_read]: ENTITY with the oracle's pieces of the same replacement
        text -- literal characters / character references, either quote; external and unparsed entities,
        NOTATION with SYSTEM / PUBLIC / PUBLIC-only identifiers; ATTLIST with every attribute type,
        enumerations with the oracle's white space, #REQUIRED / #IMPLIED / #FIXED / default literals;
        ELEMENT with EMPTY / ANY / mixed content / nested choice and sequence groups with occurrence
        indicators and white space anywhere the grammar allows it; comments and PIs), and the root read
        back as in (f).  The fuel of the specification (length of the input + 1) suffices.
    (l) round 2 -- [render_wf] FOR EVERY VALID ABSTRACT DOCUMENT, WITH OR WITHOUT A DOCUMENT TYPE DECLARATION, under
        the one exclusion that (g) makes necessary ([render_wf_partial], Proofs/XmlWFSyntaxRenderDtd{Check,Wf}.v):
          forall d c, valid d = true -> no_predefined_redeclared d = true -> wf (render d c) = true
        where [no_predefined_redeclared d] says that no ENTITY declaration of the internal subset has the name
        lt, gt, amp, apos or quot (decidable on d; true when there is no DOCTYPE).  The constraint rung with a
        DOCTYPE: the environment of declared entities read back IS the canonical one (the oracle's pieces of an
        entity value have the same replacement text), so is the fuel; [subset_ok] (character references in
        entity values, default values against the entities declared so far); the constraints on the tree
        (generalisation of (f) to any environment in which the predefined names have their standard meaning, any
        sufficient fuel, references to declared entities in content and in attribute values); the namespace
        constraints with DEFAULTED attributes (the defaults read back have the same normalized values, so the
        declared prefixes, the reserved names and the expanded names coincide up to the permutation of the
        specified attributes) and on the declarations.  With (j), ACCEPTANCE by the model of from_raw
        ([rendered_is_accepted_partial]): when moreover there is no external subset (or standalone="yes") and
        no entity value contains "]]>" (the two exclusions of (j) that valid documents can violate).
        [doctype_valid_nonvacuous]: a document with entities referencing each other, an unparsed entity, a
        notation, an ATTLIST with a default that binds a prefix used in the tree, mixed and children content
        models satisfies all the hypotheses.
    (m) round 2 -- [parse_render] ON THE SIDE OF THE SPECIFICATION ([spec_parse_render_partial],
        Proofs/XmlWFSyntaxRenderTokens.v): for every valid abstract document outside the exclusion of (g), every
        oracle that puts no carriage return into white space,
          infoset_of_string (render d c) = Some (denote d)
        i.e. the information set that Spec/Infoset.v reads from the rendering does not depend on the surface
        choices: attribute tokens (the sort by name gives one result for every permutation of attributes with
        distinct names: [sort_by_perm], with the order [str_ltb] shown strict and total; declared types and
        defaults from the ATTLISTs read back; normalized values), character data (any mixture of characters,
        character references, CDATA sections and predefined references accumulates to the same text token:
        [text_tokens]), references to declared entities, the tokens of the DOCTYPE (notations, unparsed
        entities, PIs: [doctype_tokens_read]).  The hypothesis about carriage returns is there because
        [infoset_of_string] normalizes line ends BEFORE parsing and the read-back lemmas of (f), (k) speak
        about the rendering itself; it is decidable on the rendering ([contains c_cr (render d c) = false]) and
        holds for every oracle whose white-space choices avoid CR ([spec_parse_render_nonvacuous]).
    (n) round 3 -- THE INFORMATION SET THAT THE DOM ACCESSORS EXPOSE (Model/DomView.v; Proofs/DomView*.v).
        [Model.DomView.dom_dump merged doc] is a model of what harness/src/domains/wfdoc.rs prints for the document that
        the model of from_raw builds: document properties, the document type declaration with its notations and
        unparsed entities, the element tree with the rows of [namespace_attributes()] + [attributes()]
        ([normalized_value] with entity expansion and the declared type, [specified], defaults from the ATTLIST
        declarations), children in the raw view (Text / CDATA section / character reference / entity reference with its
        value) and in the merged-text view (one ExpandedText node per maximal run).  checks/C01.py runs the extracted
        model (domain `wfview`) against the real crates on every generated text and diffs the dumps, listed findings
        included.  [dom_view merged doc : infoset] is that dump as tokens of Spec/Infoset.v (the raw dump after the
        merging the check applies).
        Rung (i), DOCUMENTS WITHOUT A DOCUMENT TYPE DECLARATION:
        [dom_view_is_infoset_nodoctype_partial] -- for EVERY string s that the model of from_raw accepts completely,
        that has no DOCTYPE and is outside finding D04, the specification parses s ([parse_document s = Some xd],
        [check_doc xd = inr root]) and
            dom_view false doc = doc_tokens xd root            (raw view: the information set of the text)
            dom_view true  doc = doc_tokens2 xd root           (merged view: the same with a text token for EVERY maximal
                                                                 run of character data that has an item, also an empty one:
                                                                 finding WF14 is part of the statement)
        and [doc_tokens2 xd root = doc_tokens xd root] when it has no empty text token ([merged_view_without_empty_text]).
        Elements to any depth, attributes in any order with any quoting and reference form (the rows sorted by Rust's
        order on (name, token) are the specification's attribute set sorted by name: names are distinct because
        XmlElement::node refuses duplicates), character data in any mixture of literal text / character references /
        predefined entity references / CDATA sections, comments, PIs, prolog and epilog Misc, XML declaration.
        [C01_dom_view_is_denote_nodoctype_partial] -- for every valid abstract document d without DOCTYPE, every oracle c:
            from_raw (render d c) = OOk ([], doc)  ->  dom_view false doc = denote d
            Known_WF14 d = false                   ->  dom_view true doc = denote d
        where [Known_WF14 d] (decidable on d) says that the merged view of the implementation, [denote2 d], has an empty
        text node, or that d has an empty text child (for which the relation `reads` of (f) does not determine the
        tree that is read back).  No hypothesis about carriage returns: the theorem speaks about the rendering itself
        (WF16 concerns literal CRs, which [render] writes in markup white space only).
        Rungs (ii), (iii), DOCUMENTS WITH A DOCUMENT TYPE DECLARATION:
        [dom_view_is_infoset_doctype_partial] -- for every typed document pd that the parser returns for a string and
        XmlDocument::new accepts (the model of both), outside D04, under [dtd_hyps] on the tree the specification
        reads -- no external subset or standalone="yes" (WF24), SIMPLE entity values (no markup in replacement text:
        D13, WF23), no declaration of a predefined entity name, distinct general-entity names and distinct notation
        names (WF22), public identifiers in normalized form (WF17) --: [check_doc (x_doc pd) = inr root], and when the
        expanded tree is good ([tree_good (attrs_okb subset) root]: no reference to an external parsed entity; at
        every element no #REQUIRED definition without a specified attribute (D36)),
            dom_view false doc = doc_tokens (x_doc pd) root      dom_view true doc = doc_tokens2 (x_doc pd) root.
        Notations and unparsed entities (Rust's sort of (name, token) rows = the specification's sort by name),
        PIs of the internal subset, identifiers; general entities referenced in content
        (XmlUnexpandedEntityReference::value = the character data the specification gets by re-reading the
        replacement text, nested references to any depth, the induction of [expand_good] with values) and in
        attribute values (attr_value_from_name with 3.3.3 normalization = [av_value]); attribute-list declarations:
        first definition of a name over all declarations of the element type, declared types (tokenized
        normalization = [type_norm]), defaults (built against the entities declared before them, expanded against
        the whole table), names compared as (prefix, local part) pairs on one side and as strings on the other.
        [C01_dom_view_is_denote_partial] -- THE MODEL HALF OF [parse_render]: for every valid abstract document d, every oracle c,
            no_predefined_redeclared d -> accepted_profile d -> Known_C01 d = false ->
            from_raw (render d c) = OOk ([], doc) -> dom_view true doc = denote d /\ dom_view false doc = denote d
        where [Known_C01 d = Known_WF14 d || Known_ATTR d] is decidable on d: [Known_ATTR d] says that the canonical
        tree of d is not good in the sense above (D36).  The other listed findings
        need no clause: [valid] already demands entity values without markup (D13, WF23), distinct entity names
        (WF22) and normalized public identifiers (WF17); [accepted_profile] excludes the external subset (WF24);
        [render] writes no literal carriage return into character data, attribute values, comments or PIs (WF16).
        D65 (found by this model, repaired in /repo 703c414): Element::attributes tested the defaults against
        attributes_specified(), which leaves the namespace declarations out, so a namespace declaration that is written
        on the element and has a default (<!ATTLIST a xmlns:p CDATA "u"> with <a xmlns:p="v"/>) was listed twice.  The model
        follows the repaired code; the shape is inside the theorem now ([dom_view_nsdefault]).
        D67 (repaired in /repo bf629dc): a namespace declaration supplied by an ATTLIST default value is appended by
        namespace_attributes() ([add_ns_defaults]) and attributes() skips every definition that is a namespace declaration
        ([add_defaults]); the model follows the code, the rows are those of the specification ([dom_view_nsdefault67]).
    Not proved: renderings with carriage returns in white space for (m) (they are covered by (n) on the side of
    the model, which does not go through [infoset_of_string]); (n) for strings whose entity values hold markup.
    This is covered by checks/C01.py, which evaluates wf (render d c) and
    infoset_of_string (render d c) = denote d with the extracted functions on every generated case,
    compares with the real crates, and cross-checks the specification against expat. *)
From Coq Require Import List NArith Bool.
From XmlRs Require Import Base.CPred Spec.XmlChars Spec.XmlWF Spec.Infoset Model.Peg Gen.GrammarXmlGen
  Proofs.NameLanguage Proofs.XmlWFLexical Proofs.XmlWFRender.
From XmlRs Require Model.ParseActions Model.Info Proofs.ParseInvElem Proofs.XmlWFSyntaxDoc Proofs.XmlWFSyntaxCheck
  Proofs.XmlWFSyntaxConvElem Proofs.XmlWFSyntaxConvDoc Proofs.XmlWFSyntaxConvCheck
  Proofs.XmlWFSyntaxRenderNode Proofs.XmlWFSyntaxRenderCheck Proofs.XmlWFSyntaxRenderDoc
  Proofs.DisplayLex Proofs.XmlWFSyntaxDtd Proofs.XmlWFSyntaxDtdDoc Proofs.XmlWFSyntaxConvDtd Proofs.XmlWFSyntaxConvDtdAtt
  Proofs.XmlWFSyntaxConvDtdElem Proofs.XmlWFSyntaxConvDtdDoc Proofs.XmlWFSyntaxConvDtdCheck
  Proofs.XmlWFSyntaxRenderDtd Proofs.XmlWFSyntaxRenderDtdElem Proofs.XmlWFSyntaxRenderDtdDoc
  Proofs.XmlWFSyntaxRenderDtdCheck Proofs.XmlWFSyntaxRenderDtdWf Proofs.XmlWFSyntaxRenderTokens
  Model.DomView Proofs.DomViewBase Proofs.DomViewDoc Proofs.DomViewRender Proofs.DomViewC01
  Proofs.DomViewElem Proofs.DomViewDtd Proofs.DomViewDtdDoc Proofs.DomViewRenderDtd Proofs.XmlWFSyntaxDtdDoc Proofs.ParseInvDoc.
Import ListNotations.

(** every oracle is an admissible choice of surface forms *)
Theorem all_choices_ok : forall d c, ok_choices d c = true.
Proof. reflexivity. Qed.

(** ** (a) *)
Theorem render_comment_is_comment : forall s rest, comment_ok s = true ->
  spec_comment (render_comment s ++ rest) = Some rest.
Proof. exact render_comment_wf. Qed.

Theorem render_pi_is_pi : forall c p t d rest, pi_ok t d = true ->
  spec_pi (render_pi c p t d ++ rest) = Some rest.
Proof. exact render_pi_wf. Qed.

Theorem char_ref_reads_back : forall k ch rest, (ch < 100000000)%N ->
  p_ref (tl (char_ref k ch) ++ rest) = Some (RChar ch, rest).
Proof. exact char_ref_roundtrip. Qed.

(** attribute-value literals: read back, whatever the oracle chose, as the same sequence of characters
    and references; the value (3.3.3) of what is read back is the value of the canonical pieces of
    the abstract value, i.e. it does not depend on the surface choices *)
Theorem att_literal_is_attvalue : forall c p v rest, items_ok v = true ->
  exists q, quote q /\
    p_AttValue (S (items_size v)) (att_literal c p v ++ rest) = Some (items_pieces q c (1%N :: p) 0 v, rest).
Proof. exact att_literal_reads_back. Qed.

Theorem att_value_does_not_depend_on_choices : forall f en q c p v i, quote q -> std_predef en ->
  av_value (S (S f)) en (items_pieces q c p i v) = av_value (S (S f)) en (att_pieces v).
Proof. exact att_value_choice_independent. Qed.

(** character data: whatever mixture of literal characters, decimal / hexadecimal character references,
    predefined entity references and (possibly empty) CDATA sections the oracle chose, [p_content]
    reads the rendering back as text-like items whose characters are the abstract text, and goes
    on with what follows (markup, a reference, or the end) *)
Theorem text_is_character_data : forall c p f i prev s, all_chars s = true -> (length s <= f)%nat ->
  exists items n, chars_of items = s /\
    forall fuel T, follow_ok T ->
      p_content (n + fuel)%nat (text_chars f c p i prev s ++ T) =
      XmlWF.bind (p_content fuel T) (fun '(l, r) => Some (items ++ l, r)).
Proof. exact text_reads_back. Qed.

(** the element / content rung, at the level of the grammar [39]-[44]: every abstract node that passes the
    lexical conditions of [valid] ([node_ok]), rendered with ANY oracle -- attribute order, quotes, white
    space, empty-element tag or pair, character data in any mixture of forms, nested to any depth --
    is read back by [p_content], which then goes on with what follows ([parses] says: for suitable
    fuel offsets n, m and every fuel and continuation T,
    p_content (n + fuel) (render_node c p x ++ T) = the items of x, then p_content (m + fuel) T) *)
Theorem render_node_is_content : forall x, node_ok x = true -> forall c p, parses c p x.
Proof. exact valid_node_parses. Qed.

(** ** (b) *)
Theorem comment_complete : forall s r, spec_comment s = Some r -> rest_of (run G_xml R nt_comment s) = Some r.
Proof. intros s r H. now rewrite comment_language. Qed.
Theorem cdsect_complete : forall s r, spec_cdsect s = Some r -> rest_of (run G_xml R nt_cdsect s) = Some r.
Proof. intros s r H. now rewrite cdsect_language. Qed.
Theorem pi_complete : forall s r, spec_pi s = Some r -> rest_of (run G_xml R nt_pi s) = Some r.
Proof. exact XmlWFLexical.pi_complete. Qed.
Theorem chardata_complete : forall s, rest_of (run G_xml R nt_char_data s) = Some (spec_chardata s).
Proof. exact char_data_language. Qed.

(** ** (c) the real parser's productions accept the renderings *)
Theorem parser_accepts_rendered_comment : forall s rest, comment_ok s = true ->
  rest_of (run G_xml R nt_comment (render_comment s ++ rest)) = Some rest.
Proof. intros s rest H. apply comment_complete, render_comment_wf, H. Qed.

Theorem parser_accepts_rendered_pi : forall c p t d rest, pi_ok t d = true ->
  rest_of (run G_xml R nt_pi (render_pi c p t d ++ rest)) = Some rest.
Proof. intros c p t d rest H. apply pi_complete, render_pi_wf, H. Qed.

(** ** (e) every well-formed document without DOCTYPE is accepted *)
Theorem spec_grammar_is_accepted_nodoctype_partial : forall s xd,
  parse_document s = Some xd -> x_doctype xd = None -> XmlWFSyntaxConvElem.xok (x_root xd) = true ->
  exists pd, ParseActions.parse_document s = ParseActions.POk (pd, []) /\ XmlWFSyntaxDoc.x_doc_nodt pd = xd
    /\ ParseActions.pr_declaration_doc (ParseActions.d_prolog pd) = None
    /\ XmlWFSyntaxDoc.d04_doc_nodt pd = true /\ ParseInvElem.p_element_ok (ParseActions.d_element pd).
Proof. exact XmlWFSyntaxConvDoc.conv_document_nodoctype. Qed.

Theorem wellformed_nodoctype_is_accepted_partial : forall s,
  wf s = true -> XmlWFSyntaxConvCheck.spec_nodoctype s = true ->
  exists d, Info.from_raw s = Info.OOk ([], d) /\ XmlWFSyntaxCheck.nodoctype s = true
            /\ XmlWFSyntaxCheck.KnownD04_nodoctype s = false.
Proof. exact XmlWFSyntaxConvCheck.wf_nodoctype_accepted. Qed.

(** ** (f) render_wf and acceptance for documents without DOCTYPE *)
Theorem render_node_reads : forall x, node_ok x = true -> forall c p, XmlWFSyntaxRenderNode.parses2 c p x.
Proof. exact XmlWFSyntaxRenderNode.valid_node_reads. Qed.

Theorem render_wf_nodoctype_partial : forall d c, valid d = true -> a_doctype d = None -> wf (render d c) = true.
Proof. intros d c Hv Hd. exact (proj1 (XmlWFSyntaxRenderDoc.render_wf_nodoctype d c Hv Hd)). Qed.

Theorem rendered_nodoctype_is_accepted_partial : forall d c, valid d = true -> a_doctype d = None ->
  exists doc, Info.from_raw (render d c) = Info.OOk ([], doc).
Proof. exact XmlWFSyntaxRenderDoc.render_accepted_nodoctype. Qed.

(** the hypotheses are satisfiable: XML declaration, comment, namespaces, attributes, text, a PI, a reference *)
Definition ex_adoc : adoc :=
  {| a_version := Some [49;46;48]%N; a_encoding := Some [85;84;70;45;56]%N; a_standalone := Some true;
     a_misc1 := [AComment [32;99;32]%N]; a_doctype := None; a_misc2 := [];
     a_root := AElem [112;58;97]%N
                 [([120;109;108;110;115;58;112]%N, [IText [117]%N]); ([120]%N, [IText [49;60;9]%N; IRef [97;109;112]%N])]
                 [AText [116;38;60;93;93;62]%N; AElem [98]%N [] []; API [112;105]%N (Some [100]%N); ARef [108;116]%N];
     a_misc3 := [API [113]%N None] |}.

Example nodoctype_valid_nonvacuous : valid ex_adoc = true /\ a_doctype ex_adoc = None.
Proof. split; [vm_compute; reflexivity|reflexivity]. Qed.

(** ** (g) the full statements are refuted by a redeclared predefined entity *)
(* <!DOCTYPE a [<!ENTITY lt "x">]> <a xmlns:p="<" xmlns:q="x" p:k="1" q:k="2"/> *)
Definition ex_redeclared : adoc :=
  {| a_version := None; a_encoding := None; a_standalone := None; a_misc1 := [];
     a_doctype := Some {| ad_name := [97]%N; ad_pub := None; ad_sys := None; ad_subset := Some [ADEntity [108;116]%N [IText [120]%N]] |};
     a_misc2 := [];
     a_root := AElem [97]%N [([120;109;108;110;115;58;112]%N, [IText [60]%N]); ([120;109;108;110;115;58;113]%N, [IText [120]%N]);
                              ([112;58;107]%N, [IText [49]%N]); ([113;58;107]%N, [IText [50]%N])] [];
     a_misc3 := [] |}.

Theorem render_wf_refuted : exists d c, valid d = true /\ ok_choices d c = true /\ wf (render d c) = false.
Proof. exists ex_redeclared, (fun _ => 2%N). split; [vm_compute; reflexivity|]. split; [reflexivity|vm_compute; reflexivity]. Qed.

Theorem denote_refuted : exists d c, valid d = true /\ ok_choices d c = true /\
  wf_xml10 (render d c) = true /\ infoset_of_string (render d c) <> Some (Infoset.denote d).
Proof.
  exists ex_redeclared, (fun _ => 2%N). split; [vm_compute; reflexivity|]. split; [reflexivity|]. split; [vm_compute; reflexivity|].
  vm_compute. intros H. discriminate H.
Qed.

(** ** (h) a well-formed document with a DOCTYPE that the implementation rejects *)
(* <!DOCTYPE a [<!ENTITY e "<!-- &u; -->">]><a>&e;</a> *)
Definition ex_comment_ref : str := [60;33;68;79;67;84;89;80;69;32;97;32;91;60;33;69;78;84;73;84;89;32;101;32;34;60;33;45;45;32;38;117;59;32;45;45;62;34;62;93;62;60;97;62;38;101;59;60;47;97;62]%N.

Theorem wellformed_is_accepted_refuted : exists s, wf s = true /\ forall d, Info.from_raw s <> Info.OOk ([], d).
Proof.
  exists ex_comment_ref. split; [vm_compute; reflexivity|]. intros d H.
  assert (E : match Info.from_raw ex_comment_ref with Info.OInfoErr _ => true | _ => false end = true) by (vm_compute; reflexivity).
  rewrite H in E. discriminate E.
Qed.

(* <!DOCTYPE a SYSTEM "x.dtd"><a>&u;</a> *)
Definition ex_ext_undeclared : str := [60;33;68;79;67;84;89;80;69;32;97;32;83;89;83;84;69;77;32;34;120;46;100;116;100;34;62;60;97;62;38;117;59;60;47;97;62]%N.

Theorem wellformed_is_accepted_refuted_external : wf ex_ext_undeclared = true /\ forall d, Info.from_raw ex_ext_undeclared <> Info.OOk ([], d).
Proof.
  split; [vm_compute; reflexivity|]. intros d H.
  assert (E : match Info.from_raw ex_ext_undeclared with Info.OInfoErr _ => true | _ => false end = true) by (vm_compute; reflexivity).
  rewrite H in E. discriminate E.
Qed.

(** ** (i) DTD productions, specification => regenerated grammar *)
Theorem spec_ge_decl_is_accepted_partial : forall fuel (s' r1 : str) d r,
  p_S s' = Some r1 -> XmlWFSyntaxDtd.spec_gedecl fuel r1 = Some (d, r) ->
  exists n def, DisplayLex.yields (NT nt_ge_decl) (s_entity ++ s') (ParseActions.VGeneralEntity n def) r
    /\ d = DEntity n (XmlWFSyntaxDtd.x_entdef def) /\ is_Name n = true /\ XmlWFSyntaxDtd.d04_entdef def = true.
Proof. exact XmlWFSyntaxConvDtd.conv_ge_decl. Qed.

Theorem spec_notation_decl_is_accepted_partial : forall fuel (s' : str) d r,
  p_markupdecl fuel (s_notation_decl ++ s') = Some (d, r) ->
  exists dn, DisplayLex.yields (NT nt_notation_decl) (s_notation_decl ++ s') (ParseActions.VDeclNotation dn) r
    /\ d = XmlWFSyntaxDtd.x_notation dn /\ is_Name (ParseActions.dn_name dn) = true.
Proof. exact XmlWFSyntaxConvDtd.conv_notation_decl. Qed.

Theorem spec_attlist_decl_is_accepted_partial : forall fuel (s' : str) d r,
  p_markupdecl fuel (s_attlist ++ s') = Some (d, r) ->
  match d with DAttlist el defs => is_QName el && forallb (fun '(a, _, _) => is_QName a) defs = true | _ => True end ->
  exists da, DisplayLex.yields (NT nt_attlist_decl) (s_attlist ++ s') (ParseActions.VDeclAtt da) r
    /\ d = XmlWFSyntaxDtd.x_attlist da /\ XmlWFSyntaxDtd.d04_attlist da = true /\ XmlWFSyntaxConvDtdAtt.attlist_wf' da.
Proof. exact XmlWFSyntaxConvDtdAtt.conv_attlist_decl. Qed.

(** ** (j) every well-formed document outside the findings is accepted *)
Theorem strict_grammar_refines_spec : forall s xd, XmlWFSyntaxConvDtdDoc.q_parse_document s = Some xd -> parse_document s = Some xd.
Proof. exact XmlWFSyntaxConvDtdDoc.q_parse_document_spec. Qed.

Theorem spec_grammar_is_accepted_partial : forall s xd,
  XmlWFSyntaxConvDtdDoc.q_parse_document s = Some xd -> XmlWFSyntaxConvElem.xok (x_root xd) = true -> XmlWFSyntaxConvDtdDoc.dt_ok xd = true ->
  exists pd, ParseActions.parse_document s = ParseActions.POk (pd, []) /\ XmlWFSyntaxDtdDoc.x_doc pd = xd /\ XmlWFSyntaxDtdDoc.ok_doc pd = true.
Proof. exact XmlWFSyntaxConvDtdDoc.conv_document. Qed.

Theorem wellformed_is_accepted_partial : forall s,
  wf s = true -> XmlWFSyntaxConvDtdCheck.strict_cm s = true -> XmlWFSyntaxConvDtdCheck.conv_hyps s = true ->
  exists d, Info.from_raw s = Info.OOk ([], d).
Proof. exact XmlWFSyntaxConvDtdCheck.wf_accepted. Qed.

Example wellformed_is_accepted_nonvacuous :
  wf XmlWFSyntaxConvDtdCheck.ex_conv = true /\ XmlWFSyntaxConvDtdCheck.strict_cm XmlWFSyntaxConvDtdCheck.ex_conv = true
  /\ XmlWFSyntaxConvDtdCheck.conv_hyps XmlWFSyntaxConvDtdCheck.ex_conv = true.
Proof. exact XmlWFSyntaxConvDtdCheck.wf_accepted_nonvacuous. Qed.

(** ** (k) the syntax rung of render_wf with a DOCTYPE *)
Theorem rendered_doctype_is_read_partial : forall (d : adoc) (c : choices) dt, shape_ok d = true -> a_doctype d = Some dt ->
  XmlWFSyntaxConvDtdCheck.strict_cm (render d c) = true /\
  exists item l', XmlWFSyntaxRenderNode.reads (a_root d) [item] /\
    Forall2 XmlWFSyntaxRenderDtdDoc.decl_read (opt_list (ad_subset dt)) l' /\
    parse_document (render d c) =
    Some {| x_decl := x_decl (to_xdoc d); x_misc1 := flat_map to_x (a_misc1 d);
            x_doctype := Some {| dt_name := ad_name dt; dt_extid := extid_of (ad_pub dt) (ad_sys dt); dt_subset := l' |};
            x_misc2 := flat_map to_x (a_misc2 d); x_root := item; x_misc3 := flat_map to_x (a_misc3 d) |}.
Proof.
  intros d c dt Hs Hdt. destruct (XmlWFSyntaxRenderDtdDoc.render_parse_dtd d c dt Hs Hdt) as (item & l' & Hr & Hl & Hp).
  split; [unfold XmlWFSyntaxConvDtdCheck.strict_cm; rewrite Hp; reflexivity|].
  exists item, l'. split; [exact Hr|]. split; [exact Hl|]. exact (XmlWFSyntaxConvDtdDoc.q_parse_document_spec _ _ Hp).
Qed.

(** ** (l) render_wf and acceptance for every valid document outside the exclusion of (g) *)
Definition no_predefined_redeclared (d : adoc) : bool :=
  match a_doctype d with Some dt => XmlWFSyntaxRenderDtdWf.no_predef_decl (opt_list (ad_subset dt)) | None => true end.

Theorem render_wf_partial : forall (d : adoc) (c : choices), valid d = true -> no_predefined_redeclared d = true ->
  wf (render d c) = true.
Proof.
  intros d c Hv Hn. unfold no_predefined_redeclared in Hn. destruct (a_doctype d) as [dt|] eqn:Hdt.
  - exact (proj1 (XmlWFSyntaxRenderDtdWf.render_wf_dtd d c dt Hv Hdt Hn)).
  - exact (proj1 (XmlWFSyntaxRenderDoc.render_wf_nodoctype d c Hv Hdt)).
Qed.

(** the two exclusions of (j) that a valid abstract document can violate *)
Definition accepted_profile (d : adoc) : bool :=
  match a_doctype d with
  | Some dt => XmlWFSyntaxRenderDtdWf.no_cdend (opt_list (ad_subset dt)) && e_must_declare (doc_env (to_xdoc d))
  | None => true end.

Theorem rendered_is_accepted_partial : forall (d : adoc) (c : choices), valid d = true -> no_predefined_redeclared d = true ->
  accepted_profile d = true -> exists doc, Info.from_raw (render d c) = Info.OOk ([], doc).
Proof.
  intros d c Hv Hn Ha. unfold no_predefined_redeclared in Hn. unfold accepted_profile in Ha. destruct (a_doctype d) as [dt|] eqn:Hdt.
  - apply andb_true_iff in Ha. destruct Ha as [H1 H2]. exact (XmlWFSyntaxRenderDtdWf.render_accepted_dtd d c dt Hv Hdt Hn H1 H2).
  - exact (XmlWFSyntaxRenderDoc.render_accepted_nodoctype d c Hv Hdt).
Qed.

(* a document with: an XML declaration, a comment, a DOCTYPE whose internal subset declares the entity e
   (characters v, greater-than, both quotes, then a reference to f), the entity f, an unparsed entity u with
   notation n, the notation n (PUBLIC only), an ATTLIST for a (k with a default value that contains a less-than
   sign and a reference to f, an enumeration m, xmlns:p fixed), ELEMENT a with mixed content, ELEMENT b with
   nested groups and occurrence indicators, a comment and a PI; a PI after the DOCTYPE; the root a with an
   attribute whose value has a less-than sign, an ampersand and a reference to e, and the children: a reference
   to e, the element p:b whose prefix is bound by the defaulted attribute, character data with a less-than sign *)
Definition ex_adoc_dtd : adoc :=
  {| a_version := Some [49;46;48]%N; a_encoding := None; a_standalone := None;
     a_misc1 := [AComment [99]%N];
     a_doctype := Some {| ad_name := [97]%N; ad_pub := None; ad_sys := None;
       ad_subset := Some [ADEntity [101]%N [IText [118;62;34;39]%N; IRef [102]%N];
                          ADEntity [102]%N [IText [119]%N];
                          ADExtEntity [117]%N None [115]%N (Some [110]%N);
                          ADNotation [110]%N (Some [112]%N) None;
                          ADAttlist [97]%N [([107]%N, ATCData, DfValue false [IText [100;60]%N; IRef [102]%N]);
                                            ([109]%N, ATEnum [[120]%N; [121]%N], DfImplied);
                                            ([120;109;108;110;115;58;112]%N, ATCData, DfValue true [IText [117]%N])];
                          ADElement [97]%N (CSMixed [[98]%N]);
                          ADElement [98]%N (CSChildren (CPSeq [CPName [99]%N OOne; CPChoice [CPName [100]%N OOne; CPName [101]%N OPlus] OStar] OOpt));
                          ADComment [99]%N; ADPI [112;105]%N (Some [120]%N)] |};
     a_misc2 := [API [113]%N None];
     a_root := AElem [97]%N [([106]%N, [IText [60;38]%N; IRef [101]%N])] [ARef [101]%N; AElem [112;58;98]%N [] []; AText [116;60]%N];
     a_misc3 := [] |}.

Example doctype_valid_nonvacuous :
  valid ex_adoc_dtd = true /\ no_predefined_redeclared ex_adoc_dtd = true /\ accepted_profile ex_adoc_dtd = true.
Proof. split; [vm_compute; reflexivity|split; vm_compute; reflexivity]. Qed.

(** ** (m) parse_render on the side of the specification *)
Theorem spec_parse_render_partial : forall (d : adoc) (c : choices), valid d = true -> no_predefined_redeclared d = true ->
  contains c_cr (render d c) = false -> infoset_of_string (render d c) = Some (Infoset.denote d).
Proof. intros d c Hv Hn Hcr. exact (XmlWFSyntaxRenderTokens.infoset_of_rendering d c Hv Hn Hcr). Qed.

Example spec_parse_render_nonvacuous :
  contains c_cr (render ex_adoc_dtd (fun _ => 0%N)) = false /\ contains c_cr (render ex_adoc_dtd (fun p => (7 * N.of_nat (length p)) mod 3)%N) = false.
Proof. split; vm_compute; reflexivity. Qed.


(** ** (n) the information set exposed through the DOM accessors *)
Theorem dom_view_is_infoset_nodoctype_partial : forall (s : str) (doc : Info.document),
  Info.from_raw s = Info.OOk ([], doc) -> XmlWFSyntaxCheck.nodoctype s = true -> XmlWFSyntaxCheck.KnownD04_nodoctype s = false ->
  exists xd root, parse_document s = Some xd /\ unsupported xd = false /\ check_doc xd = inr root /\
    DomView.dom_view false doc = doc_tokens xd root /\ DomView.dom_view true doc = DomViewBase.doc_tokens2 xd root.
Proof. exact DomViewDoc.dom_view_nodoctype. Qed.

Theorem merged_view_without_empty_text : forall (xd : xdoc) (root : xcontent),
  forallb DomViewBase.nonempty_text (DomViewBase.doc_tokens2 xd root) = true -> DomViewBase.doc_tokens2 xd root = doc_tokens xd root.
Proof. exact DomViewBase.doc_tokens2_same. Qed.

Theorem merged_view_drops_to_infoset : forall (xd : xdoc) (root : xcontent),
  DomViewBase.drop_empty (DomViewBase.doc_tokens2 xd root) = doc_tokens xd root.
Proof. exact DomViewBase.doc_tokens2_drop. Qed.

Theorem C01_dom_view_is_denote_nodoctype_partial : forall (d : adoc) (c : choices) (doc : Info.document),
  valid d = true -> a_doctype d = None -> Info.from_raw (render d c) = Info.OOk ([], doc) ->
  DomView.dom_view false doc = Infoset.denote d /\ (DomViewRender.Known_WF14 d = false -> DomView.dom_view true doc = Infoset.denote d).
Proof.
  intros d c doc Hv Hdt H. destruct (DomViewC01.dom_view_render_nodoctype d c doc Hv Hdt H) as (H1 & _ & H3). split; assumption.
Qed.


Theorem dom_view_is_infoset_doctype_partial : forall (pd : ParseActions.pdoc) (doc : Info.document) (dd : ParseActions.decl_doc),
  ParseInvDoc.p_doc_ok pd -> XmlWFSyntaxDtdDoc.ok_doc pd = true -> Info.build_document pd = Info.IOk doc ->
  ParseActions.pr_declaration_doc (ParseActions.d_prolog pd) = Some dd ->
  DomViewDtdDoc.dtd_hyps (e_must_declare (doc_env (XmlWFSyntaxDtdDoc.x_doc pd))) (option_map XmlWFSyntaxDtd.x_extid (ParseActions.dd_external_id dd))
                         (XmlWFSyntaxDtdDoc.x_subset (ParseActions.dd_internal_subset dd)) ->
  exists root, check_doc (XmlWFSyntaxDtdDoc.x_doc pd) = inr root /\
    (DomViewElem.tree_good (DomViewDtd.attrs_okb (XmlWFSyntaxDtdDoc.x_subset (ParseActions.dd_internal_subset dd))) root = true ->
     DomView.dom_view false doc = doc_tokens (XmlWFSyntaxDtdDoc.x_doc pd) root /\
     DomView.dom_view true doc = DomViewBase.doc_tokens2 (XmlWFSyntaxDtdDoc.x_doc pd) root).
Proof. exact DomViewDtdDoc.view_doctype_pd. Qed.

Theorem C01_dom_view_is_denote_partial : forall (d : adoc) (c : choices) (doc : Info.document),
  valid d = true -> no_predefined_redeclared d = true -> accepted_profile d = true -> DomViewC01.Known_C01 d = false ->
  Info.from_raw (render d c) = Info.OOk ([], doc) ->
  DomView.dom_view true doc = Infoset.denote d /\ DomView.dom_view false doc = Infoset.denote d.
Proof.
  intros d c doc Hv Hn Ha Hk H. unfold DomViewC01.Known_C01 in Hk. apply orb_false_iff in Hk. destruct Hk as [Hk1 Hk2].
  unfold no_predefined_redeclared in Hn. unfold accepted_profile in Ha. destruct (a_doctype d) as [dt|] eqn:Hdt.
  - apply andb_true_iff in Ha. destruct Ha as [H1 H2].
    destruct (DomViewC01.dom_view_render_dtd d c dt doc Hv Hdt Hn H1 H2 H Hk2) as (R1 & _ & R3). split; [exact (R3 Hk1)|exact R1].
  - destruct (DomViewC01.dom_view_render_nodoctype d c doc Hv Hdt H) as (R1 & _ & R3). split; [exact (R3 Hk1)|exact R1].
Qed.

(* the excluded shapes exist: a #REQUIRED attribute that is not written (D36) *)
Definition ex_required : adoc :=
  {| a_version := None; a_encoding := None; a_standalone := None; a_misc1 := [];
     a_doctype := Some {| ad_name := [97]%N; ad_pub := None; ad_sys := None;
       ad_subset := Some [ADAttlist [97]%N [([107]%N, ATCData, DfRequired)]] |};
     a_misc2 := []; a_root := AElem [97]%N [] []; a_misc3 := [] |}.
(* a namespace declaration that is specified and has a default: D65, repaired in 703c414, inside the theorem now *)
Definition ex_nsdefault : adoc :=
  {| a_version := None; a_encoding := None; a_standalone := None; a_misc1 := [];
     a_doctype := Some {| ad_name := [97]%N; ad_pub := None; ad_sys := None;
       ad_subset := Some [ADAttlist [97]%N [([120;109;108;110;115;58;112]%N, ATCData, DfValue false [IText [117]%N])]] |};
     a_misc2 := []; a_root := AElem [97]%N [([120;109;108;110;115;58;112]%N, [IText [118]%N])] []; a_misc3 := [] |}.

Example dom_view_nonvacuous :
  valid ex_adoc_dtd = true /\ no_predefined_redeclared ex_adoc_dtd = true /\ accepted_profile ex_adoc_dtd = true
  /\ DomViewC01.Known_C01 ex_adoc_dtd = false
  /\ (valid ex_required = true /\ DomViewC01.Known_C01 ex_required = true)
  /\ (valid ex_nsdefault = true /\ no_predefined_redeclared ex_nsdefault = true /\ accepted_profile ex_nsdefault = true /\ DomViewC01.Known_C01 ex_nsdefault = false).
Proof. repeat split; vm_compute; reflexivity. Qed.

Example dom_view_doctype_nonvacuous :
  exists doc, Info.from_raw (render ex_adoc_dtd (fun p => (7 * N.of_nat (length p)) mod 5)%N) = Info.OOk ([], doc)
              /\ DomView.dom_view true doc = Infoset.denote ex_adoc_dtd /\ DomView.dom_view false doc = Infoset.denote ex_adoc_dtd.
Proof.
  destruct doctype_valid_nonvacuous as (Hv & Hn & Ha).
  destruct (rendered_is_accepted_partial ex_adoc_dtd (fun p => (7 * N.of_nat (length p)) mod 5)%N Hv Hn Ha) as [doc Hdoc].
  exists doc. split; [exact Hdoc|].
  assert (Hk : DomViewC01.Known_C01 ex_adoc_dtd = false) by (vm_compute; reflexivity).
  exact (C01_dom_view_is_denote_partial ex_adoc_dtd (fun p => (7 * N.of_nat (length p)) mod 5)%N doc Hv Hn Ha Hk Hdoc).
Qed.

(* on the excluded shape the statement fails: the model (and the real crates) expose another information set *)
Theorem C01_dom_view_refuted_required : exists doc, Info.from_raw (render ex_required (fun _ => 0%N)) = Info.OOk ([], doc)
  /\ DomView.dom_view true doc <> Infoset.denote ex_required.
Proof. eexists. split; [vm_compute; reflexivity|]. vm_compute. intros E. discriminate E. Qed.

Example dom_view_nsdefault : forall c doc, Info.from_raw (render ex_nsdefault c) = Info.OOk ([], doc) ->
  DomView.dom_view true doc = Infoset.denote ex_nsdefault /\ DomView.dom_view false doc = Infoset.denote ex_nsdefault.
Proof.
  intros c doc H. assert (Hk : DomViewC01.Known_C01 ex_nsdefault = false) by (vm_compute; reflexivity).
  apply (C01_dom_view_is_denote_partial ex_nsdefault c doc); [vm_compute; reflexivity|vm_compute; reflexivity|vm_compute; reflexivity|exact Hk|exact H].
Qed.

(* a namespace declaration supplied by the default only (D67, repaired in bf629dc: it comes from namespace_attributes() now),
   next to a #FIXED default namespace, a #IMPLIED one and an ordinary default *)
Definition ex_nsdefault67 : adoc :=
  {| a_version := None; a_encoding := None; a_standalone := None; a_misc1 := [];
     a_doctype := Some {| ad_name := [97]%N; ad_pub := None; ad_sys := None;
       ad_subset := Some [ADAttlist [97]%N [([120;109;108;110;115;58;112]%N, ATCData, DfValue false [IText [117]%N]);
                                            ([120;109;108;110;115]%N, ATCData, DfValue true [IText [118]%N]);
                                            ([120;109;108;110;115;58;113]%N, ATCData, DfImplied);
                                            ([121]%N, ATCData, DfValue false [IText [49]%N])]] |};
     a_misc2 := []; a_root := AElem [97]%N [([122]%N, [IText [50]%N])] []; a_misc3 := [] |}.

Example dom_view_nsdefault67 : forall c doc, Info.from_raw (render ex_nsdefault67 c) = Info.OOk ([], doc) ->
  DomView.dom_view true doc = Infoset.denote ex_nsdefault67 /\ DomView.dom_view false doc = Infoset.denote ex_nsdefault67.
Proof.
  intros c doc H. assert (Hk : DomViewC01.Known_C01 ex_nsdefault67 = false) by (vm_compute; reflexivity).
  apply (C01_dom_view_is_denote_partial ex_nsdefault67 c doc); [vm_compute; reflexivity|vm_compute; reflexivity|vm_compute; reflexivity|exact Hk|exact H].
Qed.

Example dom_view_nodoctype_nonvacuous :
  valid ex_adoc = true /\ a_doctype ex_adoc = None /\ DomViewRender.Known_WF14 ex_adoc = false
  /\ exists doc, Info.from_raw (render ex_adoc (fun p => (7 * N.of_nat (length p)) mod 5)%N) = Info.OOk ([], doc)
                 /\ DomView.dom_view true doc = Infoset.denote ex_adoc.
Proof.
  split; [vm_compute; reflexivity|]. split; [reflexivity|]. split; [vm_compute; reflexivity|].
  destruct (rendered_nodoctype_is_accepted_partial ex_adoc (fun p => (7 * N.of_nat (length p)) mod 5)%N) as [doc Hdoc]; [vm_compute; reflexivity|reflexivity|].
  exists doc. split; [exact Hdoc|].
  refine (proj2 (C01_dom_view_is_denote_nodoctype_partial ex_adoc _ doc _ eq_refl Hdoc) _); vm_compute; reflexivity.
Qed.

Example rendered_nontrivial :
  comment_ok [32;97;45;98;32]%N = true /\ pi_ok [112;105]%N (Some [120;63;32;62]%N) = true.
Proof. split; vm_compute; reflexivity. Qed.

Print Assumptions all_choices_ok.
Print Assumptions render_comment_is_comment.
Print Assumptions render_pi_is_pi.
Print Assumptions char_ref_reads_back.
Print Assumptions att_literal_is_attvalue.
Print Assumptions att_value_does_not_depend_on_choices.
Print Assumptions text_is_character_data.
Print Assumptions render_node_is_content.
Print Assumptions parser_accepts_rendered_comment.
Print Assumptions parser_accepts_rendered_pi.
Print Assumptions spec_grammar_is_accepted_nodoctype_partial.
Print Assumptions wellformed_nodoctype_is_accepted_partial.
Print Assumptions render_node_reads.
Print Assumptions render_wf_nodoctype_partial.
Print Assumptions rendered_nodoctype_is_accepted_partial.
Print Assumptions render_wf_refuted.
Print Assumptions denote_refuted.
Print Assumptions wellformed_is_accepted_refuted.
Print Assumptions wellformed_is_accepted_refuted_external.
Print Assumptions spec_ge_decl_is_accepted_partial.
Print Assumptions spec_notation_decl_is_accepted_partial.
Print Assumptions spec_attlist_decl_is_accepted_partial.
Print Assumptions strict_grammar_refines_spec.
Print Assumptions spec_grammar_is_accepted_partial.
Print Assumptions wellformed_is_accepted_partial.
Print Assumptions rendered_doctype_is_read_partial.
Print Assumptions render_wf_partial.
Print Assumptions rendered_is_accepted_partial.
Print Assumptions spec_parse_render_partial.
Print Assumptions dom_view_is_infoset_nodoctype_partial.
Print Assumptions merged_view_without_empty_text.
Print Assumptions merged_view_drops_to_infoset.
Print Assumptions C01_dom_view_is_denote_nodoctype_partial.
Print Assumptions dom_view_is_infoset_doctype_partial.
Print Assumptions C01_dom_view_is_denote_partial.
Print Assumptions C01_dom_view_refuted_required.
