"""Generator of abstract XML documents (Spec.Infoset.adoc) + serialisation for the spec driver.

The abstract document is a python tree; `serialise` writes the prefix-notation token stream that
ocaml/specdomains/wf/wfdoc.ml reads; the extracted Coq `render` turns (adoc, oracle seed) into text,
so generated inputs are literally the objects the theorems of C01 quantify over.

Node forms (tuples):
  ('t', text) ('r', entity) ('c', comment) ('p', target, data|None) ('e', name, [(attname, [items])], [kids])
  item: ('T', text) | ('R', entity)
Document: dict(version, encoding, standalone, misc1, doctype, misc2, root, misc3)
doctype: dict(name, pub, sys, subset|None); decl forms:
  ('E', name, items) ('X', name, pub, sys, ndata) ('N', name, pub, sys) ('A', el, [(name, type, default)])
  ('L', name, spec) ('C', text) ('P', target, data)
  type: 'cdata'|'id'|...|('notation', [names])|('enum', [tokens]); default: 'req'|'imp'|('val', fixed, items)
  spec: 'empty'|'any'|('mixed', [names])|('children', cp); cp: ('n', name, occ)|('c', occ, [cp])|('s', occ, [cp])
"""
import random

def enc(s):
    return ','.join(str(ord(c)) for c in s) if s else '-'

def oenc(s):
    return '~' if s is None else enc(s)

NAMES = ['a', 'b', 'c', 'd', 'item', 'x1', '_u', 'n-1', 'v.2', 'A', 'él', '名', 'list', 'k']
ATTRS = ['id', 'x', 'X', 'y', 'name', 'Name', 'ref', 'k-1', 'ä', 'Ä', 'z_', 'lang', 'n', 'ID']
PREFIXES = ['p', 'q', 'ns1']
URIS = ['urn:a', 'http://example.org/b', 'u:c']
ENTS = ['e1', 'e2', 'ent', 'w', 'é']
NOTS = ['n1', 'gif', 'tex']
TEXT_ALPHA = (list('abcxyz012 ') * 6 + list('<&>\'"]-?!%;#=/') * 2 + ['\t', '\n', '\r', ' ', ' ']
              + ['é', 'ß', '名', ' ', '\U0001F600', '퟿', '�', '\u0085'])

def text(rng, lo=0, hi=12):
    n = rng.randint(lo, hi)
    s = ''.join(rng.choice(TEXT_ALPHA) for _ in range(n))
    if rng.random() < 0.04:
        s += ']]>' + rng.choice(['', 'x'])
    return s

def plain(rng, lo=1, hi=8, extra=''):
    return ''.join(rng.choice('abcdefgh 01' + extra) for _ in range(rng.randint(lo, hi)))

class Gen:
    def __init__(self, rng, size=60, depth=7, dtd=None, ns=None):
        self.rng = rng
        self.budget = size
        self.maxdepth = depth
        self.dtd = rng.random() < 1 / 3 if dtd is None else dtd
        self.ns = rng.random() < 1 / 2 if ns is None else ns
        self.features = set()
        self.entities = []      # declared internal entity names, in order
        self.unparsed = []
        self.elnames = set()

    def feat(self, f):
        self.features.add(f)

    def comment(self):
        rng = self.rng
        s = ''.join(rng.choice(list('abc <>&\'"!?x\n\t') + ['-', 'é']) for _ in range(rng.randint(0, 10)))
        while '--' in s:
            s = s.replace('--', '-x')
        if s.endswith('-'):
            s += ' '
        self.feat('comment')
        return ('c', s)

    def pi(self):
        rng = self.rng
        t = rng.choice(['pi', 'xml-stylesheet', 'target', 'x', 'X', 'xm', 'php', 'xslt', 'é', 'xmlx'])
        if rng.random() < 0.3:
            d = None
        else:
            d = ''.join(rng.choice(list('abc =<>&\'"?x\t\n') + ['名']) for _ in range(rng.randint(0, 10)))
            d = d.replace('?>', '? >').lstrip(' \t\n')
        self.feat('pi')
        return ('p', t, d)

    def misc(self, maxn=2):
        out = []
        for _ in range(self.rng.randint(0, maxn)):
            out.append(self.comment() if self.rng.random() < 0.5 else self.pi())
        return out

    def items(self, allow_ref=True, attr=True, ents=None):
        rng = self.rng
        out = []
        ents = self.entities if ents is None else ents
        for _ in range(rng.randint(0, 3)):
            if allow_ref and rng.random() < 0.3:
                pool = list(ents) + ['lt', 'gt', 'amp', 'apos', 'quot']
                nm = rng.choice(pool)
                out.append(('R', nm))
                self.feat('ref-predefined' if nm in ('lt', 'gt', 'amp', 'apos', 'quot') else ('ref-in-attr' if attr else 'ref-in-entity'))
            else:
                s = text(rng, 0, 8)
                if any(c in s for c in '\t\n\r'):
                    self.feat('ws-in-attr' if attr else 'ws-in-entity')
                if any(c in s for c in '<&'):
                    self.feat('markup-char-in-value')
                out.append(('T', s))
        return out

    def ent_items(self):
        rng = self.rng
        out = []
        for _ in range(rng.randint(0, 3)):
            if rng.random() < 0.25:
                pool = list(self.entities) + ['lt', 'gt', 'amp', 'apos', 'quot']
                out.append(('R', rng.choice(pool)))
                self.feat('ref-in-entity')
            else:
                s = text(rng, 0, 8).replace('<', 'l').replace('&', 'a')
                if any(c in s for c in '\t\n\r'):
                    self.feat('ws-in-entity')
                out.append(('T', s))
        return out

    def qname(self, pool, scope):
        rng = self.rng
        nm = rng.choice(pool)
        if self.ns and scope and rng.random() < 0.4:
            self.feat('prefixed-name')
            return rng.choice(sorted(scope)) + ':' + nm
        return nm

    def element(self, depth, scope):
        rng = self.rng
        self.budget -= 1
        scope = dict(scope)
        atts = []
        used = set()
        if self.ns and rng.random() < 0.35:
            k = rng.randint(1, 2)
            for pfx in rng.sample(PREFIXES, k):
                scope[pfx] = URIS[PREFIXES.index(pfx)]      # one URI per prefix: expanded names stay distinct
                atts.append(('xmlns:' + pfx, [('T', scope[pfx])]))
                used.add('xmlns:' + pfx)
            self.feat('ns-decl')
        if self.ns and rng.random() < 0.15:
            atts.append(('xmlns', [('T', rng.choice(['', 'urn:default', 'u:d2']))]))
            used.add('xmlns')
            self.feat('default-ns')
        name = self.qname(NAMES, scope)
        self.elnames.add(name)
        for _ in range(rng.choice([0, 0, 1, 1, 2, 3, 5])):
            an = self.qname(ATTRS, scope)
            if rng.random() < 0.05:
                an = rng.choice(['xml:lang', 'xml:space'])
                self.feat('xml-prefix')
            if an in used:
                continue
            used.add(an)
            atts.append((an, self.items()))
            self.feat('attribute')
            self.budget -= 1
        kids = []
        if depth < self.maxdepth and rng.random() < 0.8:
            n = rng.choice([0, 1, 1, 2, 3, 4, 6])
            for _ in range(n):
                if self.budget <= 0:
                    break
                r = rng.random()
                if r < 0.35:
                    kids.append(self.element(depth + 1, scope))
                    if depth + 1 >= 3:
                        self.feat('depth>=3')
                elif r < 0.7:
                    s = text(rng, 0, 14)
                    if any(c in s for c in '<&'):
                        self.feat('markup-char-in-text')
                    if ']]>' in s:
                        self.feat('cdata-end-in-text')
                    if any(ord(c) > 0xFFFF for c in s):
                        self.feat('astral')
                    if '\r' in s:
                        self.feat('cr-in-text')
                    kids.append(('t', s))
                    self.feat('text')
                    self.budget -= 1
                elif r < 0.78 and self.entities:
                    kids.append(('r', rng.choice(self.entities + ['lt', 'amp', 'gt', 'quot', 'apos'])))
                    self.feat('ref-in-content')
                    self.budget -= 1
                elif r < 0.9:
                    kids.append(self.comment()); self.budget -= 1
                else:
                    kids.append(self.pi()); self.budget -= 1
        merged = []
        for k in kids:       # adjacent character data is one child in the abstract document
            if k[0] == 't' and merged and merged[-1][0] == 't':
                merged[-1] = ('t', merged[-1][1] + k[1])
            else:
                merged.append(k)
        kids = merged
        if not kids:
            self.feat('empty-element')
        return ('e', name, atts, kids)

    def cp(self, depth=0):
        rng = self.rng
        occ = rng.choice(['1', '1', '?', '*', '+'])
        if depth >= 3 or rng.random() < 0.5:
            return ('n', rng.choice(NAMES), occ)
        kind = rng.choice('cs')
        n = rng.randint(2 if kind == 'c' else 1, 4)
        return (kind, occ, [self.cp(depth + 1) for _ in range(n)])

    def doctype(self, rootname_hint):
        rng = self.rng
        self.feat('doctype')
        decls = []
        notations = []
        n = rng.randint(0, 8)
        declared_att = {}
        for _ in range(n):
            r = rng.random()
            if r < 0.3:
                nm = rng.choice([e for e in ENTS if e not in self.entities + self.unparsed] or [None])
                if nm is None:
                    continue
                v = self.ent_items()
                decls.append(('E', nm, v))
                self.entities.append(nm)
                self.feat('entity-decl')
            elif r < 0.4:
                nm = rng.choice(NOTS)
                if nm in notations:
                    continue
                notations.append(nm)
                pub = rng.choice([None, 'pub id', '-//W3C//DTD X//EN'])
                sys = rng.choice([None, 'sys', "it's", 'a"b', 'http://x/y?z=1&w=2']) if pub else rng.choice(['sys', "it's", 'a"b'])
                decls.append(('N', nm, pub, sys))
                self.feat('notation')
            elif r < 0.5:
                nm = rng.choice([e for e in ['u1', 'u2', 'pic'] if e not in self.unparsed] or [None])
                if nm is None:
                    continue
                nd = rng.choice(NOTS + [None])
                pub = rng.choice([None, 'p u b'])
                decls.append(('X', nm, pub, rng.choice(['file.gif', "o'k", 'q"t', '']), nd))
                self.unparsed.append(nm)
                self.feat('unparsed-entity' if nd else 'external-entity')
            elif r < 0.7:
                el = rng.choice(NAMES[:6])
                defs = []
                for _ in range(rng.randint(0, 3)):
                    an = rng.choice(ATTRS)
                    ty = rng.choice(['cdata', 'cdata', 'id', 'idref', 'idrefs', 'entity', 'entities', 'nmtoken', 'nmtokens',
                                     ('notation', rng.sample(NOTS, rng.randint(1, 2))),
                                     ('enum', rng.sample(['a', 'b', '1', 'x-y', '.z'], rng.randint(1, 3)))])
                    df = rng.choice(['req', 'imp', 'imp', ('val', rng.random() < 0.3, self.items(attr=True))])
                    defs.append((an, ty, df))
                    if df not in ('req', 'imp'):
                        self.feat('attlist-default')
                    if ty != 'cdata':
                        self.feat('attlist-tokenized')
                declared_att.setdefault(el, 0)
                declared_att[el] += 1
                if declared_att[el] > 1:
                    self.feat('attlist-second')
                decls.append(('A', el, defs))
                self.feat('attlist')
            elif r < 0.85:
                nm = rng.choice(NAMES)
                k = rng.random()
                if k < 0.2: spec = 'empty'
                elif k < 0.4: spec = 'any'
                elif k < 0.6: spec = ('mixed', rng.sample(NAMES, rng.randint(0, 3)))
                else:
                    c = self.cp()
                    if c[0] == 'n':
                        c = ('s', c[2], [c[:2] + ('1',)])
                    spec = ('children', c)
                decls.append(('L', nm, spec))
                self.feat('element-decl')
            elif r < 0.93:
                decls.append(('C', self.comment()[1]))
            else:
                p = self.pi()
                decls.append(('P', p[1], p[2]))
        pub, sys = None, None
        if rng.random() < 0.2:
            sys = rng.choice(['a.dtd', "it's.dtd", 'x"y'])
            if rng.random() < 0.5:
                pub = rng.choice(['-//X//Y', 'pub'])
            self.feat('doctype-extid')
        subset = decls if (decls or rng.random() < 0.7) else None
        return {'name': rootname_hint, 'pub': pub, 'sys': sys, 'subset': subset}

    def document(self):
        rng = self.rng
        d = {'version': None, 'encoding': None, 'standalone': None}
        if rng.random() < 0.5:
            d['version'] = rng.choice(['1.0', '1.0', '1.0', '1.1', '1.00', '1.9'])
            if rng.random() < 0.5:
                d['encoding'] = rng.choice(['UTF-8', 'utf-8', 'UTF8', 'x-a.b_c', 'ISO-8859-1'])
            if rng.random() < 0.4:
                d['standalone'] = rng.random() < 0.5
            self.feat('xmldecl')
        d['misc1'] = self.misc()
        dt = None
        if self.dtd:
            dt = self.doctype('ROOT')
        root = self.element(0, {})
        if dt is not None:
            dt['name'] = root[1] if rng.random() < 0.8 else rng.choice(NAMES)
        d['doctype'] = dt
        d['misc2'] = self.misc() if dt is not None else []
        d['root'] = root
        d['misc3'] = self.misc()
        return d

def count_items(d):
    def n(x):
        if x[0] == 'e':
            return 1 + len(x[2]) + sum(n(k) for k in x[3])
        return 1
    return n(d['root']) + len(d['misc1']) + len(d['misc2']) + len(d['misc3']) + (len(d['doctype']['subset'] or []) if d['doctype'] else 0)

def depth(x):
    if x[0] != 'e':
        return 0
    return 1 + max([depth(k) for k in x[3]] or [0])

# ------------------------------------------------------------------ serialisation
def ser_items(v, out):
    out.append(str(len(v)))
    for it in v:
        out.append(it[0]); out.append(enc(it[1]))

def ser_node(x, out):
    k = x[0]
    if k in 'trc':
        out += [k, enc(x[1])]
    elif k == 'p':
        out += ['p', enc(x[1]), oenc(x[2])]
    else:
        out += ['e', enc(x[1]), str(len(x[2]))]
        for an, v in x[2]:
            out.append(enc(an)); ser_items(v, out)
        out.append(str(len(x[3])))
        for c in x[3]:
            ser_node(c, out)

def ser_cp(c, out):
    if c[0] == 'n':
        out += ['n', enc(c[1]), c[2]]
    else:
        out += [c[0], c[1], str(len(c[2]))]
        for y in c[2]:
            ser_cp(y, out)

def ser_decl(d, out):
    k = d[0]
    if k == 'E':
        out += ['E', enc(d[1])]; ser_items(d[2], out)
    elif k == 'X':
        out += ['X', enc(d[1]), oenc(d[2]), enc(d[3]), oenc(d[4])]
    elif k == 'N':
        out += ['N', enc(d[1]), oenc(d[2]), oenc(d[3])]
    elif k == 'A':
        out += ['A', enc(d[1]), str(len(d[2]))]
        for an, ty, df in d[2]:
            out.append(enc(an))
            if isinstance(ty, tuple):
                out += [ty[0], str(len(ty[1]))] + [enc(x) for x in ty[1]]
            else:
                out.append(ty)
            if isinstance(df, tuple):
                out += ['val', '1' if df[1] else '0']; ser_items(df[2], out)
            else:
                out.append(df)
    elif k == 'L':
        out += ['L', enc(d[1])]
        sp = d[2]
        if isinstance(sp, tuple):
            if sp[0] == 'mixed':
                out += ['mixed', str(len(sp[1]))] + [enc(x) for x in sp[1]]
            else:
                out.append('children'); ser_cp(sp[1], out)
        else:
            out.append(sp)
    elif k == 'C':
        out += ['C', enc(d[1])]
    elif k == 'P':
        out += ['P', enc(d[1]), oenc(d[2])]

def serialise(d):
    out = ['X', oenc(d['version']), oenc(d['encoding']),
           '~' if d['standalone'] is None else ('y' if d['standalone'] else 'n')]
    out.append(str(len(d['misc1'])))
    for m in d['misc1']:
        ser_node(m, out)
    dt = d['doctype']
    if dt is None:
        out.append('~')
    else:
        out += ['T', enc(dt['name']), oenc(dt['pub']), oenc(dt['sys'])]
        if dt['subset'] is None:
            out.append('~')
        else:
            out.append(str(len(dt['subset'])))
            for x in dt['subset']:
                ser_decl(x, out)
    out.append(str(len(d['misc2'])))
    for m in d['misc2']:
        ser_node(m, out)
    ser_node(d['root'], out)
    out.append(str(len(d['misc3'])))
    for m in d['misc3']:
        ser_node(m, out)
    return ' '.join(out)

def seed(rng, n=24):
    return ','.join(str(rng.randrange(0, 1 << 30)) for _ in range(n))

def case_line(d, rng):
    return 'g %s %s %s' % (seed(rng), seed(rng), serialise(d))

if __name__ == '__main__':
    import sys
    rng = random.Random(int(sys.argv[1]) if len(sys.argv) > 1 else 1)
    for _ in range(int(sys.argv[2]) if len(sys.argv) > 2 else 5):
        g = Gen(rng)
        print(case_line(g.document(), rng))
