(** * C01, the DOM view: attribute values and the attribute rows of an element without declarations.

    [Attribute::normalized_value] ([Model.DomView.value_loop]: character references as they are, literal text
    with [normalize_ws], entity references expanded by [attr_value_from_name]) computes the specification's
    [av_value] of the attribute-value literal, given what a resolved entity reference expands to ([HattrV]).
    Without a document type declaration the rows of an element are the specified attributes: the namespace
    declarations first, then the others (a permutation), sorted by (name, token): the specification's
    [attr_tokens] (sorted by name; the names are distinct because [XmlElement::node] refuses duplicates). *)
From Coq Require Import List NArith Arith Lia Bool Permutation.
From XmlRs Require Import Base.CPred Spec.XmlChars Model.Peg Gen.XmlcharGen Gen.GrammarXmlGen Model.ParseActions Model.Info Model.DomView
     Proofs.PipelineTotal Proofs.DisplayLex Proofs.ParseInvElem Proofs.ParseInvBuild
     Proofs.XmlWFSyntaxLex Proofs.XmlWFSyntaxElem Proofs.XmlWFSyntaxCheck Proofs.DomViewBase Proofs.DomViewElem.
From XmlRs Require Spec.XmlWF Spec.Infoset Proofs.Expansion Proofs.XmlWFSyntaxRenderCheck.
Import ListNotations.
Local Open Scope N_scope.

Section Values.
Variable acc : list entity.        (* the entities visible when the value was built *)
Variable ents : list entity.       (* the entities of the document type declaration: what normalized_value sees *)
Variable ext : bool.
Variable en : W.env.
Variable f : nat.
Notation F := (Datatypes.S f).
Hypothesis HattrV : forall nm e, resolve_ref acc ext true nm = IOk e ->
  exists v, expand_attr ents nm = IOk v /\ W.av_value F en [W.AvEnt nm] = v.

Lemma av_value_app (a b : list W.avpiece) : W.av_value F en (a ++ b) = W.av_value F en a ++ W.av_value F en b.
Proof. cbn [W.av_value]. apply flat_map_app. Qed.

Lemma av_value_lits (s : str) : W.av_value F en (map W.AvLit s) = normalize_ws s.
Proof.
  rewrite normalize_ws_spec. cbn [W.av_value]. induction s as [|c s IH]; [reflexivity|]. cbn [map flat_map]. now rewrite IH.
Qed.

Lemma value_loop_spec (l : list att_value) : forall vs, (exists q, DisplayLex.av_ok q false l) \/ (exists q, DisplayLex.av_ok q true l) ->
  build_avalues acc ext l = IOk vs -> value_loop ents vs = IOk (W.av_value F en (x_av l)).
Proof.
  induction l as [|v l IH]; intros vs Hok H.
  - cbn [build_avalues] in H. injection H as <-. reflexivity.
  - cbn [build_avalues] in H. apply ibind_ok in H. destruct H as [o [Ho H]]. apply ibind_ok in H. destruct H as [r [Hr H]]. injection H as <-.
    change (x_av (v :: l)) with (x_avpiece v ++ x_av l). rewrite av_value_app.
    assert (Hl : value_loop ents r = IOk (W.av_value F en (x_av l))).
    { apply IH; [|exact Hr]. destruct Hok as [[q Hq]|[q Hq]]; destruct v as [x|s]; cbn [DisplayLex.av_ok] in Hq.
      - left. exists q. tauto.
      - right. exists q. tauto.
      - left. exists q. tauto.
      - right. exists q. tauto. }
    destruct v as [[num rd|n]|s]; cbn [build_avalue x_avpiece x_ref W.piece_of_ref] in *.
    + apply ibind_ok in Ho. destruct Ho as [c [Hc Ho]]. injection Ho as <-.
      assert (reference_ok (RefChar num rd)) as Hrf by (destruct Hok as [[q Hq]|[q Hq]]; cbn [DisplayLex.av_ok] in Hq; tauto).
      destruct (char_from_spec _ _ _ Hrf Hc) as [E Hch]. cbn [value_loop]. rewrite Hl. cbn [ibind].
      destruct rd; cbn [radix_n] in E; rewrite E; reflexivity.
    + apply ibind_ok in Ho. destruct Ho as [e [He Ho]]. injection Ho as <-. destruct (HattrV n e He) as (v & E1 & E2).
      cbn [value_loop]. rewrite (resolve_name _ _ _ _ _ He), E1. cbn [ibind]. rewrite Hl. cbn [ibind]. now rewrite E2.
    + destruct s as [|c s]; injection Ho as <-.
      * cbn [map app]. exact Hl.
      * cbn [value_loop]. rewrite Hl. cbn [ibind]. now rewrite av_value_lits.
Qed.
End Values.

(** ** one built attribute against the attribute the specification reads *)
Lemma build_attrs_each ents ext (l : list attribute) : forall before r, build_attrs_from ents ext before l = IOk r ->
  Forall2 (fun a a' => build_attr ents ext a = IOk a') l r.
Proof.
  induction l as [|a l IH]; intros before r H; cbn [build_attrs_from] in H.
  - injection H as <-. constructor.
  - destruct (existsb (fun v => att_name_eqb (at_name v) (at_name a)) before); [discriminate|].
    apply ibind_ok in H. destruct H as [x [Hx H]]. apply ibind_ok in H. destruct H as [r' [Hr H]]. injection H as <-.
    constructor; [exact Hx|]. eapply IH. exact Hr.
Qed.

Lemma filter_partition_perm {A} (p : A -> bool) (l : list A) : Permutation (filter p l ++ filter (fun x => negb (p x)) l) l.
Proof.
  induction l as [|x l IH]; [constructor|]. cbn [filter]. destruct (p x); cbn [negb app].
  - constructor. exact IH.
  - etransitivity; [symmetry; apply Permutation_middle|]. constructor. exact IH.
Qed.

(** the names of the attributes of an accepted start tag are distinct *)
Lemma built_names_nodup ents ext (a : list attribute) attrs' : Forall p_attribute_ok' a -> build_attrs ents ext a = IOk attrs' ->
  NoDup (map att_nm a).
Proof.
  intros Ha Hat. unfold build_attrs in Hat. destruct (build_attrs_nodup ents ext a [] attrs' Hat) as [Hnd _]; [constructor| |].
  { revert Ha. apply Forall_impl. intros x [[H1 _] H2]. split; assumption. }
  apply Proofs.XmlWFSyntaxRenderCheck.nodup_names_NoDup. exact Hnd.
Qed.

(** ** the rows of an element when no attribute-list declaration applies *)
Section NoDecl.
Variable dt : option doctype.
Variable ext : bool.
Variable en : W.env.
Variable f : nat.
Variable sub : list W.decl.
Notation F := (Datatypes.S f).
Notation ents := (ents_of dt).
Hypothesis HattrV : forall nm e, resolve_ref ents ext true nm = IOk e ->
  exists v, expand_attr ents nm = IOk v /\ W.av_value F en [W.AvEnt nm] = v.

Definition spec_row (a : attribute) : str * Infoset.token :=
  (att_nm a, Infoset.TAttr true (att_nm a) (W.av_value F en (x_av (at_value a)))).

Lemma attr_row_specified (a : attribute) a' : p_attribute_ok' a -> build_attr ents ext a = IOk a' ->
  attr_row ents [] (vattr_of a') = lift_row (spec_row a).
Proof.
  intros [[_ [q [_ Hq]]] _] Hb. unfold build_attr in Hb. pose proof (qn_attname (at_name a)) as Hn.
  destruct (attribute_name (at_name a)) as [lo pr]. cbn [fst snd] in Hn.
  apply ibind_ok in Hb. destruct Hb as [vs [Hvs Hb]]. injection Hb as <-.
  unfold attr_row, vattr_of, normalized_value. cbn [va_local va_prefix va_values va_from_dtd xa_local xa_prefix xa_values declaration_type find].
  rewrite (value_loop_spec ents ents ext en f HattrV (at_value a) vs (or_introl (ex_intro _ q Hq)) Hvs). cbn [ibind negb].
  unfold lift_row, spec_row, att_nm. cbn [fst snd]. now rewrite Hn.
Qed.

Lemma rows_nodecl local prefix (a : list attribute) attrs' :
  declaration_att_defs dt local prefix = [] ->
  Forall p_attribute_ok' a -> build_attrs ents ext a = IOk attrs' ->
  attr_rows dt local prefix attrs' = map KTok (map snd (Infoset.sort_by fst (map spec_row a))).
Proof.
  intros Hdefs Ha Hat. unfold attr_rows. cbv zeta. rewrite Hdefs. unfold element_attributes, namespace_attributes. cbn [add_defaults add_ns_defaults].
  apply rows_sorted.
  - rewrite <- map_app, map_map.
    etransitivity; [apply Permutation_map; apply filter_partition_perm|].
    unfold build_attrs in Hat. pose proof (build_attrs_each _ _ _ _ _ Hat) as Heach.
    clear Hat. induction Heach as [|x x' l l' Hx _ IH]; [constructor|]. inversion Ha as [|? ? Hax Hal]; subst.
    cbn [map]. rewrite (attr_row_specified x x' Hax Hx). constructor. apply IH. exact Hal.
  - rewrite map_map. cbn [spec_row fst]. eapply built_names_nodup; eassumption.
Qed.
End NoDecl.
